/- Helper lemmas for Mistral.Tree: the relation `Good` every transaction satisfies (finished executions are
   frozen, task rows are only created in unfinished or new executions, the per-execution bookkeeping
   invariant `J` is kept), and its closure under the composite transactions of `step`. -/
import Mistral.Model.Tree
namespace Mistral.Tree
open Mistral Mistral.Lifecycle

/-- per-execution bookkeeping: result registrations (`sent`) against the state, the output of a SUCCESS
    execution, the accepted flag -/
def J (e : Exec) : Prop :=
  (isCompleted e.state = false → e.sent = 0) ∧
  (e.state = .ERROR ∨ e.state = .CANCELLED → e.sent = (if e.parent.isSome then 1 else 0)) ∧
  (e.state = .SUCCESS → e.out = .data ∧ (e.parent.isSome = true → 1 ≤ e.sent)) ∧
  (isCompleted e.state = true → e.accepted = true)

def AllJ (w : World) : Prop := ∀ (i : Nat) (e : Exec), w.execs[i]? = some e → J e

/-- what may happen to an existing execution row in one transaction -/
def Frozen (e e' : Exec) : Prop :=
  e'.parent = e.parent ∧ e'.defn = e.defn ∧ e'.index = e.index ∧ e.sent ≤ e'.sent ∧
  (isCompleted e.state = true →
     e'.state = e.state ∧
     (e'.out = e.out ∨ (e.state = .SUCCESS ∧ e'.out = .data)) ∧
     (e.state ≠ .SUCCESS → e'.sent = e.sent ∧ e'.info = e.info))

/-- execution i is new or not completed -/
def NewOk (w : World) (i : Nat) : Prop := ∀ e : Exec, w.execs[i]? = some e → isCompleted e.state = false

structure Good (w w' : World) : Prop where
  execs : ∀ (i : Nat) (e : Exec), w.execs[i]? = some e → ∃ e', w'.execs[i]? = some e' ∧ Frozen e e'
  tasks : ∀ (t : Nat) (tk : Task), w.tasks[t]? = some tk → ∃ tk', w'.tasks[t]? = some tk' ∧ tk'.wf = tk.wf ∧ tk'.name = tk.name
  fresh : ∀ (t : Nat) (tk' : Task), w'.tasks[t]? = some tk' → w.tasks[t]? = none → NewOk w tk'.wf
  inv : AllJ w → AllJ w'

theorem Frozen.refl (e : Exec) : Frozen e e :=
  ⟨rfl, rfl, rfl, Nat.le_refl _, fun _ => ⟨rfl, Or.inl rfl, fun _ => ⟨rfl, rfl⟩⟩⟩

theorem Frozen.trans {a b c : Exec} (h1 : Frozen a b) (h2 : Frozen b c) : Frozen a c := by
  obtain ⟨p1, d1, i1, s1, f1⟩ := h1
  obtain ⟨p2, d2, i2, s2, f2⟩ := h2
  refine ⟨p2.trans p1, d2.trans d1, i2.trans i1, Nat.le_trans s1 s2, fun hc => ?_⟩
  obtain ⟨st1, o1, r1⟩ := f1 hc
  have hc' : isCompleted b.state = true := by rw [st1]; exact hc
  obtain ⟨st2, o2, r2⟩ := f2 hc'
  refine ⟨st2.trans st1, ?_, fun hne => ?_⟩
  · rcases o2 with o2 | ⟨hs, o2⟩
    · rcases o1 with o1 | ⟨hs1, o1⟩
      · exact Or.inl (o2.trans o1)
      · exact Or.inr ⟨hs1, o2.trans o1⟩
    · exact Or.inr ⟨by rw [← st1]; exact hs, o2⟩
  · obtain ⟨a1, a2⟩ := r1 hne
    obtain ⟨b1, b2⟩ := r2 (by rw [st1]; exact hne)
    exact ⟨b1.trans a1, b2.trans a2⟩

theorem Good.refl (w : World) : Good w w :=
  ⟨fun _ e h => ⟨e, h, Frozen.refl e⟩, fun _ tk h => ⟨tk, h, rfl, rfl⟩,
   fun _ _ h hn => by simp [hn] at h, id⟩

theorem Good.trans {a b c : World} (h1 : Good a b) (h2 : Good b c) : Good a c := by
  refine ⟨fun i e h => ?_, fun t tk h => ?_, fun t tk' h hn => ?_, fun h => h2.inv (h1.inv h)⟩
  · obtain ⟨e', he', f1⟩ := h1.execs i e h
    obtain ⟨e'', he'', f2⟩ := h2.execs i e' he'
    exact ⟨e'', he'', f1.trans f2⟩
  · obtain ⟨tk', h', a1, a2⟩ := h1.tasks t tk h
    obtain ⟨tk'', h'', b1, b2⟩ := h2.tasks t tk' h'
    exact ⟨tk'', h'', b1.trans a1, b2.trans a2⟩
  · cases hb : b.tasks[t]? with
    | some tkb =>
      obtain ⟨tk'', h'', b1, _⟩ := h2.tasks t tkb hb
      have : tk'' = tk' := by rw [h] at h''; exact (Option.some.inj h'').symm
      subst this
      rw [b1]
      exact h1.fresh t tkb hb hn
    | none =>
      intro e he
      obtain ⟨e', he', f⟩ := h1.execs _ e he
      have := h2.fresh t tk' h hb e' he'
      cases hc : isCompleted e.state with
      | false => rfl
      | true => rw [(f.2.2.2.2 hc).1] at this; rw [this] at hc; exact absurd hc (by simp)

theorem Good.of_same {w w' : World} (he : w'.execs = w.execs) (ht : w'.tasks = w.tasks) : Good w w' :=
  ⟨fun _ e h => ⟨e, by rw [he]; exact h, Frozen.refl e⟩, fun _ tk h => ⟨tk, by rw [ht]; exact h, rfl, rfl⟩,
   fun _ _ h hn => by rw [ht, hn] at h; simp at h, fun h i e hi => h i e (by rw [← he]; exact hi)⟩

theorem Good.setTask {w w' : World} {t : Nat} {tk tk' : Task} (he : w'.execs = w.execs)
    (h : w.tasks[t]? = some tk) (ht : w'.tasks = w.tasks.set t tk') (hwf : tk'.wf = tk.wf)
    (hn : tk'.name = tk.name) : Good w w' := by
  refine ⟨fun _ e h => ⟨e, by rw [he]; exact h, Frozen.refl e⟩, fun u tku hu => ?_, fun u tku hu hnone => ?_,
          fun h i e hi => h i e (by rw [← he]; exact hi)⟩
  · rw [ht, List.getElem?_set]
    by_cases htu : t = u
    · subst htu
      have hlt : t < w.tasks.length := by
        rcases Nat.lt_or_ge t w.tasks.length with h' | h'
        · exact h'
        · rw [List.getElem?_eq_none h'] at h; simp at h
      rw [h] at hu
      have : tku = tk := (Option.some.inj hu).symm
      subst this
      exact ⟨tk', by simp [hlt], hwf, hn⟩
    · exact ⟨tku, by simp [htu, hu], rfl, rfl⟩
  · rw [ht, List.getElem?_set] at hu
    by_cases htu : t = u
    · subst htu; rw [h] at hnone; simp at hnone
    · simp [htu, hnone] at hu

theorem Good.addTask {w w' : World} {tk' : Task} (he : w'.execs = w.execs)
    (ht : w'.tasks = w.tasks ++ [tk']) (hok : NewOk w tk'.wf) : Good w w' := by
  refine ⟨fun _ e h => ⟨e, by rw [he]; exact h, Frozen.refl e⟩, fun u tku hu => ?_, fun u tku hu hnone => ?_,
          fun h i e hi => h i e (by rw [← he]; exact hi)⟩
  · have hlt : u < w.tasks.length := by
      rcases Nat.lt_or_ge u w.tasks.length with h' | h'
      · exact h'
      · rw [List.getElem?_eq_none h'] at hu; simp at hu
    exact ⟨tku, by rw [ht, List.getElem?_append_left hlt]; exact hu, rfl, rfl⟩
  · have hge : w.tasks.length ≤ u := by
      rcases Nat.lt_or_ge u w.tasks.length with h' | h'
      · rw [List.getElem?_eq_getElem h'] at hnone; simp at hnone
      · exact h'
    rw [ht, List.getElem?_append_right hge] at hu
    have : tku = tk' := by
      cases hk : u - w.tasks.length with
      | zero => rw [hk] at hu; simpa using hu.symm
      | succ k => rw [hk] at hu; simp at hu
    subst this
    exact hok

theorem Good.addExec {w w' : World} {e0 : Exec} (ht : w'.tasks = w.tasks)
    (he : w'.execs = w.execs ++ [e0]) (hj : J e0) : Good w w' := by
  refine ⟨fun i e h => ?_, fun _ tk h => ⟨tk, by rw [ht]; exact h, rfl, rfl⟩,
          fun _ _ h hn => by rw [ht, hn] at h; simp at h, fun h i e hi => ?_⟩
  · have hlt : i < w.execs.length := by
      rcases Nat.lt_or_ge i w.execs.length with h' | h'
      · exact h'
      · rw [List.getElem?_eq_none h'] at h; simp at h
    exact ⟨e, by rw [he, List.getElem?_append_left hlt]; exact h, Frozen.refl e⟩
  · rw [he] at hi
    rcases Nat.lt_or_ge i w.execs.length with h' | h'
    · rw [List.getElem?_append_left h'] at hi; exact h i e hi
    · rw [List.getElem?_append_right h'] at hi
      cases hk : i - w.execs.length with
      | zero => rw [hk] at hi; have : e = e0 := by simpa using hi.symm
                subst this; exact hj
      | succ k => rw [hk] at hi; simp at hi

theorem Good.setExec {w w' : World} {i : Nat} {e e' : Exec} (ht : w'.tasks = w.tasks)
    (h : w.execs[i]? = some e) (he : w'.execs = w.execs.set i e') (hf : Frozen e e')
    (hj : J e → J e') : Good w w' := by
  have hlt : i < w.execs.length := by
    rcases Nat.lt_or_ge i w.execs.length with h' | h'
    · exact h'
    · rw [List.getElem?_eq_none h'] at h; simp at h
  refine ⟨fun k ek hk => ?_, fun _ tk h => ⟨tk, by rw [ht]; exact h, rfl, rfl⟩,
          fun _ _ h hn => by rw [ht, hn] at h; simp at h, fun hall k ek hk => ?_⟩
  · rw [he, List.getElem?_set]
    by_cases hik : i = k
    · subst hik
      rw [h] at hk
      have : ek = e := (Option.some.inj hk).symm
      subst this
      exact ⟨e', by simp [hlt], hf⟩
    · exact ⟨ek, by simp [hik, hk], Frozen.refl ek⟩
  · rw [he, List.getElem?_set] at hk
    by_cases hik : i = k
    · subst hik
      simp [hlt] at hk
      subst hk
      exact hj (hall i e h)
    · simp [hik] at hk
      exact hall k ek hk

theorem Good.mapExecs {w w' : World} {f : Nat → Exec → Exec} (ht : w'.tasks = w.tasks)
    (he : w'.execs = w.execs.mapIdx f)
    (hf : ∀ (i : Nat) (e : Exec), w.execs[i]? = some e → Frozen e (f i e) ∧ (J e → J (f i e))) : Good w w' := by
  refine ⟨fun k ek hk => ?_, fun _ tk h => ⟨tk, by rw [ht]; exact h, rfl, rfl⟩,
          fun _ _ h hn => by rw [ht, hn] at h; simp at h, fun hall k ek hk => ?_⟩
  · exact ⟨f k ek, by rw [he, List.getElem?_mapIdx, hk]; rfl, (hf k ek hk).1⟩
  · rw [he, List.getElem?_mapIdx] at hk
    cases hw : w.execs[k]? with
    | none => rw [hw] at hk; simp at hk
    | some e0 =>
      rw [hw] at hk
      have : ek = f k e0 := by simpa using hk.symm
      subst this
      exact (hf k e0 hw).2 (hall k e0 hw)

/-! ## the transactions -/

theorem newOk_of_running {w : World} {i : Nat} {e : Exec} (h : w.execs[i]? = some e)
    (hc : isCompleted e.state = false) : NewOk w i := by
  intro e' he'; rw [h] at he'; cases he'; exact hc

theorem good_dispatchOne (w : World) (wf : Nat) (n : String) : Good w (dispatchOne w wf n) := by
  unfold dispatchOne
  split
  · rename_i e he
    split
    · exact Good.refl w
    · rename_i hc
      exact Good.addTask (tk' := newTask wf n) rfl rfl (newOk_of_running he (by simpa using hc))
  · exact Good.refl w

theorem good_foldl {α : Type} (f : World → α → World) (hf : ∀ w a, Good w (f w a)) (l : List α) (w : World) :
    Good w (l.foldl f w) := by
  induction l generalizing w with
  | nil => exact Good.refl w
  | cons a l ih => exact (hf w a).trans (ih (f w a))

theorem good_dispatch (w : World) (wf : Nat) (names : List String) : Good w (dispatch w wf names) :=
  good_foldl _ (fun w n => good_dispatchOne w wf n) _ w

/-- the shape of the row `finish` writes -/
theorem good_finish (w : World) (i : Nat) (e : Exec) (s : St) (info : Info) (out : Out)
    (h : w.execs[i]? = some e) (hs : isCompleted s = true)
    (hpre : isCompleted e.state = false ∨ (e.state = .SUCCESS ∧ s = .SUCCESS))
    (hout : s = .SUCCESS → out = .data) : Good w (finish w i e s info out) := by
  refine Good.setExec (e := e) rfl h rfl ?_ ?_
  · refine ⟨rfl, rfl, rfl, by simp only; split <;> omega, fun hc => ?_⟩
    rcases hpre with hpre | ⟨h1, h2⟩
    · rw [hpre] at hc; exact absurd hc (by simp)
    · subst h2
      exact ⟨h1.symm, Or.inr ⟨h1, hout rfl⟩, fun hne => absurd h1 hne⟩
  · intro hj
    obtain ⟨j1, j2, j3, j4⟩ := hj
    refine ⟨fun hc => ?_, fun hs2 => ?_, fun hs2 => ?_, fun _ => rfl⟩
    · simp only at hc; rw [hs] at hc; exact absurd hc (by simp)
    · simp only at hs2 ⊢
      rcases hpre with hpre | ⟨_, h2⟩
      · rw [j1 hpre]
      · subst h2; rcases hs2 with hs2 | hs2 <;> exact absurd hs2 (by decide)
    · exact ⟨hout hs2, fun hp => by simp only [hp, if_true]; omega⟩

theorem good_checkAndComplete (w : World) (i : Nat) : Good w (checkAndComplete w i) := by
  unfold checkAndComplete
  split
  · exact Good.refl w
  · rename_i e he
    split
    · exact Good.refl w
    · rename_i hpc
      have hc : isCompleted e.state = false := by
        simp [isPausedOrCompleted] at hpc; exact hpc.2
      simp only
      split
      · exact Good.refl w
      · split
        · exact good_finish w i e _ _ _ he (by decide) (Or.inl hc) (fun h => nomatch h)
        · split
          · exact good_finish w i e _ _ _ he (by decide) (Or.inl hc) (fun _ => rfl)
          · exact good_finish w i e _ _ _ he (by decide) (Or.inl hc) (fun h => nomatch h)

theorem completed_valid_success (s : St) (hc : isCompleted s = true)
    (hv : (isValidTransition s .SUCCESS == some true) = true) : s = .SUCCESS := by
  cases s <;> first | rfl | (exfalso; revert hc hv; decide)

theorem good_stopOne (w w' : World) (i : Nat) (s : St) (msg : String) (h : stopOne w i s msg = some w') :
    Good w w' := by
  unfold stopOne at h
  split at h
  · simp at h
  · rename_i e he
    split at h
    · split at h
      · rename_i hv
        cases h
        cases hc : isCompleted e.state with
        | false => exact good_finish w i e _ _ _ he (by decide) (Or.inl hc) (fun _ => rfl)
        | true => exact good_finish w i e _ _ _ he (by decide)
                    (Or.inr ⟨completed_valid_success _ hc hv, rfl⟩) (fun _ => rfl)
      · simp at h
    · split at h
      · cases h; exact Good.refl w
      · rename_i hc
        split at h
        · cases h; exact good_finish w i e _ _ _ he (by decide) (Or.inl (by simpa using hc)) (fun h => nomatch h)
        · simp at h
    · split at h
      · cases h; exact Good.refl w
      · rename_i hc
        split at h
        · cases h; exact good_finish w i e _ _ _ he (by decide) (Or.inl (by simpa using hc)) (fun h => nomatch h)
        · simp at h
    · cases h; exact Good.refl w

theorem good_cancelTx (w : World) (a : Nat) (msg : String) : Good w (cancelTx w a msg) := by
  refine Good.mapExecs (f := fun x e => if hit w a x e then cancelled msg e else e) rfl rfl ?_
  intro i e _
  by_cases hh : hit w a i e = true
  · have hc : isCompleted e.state = false := by
      simp [hit] at hh; exact hh.2
    simp only [hh, if_true]
    refine ⟨⟨rfl, rfl, rfl, by simp only [cancelled]; split <;> omega, fun hc' => ?_⟩, fun hj => ?_⟩
    · rw [hc] at hc'; exact absurd hc' (by simp)
    · obtain ⟨j1, _, _, _⟩ := hj
      refine ⟨fun h => ?_, fun _ => ?_, fun h => ?_, fun _ => rfl⟩
      · simp [cancelled] at h; exact absurd h (by decide)
      · show (if e.parent.isSome then e.sent + 1 else e.sent) = if e.parent.isSome then 1 else 0
        rw [j1 hc]
      · simp [cancelled] at h
  · simp only [hh]
    exact ⟨Frozen.refl e, id⟩

theorem good_startWf (c : Cfg) (w : World) (d : Nat) (parent : Option Nat) (index : Nat) (check : Bool) :
    Good w (startWf c w d parent index check) := by
  unfold startWf
  have h1 : Good w { w with execs := w.execs ++ [newExec d parent index] } :=
    Good.addExec rfl rfl ⟨fun _ => rfl, fun h => by simp [newExec] at h,
      fun h => by simp [newExec] at h, fun h => by simp [newExec, isCompleted, Gen.States.completedStates] at h⟩
  simp only
  split
  · exact (h1.trans (good_dispatch _ _ _)).trans (good_checkAndComplete _ _)
  · exact h1.trans (good_dispatch _ _ _)

theorem good_startSub (c : Cfg) (w : World) (t d idx : Nat) : Good w (startSub c w t d idx) := by
  unfold startSub
  split
  · exact Good.of_same rfl rfl
  · exact good_startWf c w d _ _ _

theorem good_completeTask (c : Cfg) (w : World) (t : Nat) (s : St) : Good w (completeTask c w t s) := by
  unfold completeTask
  split
  · exact Good.refl w
  · rename_i tk htk
    split
    · exact Good.refl w
    · split
      · exact Good.refl w
      · rename_i e he
        simp only
        split
        · exact Good.setTask rfl htk rfl rfl rfl
        · refine Good.trans ?_ (good_dispatch _ _ _)
          exact Good.setTask rfl htk rfl rfl rfl

theorem good_wiSchedule (c : Cfg) (w : World) (t d count : Nat) (cap : Option Nat) :
    Good w (wiSchedule c w t d count cap) := by
  unfold wiSchedule
  simp only
  split
  · exact good_completeTask c w t _
  · have h1 := good_foldl (fun w i => startSub c w t d i) (fun w i => good_startSub c w t d i)
      (wiNextIndexes w t count cap) w
    split
    · rename_i tk htk
      exact h1.trans (Good.setTask rfl htk rfl rfl rfl)
    · exact h1

theorem good_runTask (c : Cfg) (w : World) (t : Nat) : Good w (runTask c w t) := by
  unfold runTask
  split
  · exact Good.refl w
  · rename_i tk htk
    split
    · exact Good.refl w
    · split
      · exact Good.refl w
      · rename_i e he
        have h1 : Good w { w with tasks := w.tasks.set t { tk with state := .RUNNING } } :=
          Good.setTask rfl htk rfl rfl rfl
        simp only
        split
        · exact h1
        · exact h1.trans (Good.of_same rfl rfl)
        · exact h1.trans (good_startSub c _ t _ 0)
        · refine Good.trans ?_ (good_wiSchedule c _ t _ _ _)
          exact Good.setTask rfl htk rfl rfl rfl

theorem good_wiOnComplete (c : Cfg) (w : World) (t : Nat) : Good w (wiOnComplete c w t) := by
  unfold wiOnComplete
  split
  · exact Good.refl w
  · rename_i tk htk
    split
    · exact Good.refl w
    · split
      · split
        · simp only
          split
          · refine Good.trans ?_ (good_completeTask c _ t _)
            exact Good.setTask rfl htk rfl rfl rfl
          · split
            · refine Good.trans ?_ (good_wiSchedule c _ t _ _ _)
              exact Good.setTask rfl htk rfl rfl rfl
            · exact Good.setTask rfl htk rfl rfl rfl
        · exact Good.refl w
      · exact Good.refl w

theorem good_childResult (c : Cfg) (w : World) (x : Nat) : Good w (childResult c w x) := by
  unfold childResult
  split
  · exact Good.refl w
  · rename_i e he
    have h1 : Good w { w with execs := w.execs.set x { e with got := e.got + 1 } } :=
      Good.setExec (e := e) rfl he rfl ⟨rfl, rfl, rfl, Nat.le_refl _, fun _ => ⟨rfl, Or.inl rfl, fun _ => ⟨rfl, rfl⟩⟩⟩ id
    simp only
    split
    · exact h1
    · split
      · exact h1
      · split
        · exact h1
        · split
          · exact h1.trans (Good.of_same rfl rfl)
          · exact h1.trans (good_completeTask c _ _ _)

theorem good_step (c : Cfg) (w : World) (ev : Event) : Good w (step c w ev) := by
  cases ev with
  | startRoot d => exact good_startWf c w d none 0 true
  | stop a s msg =>
    simp only [step]
    split
    · split
      · exact good_cancelTx w a msg
      · exact Good.refl w
    · cases h : stopOne w a s msg with
      | none => exact Good.refl w
      | some w' => exact good_stopOne w w' a s msg h
  | execute t ok =>
    simp only [step]
    split
    · exact Good.refl w
    · exact Good.of_same rfl rfl
  | deliver it =>
    simp only [step]
    split
    · exact Good.refl w
    · have h0 : Good w { w with pending := removeFirst w.pending it } := Good.of_same rfl rfl
      refine h0.trans ?_
      cases it with
      | postStartTask t => exact Good.of_same rfl rfl
      | rpcStartTask t => exact good_runTask c _ t
      | postRunAction t => exact Good.of_same rfl rfl
      | runAction t => exact Good.refl _
      | rpcResult t ok => exact good_completeTask c _ t _
      | postCheck i => exact good_checkAndComplete _ i
      | postStartSub t i => exact Good.of_same rfl rfl
      | rpcStartSub t i =>
        simp only
        split
        · split
          · split
            · exact good_startWf c _ _ _ _ _
            · exact Good.refl _
          · exact Good.refl _
        · exact Good.refl _
      | postSendResult x => exact Good.of_same rfl rfl
      | rpcChildResult x => exact good_childResult c _ x
      | jobChildComplete x =>
        simp only
        split
        · split
          · exact good_wiOnComplete c _ _
          · exact Good.refl _
        · exact Good.refl _


/-! ## the parent task of a reporting child -/

theorem dispatch_tasks_prefix (w : World) (wf : Nat) (names : List String) :
    ∃ l, (dispatch w wf names).tasks = w.tasks ++ l := by
  unfold dispatch
  generalize names.reverse = ns
  induction ns generalizing w with
  | nil => exact ⟨[], by simp⟩
  | cons n ns ih =>
    simp only [List.foldl_cons]
    obtain ⟨l, hl⟩ := ih (dispatchOne w wf n)
    have h1 : ∃ l1, (dispatchOne w wf n).tasks = w.tasks ++ l1 := by
      unfold dispatchOne
      split
      · split
        · exact ⟨[], by simp⟩
        · exact ⟨[newTask wf n], rfl⟩
      · exact ⟨[], by simp⟩
    obtain ⟨l1, hl1⟩ := h1
    exact ⟨l1 ++ l, by rw [hl, hl1, List.append_assoc]⟩

theorem dispatch_get (w : World) (wf : Nat) (names : List String) (t : Nat) (tk : Task)
    (h : w.tasks[t]? = some tk) : (dispatch w wf names).tasks[t]? = some tk := by
  obtain ⟨l, hl⟩ := dispatch_tasks_prefix w wf names
  have hlt : t < w.tasks.length := by
    rcases Nat.lt_or_ge t w.tasks.length with h' | h'
    · exact h'
    · rw [List.getElem?_eq_none h'] at h; simp at h
  rw [hl, List.getElem?_append_left hlt]; exact h

/-- `Task.complete(s)` on a task that is not completed writes `s` (and runs the completion logic once) -/
theorem completeTask_sets_state (c : Cfg) (w : World) (t : Nat) (s : St) (tk : Task) (e : Exec)
    (htk : w.tasks[t]? = some tk) (hnc : isCompleted tk.state = false) (he : w.execs[tk.wf]? = some e) :
    ∃ tk', (completeTask c w t s).tasks[t]? = some tk' ∧ tk'.state = s ∧ tk'.ran = tk.ran + 1 ∧
      tk'.wf = tk.wf ∧ tk'.name = tk.name := by
  have hlt : t < w.tasks.length := by
    rcases Nat.lt_or_ge t w.tasks.length with h' | h'
    · exact h'
    · rw [List.getElem?_eq_none h'] at htk; simp at htk
  unfold completeTask
  rw [htk]
  simp only [hnc]
  rw [he]
  simp only [Bool.false_eq_true, if_false]
  cases hp : isPaused e.state
  · simp only [Bool.false_eq_true, if_false]
    exact ⟨_, dispatch_get _ _ _ t _ (List.getElem?_set_self hlt), rfl, rfl, rfl, rfl⟩
  · simp only [if_true]
    exact ⟨_, List.getElem?_set_self hlt, rfl, rfl, rfl, rfl⟩

theorem good_run (c : Cfg) (w : World) (evs : List Event) : Good w (evs.foldl (step c) w) :=
  good_foldl (step c) (good_step c) evs w

theorem allJ_init : AllJ init := by
  intro i e h; simp [init] at h

theorem allJ_reachable (c : Cfg) (evs : List Event) : AllJ (run c evs) :=
  (good_run c init evs).inv allJ_init

end Mistral.Tree
