/- Helper lemmas for Mistral.Tree: the relation `Good` every transaction satisfies (finished executions are
   frozen, task rows are only created in unfinished or new executions, the per-execution bookkeeping
   invariant `J` is kept), and its closure under the composite transactions of `step`. -/
import Mistral.Model.Tree
namespace Mistral.Tree
open Mistral Mistral.Lifecycle

/-- per-execution bookkeeping: result registrations (`sent`) against the state, the output of a SUCCESS
    execution, the accepted flag -/
def J (e : Exec) : Prop :=
  (isCompleted e.state = false → e.sent = 0) ∧
  (isCompleted e.state = true → e.sent = (if e.parent.isSome then 1 else 0)) ∧
  (e.state = .RUNNING ∨ e.state = .PAUSED ∨ isCompleted e.state = true)

/-- the links are well formed: a parent task exists, the owner of a task exists -/
def WF (w : World) : Prop :=
  (∀ (x : Nat) (e : Exec) (t : Nat), w.execs[x]? = some e → e.parent = some t → t < w.tasks.length) ∧
  (∀ (t : Nat) (tk : Task), w.tasks[t]? = some tk → tk.wf < w.execs.length) ∧
  (∀ (x : Nat) (e : Exec) (t : Nat) (tk : Task), w.execs[x]? = some e → e.parent = some t →
     w.tasks[t]? = some tk → tk.wf < x)

def AllJ (w : World) : Prop := (∀ (i : Nat) (e : Exec), w.execs[i]? = some e → J e) ∧ WF w

/-- what may happen to an existing execution row in one transaction -/
def Frozen (e e' : Exec) : Prop :=
  e'.parent = e.parent ∧ e'.defn = e.defn ∧ e'.index = e.index ∧ e.sent ≤ e'.sent ∧
  (isCompleted e.state = true →
     e'.state = e.state ∧ e'.out = e.out ∧ e'.info = e.info ∧ e'.sent = e.sent)

/-- execution i is new or not completed -/
def NewOk (w : World) (i : Nat) : Prop := ∀ e : Exec, w.execs[i]? = some e → isCompleted e.state = false

structure Good (w w' : World) : Prop where
  execs : ∀ (i : Nat) (e : Exec), w.execs[i]? = some e → ∃ e', w'.execs[i]? = some e' ∧ Frozen e e'
  tasks : ∀ (t : Nat) (tk : Task), w.tasks[t]? = some tk → ∃ tk', w'.tasks[t]? = some tk' ∧ tk'.wf = tk.wf ∧ tk'.name = tk.name
  fresh : ∀ (t : Nat) (tk' : Task), w'.tasks[t]? = some tk' → w.tasks[t]? = none → NewOk w tk'.wf
  freshExec : ∀ (x : Nat) (e' : Exec), w'.execs[x]? = some e' → w.execs[x]? = none →
    e'.parent = none ∨ ∃ t tk, e'.parent = some t ∧ w'.tasks[t]? = some tk ∧ NewOk w tk.wf
  inv : AllJ w → AllJ w'

theorem Frozen.refl (e : Exec) : Frozen e e :=
  ⟨rfl, rfl, rfl, Nat.le_refl _, fun _ => ⟨rfl, rfl, rfl, rfl⟩⟩

theorem Frozen.trans {a b c : Exec} (h1 : Frozen a b) (h2 : Frozen b c) : Frozen a c := by
  obtain ⟨p1, d1, i1, s1, f1⟩ := h1
  obtain ⟨p2, d2, i2, s2, f2⟩ := h2
  refine ⟨p2.trans p1, d2.trans d1, i2.trans i1, Nat.le_trans s1 s2, fun hc => ?_⟩
  obtain ⟨a1, a2, a3, a4⟩ := f1 hc
  obtain ⟨b1, b2, b3, b4⟩ := f2 (by rw [a1]; exact hc)
  exact ⟨b1.trans a1, b2.trans a2, b3.trans a3, b4.trans a4⟩

theorem lt_of_get {α : Type} {l : List α} {i : Nat} {a : α} (h : l[i]? = some a) : i < l.length := by
  rcases Nat.lt_or_ge i l.length with h' | h'
  · exact h'
  · rw [List.getElem?_eq_none h'] at h; simp at h

theorem newOk_mono {a b : World} (h1 : ∀ (i : Nat) (e : Exec), a.execs[i]? = some e → ∃ e', b.execs[i]? = some e' ∧ Frozen e e')
    {p : Nat} (h : NewOk b p) : NewOk a p := by
  intro e he
  obtain ⟨e', he', f⟩ := h1 p e he
  have := h e' he'
  cases hc : isCompleted e.state with
  | false => rfl
  | true => rw [(f.2.2.2.2 hc).1] at this; rw [this] at hc; exact absurd hc (by simp)

theorem Good.refl (w : World) : Good w w :=
  ⟨fun _ e h => ⟨e, h, Frozen.refl e⟩, fun _ tk h => ⟨tk, h, rfl, rfl⟩,
   fun _ _ h hn => by simp [hn] at h, fun _ _ h hn => by simp [hn] at h, id⟩

theorem Good.trans {a b c : World} (h1 : Good a b) (h2 : Good b c) : Good a c := by
  refine ⟨fun i e h => ?_, fun t tk h => ?_, fun t tk' h hn => ?_, fun x e'' h hn => ?_,
          fun h => h2.inv (h1.inv h)⟩
  · obtain ⟨e', he', f1⟩ := h1.execs i e h
    obtain ⟨e'', he'', f2⟩ := h2.execs i e' he'
    exact ⟨e'', he'', f1.trans f2⟩
  · obtain ⟨tk', h', a1, a2⟩ := h1.tasks t tk h
    obtain ⟨tk'', h'', b1, b2⟩ := h2.tasks t tk' h'
    exact ⟨tk'', h'', b1.trans a1, b2.trans a2⟩
  · cases hb : b.tasks[t]? with
    | some tkb =>
      obtain ⟨tk'', h'', b1, _⟩ := h2.tasks t tkb hb
      have : tk'' = tk' := by rw [h] at h''; exact (Option.some.inj h'').symm
      subst this
      rw [b1]
      exact h1.fresh t tkb hb hn
    | none => exact newOk_mono h1.execs (h2.fresh t tk' h hb)
  · cases hb : b.execs[x]? with
    | some eb =>
      obtain ⟨e3, h3, f⟩ := h2.execs x eb hb
      have : e3 = e'' := by rw [h] at h3; exact (Option.some.inj h3).symm
      subst this
      rcases h1.freshExec x eb hb hn with hp | ⟨t, tk, hp, htk, hok⟩
      · exact Or.inl (by rw [f.1]; exact hp)
      · obtain ⟨tk2, htk2, w2, _⟩ := h2.tasks t tk htk
        exact Or.inr ⟨t, tk2, by rw [f.1]; exact hp, htk2, by rw [w2]; exact hok⟩
    | none =>
      rcases h2.freshExec x e'' h hb with hp | ⟨t, tk, hp, htk, hok⟩
      · exact Or.inl hp
      · exact Or.inr ⟨t, tk, hp, htk, newOk_mono h1.execs hok⟩

theorem Good.of_same {w w' : World} (he : w'.execs = w.execs) (ht : w'.tasks = w.tasks) : Good w w' :=
  ⟨fun _ e h => ⟨e, by rw [he]; exact h, Frozen.refl e⟩, fun _ tk h => ⟨tk, by rw [ht]; exact h, rfl, rfl⟩,
   fun _ _ h hn => by rw [ht, hn] at h; simp at h, fun _ _ h hn => by rw [he, hn] at h; simp at h,
   fun h => ⟨fun i e hi => h.1 i e (by rw [← he]; exact hi),
             fun x e t hx hp => by rw [ht]; exact h.2.1 x e t (by rw [← he]; exact hx) hp,
             fun t tk htk => by rw [he]; exact h.2.2.1 t tk (by rw [← ht]; exact htk),
             fun x e t tk hx hp htk => h.2.2.2 x e t tk (by rw [← he]; exact hx) hp (by rw [← ht]; exact htk)⟩⟩

theorem Good.setTask {w w' : World} {t : Nat} {tk tk' : Task} (he : w'.execs = w.execs)
    (h : w.tasks[t]? = some tk) (ht : w'.tasks = w.tasks.set t tk') (hwf : tk'.wf = tk.wf)
    (hn : tk'.name = tk.name) : Good w w' := by
  have hlt := lt_of_get h
  have hget : ∀ (u : Nat) (tku : Task), w'.tasks[u]? = some tku →
      ∃ tk0, w.tasks[u]? = some tk0 ∧ tku.wf = tk0.wf := by
    intro u tku hu
    rw [ht, List.getElem?_set] at hu
    by_cases htu : t = u
    · subst htu; simp [hlt] at hu; subst hu; exact ⟨tk, h, hwf⟩
    · simp [htu] at hu; exact ⟨tku, hu, rfl⟩
  refine ⟨fun _ e h => ⟨e, by rw [he]; exact h, Frozen.refl e⟩, fun u tku hu => ?_, fun u tku hu hnone => ?_,
          fun _ _ h hn => by rw [he, hn] at h; simp at h, fun hall => ⟨fun i e hi => hall.1 i e (by rw [← he]; exact hi), ?_, ?_, ?_⟩⟩
  · rw [ht, List.getElem?_set]
    by_cases htu : t = u
    · subst htu
      rw [h] at hu
      have : tku = tk := (Option.some.inj hu).symm
      subst this
      exact ⟨tk', by simp [hlt], hwf, hn⟩
    · exact ⟨tku, by simp [htu, hu], rfl, rfl⟩
  · obtain ⟨tk0, h0, _⟩ := hget u tku hu
    rw [h0] at hnone; simp at hnone
  · intro x e t' hx hp
    rw [ht, List.length_set]
    exact hall.2.1 x e t' (by rw [← he]; exact hx) hp
  · intro u tku hu
    obtain ⟨tk0, h0, hw0⟩ := hget u tku hu
    rw [he, hw0]; exact hall.2.2.1 u tk0 h0
  · intro x e u tku hx hp hu
    obtain ⟨tk0, h0, hw0⟩ := hget u tku hu
    rw [hw0]; exact hall.2.2.2 x e u tk0 (by rw [← he]; exact hx) hp h0

theorem Good.addTask {w w' : World} {tk' : Task} (he : w'.execs = w.execs)
    (ht : w'.tasks = w.tasks ++ [tk']) (hok : NewOk w tk'.wf) (hex : tk'.wf < w.execs.length) : Good w w' := by
  have hnew : ∀ (u : Nat) (tku : Task), w'.tasks[u]? = some tku → w.tasks[u]? = some tku ∨ tku = tk' := by
    intro u tku hu
    rw [ht] at hu
    rcases Nat.lt_or_ge u w.tasks.length with h' | h'
    · rw [List.getElem?_append_left h'] at hu; exact Or.inl hu
    · rw [List.getElem?_append_right h'] at hu
      cases hk : u - w.tasks.length with
      | zero => rw [hk] at hu; exact Or.inr (by simpa using hu.symm)
      | succ k => rw [hk] at hu; simp at hu
  refine ⟨fun _ e h => ⟨e, by rw [he]; exact h, Frozen.refl e⟩, fun u tku hu => ?_, fun u tku hu hnone => ?_,
          fun _ _ h hn => by rw [he, hn] at h; simp at h, fun hall => ⟨fun i e hi => hall.1 i e (by rw [← he]; exact hi), ?_, ?_, ?_⟩⟩
  · exact ⟨tku, by rw [ht, List.getElem?_append_left (lt_of_get hu)]; exact hu, rfl, rfl⟩
  · rcases hnew u tku hu with h1 | h1
    · rw [h1] at hnone; simp at hnone
    · subst h1; exact hok
  · intro x e t' hx hp
    rw [ht, List.length_append]
    have := hall.2.1 x e t' (by rw [← he]; exact hx) hp
    omega
  · intro u tku hu
    rw [he]
    rcases hnew u tku hu with h1 | h1
    · exact hall.2.2.1 u tku h1
    · subst h1; exact hex
  · intro x e u tku hx hp hu
    have hx' : w.execs[x]? = some e := by rw [← he]; exact hx
    have hul := hall.2.1 x e u hx' hp
    rw [ht, List.getElem?_append_left hul] at hu
    exact hall.2.2.2 x e u tku hx' hp hu

theorem Good.addExec {w w' : World} {e0 : Exec} (ht : w'.tasks = w.tasks)
    (he : w'.execs = w.execs ++ [e0]) (hj : J e0)
    (hp : e0.parent = none ∨ ∃ t tk, e0.parent = some t ∧ w.tasks[t]? = some tk ∧ NewOk w tk.wf) : Good w w' := by
  have hnew : ∀ (i : Nat) (e : Exec), w'.execs[i]? = some e → w.execs[i]? = some e ∨ (w.execs[i]? = none ∧ e = e0) := by
    intro i e hi
    rw [he] at hi
    rcases Nat.lt_or_ge i w.execs.length with h' | h'
    · rw [List.getElem?_append_left h'] at hi; exact Or.inl hi
    · rw [List.getElem?_append_right h'] at hi
      cases hk : i - w.execs.length with
      | zero => rw [hk] at hi; exact Or.inr ⟨List.getElem?_eq_none h', by simpa using hi.symm⟩
      | succ k => rw [hk] at hi; simp at hi
  refine ⟨fun i e h => ?_, fun _ tk h => ⟨tk, by rw [ht]; exact h, rfl, rfl⟩,
          fun _ _ h hn => by rw [ht, hn] at h; simp at h, fun x e' hx hn => ?_, fun hall => ⟨fun i e hi => ?_, ?_, ?_, ?_⟩⟩
  · exact ⟨e, by rw [he, List.getElem?_append_left (lt_of_get h)]; exact h, Frozen.refl e⟩
  · rcases hnew x e' hx with h1 | ⟨_, h1⟩
    · rw [h1] at hn; simp at hn
    · subst h1
      rcases hp with hp | ⟨t, tk, hp, htk, hok⟩
      · exact Or.inl hp
      · exact Or.inr ⟨t, tk, hp, by rw [ht]; exact htk, hok⟩
  · rcases hnew i e hi with h1 | ⟨_, h1⟩
    · exact hall.1 i e h1
    · subst h1; exact hj
  · intro x e t hx hpar
    rw [ht]
    rcases hnew x e hx with h1 | ⟨_, h1⟩
    · exact hall.2.1 x e t h1 hpar
    · subst h1
      rcases hp with hp | ⟨t', tk, hp, htk, _⟩
      · rw [hp] at hpar; simp at hpar
      · rw [hp] at hpar; cases hpar; exact lt_of_get htk
  · intro t tk htk
    rw [he, List.length_append]
    have := hall.2.2.1 t tk (by rw [← ht]; exact htk)
    omega
  · intro x e t tk hx hpar htk
    rw [ht] at htk
    rcases hnew x e hx with h1 | ⟨hn, h1⟩
    · exact hall.2.2.2 x e t tk h1 hpar htk
    · have := hall.2.2.1 t tk htk
      have hge : w.execs.length ≤ x := by
        rcases Nat.lt_or_ge x w.execs.length with h' | h'
        · rw [List.getElem?_eq_getElem h'] at hn; simp at hn
        · exact h'
      omega

theorem Good.mapExecs {w w' : World} {f : Nat → Exec → Exec} (ht : w'.tasks = w.tasks)
    (he : w'.execs = w.execs.mapIdx f)
    (hf : ∀ (i : Nat) (e : Exec), w.execs[i]? = some e → Frozen e (f i e) ∧ (J e → J (f i e))) : Good w w' := by
  have hback : ∀ (k : Nat) (ek : Exec), w'.execs[k]? = some ek → ∃ e0, w.execs[k]? = some e0 ∧ ek = f k e0 := by
    intro k ek hk
    rw [he, List.getElem?_mapIdx] at hk
    cases hw : w.execs[k]? with
    | none => rw [hw] at hk; simp at hk
    | some e0 => rw [hw] at hk; exact ⟨e0, rfl, by simpa using hk.symm⟩
  refine ⟨fun k ek hk => ?_, fun _ tk h => ⟨tk, by rw [ht]; exact h, rfl, rfl⟩,
          fun _ _ h hn => by rw [ht, hn] at h; simp at h, fun x e' hx hn => ?_, fun hall => ⟨fun k ek hk => ?_, ?_, ?_, ?_⟩⟩
  · exact ⟨f k ek, by rw [he, List.getElem?_mapIdx, hk]; rfl, (hf k ek hk).1⟩
  · obtain ⟨e0, h0, _⟩ := hback x e' hx
    rw [h0] at hn; simp at hn
  · obtain ⟨e0, h0, rfl⟩ := hback k ek hk
    exact (hf k e0 h0).2 (hall.1 k e0 h0)
  · intro x e t hx hpar
    obtain ⟨e0, h0, rfl⟩ := hback x e hx
    rw [ht]
    exact hall.2.1 x e0 t h0 (by rw [← (hf x e0 h0).1.1]; exact hpar)
  · intro t tk htk
    rw [he, List.length_mapIdx]
    exact hall.2.2.1 t tk (by rw [← ht]; exact htk)
  · intro x e t tk hx hpar htk
    obtain ⟨e0, h0, rfl⟩ := hback x e hx
    exact hall.2.2.2 x e0 t tk h0 (by rw [← (hf x e0 h0).1.1]; exact hpar) (by rw [← ht]; exact htk)

theorem Good.setExec {w w' : World} {i : Nat} {e e' : Exec} (ht : w'.tasks = w.tasks)
    (h : w.execs[i]? = some e) (he : w'.execs = w.execs.set i e') (hf : Frozen e e')
    (hj : J e → J e') : Good w w' := by
  refine Good.mapExecs (f := fun k ek => if k = i then e' else ek) ht ?_ ?_
  · rw [he]
    apply List.ext_getElem?
    intro k
    rw [List.getElem?_set, List.getElem?_mapIdx]
    by_cases hik : i = k
    · subst hik; simp [lt_of_get h, h]
    · have : ¬ k = i := fun h' => hik h'.symm
      cases hk : w.execs[k]? <;> simp [hik, this]
  · intro k ek hk
    by_cases hki : k = i
    · subst hki
      rw [h] at hk; cases hk
      simp only [if_true]; exact ⟨hf, hj⟩
    · simp only [hki, if_false]; exact ⟨Frozen.refl ek, id⟩

/-! ## the transactions -/

theorem newOk_of_running {w : World} {i : Nat} {e : Exec} (h : w.execs[i]? = some e)
    (hc : isCompleted e.state = false) : NewOk w i := by
  intro e' he'; rw [h] at he'; cases he'; exact hc

theorem good_dispatchOne (w : World) (wf : Nat) (n : String) : Good w (dispatchOne w wf n) := by
  unfold dispatchOne
  split
  · rename_i e he
    split
    · exact Good.refl w
    · rename_i hc
      split
      · exact Good.setExec (e := e) rfl he rfl
          ⟨rfl, rfl, rfl, Nat.le_refl _, fun _ => ⟨rfl, rfl, rfl, rfl⟩⟩ id
      · exact Good.addTask (tk' := newTask wf n) rfl rfl (newOk_of_running he (by simpa using hc)) (lt_of_get he)
  · exact Good.refl w

theorem good_foldl {α : Type} (f : World → α → World) (hf : ∀ w a, Good w (f w a)) (l : List α) (w : World) :
    Good w (l.foldl f w) := by
  induction l generalizing w with
  | nil => exact Good.refl w
  | cons a l ih => exact (hf w a).trans (ih (f w a))

theorem good_dispatch (w : World) (wf : Nat) (names : List String) : Good w (dispatch w wf names) :=
  good_foldl _ (fun w n => good_dispatchOne w wf n) _ w

/-- the states of the existing executions are untouched -/
def SameStates (w w' : World) : Prop :=
  ∀ (i : Nat) (e : Exec), w.execs[i]? = some e → ∃ e', w'.execs[i]? = some e' ∧ e'.state = e.state

theorem SameStates.refl (w : World) : SameStates w w := fun _ e h => ⟨e, h, rfl⟩

theorem SameStates.trans {a b c : World} (h1 : SameStates a b) (h2 : SameStates b c) : SameStates a c := by
  intro i e h
  obtain ⟨e1, he1, s1⟩ := h1 i e h
  obtain ⟨e2, he2, s2⟩ := h2 i e1 he1
  exact ⟨e2, he2, s2.trans s1⟩

theorem dispatchOne_prefix (w : World) (wf : Nat) (n : String) :
    SameStates w (dispatchOne w wf n) ∧ ∃ l, (dispatchOne w wf n).tasks = w.tasks ++ l := by
  unfold dispatchOne
  split
  · rename_i e he
    split
    · exact ⟨SameStates.refl w, [], by simp⟩
    · split
      · refine ⟨fun i ei hi => ?_, [], by simp⟩
        simp only [List.getElem?_set]
        by_cases h : wf = i
        · subst h; rw [he] at hi; cases hi
          exact ⟨{ e with backlog := e.backlog ++ [n] }, by simp [lt_of_get he], rfl⟩
        · exact ⟨ei, by simp [h, hi], rfl⟩
      · exact ⟨SameStates.refl _, [newTask wf n], rfl⟩
  · exact ⟨SameStates.refl w, [], by simp⟩

theorem dispatch_prefix (w : World) (wf : Nat) (names : List String) :
    SameStates w (dispatch w wf names) ∧ ∃ l, (dispatch w wf names).tasks = w.tasks ++ l := by
  unfold dispatch
  generalize names.reverse = ns
  induction ns generalizing w with
  | nil => exact ⟨SameStates.refl w, [], by simp⟩
  | cons n ns ih =>
    simp only [List.foldl_cons]
    obtain ⟨he, l, hl⟩ := ih (dispatchOne w wf n)
    obtain ⟨he1, l1, hl1⟩ := dispatchOne_prefix w wf n
    exact ⟨he1.trans he, l1 ++ l, by rw [hl, hl1, List.append_assoc]⟩

theorem dispatch_tasks_prefix (w : World) (wf : Nat) (names : List String) :
    ∃ l, (dispatch w wf names).tasks = w.tasks ++ l := (dispatch_prefix w wf names).2

theorem dispatch_get (w : World) (wf : Nat) (names : List String) (t : Nat) (tk : Task)
    (h : w.tasks[t]? = some tk) : (dispatch w wf names).tasks[t]? = some tk := by
  obtain ⟨l, hl⟩ := dispatch_tasks_prefix w wf names
  rw [hl, List.getElem?_append_left (lt_of_get h)]; exact h

/-- the shape of the row `finish` writes -/
theorem good_finish (w : World) (i : Nat) (e : Exec) (s : St) (info : Info) (out : Out)
    (h : w.execs[i]? = some e) (hs : isCompleted s = true)
    (hpre : isCompleted e.state = false) : Good w (finish w i e s info out) := by
  refine Good.setExec (e := e) rfl h rfl ?_ ?_
  · refine ⟨rfl, rfl, rfl, by simp only; split <;> omega, fun hc => ?_⟩
    rw [hpre] at hc; exact absurd hc (by simp)
  · intro hj
    obtain ⟨j1, _⟩ := hj
    refine ⟨fun hc => ?_, fun _ => ?_, Or.inr (Or.inr hs)⟩
    · simp only at hc; rw [hs] at hc; exact absurd hc (by simp)
    · simp only; rw [j1 hpre]

theorem good_checkAndComplete (w : World) (i : Nat) : Good w (checkAndComplete w i) := by
  unfold checkAndComplete
  split
  · exact Good.refl w
  · rename_i e he
    split
    · exact Good.refl w
    · rename_i hpc
      have hc : isCompleted e.state = false := by
        simp [isPausedOrCompleted] at hpc; exact hpc.2
      simp only
      split
      · exact Good.refl w
      · split
        · exact good_finish w i e _ _ _ he (by decide) hc
        · split
          · exact good_finish w i e _ _ _ he (by decide) hc
          · exact good_finish w i e _ _ _ he (by decide) hc

theorem good_stopOne (w w' : World) (i : Nat) (s : St) (msg : Info) (h : stopOne w i s msg = some w') :
    Good w w' := by
  unfold stopOne at h
  split at h
  · simp at h
  · rename_i e he
    split at h
    all_goals first
      | (cases h; exact Good.refl w)
      | (split at h
         · cases h; exact Good.refl w
         · rename_i hc
           split at h
           · cases h; exact good_finish w i e _ _ _ he (by decide) (by simpa using hc)
           · simp at h)

theorem good_cancelTx (w : World) (a : Nat) (msg : String) : Good w (cancelTx w a msg) := by
  refine Good.mapExecs (f := fun x e => if hit w a x e then cancelled msg e else e) rfl rfl ?_
  intro i e _
  by_cases hh : hit w a i e = true
  · have hc : isCompleted e.state = false := by
      simp [hit] at hh; exact hh.2
    simp only [hh, if_true]
    refine ⟨⟨rfl, rfl, rfl, by simp only [cancelled]; split <;> omega, fun hc' => ?_⟩, fun hj => ?_⟩
    · rw [hc] at hc'; exact absurd hc' (by simp)
    · obtain ⟨j1, _⟩ := hj
      refine ⟨fun h => ?_, fun _ => ?_, Or.inr (Or.inr (by simp [cancelled]; decide))⟩
      · simp [cancelled] at h; exact absurd h (by decide)
      · show (if e.parent.isSome then e.sent + 1 else e.sent) = if e.parent.isSome then 1 else 0
        rw [j1 hc]
  · simp only [hh]
    exact ⟨Frozen.refl e, id⟩

theorem good_startWf (c : Cfg) (w : World) (d : Nat) (parent : Option Nat) (index : Nat) (check : Bool)
    (hp : parent = none ∨ ∃ t tk, parent = some t ∧ w.tasks[t]? = some tk ∧ NewOk w tk.wf) :
    Good w (startWf c w d parent index check) := by
  unfold startWf
  have h1 : Good w { w with execs := w.execs ++ [newExec d parent index] } :=
    Good.addExec rfl rfl ⟨fun _ => rfl, fun h => by simp [newExec, isCompleted, Gen.States.completedStates] at h,
      Or.inl rfl⟩ hp
  simp only
  split
  · exact (h1.trans (good_dispatch _ _ _)).trans (good_checkAndComplete _ _)
  · exact h1.trans (good_dispatch _ _ _)

theorem good_startSub (c : Cfg) (w : World) (t d idx : Nat) (tk : Task) (htk : w.tasks[t]? = some tk)
    (hok : NewOk w tk.wf) : Good w (startSub c w t d idx) := by
  unfold startSub
  split
  · exact Good.of_same rfl rfl
  · exact good_startWf c w d _ _ _ (Or.inr ⟨t, tk, rfl, htk, hok⟩)

theorem startSub_prefix (c : Cfg) (w : World) (t d idx : Nat) :
    SameStates w (startSub c w t d idx) ∧ ∃ l, (startSub c w t d idx).tasks = w.tasks ++ l := by
  unfold startSub
  split
  · exact ⟨SameStates.refl _, [], by simp⟩
  · unfold startWf
    simp only [Bool.false_eq_true, if_false]
    obtain ⟨he, l, hl⟩ := dispatch_prefix { w with execs := w.execs ++ [newExec d (some t) idx] } w.execs.length
      (startTasks (defOf c d))
    refine ⟨SameStates.trans (fun i e hi => ⟨e, ?_, rfl⟩) he, l, hl⟩
    show (w.execs ++ [newExec d (some t) idx])[i]? = some e
    rw [List.getElem?_append_left (lt_of_get hi)]; exact hi

theorem good_startSubs (c : Cfg) (t d p : Nat) (idxs : List Nat) :
    ∀ (w : World), (∃ tk, w.tasks[t]? = some tk ∧ tk.wf = p) →
      (∃ e, w.execs[p]? = some e ∧ isCompleted e.state = false) →
      Good w (idxs.foldl (fun w i => startSub c w t d i) w) := by
  induction idxs with
  | nil => intro w _ _; exact Good.refl w
  | cons i idxs ih =>
    intro w ⟨tk, htk, hwf⟩ ⟨e, he, hc⟩
    simp only [List.foldl_cons]
    have h1 : Good w (startSub c w t d i) :=
      good_startSub c w t d i tk htk (by rw [hwf]; exact newOk_of_running he hc)
    obtain ⟨hss, lt, hlt⟩ := startSub_prefix c w t d i
    obtain ⟨e', he', hs'⟩ := hss _ e he
    refine h1.trans (ih _ ⟨tk, ?_, hwf⟩ ⟨e', he', by rw [hs']; exact hc⟩)
    rw [hlt, List.getElem?_append_left (lt_of_get htk)]; exact htk

theorem good_completeTask (c : Cfg) (w : World) (t : Nat) (s : St) : Good w (completeTask c w t s) := by
  unfold completeTask
  split
  · exact Good.refl w
  · rename_i tk htk
    split
    · exact Good.refl w
    · split
      · exact Good.refl w
      · rename_i e he
        simp only
        split
        · exact Good.setTask rfl htk rfl rfl rfl
        · refine Good.trans ?_ (good_dispatch _ _ _)
          exact Good.setTask rfl htk rfl rfl rfl

theorem good_wiSchedule (c : Cfg) (w : World) (t d count : Nat) (cap : Option Nat) :
    Good w (wiSchedule c w t d count cap) := by
  unfold wiSchedule
  simp only
  split
  · exact good_completeTask c w t _
  · split
    · exact Good.refl w
    · rename_i tk0 htk0
      split
      · exact Good.refl w
      · rename_i e he
        split
        · exact good_completeTask c w t _
        · rename_i hc
          have h1 := good_startSubs c t d tk0.wf (wiNextIndexes w t count cap) w ⟨tk0, htk0, rfl⟩
            ⟨e, he, by simpa using hc⟩
          split
          · rename_i tk htk
            exact h1.trans (Good.setTask rfl htk rfl rfl rfl)
          · exact h1

theorem good_runTask (c : Cfg) (w : World) (t : Nat) : Good w (runTask c w t) := by
  unfold runTask
  split
  · exact Good.refl w
  · rename_i tk htk
    split
    · exact Good.refl w
    · split
      · exact Good.refl w
      · rename_i e he
        have h1 : Good w { w with tasks := w.tasks.set t { tk with state := .RUNNING } } :=
          Good.setTask rfl htk rfl rfl rfl
        simp only
        split
        · exact h1
        · exact h1.trans (Good.of_same rfl rfl)
        · split
          · exact h1.trans (good_completeTask c _ t _)
          · rename_i hc
            refine h1.trans (good_startSub c _ t _ 0 { tk with state := .RUNNING }
              (List.getElem?_set_self (lt_of_get htk)) ?_)
            exact newOk_of_running (w := { w with tasks := w.tasks.set t { tk with state := .RUNNING } }) he
              (by simpa using hc)
        · refine Good.trans ?_ (good_wiSchedule c _ t _ _ _)
          exact Good.setTask rfl htk rfl rfl rfl

theorem good_wiOnComplete (c : Cfg) (w : World) (t : Nat) : Good w (wiOnComplete c w t) := by
  unfold wiOnComplete
  split
  · exact Good.refl w
  · rename_i tk htk
    split
    · exact Good.refl w
    · split
      · split
        · simp only
          split
          · refine Good.trans ?_ (good_completeTask c _ t _)
            exact Good.setTask rfl htk rfl rfl rfl
          · split
            · refine Good.trans ?_ (good_wiSchedule c _ t _ _ _)
              exact Good.setTask rfl htk rfl rfl rfl
            · exact Good.setTask rfl htk rfl rfl rfl
        · exact Good.refl w
      · exact Good.refl w

theorem frozen_got (e : Exec) : Frozen e { e with got := e.got + 1 } :=
  ⟨rfl, rfl, rfl, Nat.le_refl _, fun _ => ⟨rfl, rfl, rfl, rfl⟩⟩

theorem good_childResult (c : Cfg) (w : World) (x : Nat) : Good w (childResult c w x) := by
  unfold childResult
  split
  · exact Good.refl w
  · rename_i e he
    have h1 : Good w { w with execs := w.execs.set x { e with got := e.got + 1 } } :=
      Good.setExec (e := e) rfl he rfl (frozen_got e) id
    simp only
    split
    · exact h1
    · split
      · exact h1
      · split
        · exact h1
        · split
          · exact h1.trans (Good.of_same rfl rfl)
          · exact h1.trans (good_completeTask c _ _ _)


theorem Good.mapTasks {w w' : World} {g : Task → Task} (he : w'.execs = w.execs)
    (ht : w'.tasks = w.tasks.map g) (hg : ∀ tk, (g tk).wf = tk.wf ∧ (g tk).name = tk.name) : Good w w' := by
  have hback : ∀ (u : Nat) (tku : Task), w'.tasks[u]? = some tku → ∃ tk0, w.tasks[u]? = some tk0 ∧ tku = g tk0 := by
    intro u tku hu
    rw [ht, List.getElem?_map] at hu
    cases hw : w.tasks[u]? with
    | none => rw [hw] at hu; simp at hu
    | some tk0 => rw [hw] at hu; exact ⟨tk0, rfl, by simpa using hu.symm⟩
  refine ⟨fun _ e h => ⟨e, by rw [he]; exact h, Frozen.refl e⟩, fun u tku hu => ?_, fun u tku hu hnone => ?_,
          fun _ _ h hn => by rw [he, hn] at h; simp at h,
          fun hall => ⟨fun i e hi => hall.1 i e (by rw [← he]; exact hi), ?_, ?_, ?_⟩⟩
  · exact ⟨g tku, by rw [ht, List.getElem?_map, hu]; rfl, (hg tku).1, (hg tku).2⟩
  · obtain ⟨tk0, h0, _⟩ := hback u tku hu
    rw [h0] at hnone; simp at hnone
  · intro x e t' hx hp
    rw [ht, List.length_map]
    exact hall.2.1 x e t' (by rw [← he]; exact hx) hp
  · intro u tku hu
    obtain ⟨tk0, h0, rfl⟩ := hback u tku hu
    rw [he, (hg tk0).1]; exact hall.2.2.1 u tk0 h0
  · intro x e u tku hx hp hu
    obtain ⟨tk0, h0, rfl⟩ := hback u tku hu
    rw [(hg tk0).1]; exact hall.2.2.2 x e u tk0 (by rw [← he]; exact hx) hp h0

theorem good_resetKids (w : World) (t : Nat) : Good w (resetKids w t) := by
  refine Good.mapExecs (f := fun _ e => if e.parent == some t && e.accepted && (e.state == .ERROR || e.state == .CANCELLED)
      then { e with accepted := false } else e) rfl rfl ?_
  intro i e _
  split
  · exact ⟨⟨rfl, rfl, rfl, Nat.le_refl _, fun _ => ⟨rfl, rfl, rfl, rfl⟩⟩, id⟩
  · exact ⟨Frozen.refl e, id⟩

theorem good_resumeSelf (c : Cfg) (w : World) (x : Nat) : Good w (resumeSelf c w x) := by
  unfold resumeSelf
  split
  · exact Good.refl w
  · rename_i e he
    have h1 : Good w { w with tasks := w.tasks.map fun tk =>
        if tk.wf == x && isCompleted tk.state && !tk.processed then { tk with processed := true } else tk } :=
      Good.mapTasks rfl rfl (fun tk => by split <;> exact ⟨rfl, rfl⟩)
    simp only
    split
    · exact h1.trans (good_checkAndComplete _ _)
    · refine (h1.trans ?_).trans (good_dispatch _ _ _)
      refine Good.trans ?_ (Good.trans (good_dispatch _ _ _) (Good.of_same rfl rfl))
      exact Good.setExec (e := e) rfl he rfl ⟨rfl, rfl, rfl, Nat.le_refl _, fun _ => ⟨rfl, rfl, rfl, rfl⟩⟩ id

theorem resetKids_state (w : World) (t i : Nat) (e' : Exec) (h : (resetKids w t).execs[i]? = some e') :
    ∃ e, w.execs[i]? = some e ∧ e'.state = e.state := by
  simp only [resetKids, List.getElem?_mapIdx] at h
  cases hw : w.execs[i]? with
  | none => rw [hw] at h; simp at h
  | some e =>
    rw [hw] at h
    simp only [Option.map_some, Option.some.injEq] at h
    refine ⟨e, rfl, ?_⟩
    rw [← h]; split <;> rfl

theorem good_runExisting (c : Cfg) (w : World) (t : Nat) : Good w (runExisting c w t) := by
  unfold runExisting
  split
  · exact Good.refl w
  · rename_i tk htk
    split
    · exact Good.refl w
    · split
      · exact Good.refl w
      · split
        · exact Good.refl w
        · rename_i e he
          have h0 := good_resetKids w t
          have htk0 : (resetKids w t).tasks[t]? = some tk := htk
          have hok : ∀ (w1 : World), w1.execs = (resetKids w t).execs → isCompleted e.state = false →
              NewOk w1 tk.wf := by
            intro w1 h1 hc e' he'
            rw [h1] at he'
            obtain ⟨e0, h0', hs⟩ := resetKids_state w t _ e' he'
            rw [he] at h0'; cases h0'; rw [hs]; exact hc
          have h1 : ∀ tk' : Task, tk'.wf = tk.wf → tk'.name = tk.name →
              Good w { execs := (resetKids w t).execs, tasks := (resetKids w t).tasks.set t tk',
                       pending := (resetKids w t).pending } :=
            fun tk' a b => h0.trans (Good.setTask rfl htk0 rfl a b)
          simp only
          split
          · exact h1 _ rfl rfl
          · have h2 := h1 { tk with state := .RUNNING, processed := false } rfl rfl
            exact h2.trans (Good.of_same rfl rfl)
          · split
            · refine Good.trans ?_ (good_completeTask c _ t _)
              exact h1 _ rfl rfl
            · rename_i hc
              refine Good.trans ?_ (good_startSub c _ t _ 0 _
                (List.getElem?_set_self (lt_of_get htk0)) (hok _ rfl (by simpa using hc)))
              exact h1 _ rfl rfl
          · refine Good.trans ?_ (good_wiSchedule c _ t _ _ _)
            exact h1 _ rfl rfl

theorem good_taskUpdate (w : World) (t : Nat) (s : St) : Good w (taskUpdate w t s) := by
  unfold taskUpdate
  split
  · exact Good.refl w
  · rename_i tk htk
    split
    · exact Good.refl w
    · split
      · exact Good.refl w
      · split
        · exact Good.refl w
        · exact Good.setTask rfl htk rfl rfl rfl

theorem good_forceFail (w : World) (t : Nat) : Good w (forceFail w t).1 := by
  unfold forceFail
  split
  · exact Good.refl w
  · rename_i tk htk
    have h1 : Good w { w with tasks := w.tasks.set t { tk with state := .ERROR } } :=
      Good.setTask rfl htk rfl rfl rfl
    simp only
    split
    · rename_i w2 h2
      exact h1.trans (good_stopOne _ w2 _ _ _ h2)
    · exact h1

theorem paused_target_not_completed (s : St) (hp : isPaused s = false)
    (hv : (isValidTransition s .PAUSED == some true) = true) : isCompleted s = false := by
  cases s <;> first | rfl | (exfalso; revert hp hv; decide)

theorem good_setState (w : World) (x : Nat) (e : Exec) (s : St) (he : w.execs[x]? = some e)
    (hc : isCompleted e.state = false) (hs : isCompleted s = false) (h5 : s = .RUNNING ∨ s = .PAUSED) :
    Good w (setState w x e s) := by
  refine Good.setExec (e := e) rfl he rfl ?_ ?_
  · exact ⟨rfl, rfl, rfl, Nat.le_refl _, fun h => by rw [hc] at h; exact absurd h (by simp)⟩
  · intro hj
    refine ⟨fun _ => hj.1 hc, fun h => ?_, ?_⟩
    · simp only at h; rw [hs] at h; exact absurd h (by simp)
    · rcases h5 with h5 | h5
      · exact Or.inl h5
      · exact Or.inr (Or.inl h5)

/-- the loop over the sub-workflows inside pause_workflow -/
theorem good_kids (c : Cfg) (f : Nat) (m m' : Mode) (hm : ∀ w x, Good w (prop c f m w x).1)
    (hm' : ∀ w x, Good w (prop c f m' w x).1) (l : List Nat) :
    ∀ (w0 : World) (acc : World × Bool), Good w0 acc.1 →
      Good w0 (l.foldl (fun (acc : World × Bool) k =>
        if acc.2 then acc else
        match acc.1.execs[k]? with
        | some ek => if isCompleted ek.state then prop c f m' acc.1 k else prop c f m acc.1 k
        | none => acc) acc).1 := by
  induction l with
  | nil => intro w0 acc h; exact h
  | cons k l ih =>
    intro w0 acc h
    simp only [List.foldl_cons]
    apply ih
    split
    · exact h
    · split
      · split
        · exact h.trans (hm' _ _)
        · exact h.trans (hm _ _)
      · exact h

theorem pausedOrIdle_not_completed (s : St) (h : isPausedOrIdle s = true) : isCompleted s = false := by
  cases s <;> first | rfl | (exfalso; revert h; decide)

/-- pause_workflow / resume_workflow / `_on_action_update`, with everything they propagate to inside the
    transaction, satisfy `Good` -/
theorem good_prop (c : Cfg) : ∀ (f : Nat) (m : Mode) (w : World) (x : Nat), Good w (prop c f m w x).1 := by
  intro f
  induction f with
  | zero =>
    intro m w x
    cases m with
    | update =>
      simp only [prop, updateLocal]
      split
      · exact Good.refl w
      · split
        · exact Good.refl w
        · exact good_taskUpdate w _ _
    | pause => exact Good.refl w
    | resume => exact Good.refl w
    | belowP => exact Good.refl w
    | belowR => exact Good.refl w
  | succ f ih =>
    intro m w x
    cases m with
    | pause =>
      simp only [prop]
      have hk := good_kids c f .pause .belowP (ih .pause) (ih .belowP) (kidsOf w x) w (w, false) (Good.refl w)
      generalize (kidsOf w x).foldl _ (w, false) = r at hk ⊢
      split
      · exact hk
      · split
        · exact hk
        · rename_i e he
          split
          · exact hk
          · rename_i hnp
            split
            · rename_i hv
              have hnc := paused_target_not_completed e.state (by simpa using hnp) hv
              have h1 : Good r.1 (setState r.1 x e .PAUSED) := good_setState _ _ _ _ he hnc (by decide) (Or.inr rfl)
              split
              · exact hk.trans h1
              · split
                · exact hk.trans (h1.trans (Good.of_same rfl rfl))
                · exact hk.trans (h1.trans (ih .update _ x))
            · exact hk
    | resume =>
      simp only [prop]
      split
      · exact Good.refl w
      · split
        · exact Good.refl w
        · have hk := good_kids c f .resume .belowR (ih .resume) (ih .belowR) (kidsOf w x) w (w, false) (Good.refl w)
          generalize (kidsOf w x).foldl _ (w, false) = r at hk ⊢
          split
          · exact hk
          · split
            · exact hk
            · rename_i e he
              split
              · exact hk
              · rename_i hpi
                split
                · have hnc := pausedOrIdle_not_completed e.state (by simpa using hpi)
                  have h1 : Good r.1 (resumeSelf c (setState r.1 x e .RUNNING) x) :=
                    (good_setState _ _ _ _ he hnc (by decide) (Or.inl rfl)).trans (good_resumeSelf c _ x)
                  split
                  · exact hk.trans h1
                  · split
                    · exact hk.trans (h1.trans (Good.of_same rfl rfl))
                    · exact hk.trans (h1.trans (ih .update _ x))
                · exact hk
    | belowP =>
      simp only [prop]
      exact good_kids c f .pause .belowP (ih .pause) (ih .belowP) (kidsOf w x) w (w, false) (Good.refl w)
    | belowR =>
      simp only [prop]
      exact good_kids c f .resume .belowR (ih .resume) (ih .belowR) (kidsOf w x) w (w, false) (Good.refl w)
    | update =>
      simp only [prop]
      split
      · exact Good.refl w
      · rename_i e he
        split
        · exact Good.refl w
        · rename_i t ht
          split
          · exact Good.refl w
          · rename_i tk htk
            have h1 := good_taskUpdate w t e.state
            split
            · split
              · exact (h1.trans (ih .pause _ _)).trans (good_forceFail _ _)
              · exact h1.trans (ih .pause _ _)
            · split
              · split
                · exact h1
                · split
                  · exact (h1.trans (ih .resume _ _)).trans (good_forceFail _ _)
                  · exact h1.trans (ih .resume _ _)
              · exact h1

theorem good_step (c : Cfg) (w : World) (ev : Event) : Good w (step c w ev) := by
  cases ev with
  | startRoot d => exact good_startWf c w d none 0 true (Or.inl rfl)
  | stop a s msg =>
    simp only [step]
    split
    · split
      · exact good_cancelTx w a msg
      · exact Good.refl w
    · cases h : stopOne w a s (.op msg) with
      | none => exact Good.refl w
      | some w' => exact good_stopOne w w' a s _ h
  | pause a =>
    simp only [step]
    split
    · exact Good.refl w
    · exact good_prop c _ .pause w a
  | resume a =>
    simp only [step]
    split
    · exact Good.refl w
    · exact good_prop c _ .resume w a
  | execute t ok =>
    simp only [step]
    split
    · exact Good.refl w
    · exact Good.of_same rfl rfl
  | deliver it =>
    simp only [step]
    split
    · exact Good.refl w
    · have h0 : Good w { w with pending := removeFirst w.pending it } := Good.of_same rfl rfl
      refine h0.trans ?_
      cases it with
      | postStartTask t f => exact Good.of_same rfl rfl
      | rpcStartTask t f =>
        simp only
        split
        · exact good_runTask c _ t
        · exact good_runExisting c _ t
      | postRunAction t => exact Good.of_same rfl rfl
      | runAction t => exact Good.refl _
      | rpcResult t ok => exact good_completeTask c _ t _
      | postCheck i => exact good_checkAndComplete _ i
      | postStartSub t i => exact Good.of_same rfl rfl
      | rpcStartSub t i =>
        simp only
        split
        · rename_i tk htk
          split
          · rename_i e he
            split
            · split
              · exact good_completeTask c _ t _
              · rename_i hc
                exact good_startWf c _ _ _ _ _ (Or.inr ⟨t, tk, rfl, htk, newOk_of_running he (by simpa using hc)⟩)
            · exact Good.refl _
          · exact Good.refl _
        · exact Good.refl _
      | postSendResult x => exact Good.of_same rfl rfl
      | rpcChildResult x => exact good_childResult c _ x
      | jobChildComplete x =>
        simp only
        split
        · split
          · exact good_wiOnComplete c _ _
          · exact Good.refl _
        · exact Good.refl _
      | jobChildUpdate x => exact good_prop c _ .update _ x

/-- `Task.complete(s)` on a task that is not completed writes `s` (and runs the completion logic once) -/
theorem completeTask_sets_state (c : Cfg) (w : World) (t : Nat) (s : St) (tk : Task) (e : Exec)
    (htk : w.tasks[t]? = some tk) (hnc : isCompleted tk.state = false) (he : w.execs[tk.wf]? = some e) :
    ∃ tk', (completeTask c w t s).tasks[t]? = some tk' ∧ tk'.state = s ∧ tk'.ran = tk.ran + 1 ∧
      tk'.wf = tk.wf ∧ tk'.name = tk.name := by
  have hlt := lt_of_get htk
  unfold completeTask
  rw [htk]
  simp only [hnc]
  rw [he]
  simp only [Bool.false_eq_true, if_false]
  cases hp : isPaused e.state
  · simp only [Bool.false_eq_true, if_false]
    exact ⟨_, dispatch_get _ _ _ t _ (List.getElem?_set_self hlt), rfl, rfl, rfl, rfl⟩
  · simp only [if_true]
    exact ⟨_, List.getElem?_set_self hlt, rfl, rfl, rfl, rfl⟩

theorem good_run (c : Cfg) (w : World) (evs : List Event) : Good w (evs.foldl (step c) w) :=
  good_foldl (step c) (good_step c) evs w

theorem allJ_init : AllJ init :=
  ⟨fun i e h => by simp [init] at h, fun x e t h _ => by simp [init] at h, fun t tk h => by simp [init] at h,
   fun x e t tk h _ _ => by simp [init] at h⟩

theorem allJ_reachable (c : Cfg) (evs : List Event) : AllJ (run c evs) :=
  (good_run c init evs).inv allJ_init

/-! ## the tree below an execution -/

theorem parentWf_eq {w : World} {x p : Nat} (h : parentWf w x = some p) :
    ∃ e t tk, w.execs[x]? = some e ∧ e.parent = some t ∧ w.tasks[t]? = some tk ∧ tk.wf = p := by
  unfold parentWf at h
  split at h
  · rename_i e he
    split at h
    · rename_i t ht
      cases htk : w.tasks[t]? with
      | none => rw [htk] at h; simp at h
      | some tk => rw [htk] at h; exact ⟨e, t, tk, he, ht, htk, by simpa using h⟩
    · simp at h
  · simp at h

theorem parentWf_of {w : World} {x t : Nat} {e : Exec} {tk : Task} (he : w.execs[x]? = some e)
    (hp : e.parent = some t) (htk : w.tasks[t]? = some tk) : parentWf w x = some tk.wf := by
  simp [parentWf, he, hp, htk]

theorem parentWf_lt {w : World} (hwf : WF w) {x p : Nat} (h : parentWf w x = some p) :
    p < x ∧ p < w.execs.length := by
  obtain ⟨e, t, tk, he, hp, htk, rfl⟩ := parentWf_eq h
  exact ⟨hwf.2.2 x e t tk he hp htk, hwf.2.1 t tk htk⟩

theorem below_mono (w : World) (a : Nat) : ∀ (f g x : Nat), f ≤ g → below w a f x = true → below w a g x = true := by
  intro f
  induction f with
  | zero => intro g x _ h; simp [below] at h
  | succ f ih =>
    intro g x hfg h
    cases g with
    | zero => omega
    | succ g =>
      simp only [below, Bool.or_eq_true] at h ⊢
      rcases h with h | h
      · exact Or.inl h
      · right
        cases hp : parentWf w x with
        | none => simp [hp] at h
        | some p => simp only [hp] at h ⊢; exact ih g p (by omega) h

/-- the fuel `execs.length` of `cancelTx` is enough: parents have smaller indices -/
theorem below_fuel {w : World} (hwf : WF w) (a : Nat) :
    ∀ (f x : Nat), below w a f x = true → below w a (x + 1) x = true := by
  intro f
  induction f with
  | zero => intro x h; simp [below] at h
  | succ f ih =>
    intro x h
    simp only [below, Bool.or_eq_true] at h ⊢
    rcases h with h | h
    · exact Or.inl h
    · right
      cases hp : parentWf w x with
      | none => simp [hp] at h
      | some p =>
        simp only [hp] at h ⊢
        exact below_mono w a (p + 1) x p (by have := (parentWf_lt hwf hp).1; omega) (ih p h)

theorem below_len {w : World} (hwf : WF w) (a f x : Nat) (hx : x < w.execs.length)
    (h : below w a f x = true) : below w a w.execs.length x = true :=
  below_mono w a (x + 1) _ x (by omega) (below_fuel hwf a f x h)

theorem parentWf_old {w w' : World} (hg : Good w w') (hwf : WF w) {x : Nat} {e : Exec}
    (he : w.execs[x]? = some e) : parentWf w' x = parentWf w x := by
  obtain ⟨e', he', hf⟩ := hg.execs x e he
  cases hp : e.parent with
  | none => simp [parentWf, he, he', hf.1, hp]
  | some t =>
    have hlt := hwf.1 x e t he hp
    have htk : w.tasks[t]? = some w.tasks[t] := List.getElem?_eq_getElem hlt
    obtain ⟨tk', htk', hw, _⟩ := hg.tasks t _ htk
    rw [parentWf_of he' (by rw [hf.1]; exact hp) htk', parentWf_of he hp htk, hw]

theorem below_old {w w' : World} (hg : Good w w') (hwf : WF w) (a : Nat) :
    ∀ (f x : Nat), x < w.execs.length → below w' a f x = true → below w a f x = true := by
  intro f
  induction f with
  | zero => intro x _ h; simp [below] at h
  | succ f ih =>
    intro x hx h
    simp only [below, Bool.or_eq_true] at h ⊢
    rcases h with h | h
    · exact Or.inl h
    · right
      have he : w.execs[x]? = some w.execs[x] := List.getElem?_eq_getElem hx
      rw [parentWf_old hg hwf he] at h
      cases hp : parentWf w x with
      | none => simp [hp] at h
      | some p => simp only [hp] at h ⊢; exact ih p (parentWf_lt hwf hp).2 h

/-- every execution at or below `a` is completed -/
def BelowDone (w : World) (a : Nat) : Prop :=
  ∀ (f x : Nat) (e : Exec), w.execs[x]? = some e → below w a f x = true → isCompleted e.state = true

/-- once everything below `a` is completed, no execution is ever created below `a` -/
theorem below_is_old {w w' : World} (hg : Good w w') (hwf : WF w) (a : Nat) (hd : BelowDone w a)
    (ha : a < w.execs.length) : ∀ (f x : Nat), below w' a f x = true → x < w.execs.length := by
  intro f
  induction f with
  | zero => intro x h; simp [below] at h
  | succ f ih =>
    intro x h
    simp only [below, Bool.or_eq_true] at h
    rcases h with h | h
    · have : x = a := by simpa using h
      omega
    · cases hp : parentWf w' x with
      | none => simp [hp] at h
      | some p =>
        simp only [hp] at h
        have hpl := ih p h
        rcases Nat.lt_or_ge x w.execs.length with hx | hx
        · exact hx
        · exfalso
          obtain ⟨e', t, tk, he', hpar, htk, hw⟩ := parentWf_eq hp
          rcases hg.freshExec x e' he' (List.getElem?_eq_none hx) with hn | ⟨t2, tk2, hpar2, htk2, hok⟩
          · rw [hn] at hpar; simp at hpar
          · rw [hpar] at hpar2; cases hpar2
            rw [htk] at htk2; cases htk2
            have hpe : w.execs[p]? = some w.execs[p] := List.getElem?_eq_getElem hpl
            have h1 := hok _ (by rw [hw]; exact hpe)
            have h2 := hd f p _ hpe (below_old hg hwf a f p hpl h)
            rw [h1] at h2; exact absurd h2 (by simp)

theorem belowDone_good {w w' : World} (hg : Good w w') (hwf : WF w) (a : Nat) (hd : BelowDone w a)
    (ha : a < w.execs.length) : BelowDone w' a := by
  intro f x e' he' hb
  have hx := below_is_old hg hwf a hd ha f x hb
  have he : w.execs[x]? = some w.execs[x] := List.getElem?_eq_getElem hx
  obtain ⟨e2, he2, hf⟩ := hg.execs x _ he
  rw [he'] at he2; cases he2
  have hc := hd f x _ he (below_old hg hwf a f x hx hb)
  rw [(hf.2.2.2.2 hc).1]; exact hc

end Mistral.Tree
