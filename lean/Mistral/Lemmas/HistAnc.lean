/-
Causal order of a history (independent of the order in which parents are listed), its tie to the `anc`
lists the run records, and the decidable hypotheses of the causal theorems (Props/C05Causal.lean).
-/
import Mistral.Lemmas.Hist

namespace Mistral.Hist
open Mistral Mistral.Dict Mistral.Ctx

/-! ### causal order, independent of the order in which parents are listed -/

/-- `Anc h q i`: task `q` is a strict causal ancestor of task `i` (a parent, or an ancestor of a parent).
    Only the SET of parents of a task matters. -/
inductive Anc (h : List Task) : Nat → Nat → Prop
  | parent {p i : Nat} {t : Task} : h[i]? = some t → p ∈ t.parents → p < i → Anc h p i
  | trans {q p i : Nat} {t : Task} : h[i]? = some t → p ∈ t.parents → p < i → Anc h q p → Anc h q i

/-- the task publishes the variable `k0` -/
def Publishes (k0 : String) (t : Task) : Prop := get? t.pub k0 ≠ none

instance (k0 : String) (t : Task) : Decidable (Publishes k0 t) := by unfold Publishes; exact inferInstance

/-- SHAPE-STABLE REPUBLICATION of the path `k0 :: rest` along the whole history (the explicit hypothesis;
    its negation is what known finding G needs): every publication of the variable `k0` holds a LEAF at
    the path, and no other publication touches the version key of the path. -/
def StableHist (k0 : String) (rest : List String) (h : List Task) : Prop := ∀ t ∈ h, StablePub k0 rest t.pub

instance (k0 : String) (rest : List String) (h : List Task) : Decidable (StableHist k0 rest h) := by
  unfold StableHist; exact inferInstance

theorem anc_lt {h : List Task} {q i : Nat} (a : Anc h q i) : q < i := by
  induction a with
  | parent _ _ hlt => exact hlt
  | trans _ _ hlt _ ih => omega

theorem anc_mono {h : List Task} (t : Task) {q i : Nat} (a : Anc h q i) : Anc (h ++ [t]) q i := by
  induction a with
  | parent hi hp hlt => exact Anc.parent (by rw [List.getElem?_append_left (lookup_lt hi)]; exact hi) hp hlt
  | trans hi hp hlt _ ih =>
    exact Anc.trans (by rw [List.getElem?_append_left (lookup_lt hi)]; exact hi) hp hlt ih

theorem anc_of_snoc {h : List Task} (t : Task) {q i : Nat} (a : Anc (h ++ [t]) q i) :
    i < h.length → Anc h q i := by
  induction a with
  | parent hi hp hlt =>
    intro hl
    rw [List.getElem?_append_left hl] at hi
    exact Anc.parent hi hp hlt
  | trans hi hp hlt _ ih =>
    intro hl
    rw [List.getElem?_append_left hl] at hi
    exact Anc.trans hi hp hlt (ih (by omega))

/-- the rows of a run record exactly the tasks of the history and their causal ancestors -/
structure Tied (h : List Task) (rows : List Row) : Prop where
  len : rows.length = h.length
  task : ∀ (i : Nat) (r : Row), rows[i]? = some r → h[i]? = some r.task
  anc : ∀ (i : Nat) (r : Row), rows[i]? = some r → ∀ q, q ∈ r.anc ↔ Anc h q i

theorem tied_nil : Tied [] [] := by
  constructor
  · rfl
  · intro i r h; simp at h
  · intro i r h; simp at h

theorem tied_step (h : List Task) (rows : List Row) (t : Task) (g : Tied h rows) :
    Tied (h ++ [t]) (stepRow rows t) := by
  have hstep : stepRow rows t = rows ++ [newRow rows t] := rfl
  rw [hstep]
  have hna : ∀ q, q ∈ (newRow rows t).anc ↔
      (q ∈ t.parents ∧ q < rows.length) ∨ ∃ pr ∈ parentRows rows t, q ∈ pr.anc := by
    intro q; simp [newRow, List.mem_append, List.mem_filter, List.mem_flatMap]
  constructor
  · simp [g.len]
  · intro i r hr
    rcases snoc_lookup rows _ i r hr with ⟨hi, hr⟩ | ⟨hi, rfl⟩
    · rw [List.getElem?_append_left (by rw [← g.len]; exact hi)]
      exact g.task i r hr
    · rw [hi, g.len, List.getElem?_concat_length]; rfl
  · intro i r hr q
    rcases snoc_lookup rows _ i r hr with ⟨hi, hr⟩ | ⟨hi, rfl⟩
    · rw [g.anc i r hr q]
      exact ⟨anc_mono t, fun a => anc_of_snoc t a (by rw [← g.len]; exact hi)⟩
    · rw [hna q]
      have hlast : (h ++ [t])[i]? = some t := by rw [hi, g.len, List.getElem?_concat_length]
      constructor
      · rintro (⟨hp, hlt⟩ | ⟨pr, hpr, hq⟩)
        · exact Anc.parent hlast hp (by omega)
        · obtain ⟨p, hpp, hp⟩ := (mem_parentRows rows t pr).mp hpr
          have hpl := lookup_lt hp
          exact Anc.trans hlast hpp (by omega) (anc_mono t ((g.anc p pr hp q).mp hq))
      · intro a
        cases a with
        | parent hi' hp hlt =>
          rw [hlast] at hi'; cases hi'
          exact Or.inl ⟨hp, by omega⟩
        | trans hi' hp hlt a' =>
          rw [hlast] at hi'; cases hi'
          rename_i p
          have hpl : p < rows.length := by omega
          obtain ⟨pr, hpr⟩ : ∃ pr, rows[p]? = some pr := ⟨rows[p], by simp [hpl]⟩
          have a'' := anc_of_snoc t a' (by rw [← g.len]; exact hpl)
          exact Or.inr ⟨pr, (mem_parentRows rows t pr).mpr ⟨p, hp, hpr⟩, (g.anc p pr hpr q).mpr a''⟩

theorem tied_run : ∀ (h : List Task), Tied h (runRows h) := by
  intro h
  induction h using snoc_induction with
  | hnil => exact tied_nil
  | hsnoc l a ih => rw [runRows_snoc]; exact tied_step l _ a ih

/-! ### leaves -/

theorem leafAt_of_shape {k0 : String} {rest : List String} {c : Ctx} (h : ShapeOK k0 rest c) :
    leafAt c.data k0 rest = getPath c.data k0 rest := by
  unfold leafAt
  cases hg : getPath c.data k0 rest with
  | none => rfl
  | some x => simp [h.leaf x hg]

theorem leafAt_of_stable {k0 : String} {rest : List String} {pub : Dict} (h : StablePub k0 rest pub) :
    leafAt pub k0 rest = getPath pub k0 rest := by
  unfold leafAt
  cases hg : getPath pub k0 rest with
  | none => rfl
  | some x =>
    rw [getPath_of_get?] at hg
    cases hgp : get? pub k0 with
    | none => simp [hgp] at hg
    | some v =>
      have h2 := h.2
      simp only [hgp] at h2 hg
      obtain ⟨y, hy, hyo⟩ := LeafPath.get rest v h2
      rw [hy] at hg; cases hg
      simp [hyo]

theorem publishes_of_getPath {k0 : String} {rest : List String} {t : Task} {x : Val}
    (h : getPath t.pub k0 rest = some x) : Publishes k0 t := by
  unfold Publishes
  rw [getPath_of_get?] at h
  cases hg : get? t.pub k0 with
  | none => simp [hg] at h
  | some v => simp

/-! ### the same DAG with parents listed in another order -/

/-- two histories that differ at most in the ORDER (and multiplicity) in which each task lists its parents -/
def SameUpToOrder (h1 h2 : List Task) : Prop :=
  h1.length = h2.length ∧ ∀ (i : Nat) (t1 t2 : Task), h1[i]? = some t1 → h2[i]? = some t2 →
    t1.pub = t2.pub ∧ ∀ p, p ∈ t1.parents ↔ p ∈ t2.parents

theorem anc_congr {h1 h2 : List Task} (s : SameUpToOrder h1 h2) {q i : Nat} (a : Anc h1 q i) : Anc h2 q i := by
  induction a with
  | @parent i t hi hp hlt =>
    have hl : i < h2.length := by rw [← s.1]; exact lookup_lt hi
    have h2i : h2[i]? = some h2[i] := by simp [hl]
    exact Anc.parent h2i (((s.2 i t _ hi h2i).2 _).mp hp) hlt
  | @trans p i t hi hp hlt _ ih =>
    have hl : i < h2.length := by rw [← s.1]; exact lookup_lt hi
    have h2i : h2[i]? = some h2[i] := by simp [hl]
    exact Anc.trans h2i (((s.2 i t _ hi h2i).2 _).mp hp) hlt ih

theorem SameUpToOrder.symm {h1 h2 : List Task} (s : SameUpToOrder h1 h2) : SameUpToOrder h2 h1 :=
  ⟨s.1.symm, fun i t1 t2 a b => ⟨((s.2 i t2 t1 b a).1).symm, fun p => ((s.2 i t2 t1 b a).2 p).symm⟩⟩

end Mistral.Hist
