/-
A WAITING verdict of `_get_join_logical_state` on the rows of a world has a blocker: an incomplete
execution (or, while PAUSED, a completed execution not yet continued) from which a path of tasks
WITHOUT rows leads to the join.
-/
import Mistral.Lemmas.LiveDefs
namespace Mistral.Engine.Live
open Mistral Mistral.Join Mistral.Engine

/-- what the join logic reads of a task execution row -/
def toRow (t : TaskRow) : Row := ⟨t.name, t.state, t.nextTasks⟩

theorem findRow_rowsOf (w : World) (n : String) :
    findRow (rowsOf w) n = (findByName w n).map toRow := by
  unfold findRow rowsOf findByName
  rw [List.filter_map, List.getLast?_map]
  rfl

theorem findByName_some {w : World} {n : String} {a : TaskRow} (h : findByName w n = some a) :
    a ∈ w.tasks ∧ a.name = n := by
  unfold findByName at h
  have hm := List.mem_of_getLast? h
  have := List.mem_filter.mp hm
  exact ⟨this.1, by simpa using this.2⟩

theorem findRow_none {w : World} {n : String} (h : findRow (rowsOf w) n = none) :
    findByName w n = none := by
  rw [findRow_rowsOf] at h
  simpa using h

theorem findRow_some {w : World} {n : String} {r : Row} (h : findRow (rowsOf w) n = some r) :
    ∃ a, findByName w n = some a ∧ r = toRow a := by
  rw [findRow_rowsOf] at h
  cases hf : findByName w n with
  | none => rw [hf] at h; cases h
  | some a => rw [hf] at h; simp only [Option.map_some, Option.some.injEq] at h; exact ⟨a, rfl, h.symm⟩

theorem mapM_some_mem {α β : Type} (f : α → Option β) :
    ∀ (l : List α) (xs : List β), l.mapM f = some xs →
      xs.length = l.length ∧ ∀ i ∈ xs, ∃ p ∈ l, f p = some i := by
  intro l
  induction l with
  | nil => intro xs h; simp at h; subst h; simp
  | cons a l ih =>
    intro xs h
    rw [List.mapM_cons] at h
    cases hfa : f a with
    | none => rw [hfa] at h; simp at h
    | some b =>
      rw [hfa] at h
      cases hl : l.mapM f with
      | none => rw [hl] at h; simp at h
      | some ys =>
        rw [hl] at h
        simp at h
        subst h
        obtain ⟨h1, h2⟩ := ih ys hl
        refine ⟨by simp [h1], ?_⟩
        intro i hi
        rcases List.mem_cons.mp hi with e | e
        · subst e; exact ⟨a, List.mem_cons_self, hfa⟩
        · obtain ⟨p, hp, hfp⟩ := h2 i e
          exact ⟨p, List.mem_cons_of_mem _ hp, hfp⟩

theorem count_split (xs : List Induced)
    (h : ∀ i ∈ xs, i.state = .WAITING ∨ i.state = .RUNNING ∨ i.state = .ERROR) :
    xs.length = countState xs .WAITING + countState xs .RUNNING + countState xs .ERROR := by
  induction xs with
  | nil => rfl
  | cons a xs ih =>
    have ih' := ih (fun i hi => h i (List.mem_cons_of_mem _ hi))
    have ha := h a List.mem_cons_self
    unfold countState at *
    simp only [List.filter_cons, List.length_cons]
    rcases ha with e | e | e <;> simp [e] <;> omega

theorem count_pos (xs : List Induced) (s : St) (h : 0 < countState xs s) :
    ∃ i ∈ xs, i.state = s := by
  unfold countState at h
  obtain ⟨i, hi⟩ := List.exists_mem_of_length_pos h
  have := List.mem_filter.mp hi
  exact ⟨i, this.1, by simpa using this.2⟩

theorem decide_waiting (k : JoinKind) (xs : List Induced)
    (h : ∀ i ∈ xs, i.state = .WAITING ∨ i.state = .RUNNING ∨ i.state = .ERROR)
    (hk : ∀ n, k = .count n → n ≤ xs.length)
    (hnr : (Join.decide k xs).state ≠ .RUNNING) (hne : (Join.decide k xs).state ≠ .ERROR) :
    ∃ i ∈ xs, i.state = .WAITING := by
  apply count_pos
  have hs := count_split xs h
  unfold Join.decide at hnr hne
  cases k with
  | all =>
    simp only at hnr hne
    by_cases h1 : (xs.length == countState xs .RUNNING) = true
    · simp [h1] at hnr
    · by_cases h2 : countState xs .ERROR > 0
      · simp [h1, h2] at hne
      · simp only [beq_iff_eq] at h1
        omega
  | count n =>
    have hn := hk n rfl
    simp only at hnr hne
    by_cases h1 : countState xs .RUNNING ≥ n
    · simp [h1] at hnr
    · by_cases h2 : countState xs .ERROR > xs.length - n
      · simp [h1, h2] at hne
      · omega

theorem find_unique (l : List TaskG) (hnd : (l.map (·.name)).Nodup) (p : TaskG) (hp : p ∈ l) :
    l.find? (·.name == p.name) = some p := by
  induction l with
  | nil => cases hp
  | cons a l ih =>
    simp only [List.map_cons, List.nodup_cons] at hnd
    rw [List.find?_cons]
    rcases List.mem_cons.mp hp with e | e
    · subst e; simp
    · have : (a.name == p.name) = false := by
        apply Bool.eq_false_iff.mpr
        intro hc
        simp only [beq_iff_eq] at hc
        exact hnd.1 (hc ▸ List.mem_map_of_mem e)
      rw [this]
      exact ih hnd.2 e

theorem inbound_edge (sp : Spec) (hnodup : namesUnique sp) (t : String) (p : TaskG)
    (hp : p ∈ inbound sp.graph t) :
    known sp p.name = true ∧ t ∈ outsOf sp p.name := by
  unfold inbound at hp
  have hm := List.mem_filter.mp hp
  have hf := find_unique sp.graph.tasks hnodup p hm.1
  unfold known outsOf
  rw [hf]
  refine ⟨rfl, ?_⟩
  simpa using hm.2

theorem passes_of_no_row (sp : Spec) (w : World) (n : String) (hk : known sp n = true)
    (hr : findByName w n = none) : passes sp w n = true := by
  unfold passes joinWithRow
  simp [hk, hr]

theorem Path.snoc {sp : Spec} {w : World} {x y z : String} (h : Path sp w x y)
    (hp : passes sp w y = true) (hz : z ∈ outsOf sp y) : Path sp w x z := by
  induction h with
  | edge h => exact .cons h hp (.edge hz)
  | cons h1 h2 _ ih => exact .cons h1 h2 (ih hp hz)

/-- the blockers of a task without a row that the route search still considers reachable -/
def BlockedAt (sp : Spec) (w : World) (t : String) : Prop :=
  (∃ u ∈ w.tasks, isCompleted u.state = false ∧ Path sp w u.name t) ∨
  (∃ u ∈ w.tasks, isCompleted u.state = true ∧ u.processed = false ∧
     ∃ x ∈ u.nextTasks, findByName w x.1 = none ∧ (x.1 = t ∨ Path sp w x.1 t))

theorem BlockedAt.step {sp : Spec} {w : World} {y z : String} (h : BlockedAt sp w y)
    (hp : passes sp w y = true) (hz : z ∈ outsOf sp y) : BlockedBy sp w z := by
  rcases h with ⟨u, hu, hc, hpath⟩ | ⟨u, hu, hc, hpr, x, hx, hxr, hxy⟩
  · exact ⟨u, hu, Or.inl ⟨hc, hpath.snoc hp hz⟩⟩
  · refine ⟨u, hu, Or.inr ⟨hc, hpr, x, hx, hxr, ?_⟩⟩
    rcases hxy with e | e
    · rw [e]; exact .edge hz
    · exact e.snoc hp hz

theorem BlockedBy.at {sp : Spec} {w : World} {z : String} (h : BlockedBy sp w z) :
    BlockedAt sp w z := by
  obtain ⟨u, hu, h⟩ := h
  rcases h with ⟨hc, hpath⟩ | ⟨hc, hpr, x, hx, hxr, hxy⟩
  · exact Or.inl ⟨u, hu, hc, hpath⟩
  · exact Or.inr ⟨u, hu, hc, hpr, x, hx, hxr, Or.inr hxy⟩

theorem route_blocked (sp : Spec) (w : World) (hnodup : namesUnique sp)
    (hstarts : ∀ t ∈ sp.graph.tasks, (inbound sp.graph t.name).isEmpty = true → findByName w t.name ≠ none)
    (hroutes : ∀ a ∈ w.tasks, isCompleted a.state = true → a.processed = true →
       ∀ x ∈ a.nextTasks, findByName w x.1 ≠ none) :
    ∀ (fuel : Nat) (t : String) (d d' : Nat), (∃ tg ∈ sp.graph.tasks, tg.name = t) →
      findByName w t = none →
      possibleRoute sp.graph (rowsOf w) fuel t d = some (true, d') → BlockedAt sp w t := by
  intro fuel
  induction fuel with
  | zero => intro t d d' _ _ h; simp [possibleRoute] at h
  | succ n ih =>
    intro t d d' htg hrow h
    unfold possibleRoute at h
    simp only at h
    split at h
    · rename_i hempty
      obtain ⟨tg, htg, rfl⟩ := htg
      exact absurd hrow (hstarts tg htg hempty)
    · have hl : ∀ (l : List TaskG) (d : Nat), (∀ q ∈ l, q ∈ inbound sp.graph t) →
          possibleRoute.loop sp.graph (rowsOf w) n t l d = some (true, d') → BlockedAt sp w t := by
        intro l
        induction l with
        | nil => intro d _ h; simp [possibleRoute.loop] at h
        | cons q qs ihl =>
          intro d hq h
          have hqin := hq q List.mem_cons_self
          have hqs : ∀ q' ∈ qs, q' ∈ inbound sp.graph t := fun q' hq' => hq q' (List.mem_cons_of_mem _ hq')
          obtain ⟨hknown, hedge⟩ := inbound_edge sp hnodup t q hqin
          have hqmem : q ∈ sp.graph.tasks := (List.mem_filter.mp hqin).1
          unfold possibleRoute.loop at h
          split at h
          · rename_i hfr
            have hnr := findRow_none hfr
            split at h
            · cases h
            · rename_i d'' hrec
              have hb := ih q.name (d + 1) d'' ⟨q, hqmem, rfl⟩ hnr hrec
              exact (hb.step (passes_of_no_row sp w q.name hknown hnr) hedge).at
            · exact ihl _ hqs h
          · rename_i r hfr
            obtain ⟨a, hfa, rfl⟩ := findRow_some hfr
            obtain ⟨hamem, haname⟩ := findByName_some hfa
            split at h
            · rename_i hinc
              refine Or.inl ⟨a, hamem, ?_, ?_⟩
              · simpa [toRow] using hinc
              · rw [haname]; exact .edge hedge
            · rename_i hcomp
              have hcomp' : isCompleted a.state = true := by simpa [toRow] using hcomp
              split at h
              · rename_i hroute
                unfold routesTo at hroute
                obtain ⟨x, hx, hxt⟩ := List.any_eq_true.mp hroute
                have hxt' : x.1 = t := by simpa using hxt
                have hx' : x ∈ a.nextTasks := hx
                cases hpr : a.processed with
                | true =>
                  exact absurd (hxt' ▸ hrow) (hroutes a hamem hcomp' hpr x hx')
                | false =>
                  exact Or.inr ⟨a, hamem, hcomp', hpr, x, hx', hxt' ▸ hrow, Or.inl hxt'⟩
              · exact ihl _ hqs h
      exact hl _ d (fun q hq => hq) h

theorem inducedState_state {g : Graph} {rows : List Row} {fuel : Nat} {p : TaskG} {j : String}
    {i : Induced} (h : inducedState g rows fuel p j = some i) :
    i.state = .WAITING ∨ i.state = .RUNNING ∨ i.state = .ERROR := by
  unfold inducedState at h
  split at h
  · split at h
    · cases h
    · cases h; simp
    · cases h; simp
  · split at h
    · cases h; simp
    · split at h
      · cases h; simp
      · cases h; simp

theorem waiting_verdict_blocked (sp : Spec) (w : World) (j : String) (k : JoinKind) (L : Logical) (fuel : Nat)
    (hnodup : namesUnique sp)
    (hk : ∀ n, k = .count n → n ≤ (inbound sp.graph j).length)
    (hL : joinLogicalState sp.graph (rowsOf w) fuel j k = some L)
    (hnr : L.state ≠ .RUNNING) (hne : L.state ≠ .ERROR)
    (hstarts : ∀ t ∈ sp.graph.tasks, (inbound sp.graph t.name).isEmpty = true → findByName w t.name ≠ none)
    (hroutes : ∀ a ∈ w.tasks, isCompleted a.state = true → a.processed = true →
       ∀ x ∈ a.nextTasks, findByName w x.1 ≠ none) :
    BlockedBy sp w j := by
  unfold joinLogicalState at hL
  simp only at hL
  split at hL
  · cases hL; exact absurd rfl hnr
  · split at hL
    · cases hL
    · rename_i xs hxs
      cases hL
      obtain ⟨hlen, hmem⟩ := mapM_some_mem _ _ _ hxs
      have hst : ∀ i ∈ xs, i.state = .WAITING ∨ i.state = .RUNNING ∨ i.state = .ERROR := by
        intro i hi
        obtain ⟨p, _, hp⟩ := hmem i hi
        exact inducedState_state hp
      obtain ⟨i, hi, hiw⟩ := decide_waiting k xs hst (by rw [hlen]; exact hk) hnr hne
      obtain ⟨p, hpin, hp⟩ := hmem i hi
      obtain ⟨hknown, hedge⟩ := inbound_edge sp hnodup j p hpin
      have hpmem : p ∈ sp.graph.tasks := (List.mem_filter.mp hpin).1
      unfold inducedState at hp
      split at hp
      · rename_i hfr
        have hnrow := findRow_none hfr
        split at hp
        · cases hp
        · rename_i d hrec
          have hb := route_blocked sp w hnodup hstarts hroutes fuel p.name 1 d ⟨p, hpmem, rfl⟩ hnrow hrec
          exact hb.step (passes_of_no_row sp w p.name hknown hnrow) hedge
        · cases hp; cases hiw
      · rename_i r hfr
        obtain ⟨a, hfa, rfl⟩ := findRow_some hfr
        obtain ⟨hamem, haname⟩ := findByName_some hfa
        split at hp
        · rename_i hinc
          refine ⟨a, hamem, Or.inl ⟨?_, ?_⟩⟩
          · simpa [toRow] using hinc
          · rw [haname]; exact .edge hedge
        · split at hp
          · cases hp; cases hiw
          · cases hp; cases hiw

end Mistral.Engine.Live
