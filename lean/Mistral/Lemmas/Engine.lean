import Mistral.Model.Engine
namespace Mistral.Engine
open Mistral Mistral.Join

/-- identities of the task executions, in creation order -/
def ids (w : World) : List Tid := w.tasks.map fun r => (r.name, r.occ)

theorem setTask_ids (ts : List TaskRow) (r : TaskRow) :
    (setTask ts r).map (fun x => (x.name, x.occ)) = ts.map (fun x => (x.name, x.occ)) := by
  unfold setTask
  induction ts with
  | nil => rfl
  | cons t rest ih =>
    simp only [List.map_cons]
    by_cases h : (t.name == r.name && t.occ == r.occ) = true
    · simp only [h, if_true]
      have h' := h
      simp only [Bool.and_eq_true, beq_iff_eq] at h'
      rw [ih, h'.1, h'.2]
    · simp only [h]
      rw [ih]
      rfl

theorem setTask_length (ts : List TaskRow) (r : TaskRow) : (setTask ts r).length = ts.length := by
  simp [setTask]

/-! ### the dispatcher creates nothing while PAUSED or after completion -/

theorem dispatchOne_inert (sp : Spec) (w : World) (n : Cmd)
    (h : isCompleted w.wf = true ∨ w.wf = .PAUSED) :
    ids (dispatchOne sp w n) = ids w ∧ (dispatchOne sp w n).wf = w.wf ∧
    (dispatchOne sp w n).pending = w.pending := by
  unfold dispatchOne
  rcases h with h | h
  · simp [h]
  · have hc : isCompleted St.PAUSED = false := by decide
    simp [h, hc, ids]

theorem dispatch_inert (sp : Spec) (targets : List Cmd) :
    ∀ (w : World), (isCompleted w.wf = true ∨ w.wf = .PAUSED) →
      ids (dispatch sp w targets) = ids w ∧ (dispatch sp w targets).wf = w.wf ∧
      (dispatch sp w targets).pending = w.pending := by
  unfold dispatch
  induction targets with
  | nil => intro w _; simp
  | cons n rest ih =>
    intro w h
    simp only [List.foldl_cons]
    have h1 := dispatchOne_inert sp w n h
    have h2 : isCompleted (dispatchOne sp w n).wf = true ∨ (dispatchOne sp w n).wf = .PAUSED := by
      rw [h1.2.1]; exact h
    have h3 := ih (dispatchOne sp w n) h2
    exact ⟨h3.1.trans h1.1, h3.2.1.trans h1.2.1, h3.2.2.trans h1.2.2⟩

theorem dispatchOne_wf (sp : Spec) (w : World) (n : Cmd) : (dispatchOne sp w n).wf = w.wf := by
  unfold dispatchOne
  simp only
  split
  · rfl
  · split
    · rfl
    · split
      · split <;> (try split) <;> rfl
      · rfl

theorem dispatch_wf (sp : Spec) (targets : List Cmd) : ∀ w, (dispatch sp w targets).wf = w.wf := by
  unfold dispatch
  induction targets with
  | nil => intro w; rfl
  | cons n rest ih => intro w; simp only [List.foldl_cons]; rw [ih, dispatchOne_wf]

theorem checkAffected_tasks (sp : Spec) (w : World) (t : Tid) :
    (checkAffected sp w t).tasks = w.tasks ∧ (checkAffected sp w t).wf = w.wf := by
  unfold checkAffected
  split
  · exact ⟨rfl, rfl⟩
  · split
    · exact ⟨rfl, rfl⟩
    · split <;> exact ⟨rfl, rfl⟩

theorem checkAndComplete_ids (w : World) : ids (checkAndComplete w) = ids w := by
  unfold checkAndComplete
  split
  · rfl
  · split
    · rfl
    · split
      · rfl
      · split <;> rfl

theorem checkAndComplete_inert (w : World) (h : isPausedOrCompleted w.wf = true) :
    checkAndComplete w = w := by
  simp [checkAndComplete, h]

/-- `Task.complete` while the workflow is PAUSED or completed creates no task and leaves the
    workflow state alone -/
theorem completeTask_inert (sp : Spec) (w : World) (r : TaskRow) (s : St)
    (h : isCompleted w.wf = true ∨ w.wf = .PAUSED) :
    ids (completeTask sp w r s) = ids w ∧ (completeTask sp w r s).wf = w.wf := by
  unfold completeTask
  split
  · have := checkAffected_tasks sp w (r.name, r.occ)
    exact ⟨by unfold ids; rw [this.1], this.2⟩
  · simp only
    have key : ∀ (w2 : World), ids w2 = ids w → w2.wf = w.wf →
        ids (checkAffected sp w2 (r.name, r.occ)) = ids w ∧ (checkAffected sp w2 (r.name, r.occ)).wf = w.wf := by
      intro w2 h1 h2
      have := checkAffected_tasks sp w2 (r.name, r.occ)
      exact ⟨by unfold ids at *; rw [this.1]; exact h1, by rw [this.2]; exact h2⟩
    apply key
    · rcases h with h | h
      · -- completed workflow: not paused, no commands (nt = []), dispatch of [] is the identity
        have hp : isPaused w.wf = false := by
          cases hw : w.wf <;> simp_all [isCompleted, isPaused, Gen.States.completedStates, Gen.States.pausedStates] <;> rfl
        simp only [h, if_true, hp, List.isEmpty_nil, List.map_nil]
        simp [dispatch, ids, setTask_ids]
      · have hp : isPaused w.wf = true := by rw [h]; decide
        simp only [hp, if_true]
        simp [ids, setTask_ids]
    · rcases h with h | h
      · have hp : isPaused w.wf = false := by
          cases hw : w.wf <;> simp_all [isCompleted, isPaused, Gen.States.completedStates, Gen.States.pausedStates] <;> rfl
        simp only [h, if_true, hp, List.isEmpty_nil, List.map_nil]
        simp [dispatch]
      · have hp : isPaused w.wf = true := by rw [h]; decide
        simp only [hp, if_true]


theorem completeTask_wf (sp : Spec) (w : World) (r : TaskRow) (s : St) :
    (completeTask sp w r s).wf = w.wf := by
  unfold completeTask
  split
  · exact (checkAffected_tasks sp _ _).2
  · simp only
    rw [(checkAffected_tasks sp _ _).2]
    split
    · rfl
    · rw [dispatch_wf]
      split <;> simp <;> split <;> rfl

/-- the states a workflow execution can be in once it has been started -/
def StartedWf (s : St) : Prop := s = .RUNNING ∨ s = .PAUSED ∨ s = .SUCCESS ∨ s = .ERROR ∨ s = .CANCELLED

instance (s : St) : Decidable (StartedWf s) := by unfold StartedWf; exact inferInstance

theorem checkAndComplete_wf (w : World) :
    (checkAndComplete w).wf = w.wf ∨
    (isPausedOrCompleted w.wf = false ∧
      ((checkAndComplete w).wf = .CANCELLED ∨ (checkAndComplete w).wf = .SUCCESS ∨ (checkAndComplete w).wf = .ERROR)) := by
  unfold checkAndComplete
  split
  · exact Or.inl rfl
  · rename_i h
    have h' : isPausedOrCompleted w.wf = false := by simpa using h
    split
    · exact Or.inl rfl
    · split
      · exact Or.inr ⟨h', Or.inl rfl⟩
      · split
        · exact Or.inr ⟨h', Or.inr (Or.inl rfl)⟩
        · exact Or.inr ⟨h', Or.inr (Or.inr rfl)⟩

/-- how the workflow state can change in one step -/
theorem step_wf (sp : Spec) (w : World) (ev : Event) :
    (step sp w ev).wf = w.wf ∨
    (ev = .start ∧ w.wf = .IDLE ∧ (step sp w ev).wf = .RUNNING) ∨
    (ev = .pause ∧ (step sp w ev).wf = (Lifecycle.wfApply w.wf .pause).1) ∨
    (∃ t, ev = .stop t ∧ (step sp w ev).wf = (Lifecycle.wfApply w.wf (.stop t)).1) ∨
    (ev = .resume ∧ isPausedOrIdle w.wf = true ∧
      ((step sp w ev).wf = .RUNNING ∨ (step sp w ev).wf = .CANCELLED ∨ (step sp w ev).wf = .SUCCESS ∨
       (step sp w ev).wf = .ERROR)) ∨
    (ev = .deliver .postCheck ∧ isPausedOrCompleted w.wf = false ∧
      ((step sp w ev).wf = .CANCELLED ∨ (step sp w ev).wf = .SUCCESS ∨ (step sp w ev).wf = .ERROR)) := by
  cases ev with
  | start =>
    simp only [step]
    split
    · exact Or.inl rfl
    · rename_i h
      have : w.wf = .IDLE := by simpa using h
      refine Or.inr (Or.inl ⟨trivial, this, ?_⟩)
      rw [dispatch_wf]
  | pause => exact Or.inr (Or.inr (Or.inl ⟨rfl, rfl⟩))
  | stop t => exact Or.inr (Or.inr (Or.inr (Or.inl ⟨t, rfl, rfl⟩)))
  | execute t ok => simp only [step]; split <;> exact Or.inl rfl
  | resume =>
    simp only [step]
    split
    · exact Or.inl rfl
    · rename_i h
      have hpi : isPausedOrIdle w.wf = true := by simpa using h
      have hrun : (Lifecycle.wfApply w.wf .resume).1 = .RUNNING := by
        cases hw : w.wf <;> simp_all [isPausedOrIdle, isPaused, isIdle, Gen.States.pausedStates, Gen.States.idleStates] <;> decide
      refine Or.inr (Or.inr (Or.inr (Or.inr (Or.inl ⟨trivial, hpi, ?_⟩))))
      simp only [hrun]
      have hnc : isCompleted St.RUNNING = false := by decide
      simp only [hnc, Bool.false_eq_true, if_false]
      split
      · rcases checkAndComplete_wf _ with h1 | ⟨_, h2⟩
        · exact Or.inl h1
        · rcases h2 with h2 | h2 | h2
          · exact Or.inr (Or.inl h2)
          · exact Or.inr (Or.inr (Or.inl h2))
          · exact Or.inr (Or.inr (Or.inr h2))
      · left
        rw [dispatch_wf]
        show (dispatch sp _ _).wf = _
        rw [dispatch_wf]
  | deliver it =>
    simp only [step]
    split
    · exact Or.inl rfl
    · cases it with
      | postStartTask t f => exact Or.inl rfl
      | postRunAction t => exact Or.inl rfl
      | runAction t => exact Or.inl rfl
      | postCheck =>
        simp only
        rcases checkAndComplete_wf { w with pending := removeFirst w.pending .postCheck } with h1 | ⟨h0, h2⟩
        · exact Or.inl h1
        · exact Or.inr (Or.inr (Or.inr (Or.inr (Or.inr ⟨trivial, h0, h2⟩))))
      | postSchedRefresh t => simp only; split <;> exact Or.inl rfl
      | rpcStartTask t firstRun =>
        simp only
        split
        · exact Or.inl rfl
        · split
          · split
            · exact Or.inl rfl
            · split
              · split <;> exact Or.inl rfl
              · exact Or.inl (checkAffected_tasks sp _ t).2
          · split
            · exact Or.inl rfl
            · split
              · exact Or.inl (checkAffected_tasks sp _ t).2
              · split <;> exact Or.inl rfl
      | rpcResult t ok =>
        simp only
        split
        · exact Or.inl rfl
        · exact Or.inl (completeTask_wf sp _ _ _)
      | jobRefresh t =>
        simp only
        split
        · exact Or.inl rfl
        · split
          · exact Or.inl rfl
          · split
            · exact Or.inl rfl
            · split
              · exact Or.inl rfl
              · split
                · exact Or.inl rfl
                · split
                  · split <;> exact Or.inl rfl
                  · split
                    · exact Or.inl (completeTask_wf sp _ _ _)
                    · exact Or.inl rfl


/-- looking up a row that `setTask` has just written -/
theorem find_setTask (ts : List TaskRow) (r r1 : TaskRow) (hn : r1.name = r.name) (ho : r1.occ = r.occ)
    (h : ts.find? (fun x => x.name == r.name && x.occ == r.occ) = some r) :
    (setTask ts r1).find? (fun x => x.name == r.name && x.occ == r.occ) = some r1 := by
  unfold setTask
  induction ts with
  | nil => simp at h
  | cons t rest ih =>
    simp only [List.map_cons]
    by_cases ht : (t.name == r.name && t.occ == r.occ) = true
    · have ht1 : (t.name == r1.name && t.occ == r1.occ) = true := by rw [hn, ho]; exact ht
      simp only [ht1, if_true, List.find?_cons]
      have : (r1.name == r.name && r1.occ == r.occ) = true := by simp [hn, ho]
      simp [this]
    · have ht1 : (t.name == r1.name && t.occ == r1.occ) = false := by
        rw [hn, ho]; simpa using ht
      simp only [ht1, Bool.false_eq_true, if_false, List.find?_cons]
      have hf : (t.name == r.name && t.occ == r.occ) = false := by simpa using ht
      simp only [hf]
      rw [List.find?_cons, hf] at h
      exact ih h

/-! ### the `crashed` flag -/

theorem dispatchOne_crashed (sp : Spec) (w : World) (c : Cmd) : (dispatchOne sp w c).crashed = w.crashed := by
  unfold dispatchOne
  simp only
  split
  · rfl
  · split
    · rfl
    · split
      · split <;> (try split) <;> rfl
      · rfl

theorem dispatch_crashed (sp : Spec) (cs : List Cmd) : ∀ w, (dispatch sp w cs).crashed = w.crashed := by
  unfold dispatch
  induction cs with
  | nil => intro w; rfl
  | cons c rest ih => intro w; simp only [List.foldl_cons]; rw [ih, dispatchOne_crashed]

theorem checkAffected_crashed (sp : Spec) (w : World) (t : Tid) : (checkAffected sp w t).crashed = w.crashed := by
  unfold checkAffected
  split
  · rfl
  · split
    · rfl
    · split <;> rfl

theorem checkAndComplete_crashed (w : World) : (checkAndComplete w).crashed = w.crashed := by
  unfold checkAndComplete
  split
  · rfl
  · split
    · rfl
    · split
      · rfl
      · split <;> rfl

theorem completeTask_crashed (sp : Spec) (w : World) (r : TaskRow) (s : St) :
    (completeTask sp w r s).crashed = w.crashed := by
  unfold completeTask
  split
  · exact checkAffected_crashed sp _ _
  · simp only
    rw [checkAffected_crashed]
    split
    · rfl
    · rw [dispatch_crashed]
      split <;> simp <;> split <;> rfl

end Mistral.Engine
