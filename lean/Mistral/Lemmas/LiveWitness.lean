/-
The witness of `no_stuck_acyclic_full_fails` (C01): a partial join re-run by its late branch
completes while the workflow is PAUSED with the stale `processed` flag of its first completion;
`resume` never continues it, and the later `join: all` waits forever.  Replayed event by event on
the real engine (corpus/C01/stale_processed_join.json): rows and pending deliveries equal after
every event, the real execution ends RUNNING with nothing deliverable.
-/
import Mistral.Lemmas.LiveDefs2
namespace Mistral.Engine.Live
open Mistral Mistral.Join Mistral.Engine

def wGraph : Graph := {
  tasks := [⟨"a", none, ["j"], [], [], []⟩, ⟨"b", none, ["j"], [], [], []⟩,
            ⟨"j", some (.count 1), ["k"], ["e"], [], []⟩, ⟨"k", none, ["z"], [], [], []⟩,
            ⟨"e", none, ["z"], [], [], []⟩, ⟨"z", some .all, [], [], [], []⟩],
  defaults := none }

def wSpec : Spec := {
  graph := wGraph,
  live := [⟨"a", ["j"], [], []⟩, ⟨"b", ["j"], [], []⟩, ⟨"j", ["k"], ["e"], []⟩, ⟨"k", ["z"], [], []⟩,
           ⟨"e", ["z"], [], []⟩, ⟨"z", [], [], []⟩] }

def wRank : String → Nat := fun n =>
  if n == "a" || n == "b" then 0 else if n == "j" then 1 else if n == "k" || n == "e" then 2 else if n == "z" then 3 else 0

def wEvents : List Event :=
  [.start,
   .deliver (.postStartTask ("b", 0) true),
   .deliver (.rpcStartTask ("b", 0) true),
   .deliver (.postRunAction ("b", 0)),
   .execute ("b", 0) true,
   .deliver (.rpcResult ("b", 0) true),
   .deliver (.postStartTask ("j", 0) true),
   .deliver (.rpcStartTask ("j", 0) true),
   .deliver (.postSchedRefresh ("j", 0)),
   .deliver (.jobRefresh ("j", 0)),
   .deliver (.postRunAction ("j", 0)),
   .execute ("j", 0) false,
   .deliver (.rpcResult ("j", 0) false),
   .deliver (.postStartTask ("a", 0) true),
   .deliver (.rpcStartTask ("a", 0) true),
   .deliver (.postRunAction ("a", 0)),
   .execute ("a", 0) true,
   .deliver (.rpcResult ("a", 0) true),
   .pause,
   .deliver (.postStartTask ("j", 0) true),
   .deliver (.rpcStartTask ("j", 0) true),
   .deliver (.postSchedRefresh ("j", 0)),
   .deliver (.jobRefresh ("j", 0)),
   .deliver (.postRunAction ("j", 0)),
   .execute ("j", 0) true,
   .deliver (.rpcResult ("j", 0) true),
   .deliver (.postStartTask ("e", 0) true),
   .deliver (.rpcStartTask ("e", 0) true),
   .deliver (.postRunAction ("e", 0)),
   .execute ("e", 0) true,
   .deliver (.rpcResult ("e", 0) true),
   .resume,
   .deliver (.postStartTask ("z", 0) true),
   .deliver (.rpcStartTask ("z", 0) true),
   .deliver (.jobRefresh ("z", 0))]

end Mistral.Engine.Live

namespace Mistral.Engine.Live
open Mistral Mistral.Join Mistral.Engine

theorem jobRefresh_stays_waiting (sp : Spec) (w : World) (t : Tid) (r : TaskRow) (k : JoinKind) (L : Logical)
    (hp : w.pending.contains (.jobRefresh t) = true) (hf : findTask w t = some r) (hst : r.state = .WAITING)
    (hwf : isCompleted w.wf = false) (hj : isJoin sp t.1 = some k)
    (hL : joinLogicalState sp.graph (rowsOf w) (fuelFor sp) t.1 k = some L) (hLs : L.state = .WAITING) :
    (step sp w (.deliver (.jobRefresh t))).wf = w.wf ∧
    (step sp w (.deliver (.jobRefresh t))).pending = removeFirst w.pending (.jobRefresh t) := by
  have hf' : findTask { w with pending := removeFirst w.pending (.jobRefresh t) } t = some r := hf
  have hL' : joinLogicalState sp.graph (rowsOf { w with pending := removeFirst w.pending (.jobRefresh t) })
      (fuelFor sp) t.1 k = some L := hL
  have hc : isCompleted St.WAITING = false := by decide
  simp only [step, hp, Bool.not_true, Bool.false_eq_true, if_false, hf', hst, hc, hwf, hj, hL', hLs]
  simp

def wRows : List Row :=
  [⟨"a", .SUCCESS, [("j", "on-success")]⟩, ⟨"b", .SUCCESS, [("j", "on-success")]⟩,
   ⟨"j", .SUCCESS, [("k", "on-success")]⟩, ⟨"e", .SUCCESS, [("z", "on-success")]⟩,
   ⟨"z", .WAITING, []⟩]

theorem wRoute_k : possibleRoute wGraph wRows 200 "k" 1 = some (true, 1) := by
  show possibleRoute wGraph wRows (199 + 1) "k" 1 = _
  have hin : inbound wGraph "k" = [⟨"j", some (.count 1), ["k"], ["e"], [], []⟩] := by
    simp [inbound, wGraph, outNames, clause]
  unfold possibleRoute
  simp only [hin, List.isEmpty_cons]
  have hc : isCompleted St.SUCCESS = true := by decide
  simp [possibleRoute.loop, findRow, wRows, routesTo, hc]

theorem wJoin_z : ∃ L, joinLogicalState wGraph wRows 200 "z" .all = some L ∧ L.state = .WAITING := by
  have hin : inbound wGraph "z" = [⟨"k", none, ["z"], [], [], []⟩, ⟨"e", none, ["z"], [], [], []⟩] := by
    simp [inbound, wGraph, outNames, clause]
  have hc : isCompleted St.SUCCESS = true := by decide
  have hk : inducedState wGraph wRows 200 ⟨"k", none, ["z"], [], [], []⟩ "z" = some ⟨"k", false, .WAITING, 1, none⟩ := by
    simp [inducedState, wRoute_k]
    simp [findRow, wRows]
  have he : inducedState wGraph wRows 200 ⟨"e", none, ["z"], [], [], []⟩ "z" = some ⟨"e", true, .RUNNING, 1, some "on-success"⟩ := by
    simp [inducedState, findRow, wRows, hc]
  unfold joinLogicalState
  simp only [hin, List.isEmpty_cons]
  simp [List.mapM_cons, hk, he, Join.decide, countState]


def rowTup (r : Row) : String × St × List (String × String) := (r.name, r.state, r.nextTasks)
def tupRow (p : String × St × List (String × String)) : Row := ⟨p.1, p.2.1, p.2.2⟩

theorem rows_of_tups (rows : List Row) (l : List (String × St × List (String × String)))
    (h : rows.map rowTup = l) : rows = l.map tupRow := by
  subst h
  rw [List.map_map]
  have : tupRow ∘ rowTup = id := by funext r; cases r; rfl
  rw [this, List.map_id]

theorem wEvents_split : wEvents = wEvents.take 34 ++ [.deliver (.jobRefresh ("z", 0))] := by rfl

theorem run_snoc (sp : Spec) (l : List Event) (e : Event) : run sp (l ++ [e]) = step sp (run sp l) e := by
  simp [run, List.foldl_append]

theorem w34_wf : (run wSpec (wEvents.take 34)).wf = .RUNNING := by decide +kernel
theorem w34_pending : (run wSpec (wEvents.take 34)).pending = [.jobRefresh ("z", 0)] := by decide +kernel
theorem w34_rows : (rowsOf (run wSpec (wEvents.take 34))).map rowTup =
    [("a", .SUCCESS, [("j", "on-success")]), ("b", .SUCCESS, [("j", "on-success")]),
     ("j", .SUCCESS, [("k", "on-success")]), ("e", .SUCCESS, [("z", "on-success")]),
     ("z", .WAITING, [])] := by decide +kernel
theorem w34_z : ((findTask (run wSpec (wEvents.take 34)) ("z", 0)).map fun r => r.state) = some .WAITING := by
  decide +kernel
theorem wJoin_kind : isJoin wSpec "z" = some .all := by decide +kernel

theorem witness_stuck : (run wSpec wEvents).wf = .RUNNING ∧ (run wSpec wEvents).pending = [] := by
  rw [wEvents_split, run_snoc]
  have hrows : rowsOf (run wSpec (wEvents.take 34)) = wRows := by
    rw [rows_of_tups _ _ w34_rows]; rfl
  obtain ⟨L, hL, hLs⟩ := wJoin_z
  have hz := w34_z
  cases hf : findTask (run wSpec (wEvents.take 34)) ("z", 0) with
  | none => rw [hf] at hz; simp at hz
  | some r =>
    rw [hf] at hz
    have hst : r.state = .WAITING := by simpa using hz
    have := jobRefresh_stays_waiting wSpec (run wSpec (wEvents.take 34)) ("z", 0) r .all L
      (by rw [w34_pending]; decide) hf hst (by rw [w34_wf]; decide) wJoin_kind
      (by rw [hrows]; exact hL) hLs
    rw [this.1, this.2, w34_wf, w34_pending]
    exact ⟨rfl, by decide⟩

theorem witness_names : namesUnique wSpec := by
  unfold namesUnique; decide

theorem witness_joins : joinsSatisfiable wSpec := by
  intro t ht n hn
  simp [wSpec, wGraph] at ht
  rcases ht with rfl | rfl | rfl | rfl | rfl | rfl <;> simp at hn
  subst hn
  decide

theorem witness_budget : walkBudgetOK wSpec := by decide

theorem witness_live : liveInGraph wSpec := by
  intro l hl x hx
  simp [wSpec] at hl
  rcases hl with rfl | rfl | rfl | rfl | rfl | rfl <;> simp at hx <;>
    (try rcases hx with rfl | rfl) <;> (try subst hx) <;> decide

theorem witness_rank : ∀ t, ∀ p ∈ inbound wSpec.graph t, wRank p.name < wRank t := by
  intro t p hp
  simp [inbound, wSpec, wGraph, outNames, clause] at hp
  rcases hp with ⟨hp, ht⟩
  rcases hp with rfl | rfl | rfl | rfl | rfl | rfl <;> simp at ht <;>
    (try rcases ht with rfl | rfl) <;> (try subst ht) <;> decide

theorem witness_fuel : ∀ t, wRank t < fuelFor wSpec := by
  intro t
  simp only [wRank, fuelFor]
  repeat' split
  all_goals decide

theorem witness_lossless : ∀ e ∈ wEvents, lossless e := by
  intro e he t h
  subst h
  simp [wEvents] at he

theorem witness_starts : startTasks wSpec ≠ [] := by decide

theorem w19_wf : (run wSpec (wEvents.take 19)).wf = .PAUSED := by decide +kernel
theorem w19_tasks : ((run wSpec (wEvents.take 19)).tasks.map fun r => (r.name, isCompleted r.state, r.processed)) =
    [("a", true, true), ("b", true, true), ("j", false, true), ("e", false, false)] := by decide +kernel

theorem witness_not_clean : ¬ PausedClean (run wSpec (wEvents.take 19)) := by
  intro h
  have h := h w19_wf
  have hm : ("j", false, true) ∈
      ((run wSpec (wEvents.take 19)).tasks.map fun r => (r.name, isCompleted r.state, r.processed)) := by
    rw [w19_tasks]; simp
  obtain ⟨r, hr, he⟩ := List.mem_map.1 hm
  simp only [Prod.mk.injEq] at he
  have := h r hr he.2.1
  rw [he.2.2] at this
  exact absurd this (by decide)

end Mistral.Engine.Live
