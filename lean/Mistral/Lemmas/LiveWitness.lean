/-
A concrete fork / partial-join / join definition used for the non-vacuity examples of the liveness
theorems of C01, and the former counter-witness of `no_stuck_acyclic` (a partial join re-run by its
late branch completing while the workflow is PAUSED: before the fix "re-opening a join resets its
processed flag" `resume` never continued it and the later `join: all` waited for ever) kept as a
regression: corpus/C01/stale_processed_join.json replays the same history on the real engine.
-/
import Mistral.Lemmas.LiveDefs2
namespace Mistral.Engine.Live
open Mistral Mistral.Join Mistral.Engine

def wGraph : Graph := {
  tasks := [⟨"a", none, ["j"], [], [], []⟩, ⟨"b", none, ["j"], [], [], []⟩,
            ⟨"j", some (.count 1), ["k"], ["e"], [], []⟩, ⟨"k", none, ["z"], [], [], []⟩,
            ⟨"e", none, ["z"], [], [], []⟩, ⟨"z", some .all, [], [], [], []⟩],
  defaults := none }

def wSpec : Spec := {
  graph := wGraph,
  live := [⟨"a", ["j"], [], []⟩, ⟨"b", ["j"], [], []⟩, ⟨"j", ["k"], ["e"], []⟩, ⟨"k", ["z"], [], []⟩,
           ⟨"e", ["z"], [], []⟩, ⟨"z", [], [], []⟩] }

def wRank : String → Nat := fun n =>
  if n == "a" || n == "b" then 0 else if n == "j" then 1 else if n == "k" || n == "e" then 2 else if n == "z" then 3 else 0

def wEvents : List Event :=
  [.start,
   .deliver (.postStartTask ("b", 0) true),
   .deliver (.rpcStartTask ("b", 0) true),
   .deliver (.postRunAction ("b", 0)),
   .execute ("b", 0) true,
   .deliver (.rpcResult ("b", 0) true),
   .deliver (.postStartTask ("j", 0) true),
   .deliver (.rpcStartTask ("j", 0) true),
   .deliver (.postSchedRefresh ("j", 0)),
   .deliver (.jobRefresh ("j", 0)),
   .deliver (.postRunAction ("j", 0)),
   .execute ("j", 0) false,
   .deliver (.rpcResult ("j", 0) false),
   .deliver (.postStartTask ("a", 0) true),
   .deliver (.rpcStartTask ("a", 0) true),
   .deliver (.postRunAction ("a", 0)),
   .execute ("a", 0) true,
   .deliver (.rpcResult ("a", 0) true),
   .pause,
   .deliver (.postStartTask ("j", 0) true),
   .deliver (.rpcStartTask ("j", 0) true),
   .deliver (.postSchedRefresh ("j", 0)),
   .deliver (.jobRefresh ("j", 0)),
   .deliver (.postRunAction ("j", 0)),
   .execute ("j", 0) true,
   .deliver (.rpcResult ("j", 0) true),
   .deliver (.postStartTask ("e", 0) true),
   .deliver (.rpcStartTask ("e", 0) true),
   .deliver (.postRunAction ("e", 0)),
   .execute ("e", 0) true,
   .deliver (.rpcResult ("e", 0) true),
   .resume,
   .deliver (.postStartTask ("z", 0) true),
   .deliver (.rpcStartTask ("z", 0) true),
   .deliver (.jobRefresh ("z", 0))]

end Mistral.Engine.Live

namespace Mistral.Engine.Live
open Mistral Mistral.Join Mistral.Engine

theorem witness_names : namesUnique wSpec := by
  unfold namesUnique; decide

theorem witness_joins : joinsSatisfiable wSpec := by
  intro t ht n hn
  simp [wSpec, wGraph] at ht
  rcases ht with rfl | rfl | rfl | rfl | rfl | rfl <;> simp at hn
  subst hn
  decide

theorem witness_budget : walkBudgetOK wSpec := by decide

theorem witness_live : liveInGraph wSpec := by
  intro l hl x hx
  simp [wSpec] at hl
  rcases hl with rfl | rfl | rfl | rfl | rfl | rfl <;> simp at hx <;>
    (try rcases hx with rfl | rfl) <;> (try subst hx) <;> decide

theorem witness_rank : ∀ t, ∀ p ∈ inbound wSpec.graph t, wRank p.name < wRank t := by
  intro t p hp
  simp [inbound, wSpec, wGraph, outNames, clause] at hp
  rcases hp with ⟨hp, ht⟩
  rcases hp with rfl | rfl | rfl | rfl | rfl | rfl <;> simp at ht <;>
    (try rcases ht with rfl | rfl) <;> (try subst ht) <;> decide

theorem witness_fuel : ∀ t, wRank t < fuelFor wSpec := by
  intro t
  simp only [wRank, fuelFor]
  repeat' split
  all_goals decide

theorem witness_lossless : ∀ e ∈ wEvents, lossless e := by
  intro e he t h
  subst h
  simp [wEvents] at he

theorem witness_starts : startTasks wSpec ≠ [] := by decide


/-! regression (defect repaired by "fix: re-opening a join resets its processed flag"): the join j
    re-opened by the late branch is WAITING with `processed = false` at the pause, and `resume`
    continues its second completion: the successor k is dispatched -/

theorem w19_wf : (run wSpec (wEvents.take 19)).wf = .PAUSED := by decide +kernel

theorem w19_tasks : ((run wSpec (wEvents.take 19)).tasks.map fun r => (r.name, isCompleted r.state, r.processed)) =
    [("a", true, true), ("b", true, true), ("j", false, false), ("e", false, false)] := by decide +kernel

theorem witness_continued :
    (run wSpec (wEvents.take 32)).wf = .RUNNING ∧
    Item.postStartTask ("k", 0) true ∈ (run wSpec (wEvents.take 32)).pending := by decide +kernel

end Mistral.Engine.Live
