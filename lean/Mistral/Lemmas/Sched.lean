import Mistral.Model.Sched

namespace Mistral.Sched

/-! ## generic: induction over runs -/

theorem run_inv {P : State → Prop} (cfg : Cfg) (hstep : ∀ s e, P s → P (step cfg s e)) :
    ∀ steps s, P s → P (run cfg s steps) := by
  intro steps
  induction steps with
  | nil => intro s h; simpa [run] using h
  | cons e es ih => intro s h; simp only [run]; exact ih _ (hstep s e h)

theorem run_append (cfg : Cfg) (s : State) (a b : List Step) :
    run cfg s (a ++ b) = run cfg (run cfg s a) b := by
  induction a generalizing s with
  | nil => rfl
  | cons e es ih => simp [run, ih]

/-- case analysis for a step of instance `i` -/
theorem onInst_cases {P : State → Prop} (s : State) (i : Nat) (f : Inst → State)
    (h0 : P s) (h1 : ∀ inst, s.insts[i]? = some inst → inst.alive = true → P (f inst)) :
    P (onInst s i f) := by
  unfold onInst
  split
  · rename_i inst hi
    split
    · rename_i ha; exact h1 inst hi ha
    · exact h0
  · exact h0

/-! ## rows only evolve in a compatible way -/

def VisMono (v v' : Vis) : Prop :=
  ((v = .committed ∨ v = .deleted) → (v' = .committed ∨ v' = .deleted)) ∧
  (v = .deleted → v' = .deleted) ∧ (v = .rolledBack → v' = .rolledBack)

def RowsExt (rows rows' : List Row) : Prop :=
  ∀ (j : Nat) (r : Row), rows[j]? = some r →
    ∃ r' : Row, rows'[j]? = some r' ∧ r'.executeAt = r.executeAt ∧ r'.key = r.key ∧ VisMono r.vis r'.vis

theorem RowsExt.refl (rows : List Row) : RowsExt rows rows := by
  intro j r h; exact ⟨r, h, rfl, rfl, by simp [VisMono]⟩

theorem RowsExt.trans {a b c : List Row} (h1 : RowsExt a b) (h2 : RowsExt b c) : RowsExt a c := by
  intro j r h
  obtain ⟨r1, g1, e1, k1, v1⟩ := h1 j r h
  obtain ⟨r2, g2, e2, k2, v2⟩ := h2 j r1 g1
  refine ⟨r2, g2, by omega, by simp [*], ?_⟩
  unfold VisMono at *
  grind

theorem cas_ext {rows rows' : List Row} {id now : Nat} {e : Option Nat}
    (h : cas rows id e now = some rows') : RowsExt rows rows' := by
  unfold cas at h
  split at h
  · rename_i r hr
    split at h
    · simp at h; subst h
      intro j r0 hj
      by_cases hji : id = j
      · subst hji
        have : r0 = r := by simp_all
        subst this
        refine ⟨{ r0 with capturedAt := some now }, ?_, rfl, rfl, by simp [VisMono]⟩
        have hlt : id < rows.length := by
          have := List.getElem?_eq_some_iff.mp hr; exact this.1
        simp [hlt]
      · refine ⟨r0, ?_, rfl, rfl, by simp [VisMono]⟩
        simp [hji, hj]
    · simp at h
  · simp at h

theorem del_ext {rows rows' : List Row} {id : Nat}
    (h : del rows id = some rows') : RowsExt rows rows' := by
  unfold del at h
  split at h
  · rename_i r hr
    split at h
    · rename_i hc
      simp at h; subst h
      intro j r0 hj
      by_cases hji : id = j
      · subst hji
        have : r0 = r := by simp_all
        subst this
        refine ⟨{ r0 with vis := .deleted }, ?_, rfl, rfl, by simp [VisMono, hc]⟩
        have hlt : id < rows.length := (List.getElem?_eq_some_iff.mp hr).1
        simp [hlt]
      · refine ⟨r0, ?_, rfl, rfl, by simp [VisMono]⟩
        simp [hji, hj]
    · simp at h
  · simp at h

theorem endTx_ext (tx : Nat) (o : Vis) (rows : List Row) :
    RowsExt rows (endTx tx o rows) := by
  intro j r hj
  unfold endTx
  simp only [List.getElem?_map, hj, Option.map_some]
  refine ⟨_, rfl, ?_⟩
  split
  · rename_i hv
    refine ⟨rfl, rfl, ?_⟩
    simp [VisMono, hv]
  · exact ⟨rfl, rfl, by simp [VisMono]⟩

theorem append_ext (rows : List Row) (x : Row) : RowsExt rows (rows ++ [x]) := by
  intro j r hj
  have hlt : j < rows.length := (List.getElem?_eq_some_iff.mp hj).1
  exact ⟨r, by simp [List.getElem?_append_left hlt, hj], rfl, rfl, by simp [VisMono]⟩

theorem captureAll_ext (now : Nat) : ∀ (cs : List (Nat × Option Nat)) (rows : List Row),
    RowsExt rows (captureAll now cs rows).1 := by
  intro cs
  induction cs with
  | nil => intro rows; exact RowsExt.refl rows
  | cons c cs ih =>
    intro rows
    obtain ⟨j, seen⟩ := c
    simp only [captureAll]
    split
    · rename_i rows' h
      exact RowsExt.trans (cas_ext h) (ih rows')
    · exact ih rows


/-! ## `Ext s s'`: what every step preserves -/

structure Ext (s s' : State) : Prop where
  clock : s.clock ≤ s'.clock
  rows : RowsExt s.rows s'.rows
  trace : ∀ e, e ∈ s.trace → e ∈ s'.trace

theorem Ext.refl (s : State) : Ext s s := ⟨Nat.le_refl _, RowsExt.refl _, fun _ h => h⟩

theorem step_ext (cfg : Cfg) (s : State) (e : Step) : Ext s (step cfg s e) := by
  cases e with
  | schedule i ra key tx =>
    simp only [step, stepSchedule]
    apply onInst_cases (P := fun x => Ext s x)
    · exact Ext.refl s
    · intro inst _ _
      exact ⟨Nat.le_refl _, append_ext _ _, fun _ h => h⟩
  | scheduleBad i => exact Ext.refl s
  | commit tx => exact ⟨Nat.le_refl _, endTx_ext _ _ _, fun _ h => h⟩
  | rollback tx => exact ⟨Nat.le_refl _, endTx_ext _ _ _, fun _ h => h⟩
  | tick n => exact ⟨Nat.le_add_right _ _, RowsExt.refl _, fun _ h => h⟩
  | pop i =>
    simp only [step, stepPop]
    apply onInst_cases (P := fun x => Ext s x)
    · exact Ext.refl s
    · intro inst _ _
      split
      · split
        · exact ⟨Nat.le_refl _, RowsExt.refl _, fun _ h => h⟩
        · exact Ext.refl s
      · exact Ext.refl s
  | task i j =>
    simp only [step, stepTask]
    apply onInst_cases (P := fun x => Ext s x)
    · exact Ext.refl s
    · intro inst _ _
      split
      · split
        · split
          · rename_i h
            exact ⟨Nat.le_refl _, cas_ext h, fun _ h => List.mem_cons_of_mem _ h⟩
          · exact ⟨Nat.le_refl _, RowsExt.refl _, fun _ h => h⟩
        · split
          · exact ⟨Nat.le_refl _, RowsExt.refl _, fun _ h => h⟩
          · exact ⟨Nat.le_refl _, RowsExt.refl _, fun _ h => List.mem_cons_of_mem _ h⟩
        · split
          · rename_i h
            exact ⟨Nat.le_refl _, del_ext h, fun _ h => List.mem_cons_of_mem _ h⟩
          · exact ⟨Nat.le_refl _, RowsExt.refl _, fun _ h => h⟩
      · exact Ext.refl s
  | pollSelect i =>
    simp only [step, stepPollSelect]
    apply onInst_cases (P := fun x => Ext s x)
    · exact Ext.refl s
    · intro inst _ _
      split
      · exact ⟨Nat.le_refl _, RowsExt.refl _, fun _ h => h⟩
      · exact Ext.refl s
  | pollCapture i =>
    simp only [step, stepPollCapture]
    apply onInst_cases (P := fun x => Ext s x)
    · exact Ext.refl s
    · intro inst _ _
      split
      · exact ⟨Nat.le_refl _, captureAll_ext _ _ _, fun _ h => List.mem_append_right _ h⟩
      · exact Ext.refl s
  | pollNext i =>
    simp only [step, stepPollNext]
    apply onInst_cases (P := fun x => Ext s x)
    · exact Ext.refl s
    · intro inst _ _
      split
      · split
        · exact ⟨Nat.le_refl _, RowsExt.refl _, fun _ h => h⟩
        · exact ⟨Nat.le_refl _, RowsExt.refl _, fun _ h => List.mem_cons_of_mem _ h⟩
      · split
        · rename_i h
          exact ⟨Nat.le_refl _, del_ext h, fun _ h => List.mem_cons_of_mem _ h⟩
        · exact ⟨Nat.le_refl _, RowsExt.refl _, fun _ h => h⟩
      · exact Ext.refl s
  | crash i =>
    simp only [step, stepCrash]
    split
    · exact ⟨Nat.le_refl _, RowsExt.refl _, fun _ h => h⟩
    · exact Ext.refl s


/-! ## exact characterisation of the store operations -/

theorem cas_spec {rows rows' : List Row} {id now : Nat} {e : Option Nat}
    (h : cas rows id e now = some rows') :
    ∃ r : Row, rows[id]? = some r ∧ r.vis = .committed ∧ r.capturedAt = e ∧
      rows' = rows.set id { r with capturedAt := some now } := by
  unfold cas at h
  split at h
  · rename_i r hr
    split at h
    · rename_i hc
      simp at h
      exact ⟨r, hr, hc.1, hc.2, h.symm⟩
    · simp at h
  · simp at h

theorem del_spec {rows rows' : List Row} {id : Nat} (h : del rows id = some rows') :
    ∃ r : Row, rows[id]? = some r ∧ r.vis = .committed ∧ rows' = rows.set id { r with vis := .deleted } := by
  unfold del at h
  split at h
  · rename_i r hr
    split at h
    · rename_i hc
      simp at h
      exact ⟨r, hr, hc, h.symm⟩
    · simp at h
  · simp at h

/-! ## safety invariant: not early, only committed jobs, deleted implies invoked -/

def Due (s : State) (j : Nat) : Prop := ∃ r : Row, s.rows[j]? = some r ∧ r.executeAt ≤ s.clock
def WasCommitted (s : State) (j : Nat) : Prop :=
  ∃ r : Row, s.rows[j]? = some r ∧ (r.vis = .committed ∨ r.vis = .deleted)
def Invoked (s : State) (j : Nat) : Prop := ∃ t i, Ev.invoked j t i ∈ s.trace
/-- the prepare-and-invoke piece of job j has run: the target was invoked, or the job cannot be
    prepared (`cfg.bad`: logged and dropped, by design not invoked) -/
def Done (cfg : Cfg) (s : State) (j : Nat) : Prop := Invoked s j ∨ j ∈ cfg.bad

theorem Due.mono {s s' : State} {j : Nat} (h : Ext s s') : Due s j → Due s' j := by
  rintro ⟨r, hr, hd⟩
  obtain ⟨r', h1, h2, _, _⟩ := h.rows j r hr
  exact ⟨r', h1, by have := h.clock; omega⟩

theorem WasCommitted.mono {s s' : State} {j : Nat} (h : Ext s s') : WasCommitted s j → WasCommitted s' j := by
  rintro ⟨r, hr, hd⟩
  obtain ⟨r', h1, _, _, hv⟩ := h.rows j r hr
  exact ⟨r', h1, hv.1 hd⟩

theorem Invoked.mono {s s' : State} {j : Nat} (h : Ext s s') : Invoked s j → Invoked s' j := by
  rintro ⟨t, i, hm⟩
  exact ⟨t, i, h.trace _ hm⟩

theorem Done.mono {cfg : Cfg} {s s' : State} {j : Nat} (h : Ext s s') : Done cfg s j → Done cfg s' j := by
  rintro (hi | hb)
  · exact Or.inl (hi.mono h)
  · exact Or.inr hb

structure InstSafe (cfg : Cfg) (s : State) (x : Inst) : Prop where
  heap : ∀ h, h ∈ x.heap → ∃ r : Row, s.rows[h.id]? = some r ∧ r.executeAt = h.executeAt
  tasks : ∀ t, t ∈ x.tasks → Due s t.id ∧ (t.stage ≠ .popped → WasCommitted s t.id) ∧
    (t.stage = .invoked → Done cfg s t.id)
  sel : ∀ cands, x.poll = .selected cands → ∀ c, c ∈ cands → Due s c.1
  run : ∀ q b, x.poll = .running q b → (∀ j, j ∈ q → Due s j ∧ WasCommitted s j) ∧
    (b = true → ∀ j q', q = j :: q' → Done cfg s j)

theorem InstSafe.mono {cfg : Cfg} {s s' : State} {x : Inst} (h : Ext s s') (hx : InstSafe cfg s x) : InstSafe cfg s' x := by
  refine ⟨?_, ?_, ?_, ?_⟩
  · intro e he
    obtain ⟨r, hr, hea⟩ := hx.heap e he
    obtain ⟨r', h1, h2, _, _⟩ := h.rows _ r hr
    exact ⟨r', h1, by omega⟩
  · intro t ht
    obtain ⟨a, b, c⟩ := hx.tasks t ht
    exact ⟨a.mono h, fun hp => (b hp).mono h, fun hp => (c hp).mono h⟩
  · intro cands hc c hcm
    exact (hx.sel cands hc c hcm).mono h
  · intro q b hq
    obtain ⟨a, c⟩ := hx.run q b hq
    exact ⟨fun j hj => ⟨(a j hj).1.mono h, (a j hj).2.mono h⟩, fun hb j q' hq' => (c hb j q' hq').mono h⟩

def EvSafe (s : State) : Ev → Prop
  | .invoked j t _ => (∃ r : Row, s.rows[j]? = some r ∧ r.executeAt ≤ t) ∧ WasCommitted s j ∧ t ≤ s.clock
  | .captured j t _ => WasCommitted s j ∧ t ≤ s.clock
  | .deleted _ _ _ => True

theorem EvSafe.mono {s s' : State} {e : Ev} (h : Ext s s') (he : EvSafe s e) : EvSafe s' e := by
  cases e with
  | invoked j t i =>
    obtain ⟨⟨r, hr, hea⟩, hc, ht⟩ := he
    obtain ⟨r', h1, h2, _, _⟩ := h.rows j r hr
    exact ⟨⟨r', h1, by omega⟩, hc.mono h, by have := h.clock; omega⟩
  | captured j t i =>
    exact ⟨he.1.mono h, by have := h.clock; have := he.2; omega⟩
  | deleted j t i => trivial

structure Safe (cfg : Cfg) (s : State) : Prop where
  insts : ∀ x, x ∈ s.insts → InstSafe cfg s x
  trace : ∀ e, e ∈ s.trace → EvSafe s e
  del : ∀ j (r : Row), s.rows[j]? = some r → r.vis = .deleted → Done cfg s j

theorem safe_init (cfg : Cfg) (n : Nat) : Safe cfg (init n) := by
  refine ⟨?_, ?_, ?_⟩
  · intro x hx
    simp [init, freshInst] at hx
    obtain ⟨_, rfl⟩ := hx
    refine ⟨?_, ?_, ?_, ?_⟩ <;> simp
  · intro e h; simp [init] at h
  · intro j r h; simp [init] at h

theorem safe_build {cfg : Cfg} {s s' : State} (hs : Safe cfg s) (hext : Ext s s')
    (hinsts : ∀ x, x ∈ s'.insts → x ∈ s.insts ∨ InstSafe cfg s' x)
    (htrace : ∀ e, e ∈ s'.trace → e ∈ s.trace ∨ EvSafe s' e)
    (hdel : ∀ j (r' : Row), s'.rows[j]? = some r' → r'.vis = .deleted →
      (∃ r : Row, s.rows[j]? = some r ∧ r.vis = .deleted) ∨ Done cfg s' j) : Safe cfg s' := by
  refine ⟨?_, ?_, ?_⟩
  · intro x hx
    rcases hinsts x hx with h | h
    · exact (hs.insts x h).mono hext
    · exact h
  · intro e he
    rcases htrace e he with h | h
    · exact (hs.trace e h).mono hext
    · exact h
  · intro j r' hr' hv
    rcases hdel j r' hr' hv with ⟨r, hr, hvr⟩ | h
    · exact (hs.del j r hr hvr).mono hext
    · exact h

theorem mem_set_cases {l : List Inst} {i : Nat} {x' x : Inst} (P : Inst → Prop)
    (hx : x ∈ l.set i x') (hx' : P x') : x ∈ l ∨ P x := by
  rcases List.mem_or_eq_of_mem_set hx with h | h
  · exact Or.inl h
  · exact Or.inr (h ▸ hx')


/-! backward facts about `deleted` -/

theorem append_del {rows : List Row} {x r' : Row} {j : Nat} (hx : x.vis ≠ .deleted)
    (h : (rows ++ [x])[j]? = some r') (hv : r'.vis = .deleted) :
    ∃ r : Row, rows[j]? = some r ∧ r.vis = .deleted := by
  by_cases hlt : j < rows.length
  · rw [List.getElem?_append_left hlt] at h
    exact ⟨r', h, hv⟩
  · have hge : rows.length ≤ j := Nat.le_of_not_lt hlt
    rw [List.getElem?_append_right hge] at h
    by_cases h0 : j - rows.length = 0
    · simp [h0] at h; subst h; exact absurd hv hx
    · have : ([x] : List Row)[j - rows.length]? = none := by
        apply List.getElem?_eq_none; simp; omega
      simp [this] at h

theorem endTx_del {rows : List Row} {tx : Nat} {o : Vis} {r' : Row} {j : Nat} (ho : o ≠ .deleted)
    (h : (endTx tx o rows)[j]? = some r') (hv : r'.vis = .deleted) :
    ∃ r : Row, rows[j]? = some r ∧ r.vis = .deleted := by
  unfold endTx at h
  simp only [List.getElem?_map] at h
  cases hr : rows[j]? with
  | none => simp [hr] at h
  | some r =>
    simp [hr] at h
    refine ⟨r, rfl, ?_⟩
    split at h
    · subst h; simp at hv; exact absurd hv ho
    · subst h; exact hv

theorem set_get {rows : List Row} {id j : Nat} {x r' : Row} (h : (rows.set id x)[j]? = some r') :
    (j = id ∧ r' = x) ∨ (j ≠ id ∧ rows[j]? = some r') := by
  rw [List.getElem?_set] at h
  split at h
  · rename_i hij
    split at h
    · simp at h; exact Or.inl ⟨hij.symm, h.symm⟩
    · simp at h
  · rename_i hij
    exact Or.inr ⟨fun e => hij e.symm, h⟩

theorem cas_del {rows rows' : List Row} {id now j : Nat} {e : Option Nat} {r' : Row}
    (hc : cas rows id e now = some rows') (h : rows'[j]? = some r') (hv : r'.vis = .deleted) :
    ∃ r : Row, rows[j]? = some r ∧ r.vis = .deleted := by
  obtain ⟨r, hr, hvis, _, rfl⟩ := cas_spec hc
  rcases set_get h with ⟨_, rfl⟩ | ⟨_, h2⟩
  · simp [hvis] at hv
  · exact ⟨r', h2, hv⟩

theorem captureAll_del (now : Nat) : ∀ (cs : List (Nat × Option Nat)) (rows : List Row) (j : Nat) (r' : Row),
    (captureAll now cs rows).1[j]? = some r' → r'.vis = .deleted →
    ∃ r : Row, rows[j]? = some r ∧ r.vis = .deleted := by
  intro cs
  induction cs with
  | nil => intro rows j r' h hv; exact ⟨r', by simpa [captureAll] using h, hv⟩
  | cons c cs ih =>
    intro rows j r' h hv
    obtain ⟨id, seen⟩ := c
    simp only [captureAll] at h
    split at h
    · rename_i rows1 hc
      obtain ⟨r1, h1, hv1⟩ := ih rows1 j r' h hv
      exact cas_del hc h1 hv1
    · exact ih rows j r' h hv

theorem del_del {rows rows' : List Row} {id j : Nat} {r' : Row}
    (hc : del rows id = some rows') (h : rows'[j]? = some r') (hv : r'.vis = .deleted) :
    j = id ∨ ∃ r : Row, rows[j]? = some r ∧ r.vis = .deleted := by
  obtain ⟨r, hr, hvis, rfl⟩ := del_spec hc
  rcases set_get h with ⟨hj, _⟩ | ⟨_, h2⟩
  · exact Or.inl hj
  · exact Or.inr ⟨r', h2, hv⟩

theorem mem_heapInsert {e h : HeapEntry} : ∀ {l : List HeapEntry}, h ∈ heapInsert e l → h = e ∨ h ∈ l := by
  intro l
  induction l with
  | nil => intro hm; simp [heapInsert] at hm; exact Or.inl hm
  | cons a t ih =>
    intro hm
    simp only [heapInsert] at hm
    split at hm
    · simp at hm; rcases hm with h1 | h1 | h1
      · exact Or.inl h1
      · exact Or.inr (by simp [h1])
      · exact Or.inr (by simp [h1])
    · simp at hm
      rcases hm with h1 | h1
      · exact Or.inr (by simp [h1])
      · rcases ih h1 with h2 | h2
        · exact Or.inl h2
        · exact Or.inr (by simp [h2])


/-! ## select / captureAll facts -/

theorem mem_insertCand {c x : Nat × Nat × Option Nat} :
    ∀ {l : List (Nat × Nat × Option Nat)}, x ∈ insertCand c l ↔ x = c ∨ x ∈ l := by
  intro l
  induction l with
  | nil => simp [insertCand]
  | cons a t ih =>
    simp only [insertCand]
    split
    · simp
    · simp only [List.mem_cons, ih]
      constructor
      · rintro (h | h | h)
        · exact Or.inr (Or.inl h)
        · exact Or.inl h
        · exact Or.inr (Or.inr h)
      · rintro (h | h | h)
        · exact Or.inr (Or.inl h)
        · exact Or.inl h
        · exact Or.inr (Or.inr h)

theorem mem_sortCands {x : Nat × Nat × Option Nat} :
    ∀ {l : List (Nat × Nat × Option Nat)}, x ∈ sortCands l ↔ x ∈ l := by
  intro l
  induction l with
  | nil => simp [sortCands]
  | cons a t ih =>
    have : sortCands (a :: t) = insertCand a (sortCands t) := rfl
    rw [this, mem_insertCand, ih]
    simp

theorem mem_eligibleRows {cfg : Cfg} {clock : Nat} {rows : List Row} {x : Nat × Nat × Option Nat} :
    x ∈ eligibleRows cfg clock rows ↔
      ∃ r : Row, rows[x.2.1]? = some r ∧ eligible cfg clock r = true ∧ x.1 = r.executeAt ∧ x.2.2 = r.capturedAt := by
  unfold eligibleRows
  rw [List.mem_filterMap]
  constructor
  · rintro ⟨⟨r, j⟩, hm, hf⟩
    have hg := List.mem_zipIdx_iff_getElem?.mp hm
    simp only at hg hf
    split at hf
    · rename_i he
      simp at hf
      subst hf
      exact ⟨r, hg, he, rfl, rfl⟩
    · simp at hf
  · rintro ⟨r, hg, he, h1, h2⟩
    refine ⟨(r, x.2.1), List.mem_zipIdx_iff_getElem?.mpr hg, ?_⟩
    obtain ⟨a, b, c⟩ := x
    simp at h1 h2 ⊢
    simp [he, h1, h2]

theorem mem_selectCands {cfg : Cfg} {clock : Nat} {rows : List Row} {c : Nat × Option Nat}
    (h : c ∈ selectCands cfg clock rows) :
    ∃ r : Row, rows[c.1]? = some r ∧ eligible cfg clock r = true ∧ c.2 = r.capturedAt := by
  unfold selectCands at h
  simp only [List.mem_map] at h
  obtain ⟨x, hx, rfl⟩ := h
  have hx' : x ∈ sortCands (eligibleRows cfg clock rows) := by
    cases hb : cfg.batch with
    | none => simpa [hb] using hx
    | some b => simp only [hb] at hx; exact List.mem_of_mem_take hx
  obtain ⟨r, h1, h2, _, h4⟩ := mem_eligibleRows.mp (mem_sortCands.mp hx')
  exact ⟨r, h1, h2, h4⟩

theorem mem_selectCands_nobatch {cfg : Cfg} {clock : Nat} {rows : List Row} {j : Nat} {r : Row}
    (hb : cfg.batch = none) (hr : rows[j]? = some r) (he : eligible cfg clock r = true) :
    (j, r.capturedAt) ∈ selectCands cfg clock rows := by
  unfold selectCands
  simp only [hb, List.mem_map]
  refine ⟨(r.executeAt, j, r.capturedAt), ?_, rfl⟩
  exact mem_sortCands.mpr (mem_eligibleRows.mpr ⟨r, hr, he, rfl, rfl⟩)

theorem eligible_spec {cfg : Cfg} {clock : Nat} {r : Row} (h : eligible cfg clock r = true) :
    r.vis = .committed ∧ r.executeAt + cfg.pickup < clock ∧
      ∀ c, r.capturedAt = some c → c + cfg.timeout ≤ clock := by
  unfold eligible at h
  simp only [Bool.and_eq_true, decide_eq_true_eq] at h
  refine ⟨h.1.1, h.1.2, ?_⟩
  intro c hc
  have h2 := h.2
  simp [hc] at h2
  exact h2

/-- every id captured by the poll transaction was a candidate, its CAS succeeded on a
    committed row, and the row is still committed afterwards -/
theorem captureAll_mem (now : Nat) : ∀ (cs : List (Nat × Option Nat)) (rows : List Row) (j : Nat),
    j ∈ (captureAll now cs rows).2 →
      (∃ seen, (j, seen) ∈ cs) ∧ ∃ r : Row, (captureAll now cs rows).1[j]? = some r ∧ r.vis = .committed := by
  intro cs
  induction cs with
  | nil => intro rows j h; simp [captureAll] at h
  | cons c cs ih =>
    intro rows j h
    obtain ⟨id, seen⟩ := c
    simp only [captureAll] at h ⊢
    split at h
    · rename_i rows1 hc
      simp only [List.mem_cons] at h
      rcases h with rfl | h
      · refine ⟨⟨seen, by simp⟩, ?_⟩
        obtain ⟨r, hr, hv, _, rfl⟩ := cas_spec hc
        have hlt : j < rows.length := (List.getElem?_eq_some_iff.mp hr).1
        have h1 : (rows.set j { r with capturedAt := some now })[j]? = some { r with capturedAt := some now } := by
          simp [hlt]
        obtain ⟨r', g1, _, _, gv⟩ := captureAll_ext now cs _ j _ h1
        refine ⟨r', g1, ?_⟩
        have hnd : r'.vis ≠ .deleted := by
          intro hd
          obtain ⟨r0, g0, gd⟩ := captureAll_del now cs _ j r' g1 hd
          rw [h1] at g0
          simp at g0
          subst g0
          simp [hv] at gd
        rcases gv.1 (Or.inl hv) with g | g
        · exact g
        · exact absurd g hnd
      · obtain ⟨⟨sn, hs⟩, hr⟩ := ih rows1 j h
        exact ⟨⟨sn, by simp [hs]⟩, hr⟩
    · obtain ⟨⟨sn, hs⟩, hr⟩ := ih rows j h
      exact ⟨⟨sn, by simp [hs]⟩, hr⟩


/-! ## the safety invariant is preserved by every step -/

theorem mem_setStage {j : Nat} {st : Stage} : ∀ {l : List Task} {t : Task}, t ∈ setStage j st l →
    ∃ t0, t0 ∈ l ∧ t.id = t0.id ∧ ((t0.id = j ∧ t.stage = st) ∨ t = t0) := by
  intro l
  induction l with
  | nil => intro t h; simp [setStage] at h
  | cons a ts ih =>
    intro t h
    simp only [setStage] at h
    split at h
    · rename_i ha
      simp only [List.mem_cons] at h
      rcases h with rfl | h
      · exact ⟨a, by simp, rfl, Or.inl ⟨ha, rfl⟩⟩
      · exact ⟨t, by simp [h], rfl, Or.inr rfl⟩
    · simp only [List.mem_cons] at h
      rcases h with rfl | h
      · exact ⟨t, by simp, rfl, Or.inr rfl⟩
      · obtain ⟨t0, h0, h1, h2⟩ := ih h
        exact ⟨t0, by simp [h0], h1, h2⟩

theorem mem_dropTask {j : Nat} : ∀ {l : List Task} {t : Task}, t ∈ dropTask j l → t ∈ l := by
  intro l
  induction l with
  | nil => intro t h; simp [dropTask] at h
  | cons a ts ih =>
    intro t h
    simp only [dropTask] at h
    split at h
    · simp [h]
    · simp only [List.mem_cons] at h
      rcases h with rfl | h
      · simp
      · simp [ih h]

theorem find_task {l : List Task} {j : Nat} {t : Task} (h : l.find? (fun t => t.id == j) = some t) :
    t ∈ l ∧ t.id = j := by
  refine ⟨List.mem_of_find?_eq_some h, ?_⟩
  have := List.find?_some h
  simpa using this

theorem safe_step (cfg : Cfg) (s : State) (e : Step) (hs : Safe cfg s) : Safe cfg (step cfg s e) := by
  have hext := step_ext cfg s e
  cases e with
  | schedule i ra key tx =>
    simp only [step, stepSchedule] at hext ⊢
    revert hext
    apply onInst_cases (P := fun x => Ext s x → Safe cfg x)
    · intro _; exact hs
    · intro inst hi ha hext
      have hm := (hs.insts inst (List.mem_of_getElem? hi)).mono hext
      apply safe_build hs hext
      · intro x hx
        refine mem_set_cases _ hx ⟨?_, hm.tasks, hm.sel, hm.run⟩
        intro h hh
        rcases mem_heapInsert hh with rfl | h2
        · exact ⟨{ executeAt := s.clock + ra, capturedAt := none, key := key, vis := .uncommitted tx }, by simp, rfl⟩
        · exact hm.heap h h2
      · intro e he; exact Or.inl he
      · intro j r' h hv; exact Or.inl (append_del (by simp) h hv)
  | scheduleBad i => exact hs
  | commit tx =>
    apply safe_build hs hext
    · intro x hx; exact Or.inl hx
    · intro e he; exact Or.inl he
    · intro j r' h hv; exact Or.inl (endTx_del (by simp) h hv)
  | rollback tx =>
    apply safe_build hs hext
    · intro x hx; exact Or.inl hx
    · intro e he; exact Or.inl he
    · intro j r' h hv; exact Or.inl (endTx_del (by simp) h hv)
  | tick n =>
    apply safe_build hs hext
    · intro x hx; exact Or.inl hx
    · intro e he; exact Or.inl he
    · intro j r' h hv; exact Or.inl ⟨r', h, hv⟩
  | pop i =>
    simp only [step, stepPop] at hext ⊢
    revert hext
    apply onInst_cases (P := fun x => Ext s x → Safe cfg x)
    · intro _; exact hs
    · intro inst hi ha
      have hsi := hs.insts inst (List.mem_of_getElem? hi)
      split
      · rename_i h rest hheap
        split
        · rename_i hdue
          intro hext
          have hm := hsi.mono hext
          apply safe_build hs hext
          · intro x hx
            refine mem_set_cases _ hx ⟨?_, ?_, hm.sel, hm.run⟩
            · intro h' hh'; exact hm.heap h' (by simp [hheap, hh'])
            · intro t ht
              simp only [List.mem_append, List.mem_singleton] at ht
              rcases ht with ht | rfl
              · exact hm.tasks t ht
              · obtain ⟨r, hr, hea⟩ := hsi.heap h (by simp [hheap])
                exact ⟨⟨r, hr, by simp [setInst]; omega⟩, by simp, by simp⟩
          · intro e he; exact Or.inl he
          · intro j r' h hv; exact Or.inl ⟨r', h, hv⟩
        · intro _; exact hs
      · intro _; exact hs
  | task i j =>
    simp only [step, stepTask] at hext ⊢
    revert hext
    apply onInst_cases (P := fun x => Ext s x → Safe cfg x)
    · intro _; exact hs
    · intro inst hi ha
      have hsi := hs.insts inst (List.mem_of_getElem? hi)
      split
      · rename_i t hfind
        obtain ⟨htm, htid⟩ := find_task hfind
        obtain ⟨hdue, hwc, hinv⟩ := hsi.tasks t htm
        rw [htid] at hdue hwc hinv
        split
        · -- capture
          rename_i hstage
          split
          · rename_i rows' hcas
            intro hext
            have hm := hsi.mono hext
            obtain ⟨r, hr, hvis, _, _⟩ := cas_spec hcas
            have hwc' : WasCommitted s j := ⟨r, hr, Or.inl hvis⟩
            apply safe_build hs hext
            · intro x hx
              refine mem_set_cases _ hx ⟨hm.heap, ?_, hm.sel, hm.run⟩
              intro t' ht'
              obtain ⟨t0, h0, hid, hcase⟩ := mem_setStage ht'
              obtain ⟨a, b, c⟩ := hm.tasks t0 h0
              rw [hid]
              rcases hcase with ⟨h1, h2⟩ | h2
              · refine ⟨a, fun _ => ?_, fun h3 => ?_⟩
                · rw [h1]; exact hwc'.mono hext
                · rw [h2] at h3; cases h3
              · subst h2; exact ⟨a, b, c⟩
            · intro e he
              simp only [List.mem_cons] at he
              rcases he with rfl | he
              · exact Or.inr ⟨hwc'.mono hext, Nat.le_refl _⟩
              · exact Or.inl he
            · intro j' r' h hv; exact Or.inl (cas_del hcas h hv)
          · intro hext
            have hm := hsi.mono hext
            apply safe_build hs hext
            · intro x hx
              refine mem_set_cases _ hx ⟨hm.heap, ?_, hm.sel, hm.run⟩
              intro t' ht'; exact hm.tasks t' (mem_dropTask ht')
            · intro e he; exact Or.inl he
            · intro j' r' h hv; exact Or.inl ⟨r', h, hv⟩
        · -- prepare + invoke
          rename_i hstage
          have hwc' : WasCommitted s j := hwc (by simp [hstage])
          split
          · -- the job cannot be prepared: logged, not invoked
            rename_i hbad
            have hbad' : j ∈ cfg.bad := by simpa using hbad
            intro hext
            have hm := hsi.mono hext
            apply safe_build hs hext
            · intro x hx
              refine mem_set_cases _ hx ⟨hm.heap, ?_, hm.sel, hm.run⟩
              intro t' ht'
              obtain ⟨t0, h0, hid, hcase⟩ := mem_setStage ht'
              obtain ⟨a, b, c⟩ := hm.tasks t0 h0
              rw [hid]
              rcases hcase with ⟨h1, h2⟩ | h2
              · refine ⟨a, fun _ => ?_, fun _ => ?_⟩
                · rw [h1]; exact hwc'.mono hext
                · rw [h1]; exact Or.inr hbad'
              · subst h2; exact ⟨a, b, c⟩
            · intro e he; exact Or.inl he
            · intro j' r' h hv; exact Or.inl ⟨r', h, hv⟩
          · intro hext
            have hm := hsi.mono hext
            apply safe_build hs hext
            · intro x hx
              refine mem_set_cases _ hx ⟨hm.heap, ?_, hm.sel, hm.run⟩
              intro t' ht'
              obtain ⟨t0, h0, hid, hcase⟩ := mem_setStage ht'
              obtain ⟨a, b, c⟩ := hm.tasks t0 h0
              rw [hid]
              rcases hcase with ⟨h1, h2⟩ | h2
              · refine ⟨a, fun _ => ?_, fun _ => ?_⟩
                · rw [h1]; exact hwc'.mono hext
                · rw [h1]; exact Or.inl ⟨s.clock, i, by simp⟩
              · subst h2; exact ⟨a, b, c⟩
            · intro e he
              simp only [List.mem_cons] at he
              rcases he with rfl | he
              · obtain ⟨r, hr, hea⟩ := hdue
                exact Or.inr ⟨⟨r, hr, hea⟩, hwc'.mono hext, Nat.le_refl _⟩
              · exact Or.inl he
            · intro j' r' h hv; exact Or.inl ⟨r', h, hv⟩
        · -- delete
          rename_i hstage
          have hinv' : Done cfg s j := hinv hstage
          split
          · rename_i rows' hdel
            intro hext
            have hm := hsi.mono hext
            apply safe_build hs hext
            · intro x hx
              refine mem_set_cases _ hx ⟨hm.heap, ?_, hm.sel, hm.run⟩
              intro t' ht'; exact hm.tasks t' (mem_dropTask ht')
            · intro e he
              simp only [List.mem_cons] at he
              rcases he with rfl | he
              · exact Or.inr trivial
              · exact Or.inl he
            · intro j' r' h hv
              rcases del_del hdel h hv with rfl | h2
              · exact Or.inr (hinv'.mono hext)
              · exact Or.inl h2
          · intro hext
            have hm := hsi.mono hext
            apply safe_build hs hext
            · intro x hx
              refine mem_set_cases _ hx ⟨hm.heap, ?_, hm.sel, hm.run⟩
              intro t' ht'; exact hm.tasks t' (mem_dropTask ht')
            · intro e he; exact Or.inl he
            · intro j' r' h hv; exact Or.inl ⟨r', h, hv⟩
      · intro _; exact hs
  | pollSelect i =>
    simp only [step, stepPollSelect] at hext ⊢
    revert hext
    apply onInst_cases (P := fun x => Ext s x → Safe cfg x)
    · intro _; exact hs
    · intro inst hi ha
      have hsi := hs.insts inst (List.mem_of_getElem? hi)
      split
      · intro hext
        have hm := hsi.mono hext
        apply safe_build hs hext
        · intro x hx
          refine mem_set_cases _ hx ⟨hm.heap, hm.tasks, ?_, ?_⟩
          · intro cands hc c hcm
            simp at hc
            subst hc
            obtain ⟨r, hr, he, _⟩ := mem_selectCands hcm
            obtain ⟨_, h2, _⟩ := eligible_spec he
            exact ⟨r, hr, by simp [setInst]; omega⟩
          · intro q b hq; simp at hq
        · intro e he; exact Or.inl he
        · intro j r' h hv; exact Or.inl ⟨r', h, hv⟩
      · intro _; exact hs
  | pollCapture i =>
    simp only [step, stepPollCapture] at hext ⊢
    revert hext
    apply onInst_cases (P := fun x => Ext s x → Safe cfg x)
    · intro _; exact hs
    · intro inst hi ha
      have hsi := hs.insts inst (List.mem_of_getElem? hi)
      split
      · rename_i cands hpoll
        intro hext
        have hm := hsi.mono hext
        have hq : ∀ j, j ∈ (captureAll s.clock cands s.rows).2 →
            Due s j ∧ ∃ r : Row, (captureAll s.clock cands s.rows).1[j]? = some r ∧ r.vis = .committed := by
          intro j hj
          obtain ⟨⟨seen, hs1⟩, hr⟩ := captureAll_mem _ _ _ _ hj
          exact ⟨hsi.sel cands hpoll _ hs1, hr⟩
        apply safe_build hs hext
        · intro x hx
          refine mem_set_cases _ hx ⟨hm.heap, hm.tasks, ?_, ?_⟩
          · intro c hc; split at hc <;> simp at hc
          · intro q b hqb
            split at hqb
            · simp at hqb
            · simp at hqb
              obtain ⟨rfl, rfl⟩ := hqb
              refine ⟨fun j hj => ?_, by simp⟩
              obtain ⟨hd, r, hr, hv⟩ := hq j hj
              exact ⟨hd.mono hext, r, hr, Or.inl hv⟩
        · intro e he
          simp only [List.mem_append, List.mem_reverse, List.mem_map] at he
          rcases he with ⟨j, hj, rfl⟩ | he
          · obtain ⟨hd, r, hr, hv⟩ := hq j hj
            exact Or.inr ⟨⟨r, hr, Or.inl hv⟩, Nat.le_refl _⟩
          · exact Or.inl he
        · intro j r' h hv; exact Or.inl (captureAll_del _ _ _ _ _ h hv)
      · intro _; exact hs
  | pollNext i =>
    simp only [step, stepPollNext] at hext ⊢
    revert hext
    apply onInst_cases (P := fun x => Ext s x → Safe cfg x)
    · intro _; exact hs
    · intro inst hi ha
      have hsi := hs.insts inst (List.mem_of_getElem? hi)
      split
      · rename_i j q hpoll
        obtain ⟨hall, _⟩ := hsi.run _ _ hpoll
        obtain ⟨hdue, hwc⟩ := hall j (by simp)
        split
        · -- the head cannot be prepared: logged, not invoked
          rename_i hbad
          have hbad' : j ∈ cfg.bad := by simpa using hbad
          intro hext
          have hm := hsi.mono hext
          apply safe_build hs hext
          · intro x hx
            refine mem_set_cases _ hx ⟨hm.heap, hm.tasks, ?_, ?_⟩
            · intro c hc; simp at hc
            · intro q' b hqb
              simp at hqb
              obtain ⟨rfl, rfl⟩ := hqb
              refine ⟨(hm.run _ _ hpoll).1, ?_⟩
              intro _ j' q'' hjq
              simp at hjq
              rw [← hjq.1]
              exact Or.inr hbad'
          · intro e he; exact Or.inl he
          · intro j' r' h hv; exact Or.inl ⟨r', h, hv⟩
        · intro hext
          have hm := hsi.mono hext
          apply safe_build hs hext
          · intro x hx
            refine mem_set_cases _ hx ⟨hm.heap, hm.tasks, ?_, ?_⟩
            · intro c hc; simp at hc
            · intro q' b hqb
              simp at hqb
              obtain ⟨rfl, rfl⟩ := hqb
              refine ⟨(hm.run _ _ hpoll).1, ?_⟩
              intro _ j' q'' hjq
              simp at hjq
              rw [← hjq.1]
              exact Or.inl ⟨s.clock, i, by simp⟩
          · intro e he
            simp only [List.mem_cons] at he
            rcases he with rfl | he
            · obtain ⟨r, hr, hea⟩ := hdue
              exact Or.inr ⟨⟨r, hr, hea⟩, hwc.mono hext, Nat.le_refl _⟩
            · exact Or.inl he
          · intro j' r' h hv; exact Or.inl ⟨r', h, hv⟩
      · rename_i j q hpoll
        obtain ⟨hall, hhead⟩ := hsi.run _ _ hpoll
        have hinv' : Done cfg s j := hhead rfl j q rfl
        split
        · rename_i rows' hdel
          intro hext
          have hm := hsi.mono hext
          apply safe_build hs hext
          · intro x hx
            refine mem_set_cases _ hx ⟨hm.heap, hm.tasks, ?_, ?_⟩
            · intro c hc; split at hc <;> simp at hc
            · intro q' b hqb
              split at hqb
              · simp at hqb
              · simp at hqb
                obtain ⟨rfl, rfl⟩ := hqb
                refine ⟨fun j' hj' => (hm.run _ _ hpoll).1 j' (by simp [hj']), by simp⟩
          · intro e he
            simp only [List.mem_cons] at he
            rcases he with rfl | he
            · exact Or.inr trivial
            · exact Or.inl he
          · intro j' r' h hv
            rcases del_del hdel h hv with rfl | h2
            · exact Or.inr (hinv'.mono hext)
            · exact Or.inl h2
        · intro hext
          have hm := hsi.mono hext
          apply safe_build hs hext
          · intro x hx
            refine mem_set_cases _ hx ⟨hm.heap, hm.tasks, ?_, ?_⟩
            · intro c hc; simp at hc
            · intro q' b hqb; simp at hqb
          · intro e he; exact Or.inl he
          · intro j' r' h hv; exact Or.inl ⟨r', h, hv⟩
      · intro _; exact hs
  | crash i =>
    simp only [step, stepCrash] at hext ⊢
    split
    · rename_i inst hi
      simp only [hi] at hext
      apply safe_build hs hext
      · intro x hx
        refine mem_set_cases _ hx ⟨?_, ?_, ?_, ?_⟩ <;> simp
      · intro e he; exact Or.inl he
      · intro j' r' h hv; exact Or.inl ⟨r', h, hv⟩
    · exact hs

theorem safe_reachable (cfg : Cfg) (n : Nat) (steps : List Step) : Safe cfg (run cfg (init n) steps) :=
  run_inv cfg (fun s e h => safe_step cfg s e h) steps _ (safe_init cfg n)

end Mistral.Sched
