import Mistral.Model.Policy
/-! Helper lemmas for Props/C08: how the hooks, `completeTask` and the event handlers move the
    quantities the C08 theorems are about. -/
namespace Mistral.Policy

def R.state : R → S
  | .ok s => s
  | .raise s => s

def R.isOk : R → Bool
  | .ok _ => true
  | .raise _ => false

def isCont (j : Job) : Bool := match j.kind with | .cont => true | _ => false

/-- number of pending `_continue_task` jobs -/
def contJobs (s : S) : Nat := s.jobs.countP isCont

def b2n (b : Bool) : Nat := if b then 1 else 0

/-- Everything that can still start an action execution, plus the ones that exist. -/
def potential (s : S) : Nat :=
  s.acts.length + contJobs s + b2n s.pendingNew + b2n s.pendingExisting + (if s.wf = .paused then 1 else 0)

/-- The retry count in force (0 without a well-typed retry policy). -/
def countOf (p : Params) : Nat :=
  match p.retry with
  | some r => if r.count.valid && r.delay.valid then r.count.nat else 0
  | none => 0

theorem countP_eraseIdx_add (q : Job → Bool) :
    ∀ (l : List Job) (i : Nat) (a : Job), l[i]? = some a →
      (l.eraseIdx i).countP q + (if q a then 1 else 0) = l.countP q := by
  intro l
  induction l with
  | nil => intro i a h; simp at h
  | cons x xs ih =>
    intro i a h
    cases i with
    | zero =>
      simp at h; subst h
      simp [List.countP_cons]
    | succ n =>
      simp at h
      have := ih n a h
      simp [List.countP_cons]
      omega

structure AfterRel (p : Params) (s s2 : S) : Prop where
  acts : s2.acts.length = s.acts.length
  pn : s2.pendingNew = s.pendingNew
  pe : s2.pendingExisting = s.pendingExisting
  wf : s2.wf = s.wf
  now : s2.now = s.now
  wb : s2.wbSkip = s.wbSkip
  jobs : contJobs s2 + s.retryNo = contJobs s + s2.retryNo
  mono : s.retryNo ≤ s2.retryNo
  bound : s2.retryNo = s.retryNo ∨ s2.retryNo ≤ countOf p

theorem AfterRel.refl (p : Params) (s : S) : AfterRel p s s :=
  ⟨rfl, rfl, rfl, rfl, rfl, rfl, rfl, Nat.le_refl _, Or.inl rfl⟩

theorem afterOne_rel (p : Params) (k : PolicyKind) (s : S) : AfterRel p s (afterOne p k s).state := by
  cases k
  case pauseBefore =>
    simp only [afterOne, checkPause]; split <;> exact AfterRel.refl _ _
  case waitBefore =>
    simp only [afterOne, check]; split <;> exact AfterRel.refl _ _
  case waitAfter =>
    simp only [afterOne, check]
    split
    · simp only [R.bind]
      split
      · exact AfterRel.refl _ _
      · split
        · exact AfterRel.refl _ _
        · refine ⟨rfl, rfl, rfl, rfl, rfl, rfl, ?_, Nat.le_refl _, Or.inl rfl⟩
          simp [R.state, schedule, contJobs, List.countP_append, isCont]
    · exact AfterRel.refl _ _
  case failOn =>
    simp only [afterOne]; split
    · exact ⟨rfl, rfl, rfl, rfl, rfl, rfl, rfl, Nat.le_refl _, Or.inl rfl⟩
    · exact AfterRel.refl _ _
  case retry =>
    simp only [afterOne, checkRetry]
    cases hr : p.retry with
    | none => exact AfterRel.refl _ _
    | some r =>
      simp only []
      split
      · simp only [R.bind]
        split
        · exact AfterRel.refl _ _
        · split
          · exact AfterRel.refl _ _
          · split
            · rename_i hv _ _ happ
              refine ⟨by simp [R.state, schedule, invalidate], rfl, rfl, rfl, rfl, rfl, ?_, by simp [R.state, schedule], Or.inr ?_⟩
              · simp [R.state, schedule, contJobs, List.countP_append, isCont]; omega
              · simp [R.state, schedule, countOf, hr, hv]
                simp [retryApplies] at happ
                omega
            · exact AfterRel.refl _ _
      · exact AfterRel.refl _ _
  case timeout =>
    simp only [afterOne, check]; split <;> exact AfterRel.refl _ _
  case concurrency =>
    simp only [afterOne, check]; split <;> exact AfterRel.refl _ _

theorem AfterRel.trans {p : Params} {a b c : S} (h1 : AfterRel p a b) (h2 : AfterRel p b c) : AfterRel p a c := by
  refine ⟨by rw [h2.acts, h1.acts], by rw [h2.pn, h1.pn], by rw [h2.pe, h1.pe], by rw [h2.wf, h1.wf],
          by rw [h2.now, h1.now], by rw [h2.wb, h1.wb], ?_, Nat.le_trans h1.mono h2.mono, ?_⟩
  · have := h1.jobs; have := h2.jobs; omega
  · have a1 := h1.bound; have a2 := h2.bound; have := h1.mono; have := h2.mono
    omega

theorem runHooks_after_rel (p : Params) (ks : List PolicyKind) (s : S) :
    AfterRel p s (runHooks (afterOne p) ks s).state := by
  induction ks generalizing s with
  | nil => exact AfterRel.refl _ _
  | cons k ks ih =>
    simp only [runHooks]
    have h1 := afterOne_rel p k s
    cases h : afterOne p k s with
    | ok s1 =>
      rw [h] at h1
      simp only [R.bind]
      exact h1.trans (ih s1)
    | raise s1 =>
      rw [h] at h1
      simpa [R.bind] using h1

theorem afterAll_rel (p : Params) (s : S) : AfterRel p s (afterAll p s).state :=
  runHooks_after_rel p _ s

/-- what an event may do to the potential and the retry counter -/
structure Adv (p : Params) (s s' : S) : Prop where
  pot : potential s' + s.retryNo ≤ potential s + s'.retryNo
  mono : s.retryNo ≤ s'.retryNo
  bound : s'.retryNo = s.retryNo ∨ s'.retryNo ≤ countOf p
  frame : s'.pendingNew = true → s.pendingNew = true ∧ s'.wbSkip = s.wbSkip

theorem Adv.refl (p : Params) (s : S) : Adv p s s := ⟨Nat.le_refl _, Nat.le_refl _, Or.inl rfl, fun h => ⟨h, rfl⟩⟩

theorem potential_forceFail (s : S) : potential (forceFail s) ≤ potential s := by
  simp only [potential, forceFail, contJobs]
  split <;> rename_i h <;> simp [h]

theorem completeTask_adv (p : Params) (s : S) (st : TSt) (m : Msg) : Adv p s (completeTask p s st m) := by
  simp only [completeTask]
  split
  · exact Adv.refl _ _
  · have h := afterAll_rel p { s with st := st, msg := m }
    cases hr : afterAll p { s with st := st, msg := m } with
    | raise s2 =>
      rw [hr] at h; simp only [R.state] at h
      refine ⟨?_, by simpa [forceFail] using h.mono, by simpa [forceFail] using h.bound,
              fun hh => ⟨by simpa [forceFail, h.pn] using hh, by simp [forceFail, h.wb]⟩⟩
      have hp := potential_forceFail s2
      have : potential s2 + s.retryNo = potential s + s2.retryNo := by
        have := h.jobs; have := h.acts
        simp only [potential, h.pn, h.pe, h.wf, contJobs] at *
        omega
      simp only [forceFail] at *
      omega
    | ok s2 =>
      rw [hr] at h; simp only [R.state] at h
      have hpot : potential s2 + s.retryNo = potential s + s2.retryNo := by
        have := h.jobs; have := h.acts
        simp only [potential, h.pn, h.pe, h.wf, contJobs] at *
        omega
      have hm := h.mono; have hb := h.bound
      simp only [] at hm hb
      simp only []
      have hf : s2.pendingNew = true → s.pendingNew = true ∧ s2.wbSkip = s.wbSkip :=
        fun hh => ⟨by simpa [h.pn] using hh, by simp [h.wb]⟩
      split
      · exact ⟨Nat.le_of_eq hpot, hm, hb, hf⟩
      · split
        · exact ⟨Nat.le_of_eq hpot, hm, hb, hf⟩
        · split <;> refine ⟨?_, hm, hb, hf⟩ <;> simp only [potential, contJobs] at * <;> omega

/-- order-independent facts about the `before_task_start` hooks -/
structure BeforeRel (s s2 : S) : Prop where
  acts : s2.acts = s.acts
  rn : s2.retryNo = s.retryNo
  pn : s2.pendingNew = s.pendingNew
  pe : s2.pendingExisting = s.pendingExisting
  now : s2.now = s.now

theorem BeforeRel.refl (s : S) : BeforeRel s s := ⟨rfl, rfl, rfl, rfl, rfl⟩

theorem BeforeRel.trans {a b c : S} (h1 : BeforeRel a b) (h2 : BeforeRel b c) : BeforeRel a c :=
  ⟨by rw [h2.acts, h1.acts], by rw [h2.rn, h1.rn], by rw [h2.pn, h1.pn], by rw [h2.pe, h1.pe], by rw [h2.now, h1.now]⟩

theorem beforeOne_rel (p : Params) (k : PolicyKind) (s : S) : BeforeRel s (beforeOne p k s).state := by
  cases k <;> simp only [beforeOne, check, checkPause, checkRetry]
  all_goals (repeat' (first | split | simp only [R.bind]))
  all_goals first | exact BeforeRel.refl _ | exact ⟨rfl, rfl, rfl, rfl, rfl⟩

theorem runHooks_before_rel (p : Params) (ks : List PolicyKind) (s : S) :
    BeforeRel s (runHooks (beforeOne p) ks s).state := by
  induction ks generalizing s with
  | nil => exact BeforeRel.refl _
  | cons k ks ih =>
    simp only [runHooks]
    have h1 := beforeOne_rel p k s
    cases h : beforeOne p k s with
    | ok s1 => rw [h] at h1; simp only [R.bind]; exact h1.trans (ih s1)
    | raise s1 => rw [h] at h1; simpa [R.bind] using h1

theorem beforeAll_rel (p : Params) (s : S) : BeforeRel s (beforeAll p s).state :=
  runHooks_before_rel p _ s


def neutralKind : PolicyKind → Bool
  | .pauseBefore | .waitBefore => false
  | _ => true

/-- what the hooks other than pause-before / wait-before leave alone at task start -/
structure NeutralRel (s s2 : S) : Prop where
  st : s2.st = s.st
  wf : s2.wf = s.wf
  cj : contJobs s2 = contJobs s

theorem NeutralRel.refl (s : S) : NeutralRel s s := ⟨rfl, rfl, rfl⟩

theorem beforeOne_neutral (p : Params) (k : PolicyKind) (s : S) (hk : neutralKind k = true) :
    NeutralRel s (beforeOne p k s).state := by
  cases k <;> simp [neutralKind] at hk <;> simp only [beforeOne, check, checkRetry]
  all_goals (repeat' (first | split | simp only [R.bind]))
  all_goals first | exact NeutralRel.refl _ | skip
  exact ⟨rfl, rfl, by simp [R.state, schedule, contJobs, List.countP_append, isCont]⟩

theorem runHooks_neutral (p : Params) (ks : List PolicyKind) (s : S) (hk : ∀ k ∈ ks, neutralKind k = true) :
    NeutralRel s (runHooks (beforeOne p) ks s).state := by
  induction ks generalizing s with
  | nil => exact NeutralRel.refl _
  | cons k ks ih =>
    simp only [runHooks]
    have h1 := beforeOne_neutral p k s (hk k (by simp))
    have ih' := fun s => ih s (fun k' hk' => hk k' (by simp [hk']))
    cases h : beforeOne p k s with
    | ok s1 =>
      rw [h] at h1; simp only [R.state] at h1; simp only [R.bind]
      have h2 := ih' s1
      exact ⟨by rw [h2.st, h1.st], by rw [h2.wf, h1.wf], by rw [h2.cj, h1.cj]⟩
    | raise s1 => rw [h] at h1; simpa [R.bind] using h1

def pausedN (s : S) : Nat := if s.wf = .paused then 1 else 0
def willRun (r : R) : Nat := if r.isOk ∧ r.state.st = .running then 1 else 0

theorem beforeAll_unfold (p : Params) (s : S) :
    beforeAll p s = (beforeOne p .pauseBefore s).bind fun s1 => (beforeOne p .waitBefore s1).bind
      (runHooks (beforeOne p) [.waitAfter, .failOn, .retry, .timeout, .concurrency]) := rfl

theorem willRun_raise (s : S) : willRun (.raise s) = 0 := by simp [willRun, R.isOk]

/-- wait-before followed by hooks that leave state / workflow / continue jobs alone -/
theorem waitBefore_then (p : Params) (rest : S → R) (hn : ∀ s2, NeutralRel s2 (rest s2).state)
    (s1 : S) (hsk : s1.wbSkip = false) :
    let r := (beforeOne p .waitBefore s1).bind rest
    r.state.wf = s1.wf ∧
    (s1.st = .idle → contJobs r.state = contJobs s1 ∧ willRun r = 0) ∧
    (s1.st = .running → contJobs r.state + willRun r ≤ contJobs s1 + 1) := by
  by_cases hv : p.waitBefore.valid = true
  · by_cases hd : p.waitBefore.nat = 0
    · have e : beforeOne p .waitBefore s1 = .ok s1 := by simp [beforeOne, check, hv, hd, R.bind]
      simp only [e, R.bind]
      have h := hn s1
      refine ⟨h.wf, fun hi => ⟨h.cj, ?_⟩, fun hr => ?_⟩
      · simp [willRun, h.st, hi]
      · rw [h.cj]; simp only [willRun]; split <;> omega
    · by_cases hi : s1.st = .idle
      · have e : beforeOne p .waitBefore s1 = .ok s1 := by simp [beforeOne, check, hv, hd, hsk, hi, R.bind]
        simp only [e, R.bind]
        have h := hn s1
        refine ⟨h.wf, fun _ => ⟨h.cj, ?_⟩, fun hr => ?_⟩
        · simp [willRun, h.st, hi]
        · rw [hi] at hr; cases hr
      · have e : beforeOne p .waitBefore s1 =
            .ok (schedule { s1 with wbSkip := true, st := .delayed, msg := .waitBefore } .cont p.waitBefore.nat) := by
          simp [beforeOne, check, hv, hd, hsk, hi, R.bind]
        simp only [e, R.bind]
        have h := hn (schedule { s1 with wbSkip := true, st := .delayed, msg := .waitBefore } .cont p.waitBefore.nat)
        refine ⟨h.wf, fun hi' => absurd hi' hi, fun _ => ?_⟩
        rw [h.cj]
        have : willRun (rest (schedule { s1 with wbSkip := true, st := .delayed, msg := .waitBefore } .cont p.waitBefore.nat)) = 0 := by
          simp only [willRun]; rw [h.st]; simp [schedule]
        rw [this]
        simp [contJobs, schedule, List.countP_append, isCont]
  · have e : beforeOne p .waitBefore s1 = .raise s1 := by simp [beforeOne, check, hv, R.bind]
    simp only [e, R.bind, R.state]
    refine ⟨trivial, fun _ => ⟨trivial, willRun_raise _⟩, fun _ => ?_⟩
    rw [willRun_raise]; omega

/-- ORDER-DEPENDENT (pause-before precedes wait-before): starting a task creates at most one of
    {a continue job, a paused workflow, an action}. -/
theorem beforeAll_budget (p : Params) (s : S) (h : s.st = .running) (hsk : s.wbSkip = false) :
    contJobs (beforeAll p s).state + pausedN (beforeAll p s).state + willRun (beforeAll p s)
      ≤ contJobs s + pausedN s + 1 := by
  rw [beforeAll_unfold]
  have hn := fun s2 => runHooks_neutral p [.waitAfter, .failOn, .retry, .timeout, .concurrency] s2 (by simp [neutralKind])
  generalize runHooks (beforeOne p) [.waitAfter, .failOn, .retry, .timeout, .concurrency] = rest at hn
  cases hp : p.pauseBefore with
  | other t =>
    have e : beforeOne p .pauseBefore s = .raise s := by simp [beforeOne, checkPause, hp, R.bind]
    simp only [e, R.bind, R.state, willRun_raise]; omega
  | bool b =>
    cases b with
    | false =>
      have e : beforeOne p .pauseBefore s = .ok s := by simp [beforeOne, checkPause, hp, R.bind, PBool.truthy]
      rw [e]
      show contJobs ((beforeOne p .waitBefore s).bind rest).state + pausedN ((beforeOne p .waitBefore s).bind rest).state
            + willRun ((beforeOne p .waitBefore s).bind rest) ≤ _
      have hw := waitBefore_then p rest hn s hsk
      simp only [] at hw
      have h2 := hw.2.2 h
      simp only [pausedN, hw.1]
      omega
    | true =>
      have e : beforeOne p .pauseBefore s = .ok { s with st := .idle, msg := .pauseBefore, wf := pauseWf s.wf } := by
        simp [beforeOne, checkPause, hp, R.bind, PBool.truthy]
      rw [e]
      generalize hs1 : ({ s with st := .idle, msg := .pauseBefore, wf := pauseWf s.wf } : S) = s1
      show contJobs ((beforeOne p .waitBefore s1).bind rest).state + pausedN ((beforeOne p .waitBefore s1).bind rest).state
            + willRun ((beforeOne p .waitBefore s1).bind rest) ≤ _
      have hw := waitBefore_then p rest hn s1 (by rw [← hs1]; exact hsk)
      simp only [] at hw
      have h2 := hw.2.1 (by rw [← hs1])
      simp only [pausedN, hw.1, h2.1, h2.2]
      have : contJobs s1 = contJobs s := by rw [← hs1]; rfl
      have hwf : s1.wf = pauseWf s.wf := by rw [← hs1]
      rw [this, hwf]
      cases s.wf <;> simp [pauseWf]


theorem resetActions_length (l : List Act) : (resetActions l).length = l.length := by
  simp [resetActions]

theorem Adv.trans {p : Params} {a b c : S} (h1 : Adv p a b) (h2 : Adv p b c) : Adv p a c := by
  refine ⟨?_, Nat.le_trans h1.mono h2.mono, ?_, fun h => ?_⟩
  · have := h1.pot; have := h2.pot; omega
  · have := h1.bound; have := h2.bound; have := h1.mono; have := h2.mono; omega
  · have a2 := h2.frame h
    have a1 := h1.frame a2.1
    exact ⟨a1.1, by rw [a2.2, a1.2]⟩

/-- an event that leaves everything the invariant mentions alone -/
theorem Adv.of_eq {p : Params} {s s' : S} (hp : potential s' ≤ potential s) (hr : s'.retryNo = s.retryNo)
    (hn : s'.pendingNew = true → s.pendingNew = true) (hw : s'.wbSkip = s.wbSkip) : Adv p s s' :=
  ⟨by omega, by omega, Or.inl hr, fun h => ⟨hn h, hw⟩⟩

theorem continueTask_adv (p : Params) (s : S) :
    potential (continueTask p s) ≤ potential s + 1 ∧ (continueTask p s).retryNo = s.retryNo ∧
    (continueTask p s).pendingNew = s.pendingNew ∧ (continueTask p s).wbSkip = s.wbSkip := by
  by_cases hx : p.execTimeoutRaises = true <;>
    simp [continueTask, scheduleAction, hx, potential, contJobs, crash, resetActions] <;> omega

theorem fire_adv (p : Params) (s : S) (idx : Nat) : Adv p s (fire p s idx) := by
  simp only [fire]
  cases hj : s.jobs[idx]? with
  | none => exact Adv.refl _ _
  | some j =>
    simp only []
    split
    · exact Adv.refl _ _
    · have hc := countP_eraseIdx_add isCont s.jobs idx j hj
      have h0 : Adv p s { s with jobs := s.jobs.eraseIdx idx } :=
        Adv.of_eq (by simp only [potential, contJobs]; omega) rfl (fun h => h) rfl
      cases hk : j.kind with
      | cont =>
        simp only []
        have h1 := continueTask_adv p { s with jobs := s.jobs.eraseIdx idx }
        refine ⟨?_, Nat.le_of_eq h1.2.1.symm, Or.inl h1.2.1, fun h => ⟨by simpa [h1.2.2.1] using h, by simp [h1.2.2.2]⟩⟩
        have : isCont j = true := by simp [isCont, hk]
        simp only [this, if_true] at hc
        have hp0 : potential { s with jobs := s.jobs.eraseIdx idx } + 1 = potential s := by
          simp only [potential, contJobs]; omega
        have := h1.1
        rw [h1.2.1]
        show _ + s.retryNo ≤ _ + s.retryNo
        omega
      | complete st m =>
        simp only []
        exact h0.trans (completeTask_adv p _ st m)
      | timeout =>
        simp only []
        split
        · exact h0
        · exact h0.trans (completeTask_adv p _ _ _)

theorem result_adv (p : Params) (s : S) (i : Nat) (o : Outcome) (c b : Bool) : Adv p s (result p s i o c b) := by
  simp only [result]
  split
  · exact Adv.refl _ _
  · split
    · exact Adv.refl _ _
    · refine Adv.trans (b := { s with acts := s.acts.set i { res := some (o, c, b), accepted := true } }) ?_ (completeTask_adv p _ _ _)
      exact Adv.of_eq (by simp [potential, contJobs]) rfl (fun h => h) rfl

theorem startExisting_fields (p : Params) (s : S) :
    potential (startExisting p s) ≤ potential s ∧ (startExisting p s).retryNo = s.retryNo ∧
    (startExisting p s).pendingNew = s.pendingNew ∧ (startExisting p s).wbSkip = s.wbSkip := by
  by_cases hpe : s.pendingExisting = true
  · by_cases hs : s.st = .success
    · simp [startExisting, hpe, hs, potential, contJobs, b2n]
    · by_cases hx : p.execTimeoutRaises = true
      · simp [startExisting, hpe, hs, hx, scheduleAction, crash, potential, contJobs, b2n]
      · by_cases hr : s.st = .running ∧ s.msg = .none
        · simp [startExisting, hpe, hs, hx, hr, scheduleAction, setRunningExisting, potential, contJobs, b2n, resetActions]
          omega
        · simp [startExisting, hpe, hs, hx, hr, scheduleAction, setRunningExisting, potential, contJobs, b2n, resetActions]
          omega
  · simp [startExisting, hpe]

theorem startExisting_adv (p : Params) (s : S) : Adv p s (startExisting p s) := by
  have h := startExisting_fields p s
  exact Adv.of_eq h.1 h.2.1 (fun hh => by rw [← h.2.2.1]; exact hh) h.2.2.2

theorem resume_adv (p : Params) (s : S) : Adv p s (resume p s) := by
  simp only [resume]
  split
  · exact Adv.refl _ _
  · rename_i hw
    have hw' : s.wf = .paused := by simpa using hw
    by_cases hi : s.st = .idle
    · simp only [hi, if_true, isCompleted]
      refine Adv.of_eq ?_ rfl (fun h => h) rfl
      simp [potential, contJobs, hw', b2n]
    · simp only [hi, if_false]
      split <;> exact Adv.of_eq (by simp [potential, contJobs, hw', b2n]) rfl (fun h => h) rfl


theorem launch_fields (p : Params) (s0 : S) (hsk : s0.wbSkip = false) (hpn : s0.pendingNew = false) :
    potential (launch p s0) ≤ potential s0 + 1 ∧ (launch p s0).retryNo = s0.retryNo ∧
    (launch p s0).pendingNew = false := by
  have hb := beforeAll_budget p { s0 with st := .running } rfl hsk
  have hr := beforeAll_rel p { s0 with st := .running }
  simp only [launch]
  cases hrr : beforeAll p { s0 with st := .running } with
  | raise s2 =>
    rw [hrr] at hb hr
    simp only [R.state, willRun_raise] at hb hr
    have hf := potential_forceFail s2
    refine ⟨?_, by simp [forceFail, hr.rn], by simp [forceFail, hr.pn, hpn]⟩
    simp only [potential, pausedN, contJobs, hr.acts, hr.pn, hr.pe, b2n, hpn] at *
    simp at *
    omega
  | ok s2 =>
    rw [hrr] at hb hr
    simp only [R.state] at hb hr
    by_cases hrun : s2.st = .running
    · have hw : willRun (.ok s2) = 1 := by simp [willRun, R.isOk, R.state, hrun]
      rw [hw] at hb
      by_cases hx : p.execTimeoutRaises = true
      · simp only [hrun, if_true, scheduleAction, hx]
        refine ⟨?_, rfl, by simp [crash, hpn]⟩
        simp [potential, contJobs, crash, b2n, hpn]
      · simp only [hrun, if_true, scheduleAction, hx]
        refine ⟨?_, by simp [hr.rn], by simp [hr.pn, hpn]⟩
        simp only [potential, pausedN, contJobs, hr.acts, hr.pn, hr.pe, b2n, hpn] at *
        simp at *
        omega
    · have hw : willRun (.ok s2) = 0 := by simp [willRun, R.isOk, R.state, hrun]
      rw [hw] at hb
      simp only [hrun, if_false]
      refine ⟨?_, by simp [hr.rn], by simp [hr.pn, hpn]⟩
      simp only [potential, pausedN, contJobs, hr.acts, hr.pn, hr.pe, b2n, hpn] at *
      simp at *
      omega

theorem startNew_adv (p : Params) (s : S) (hsk : s.pendingNew = true → s.wbSkip = false) :
    Adv p s (startNew p s) := by
  by_cases hpn : s.pendingNew = true
  · by_cases hi : s.st = .idle
    · have h := launch_fields p { s with pendingNew := false } (hsk hpn) rfl
      have e : startNew p s = launch p { s with pendingNew := false } := by simp [startNew, hpn, hi]
      rw [e]
      refine ⟨?_, Nat.le_of_eq h.2.1.symm, Or.inl h.2.1, fun hh => by rw [h.2.2] at hh; cases hh⟩
      rw [h.2.1]
      have hp0 : potential { s with pendingNew := false } + 1 = potential s := by
        simp [potential, contJobs, b2n, hpn]; omega
      have := h.1
      show _ + s.retryNo ≤ _ + s.retryNo
      omega
    · have e : startNew p s = { s with pendingNew := false } := by simp [startNew, hpn, hi]
      rw [e]
      exact Adv.of_eq (by simp [potential, contJobs, b2n, hpn]) rfl (fun hh => by simp at hh) rfl
  · have e : startNew p s = s := by simp [startNew, hpn]
    rw [e]; exact Adv.refl _ _

theorem step_adv (p : Params) (s : S) (e : Ev) (hsk : s.pendingNew = true → s.wbSkip = false) :
    Adv p s (step p s e) := by
  cases e with
  | startNew => exact startNew_adv p s hsk
  | startExisting => exact startExisting_adv p s
  | result i o c b => exact result_adv p s i o c b
  | fire idx => exact fire_adv p s idx
  | tick dt => exact Adv.of_eq (Nat.le_refl _) rfl (fun h => h) rfl
  | resume => exact resume_adv p s
  | wfDone =>
    simp only [step]
    split
    · rename_i hw
      exact Adv.of_eq (by simp [potential, contJobs, hw]) rfl (fun h => h) rfl
    · exact Adv.refl _ _

/-- The invariant behind `attempts_le_count_plus_one`. -/
structure Inv (p : Params) (s : S) : Prop where
  pot : potential s ≤ 1 + s.retryNo
  rn : s.retryNo ≤ countOf p
  skip : s.pendingNew = true → s.wbSkip = false

theorem inv_init (p : Params) : Inv p init :=
  ⟨by simp [potential, init, contJobs, b2n], by simp [init], by simp [init]⟩

theorem inv_step (p : Params) (s : S) (e : Ev) (hi : Inv p s) : Inv p (step p s e) := by
  have ha := step_adv p s e hi.skip
  refine ⟨?_, ?_, fun h => ?_⟩
  · have := hi.pot; have := ha.pot; omega
  · have := hi.rn; have := ha.bound; omega
  · have := ha.frame h
    rw [this.2]; exact hi.skip this.1

theorem inv_reachable (p : Params) (evs : List Ev) : Inv p (run p init evs) := by
  suffices h : ∀ s, Inv p s → Inv p (run p s evs) from h _ (inv_init p)
  induction evs with
  | nil => intro s h; exact h
  | cons e es ih => intro s h; exact ih _ (inv_step p s e h)

theorem attempts_le (p : Params) (evs : List Ev) : (run p init evs).acts.length ≤ countOf p + 1 := by
  have h := inv_reachable p evs
  have := h.pot; have := h.rn
  simp only [potential] at *
  omega

end Mistral.Policy
