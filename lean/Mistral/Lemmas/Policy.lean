import Mistral.Model.Policy
/-! Helper lemmas for Props/C08: how the hooks, `completeTask` and the event handlers move the
    quantities the C08 theorems are about. -/
namespace Mistral.Policy

def R.state : R → S
  | .ok s => s
  | .raise s => s

def R.isOk : R → Bool
  | .ok _ => true
  | .raise _ => false

def isCont (j : Job) : Bool := match j.kind with | .cont => true | _ => false

/-- number of pending `_continue_task` jobs -/
def contJobs (s : S) : Nat := s.jobs.countP isCont

def b2n (b : Bool) : Nat := if b then 1 else 0

/-- Everything that can still start an action execution, plus the ones that exist. -/
def potential (s : S) : Nat :=
  s.acts.length + contJobs s + b2n s.pendingNew + b2n s.pendingExisting + (if s.wf = .paused then 1 else 0)

/-- The retry count in force (0 without a well-typed retry policy). -/
def countOf (p : Params) : Nat :=
  match p.retry with
  | some r => if r.count.valid && r.delay.valid then r.count.nat else 0
  | none => 0

theorem countP_eraseIdx_add (q : Job → Bool) :
    ∀ (l : List Job) (i : Nat) (a : Job), l[i]? = some a →
      (l.eraseIdx i).countP q + (if q a then 1 else 0) = l.countP q := by
  intro l
  induction l with
  | nil => intro i a h; simp at h
  | cons x xs ih =>
    intro i a h
    cases i with
    | zero =>
      simp at h; subst h
      simp [List.countP_cons]
    | succ n =>
      simp at h
      have := ih n a h
      simp [List.countP_cons]
      omega

structure AfterRel (p : Params) (s s2 : S) : Prop where
  acts : s2.acts.length = s.acts.length
  pn : s2.pendingNew = s.pendingNew
  pe : s2.pendingExisting = s.pendingExisting
  wf : s2.wf = s.wf
  now : s2.now = s.now
  wb : s2.wbSkip = s.wbSkip
  jobs : contJobs s2 + s.retryNo = contJobs s + s2.retryNo
  mono : s.retryNo ≤ s2.retryNo
  bound : s2.retryNo = s.retryNo ∨ s2.retryNo ≤ countOf p

theorem AfterRel.refl (p : Params) (s : S) : AfterRel p s s :=
  ⟨rfl, rfl, rfl, rfl, rfl, rfl, rfl, Nat.le_refl _, Or.inl rfl⟩

theorem afterOne_rel (p : Params) (k : PolicyKind) (s : S) : AfterRel p s (afterOne p k s).state := by
  cases k
  case pauseBefore =>
    simp only [afterOne, checkPause]; split <;> exact AfterRel.refl _ _
  case waitBefore =>
    simp only [afterOne, check]; split <;> exact AfterRel.refl _ _
  case waitAfter =>
    simp only [afterOne, check]
    split
    · simp only [R.bind]
      split
      · exact AfterRel.refl _ _
      · split
        · exact AfterRel.refl _ _
        · refine ⟨rfl, rfl, rfl, rfl, rfl, rfl, ?_, Nat.le_refl _, Or.inl rfl⟩
          simp [R.state, schedule, contJobs, List.countP_append, isCont]
    · exact AfterRel.refl _ _
  case failOn =>
    simp only [afterOne]; split
    · exact ⟨rfl, rfl, rfl, rfl, rfl, rfl, rfl, Nat.le_refl _, Or.inl rfl⟩
    · exact AfterRel.refl _ _
  case retry =>
    simp only [afterOne, checkRetry]
    cases hr : p.retry with
    | none => exact AfterRel.refl _ _
    | some r =>
      simp only []
      split
      · simp only [R.bind]
        split
        · exact AfterRel.refl _ _
        · split
          · exact AfterRel.refl _ _
          · split
            · rename_i hv _ _ happ
              refine ⟨by simp [R.state, schedule, invalidate], rfl, rfl, rfl, rfl, rfl, ?_, by simp [R.state, schedule], Or.inr ?_⟩
              · simp [R.state, schedule, contJobs, List.countP_append, isCont]; omega
              · simp [R.state, schedule, countOf, hr, hv]
                simp [retryApplies] at happ
                omega
            · exact AfterRel.refl _ _
      · exact AfterRel.refl _ _
  case timeout =>
    simp only [afterOne, check]; split <;> exact AfterRel.refl _ _
  case concurrency =>
    simp only [afterOne, check]; split <;> exact AfterRel.refl _ _

theorem AfterRel.trans {p : Params} {a b c : S} (h1 : AfterRel p a b) (h2 : AfterRel p b c) : AfterRel p a c := by
  refine ⟨by rw [h2.acts, h1.acts], by rw [h2.pn, h1.pn], by rw [h2.pe, h1.pe], by rw [h2.wf, h1.wf],
          by rw [h2.now, h1.now], by rw [h2.wb, h1.wb], ?_, Nat.le_trans h1.mono h2.mono, ?_⟩
  · have := h1.jobs; have := h2.jobs; omega
  · have a1 := h1.bound; have a2 := h2.bound; have := h1.mono; have := h2.mono
    omega

theorem runHooks_after_rel (p : Params) (ks : List PolicyKind) (s : S) :
    AfterRel p s (runHooks (afterOne p) ks s).state := by
  induction ks generalizing s with
  | nil => exact AfterRel.refl _ _
  | cons k ks ih =>
    simp only [runHooks]
    have h1 := afterOne_rel p k s
    cases h : afterOne p k s with
    | ok s1 =>
      rw [h] at h1
      simp only [R.bind]
      exact h1.trans (ih s1)
    | raise s1 =>
      rw [h] at h1
      simpa [R.bind] using h1

theorem afterAll_rel (p : Params) (s : S) : AfterRel p s (afterAll p s).state :=
  runHooks_after_rel p _ s

/-- what an event may do to the potential and the retry counter -/
structure Adv (p : Params) (s s' : S) : Prop where
  pot : potential s' + s.retryNo ≤ potential s + s'.retryNo
  mono : s.retryNo ≤ s'.retryNo
  bound : s'.retryNo = s.retryNo ∨ s'.retryNo ≤ countOf p
  frame : s'.pendingNew = true → s.pendingNew = true ∧ s'.wbSkip = s.wbSkip

theorem Adv.refl (p : Params) (s : S) : Adv p s s := ⟨Nat.le_refl _, Nat.le_refl _, Or.inl rfl, fun h => ⟨h, rfl⟩⟩

theorem potential_forceFail (s : S) : potential (forceFail s) ≤ potential s := by
  simp [potential, forceFail, contJobs]

theorem completeTask_adv (p : Params) (s : S) (st : TSt) (m : Msg) : Adv p s (completeTask p s st m) := by
  simp only [completeTask]
  split
  · exact Adv.refl _ _
  · have h := afterAll_rel p { s with st := st, msg := m }
    cases hr : afterAll p { s with st := st, msg := m } with
    | raise s2 =>
      rw [hr] at h; simp only [R.state] at h
      refine ⟨?_, by simpa [forceFail] using h.mono, by simpa [forceFail] using h.bound,
              fun hh => ⟨by simpa [forceFail, h.pn] using hh, by simp [forceFail, h.wb]⟩⟩
      have hp := potential_forceFail s2
      have : potential s2 + s.retryNo = potential s + s2.retryNo := by
        have := h.jobs; have := h.acts
        simp only [potential, h.pn, h.pe, h.wf, contJobs] at *
        omega
      simp only [forceFail] at *
      omega
    | ok s2 =>
      rw [hr] at h; simp only [R.state] at h
      have hpot : potential s2 + s.retryNo = potential s + s2.retryNo := by
        have := h.jobs; have := h.acts
        simp only [potential, h.pn, h.pe, h.wf, contJobs] at *
        omega
      have hm := h.mono; have hb := h.bound
      simp only [] at hm hb
      simp only []
      have hf : s2.pendingNew = true → s.pendingNew = true ∧ s2.wbSkip = s.wbSkip :=
        fun hh => ⟨by simpa [h.pn] using hh, by simp [h.wb]⟩
      split
      · exact ⟨Nat.le_of_eq hpot, hm, hb, hf⟩
      · split
        · exact ⟨Nat.le_of_eq hpot, hm, hb, hf⟩
        · split <;> refine ⟨?_, hm, hb, hf⟩ <;> simp only [potential, contJobs] at * <;> omega

/-- order-independent facts about the `before_task_start` hooks -/
structure BeforeRel (s s2 : S) : Prop where
  acts : s2.acts = s.acts
  rn : s2.retryNo = s.retryNo
  pn : s2.pendingNew = s.pendingNew
  pe : s2.pendingExisting = s.pendingExisting
  now : s2.now = s.now

theorem BeforeRel.refl (s : S) : BeforeRel s s := ⟨rfl, rfl, rfl, rfl, rfl⟩

theorem BeforeRel.trans {a b c : S} (h1 : BeforeRel a b) (h2 : BeforeRel b c) : BeforeRel a c :=
  ⟨by rw [h2.acts, h1.acts], by rw [h2.rn, h1.rn], by rw [h2.pn, h1.pn], by rw [h2.pe, h1.pe], by rw [h2.now, h1.now]⟩

theorem beforeOne_rel (p : Params) (k : PolicyKind) (s : S) : BeforeRel s (beforeOne p k s).state := by
  cases k <;> simp only [beforeOne, check, checkPause, checkRetry]
  all_goals (repeat' (first | split | simp only [R.bind]))
  all_goals first | exact BeforeRel.refl _ | exact ⟨rfl, rfl, rfl, rfl, rfl⟩

theorem runHooks_before_rel (p : Params) (ks : List PolicyKind) (s : S) :
    BeforeRel s (runHooks (beforeOne p) ks s).state := by
  induction ks generalizing s with
  | nil => exact BeforeRel.refl _
  | cons k ks ih =>
    simp only [runHooks]
    have h1 := beforeOne_rel p k s
    cases h : beforeOne p k s with
    | ok s1 => rw [h] at h1; simp only [R.bind]; exact h1.trans (ih s1)
    | raise s1 => rw [h] at h1; simpa [R.bind] using h1

theorem beforeAll_rel (p : Params) (s : S) : BeforeRel s (beforeAll p s).state :=
  runHooks_before_rel p _ s


def neutralKind : PolicyKind → Bool
  | .pauseBefore | .waitBefore => false
  | _ => true

/-- what the hooks other than pause-before / wait-before leave alone at task start -/
structure NeutralRel (s s2 : S) : Prop where
  st : s2.st = s.st
  wf : s2.wf = s.wf
  cj : contJobs s2 = contJobs s

theorem NeutralRel.refl (s : S) : NeutralRel s s := ⟨rfl, rfl, rfl⟩

theorem beforeOne_neutral (p : Params) (k : PolicyKind) (s : S) (hk : neutralKind k = true) :
    NeutralRel s (beforeOne p k s).state := by
  cases k <;> simp [neutralKind] at hk <;> simp only [beforeOne, check, checkRetry]
  all_goals (repeat' (first | split | simp only [R.bind]))
  all_goals first | exact NeutralRel.refl _ | skip
  exact ⟨rfl, rfl, by simp [R.state, schedule, contJobs, List.countP_append, isCont]⟩

theorem runHooks_neutral (p : Params) (ks : List PolicyKind) (s : S) (hk : ∀ k ∈ ks, neutralKind k = true) :
    NeutralRel s (runHooks (beforeOne p) ks s).state := by
  induction ks generalizing s with
  | nil => exact NeutralRel.refl _
  | cons k ks ih =>
    simp only [runHooks]
    have h1 := beforeOne_neutral p k s (hk k (by simp))
    have ih' := fun s => ih s (fun k' hk' => hk k' (by simp [hk']))
    cases h : beforeOne p k s with
    | ok s1 =>
      rw [h] at h1; simp only [R.state] at h1; simp only [R.bind]
      have h2 := ih' s1
      exact ⟨by rw [h2.st, h1.st], by rw [h2.wf, h1.wf], by rw [h2.cj, h1.cj]⟩
    | raise s1 => rw [h] at h1; simpa [R.bind] using h1

def pausedN (s : S) : Nat := if s.wf = .paused then 1 else 0
def willRun (r : R) : Nat := if r.isOk ∧ r.state.st = .running then 1 else 0

theorem beforeAll_unfold (p : Params) (s : S) :
    beforeAll p s = (beforeOne p .pauseBefore s).bind fun s1 => (beforeOne p .waitBefore s1).bind
      (runHooks (beforeOne p) [.waitAfter, .failOn, .retry, .timeout, .concurrency]) := rfl

theorem willRun_raise (s : S) : willRun (.raise s) = 0 := by simp [willRun, R.isOk]

/-- wait-before followed by hooks that leave state / workflow / continue jobs alone -/
theorem waitBefore_then (p : Params) (rest : S → R) (hn : ∀ s2, NeutralRel s2 (rest s2).state)
    (s1 : S) (hsk : s1.wbSkip = false) :
    let r := (beforeOne p .waitBefore s1).bind rest
    r.state.wf = s1.wf ∧
    (s1.st = .idle → contJobs r.state = contJobs s1 ∧ willRun r = 0) ∧
    (s1.st = .running → contJobs r.state + willRun r ≤ contJobs s1 + 1) := by
  by_cases hv : p.waitBefore.valid = true
  · by_cases hd : p.waitBefore.nat = 0
    · have e : beforeOne p .waitBefore s1 = .ok s1 := by simp [beforeOne, check, hv, hd, R.bind]
      simp only [e, R.bind]
      have h := hn s1
      refine ⟨h.wf, fun hi => ⟨h.cj, ?_⟩, fun hr => ?_⟩
      · simp [willRun, h.st, hi]
      · rw [h.cj]; simp only [willRun]; split <;> omega
    · by_cases hi : s1.st = .idle
      · have e : beforeOne p .waitBefore s1 = .ok s1 := by simp [beforeOne, check, hv, hd, hsk, hi, R.bind]
        simp only [e, R.bind]
        have h := hn s1
        refine ⟨h.wf, fun _ => ⟨h.cj, ?_⟩, fun hr => ?_⟩
        · simp [willRun, h.st, hi]
        · rw [hi] at hr; cases hr
      · have e : beforeOne p .waitBefore s1 =
            .ok (schedule { s1 with wbSkip := true, st := .delayed, msg := .waitBefore } .cont p.waitBefore.nat) := by
          simp [beforeOne, check, hv, hd, hsk, hi, R.bind]
        simp only [e, R.bind]
        have h := hn (schedule { s1 with wbSkip := true, st := .delayed, msg := .waitBefore } .cont p.waitBefore.nat)
        refine ⟨h.wf, fun hi' => absurd hi' hi, fun _ => ?_⟩
        rw [h.cj]
        have : willRun (rest (schedule { s1 with wbSkip := true, st := .delayed, msg := .waitBefore } .cont p.waitBefore.nat)) = 0 := by
          simp only [willRun]; rw [h.st]; simp [schedule]
        rw [this]
        simp [contJobs, schedule, List.countP_append, isCont]
  · have e : beforeOne p .waitBefore s1 = .raise s1 := by simp [beforeOne, check, hv, R.bind]
    simp only [e, R.bind, R.state]
    refine ⟨trivial, fun _ => ⟨trivial, willRun_raise _⟩, fun _ => ?_⟩
    rw [willRun_raise]; omega

/-- ORDER-DEPENDENT (pause-before precedes wait-before): starting a task creates at most one of
    {a continue job, a paused workflow, an action}. -/
theorem beforeAll_budget (p : Params) (s : S) (h : s.st = .running) (hsk : s.wbSkip = false) :
    contJobs (beforeAll p s).state + pausedN (beforeAll p s).state + willRun (beforeAll p s)
      ≤ contJobs s + pausedN s + 1 := by
  rw [beforeAll_unfold]
  have hn := fun s2 => runHooks_neutral p [.waitAfter, .failOn, .retry, .timeout, .concurrency] s2 (by simp [neutralKind])
  generalize runHooks (beforeOne p) [.waitAfter, .failOn, .retry, .timeout, .concurrency] = rest at hn
  cases hp : p.pauseBefore with
  | other t =>
    have e : beforeOne p .pauseBefore s = .raise s := by simp [beforeOne, checkPause, hp, R.bind]
    simp only [e, R.bind, R.state, willRun_raise]; omega
  | bool b =>
    cases b with
    | false =>
      have e : beforeOne p .pauseBefore s = .ok s := by simp [beforeOne, checkPause, hp, R.bind, PBool.truthy]
      rw [e]
      show contJobs ((beforeOne p .waitBefore s).bind rest).state + pausedN ((beforeOne p .waitBefore s).bind rest).state
            + willRun ((beforeOne p .waitBefore s).bind rest) ≤ _
      have hw := waitBefore_then p rest hn s hsk
      simp only [] at hw
      have h2 := hw.2.2 h
      simp only [pausedN, hw.1]
      omega
    | true =>
      have e : beforeOne p .pauseBefore s = .ok { s with st := .idle, msg := .pauseBefore, wf := pauseWf s.wf } := by
        simp [beforeOne, checkPause, hp, R.bind, PBool.truthy]
      rw [e]
      generalize hs1 : ({ s with st := .idle, msg := .pauseBefore, wf := pauseWf s.wf } : S) = s1
      show contJobs ((beforeOne p .waitBefore s1).bind rest).state + pausedN ((beforeOne p .waitBefore s1).bind rest).state
            + willRun ((beforeOne p .waitBefore s1).bind rest) ≤ _
      have hw := waitBefore_then p rest hn s1 (by rw [← hs1]; exact hsk)
      simp only [] at hw
      have h2 := hw.2.1 (by rw [← hs1])
      simp only [pausedN, hw.1, h2.1, h2.2]
      have : contJobs s1 = contJobs s := by rw [← hs1]; rfl
      have hwf : s1.wf = pauseWf s.wf := by rw [← hs1]
      rw [this, hwf]
      cases s.wf <;> simp [pauseWf]


theorem resetActions_length (l : List Act) : (resetActions l).length = l.length := by
  simp [resetActions]

theorem Adv.trans {p : Params} {a b c : S} (h1 : Adv p a b) (h2 : Adv p b c) : Adv p a c := by
  refine ⟨?_, Nat.le_trans h1.mono h2.mono, ?_, fun h => ?_⟩
  · have := h1.pot; have := h2.pot; omega
  · have := h1.bound; have := h2.bound; have := h1.mono; have := h2.mono; omega
  · have a2 := h2.frame h
    have a1 := h1.frame a2.1
    exact ⟨a1.1, by rw [a2.2, a1.2]⟩

/-- an event that leaves everything the invariant mentions alone -/
theorem Adv.of_eq {p : Params} {s s' : S} (hp : potential s' ≤ potential s) (hr : s'.retryNo = s.retryNo)
    (hn : s'.pendingNew = true → s.pendingNew = true) (hw : s'.wbSkip = s.wbSkip) : Adv p s s' :=
  ⟨by omega, by omega, Or.inl hr, fun h => ⟨hn h, hw⟩⟩

theorem continueTask_adv (p : Params) (s : S) :
    potential (continueTask p s) ≤ potential s + 1 ∧ (continueTask p s).retryNo = s.retryNo ∧
    (continueTask p s).pendingNew = s.pendingNew ∧ (continueTask p s).wbSkip = s.wbSkip := by
  by_cases ho : hasOutstanding s.acts = true
  · simp [continueTask, ho, potential, contJobs]
  · by_cases hx : p.execTimeoutRaises = true <;>
      simp [continueTask, ho, scheduleAction, hx, potential, contJobs, crash, resetActions] <;> omega

theorem fire_adv (p : Params) (s : S) (idx : Nat) : Adv p s (fire p s idx) := by
  simp only [fire]
  cases hj : s.jobs[idx]? with
  | none => exact Adv.refl _ _
  | some j =>
    simp only []
    split
    · exact Adv.refl _ _
    · have hc := countP_eraseIdx_add isCont s.jobs idx j hj
      have h0 : Adv p s { s with jobs := s.jobs.eraseIdx idx } :=
        Adv.of_eq (by simp only [potential, contJobs]; omega) rfl (fun h => h) rfl
      cases hk : j.kind with
      | cont =>
        simp only []
        split
        case isFalse => exact h0
        have h1 := continueTask_adv p { s with jobs := s.jobs.eraseIdx idx }
        refine ⟨?_, Nat.le_of_eq h1.2.1.symm, Or.inl h1.2.1, fun h => ⟨by simpa [h1.2.2.1] using h, by simp [h1.2.2.2]⟩⟩
        have : isCont j = true := by simp [isCont, hk]
        simp only [this, if_true] at hc
        have hp0 : potential { s with jobs := s.jobs.eraseIdx idx } + 1 = potential s := by
          simp only [potential, contJobs]; omega
        have := h1.1
        rw [h1.2.1]
        show _ + s.retryNo ≤ _ + s.retryNo
        omega
      | complete st m =>
        simp only []
        split
        · exact h0.trans (completeTask_adv p _ st m)
        · exact h0
      | timeout =>
        simp only []
        split
        · exact h0
        · exact h0.trans (completeTask_adv p _ _ _)

theorem result_adv (p : Params) (s : S) (i : Nat) (o : Outcome) (c b : Bool) : Adv p s (result p s i o c b) := by
  simp only [result]
  split
  · exact Adv.refl _ _
  · split
    · exact Adv.refl _ _
    · refine Adv.trans (b := { s with acts := s.acts.set i { res := some (o, c, b), accepted := true } }) ?_ (completeTask_adv p _ _ _)
      exact Adv.of_eq (by simp [potential, contJobs]) rfl (fun h => h) rfl

theorem startExisting_fields (p : Params) (s : S) :
    potential (startExisting p s) ≤ potential s ∧ (startExisting p s).retryNo = s.retryNo ∧
    (startExisting p s).pendingNew = s.pendingNew ∧ (startExisting p s).wbSkip = s.wbSkip := by
  by_cases hpe : s.pendingExisting = true
  · by_cases hs : s.st = .success
    · simp [startExisting, hpe, hs, potential, contJobs, b2n]
    · by_cases hc : isCompleted s.st = true
      · simp [startExisting, hpe, hs, hc, potential, contJobs, b2n]
      · have hc' : isCompleted s.st = false := by simpa using hc
        have hcr : isCompleted TSt.running = false := rfl
        by_cases hg : s.st = .running ∧ hasOutstanding s.acts = true
        · simp [startExisting, hpe, hs, hc', hcr, hg, potential, contJobs, b2n]
        · by_cases hx : p.execTimeoutRaises = true
          · simp [startExisting, hpe, hs, hc', hcr, hg, hx, scheduleAction, crash, potential, contJobs, b2n]
          · by_cases hr : s.st = .running ∧ s.msg = .none
            · have ho : hasOutstanding s.acts = false := by
                cases h : hasOutstanding s.acts with
                | false => rfl
                | true => exact absurd ⟨hr.1, h⟩ hg
              simp [startExisting, hpe, hs, hc', hcr, ho, hx, hr, scheduleAction, setRunningExisting, potential, contJobs, b2n, resetActions]
              omega
            · simp [startExisting, hpe, hs, hc', hcr, hg, hx, hr, scheduleAction, setRunningExisting, potential, contJobs, b2n, resetActions]
              omega
  · simp [startExisting, hpe]

theorem startExisting_adv (p : Params) (s : S) : Adv p s (startExisting p s) := by
  have h := startExisting_fields p s
  exact Adv.of_eq h.1 h.2.1 (fun hh => by rw [← h.2.2.1]; exact hh) h.2.2.2

theorem resume_adv (p : Params) (s : S) : Adv p s (resume p s) := by
  simp only [resume]
  split
  · exact Adv.refl _ _
  · rename_i hw
    have hw' : s.wf = .paused := by simpa using hw
    by_cases hi : s.st = .idle
    · simp only [hi, if_true, isCompleted]
      refine Adv.of_eq ?_ rfl (fun h => h) rfl
      simp [potential, contJobs, hw', b2n]
    · simp only [hi, if_false]
      split <;> exact Adv.of_eq (by simp [potential, contJobs, hw', b2n]) rfl (fun h => h) rfl


theorem launch_fields (p : Params) (s0 : S) (hsk : s0.wbSkip = false) (hpn : s0.pendingNew = false) :
    potential (launch p s0) ≤ potential s0 + 1 ∧ (launch p s0).retryNo = s0.retryNo ∧
    (launch p s0).pendingNew = false := by
  have hb := beforeAll_budget p { s0 with st := .running } rfl hsk
  have hr := beforeAll_rel p { s0 with st := .running }
  simp only [launch]
  cases hrr : beforeAll p { s0 with st := .running } with
  | raise s2 =>
    rw [hrr] at hb hr
    simp only [R.state, willRun_raise] at hb hr
    have hf := potential_forceFail s2
    refine ⟨?_, by simp [forceFail, hr.rn], by simp [forceFail, hr.pn, hpn]⟩
    simp only [potential, pausedN, contJobs, hr.acts, hr.pn, hr.pe, b2n, hpn] at *
    simp at *
    omega
  | ok s2 =>
    rw [hrr] at hb hr
    simp only [R.state] at hb hr
    by_cases hrun : s2.st = .running
    · have hw : willRun (.ok s2) = 1 := by simp [willRun, R.isOk, R.state, hrun]
      rw [hw] at hb
      by_cases hx : p.execTimeoutRaises = true
      · simp only [hrun, if_true, scheduleAction, hx]
        refine ⟨?_, rfl, by simp [crash, hpn]⟩
        simp [potential, contJobs, crash, b2n, hpn]
      · simp only [hrun, if_true, scheduleAction, hx]
        refine ⟨?_, by simp [hr.rn], by simp [hr.pn, hpn]⟩
        simp only [potential, pausedN, contJobs, hr.acts, hr.pn, hr.pe, b2n, hpn] at *
        simp at *
        omega
    · have hw : willRun (.ok s2) = 0 := by simp [willRun, R.isOk, R.state, hrun]
      rw [hw] at hb
      simp only [hrun, if_false]
      refine ⟨?_, by simp [hr.rn], by simp [hr.pn, hpn]⟩
      simp only [potential, pausedN, contJobs, hr.acts, hr.pn, hr.pe, b2n, hpn] at *
      simp at *
      omega

theorem startNew_adv (p : Params) (s : S) (hsk : s.pendingNew = true → s.wbSkip = false) :
    Adv p s (startNew p s) := by
  by_cases hpn : s.pendingNew = true
  · by_cases hi : s.st = .idle
    · have h := launch_fields p { s with pendingNew := false } (hsk hpn) rfl
      have e : startNew p s = launch p { s with pendingNew := false } := by simp [startNew, hpn, hi]
      rw [e]
      refine ⟨?_, Nat.le_of_eq h.2.1.symm, Or.inl h.2.1, fun hh => by rw [h.2.2] at hh; cases hh⟩
      rw [h.2.1]
      have hp0 : potential { s with pendingNew := false } + 1 = potential s := by
        simp [potential, contJobs, b2n, hpn]; omega
      have := h.1
      show _ + s.retryNo ≤ _ + s.retryNo
      omega
    · have e : startNew p s = { s with pendingNew := false } := by simp [startNew, hpn, hi]
      rw [e]
      exact Adv.of_eq (by simp [potential, contJobs, b2n, hpn]) rfl (fun hh => by simp at hh) rfl
  · have e : startNew p s = s := by simp [startNew, hpn]
    rw [e]; exact Adv.refl _ _

theorem step_adv (p : Params) (s : S) (e : Ev) (hsk : s.pendingNew = true → s.wbSkip = false) :
    Adv p s (step p s e) := by
  cases e with
  | startNew => exact startNew_adv p s hsk
  | startExisting => exact startExisting_adv p s
  | result i o c b => exact result_adv p s i o c b
  | fire idx => exact fire_adv p s idx
  | tick dt => exact Adv.of_eq (Nat.le_refl _) rfl (fun h => h) rfl
  | resume => exact resume_adv p s
  | wfDone =>
    simp only [step]
    split
    · rename_i hw
      exact Adv.of_eq (by simp [potential, contJobs, hw]) rfl (fun h => h) rfl
    · exact Adv.refl _ _

/-- The invariant behind `attempts_le_count_plus_one`. -/
structure Inv (p : Params) (s : S) : Prop where
  pot : potential s ≤ 1 + s.retryNo
  rn : s.retryNo ≤ countOf p
  skip : s.pendingNew = true → s.wbSkip = false

theorem inv_init (p : Params) : Inv p init :=
  ⟨by simp [potential, init, contJobs, b2n], by simp [init], by simp [init]⟩

theorem inv_step (p : Params) (s : S) (e : Ev) (hi : Inv p s) : Inv p (step p s e) := by
  have ha := step_adv p s e hi.skip
  refine ⟨?_, ?_, fun h => ?_⟩
  · have := hi.pot; have := ha.pot; omega
  · have := hi.rn; have := ha.bound; omega
  · have := ha.frame h
    rw [this.2]; exact hi.skip this.1

theorem inv_reachable (p : Params) (evs : List Ev) : Inv p (run p init evs) := by
  suffices h : ∀ s, Inv p s → Inv p (run p s evs) from h _ (inv_init p)
  induction evs with
  | nil => intro s h; exact h
  | cons e es ih => intro s h; exact ih _ (inv_step p s e h)

theorem attempts_le (p : Params) (evs : List Ev) : (run p init evs).acts.length ≤ countOf p + 1 := by
  have h := inv_reachable p evs
  have := h.pot; have := h.rn
  simp only [potential] at *
  omega


/-- every evaluated parameter passes its schema type check -/
def Params.wellTyped (p : Params) : Bool :=
  p.waitBefore.valid && p.waitAfter.valid && p.timeout.valid && p.concurrency.valid &&
  (match p.pauseBefore with | .bool _ => true | .other _ => false) &&
  (match p.retry with | none => true | some r => r.count.valid && r.delay.valid)

def waitAfterStep (p : Params) (s : S) : S :=
  if p.waitAfter.nat = 0 then s
  else if s.waSkip then s
  else schedule { s with waSkip := true, st := .delayed, msg := .waitAfter } (.complete s.st s.msg) p.waitAfter.nat

def failOnStep (p : Params) (s : S) : S :=
  if s.st = .success ∧ p.failOn.truthy then { s with st := .error, msg := .failOn } else s

def retryStep (p : Params) (s : S) : S :=
  match p.retry with
  | none => s
  | some r =>
    if r.count.nat = 0 then s
    else if !isCompleted s.st then s
    else if retryApplies r s.retryNo s.st (evalFlags s.acts).1 (evalFlags s.acts).2 then
      schedule { s with acts := invalidate s.acts, retryNo := s.retryNo + 1, st := .delayed, msg := .retry } .cont r.delay.nat
    else s

theorem afterAll_unfold (p : Params) (s : S) :
    afterAll p s = (afterOne p .pauseBefore s).bind fun s => (afterOne p .waitBefore s).bind fun s =>
      (afterOne p .waitAfter s).bind fun s => (afterOne p .failOn s).bind fun s => (afterOne p .retry s).bind fun s =>
      (afterOne p .timeout s).bind fun s => (afterOne p .concurrency s).bind fun s => .ok s := rfl

/-- ORDER-DEPENDENT closed form of the `after_task_complete` pass for well-typed parameters:
    wait-after, then fail-on, then retry. -/
theorem afterAll_wellTyped (p : Params) (hw : p.wellTyped = true) (s : S) :
    afterAll p s = .ok (retryStep p (failOnStep p (waitAfterStep p s))) := by
  rw [afterAll_unfold]
  simp only [Params.wellTyped, Bool.and_eq_true] at hw
  obtain ⟨⟨⟨⟨⟨h1, h2⟩, h3⟩, h4⟩, h5⟩, h6⟩ := hw
  have e1 : ∀ s, afterOne p .pauseBefore s = .ok s := by
    intro s; cases hp : p.pauseBefore <;> simp [afterOne, checkPause, hp] <;> simp [hp] at h5
  have e2 : ∀ s, afterOne p .waitBefore s = .ok s := by intro s; simp [afterOne, check, h1]
  have e3 : ∀ s, afterOne p .waitAfter s = .ok (waitAfterStep p s) := by
    intro s; simp only [afterOne, check, h2, if_true, R.bind, waitAfterStep]
    split
    · rfl
    · split <;> rfl
  have e4 : ∀ s, afterOne p .failOn s = .ok (failOnStep p s) := by
    intro s; simp only [afterOne, failOnStep]; split <;> rfl
  have e5 : ∀ s, afterOne p .retry s = .ok (retryStep p s) := by
    intro s
    simp only [afterOne, checkRetry, retryStep]
    cases hr : p.retry with
    | none => rfl
    | some r =>
      simp only [hr] at h6
      simp only [h6, if_true, R.bind]
      split
      · rfl
      · split
        · rfl
        · split <;> rfl
  have e6 : ∀ s, afterOne p .timeout s = .ok s := by intro s; simp [afterOne, check, h3]
  have e7 : ∀ s, afterOne p .concurrency s = .ok s := by intro s; simp [afterOne, check, h4]
  simp only [e1, e2, e3, e4, e5, e6, e7, R.bind]

/-- `Task.complete` for well-typed parameters on a task that is not completed yet. -/
def settle (p : Params) (s2 : S) : S :=
  if s2.st = .delayed then s2
  else if s2.wf = .paused then s2
  else if s2.wf = .running then { s2 with processed := true, followUps := s2.followUps + follows p s2.st }
  else { s2 with processed := true }

theorem completeTask_wellTyped (p : Params) (hw : p.wellTyped = true) (s : S) (st : TSt) (m : Msg)
    (hc : isCompleted s.st = false) :
    completeTask p s st m = settle p (retryStep p (failOnStep p (waitAfterStep p { s with st := st, msg := m }))) := by
  simp only [completeTask, hc, afterAll_wellTyped p hw, settle, Bool.false_eq_true, if_false]



/-- the wait-after branch of `Task.complete`: nothing but the postponement happens -/
theorem complete_waitAfter (p : Params) (hw : p.wellTyped = true) (s : S) (st : TSt) (m : Msg)
    (hc : isCompleted s.st = false) (hd : p.waitAfter.nat ≠ 0) (hs : s.waSkip = false) :
    completeTask p s st m =
      schedule { s with st := .delayed, msg := .waitAfter, waSkip := true } (.complete st m) p.waitAfter.nat := by
  rw [completeTask_wellTyped p hw s st m hc]
  have e1 : waitAfterStep p { s with st := st, msg := m } =
      schedule { s with st := .delayed, msg := .waitAfter, waSkip := true } (.complete st m) p.waitAfter.nat := by
    simp [waitAfterStep, hd, hs]
  rw [e1]
  have e2 : ∀ x : S, x.st = .delayed → failOnStep p x = x := by
    intro x hx; simp [failOnStep, hx]
  have e3 : ∀ x : S, x.st = .delayed → retryStep p x = x := by
    intro x hx; simp only [retryStep]; cases p.retry <;> simp [hx, isCompleted]
  have e4 : ∀ x : S, x.st = .delayed → settle p x = x := by
    intro x hx; simp [settle, hx]
  rw [e2 _ rfl, e3 _ rfl, e4 _ rfl]

/-- without a pending wait-after: fail-on, then the retry decision, then the follow-ups -/
theorem complete_noWait (p : Params) (hw : p.wellTyped = true) (s : S) (st : TSt) (m : Msg)
    (hc : isCompleted s.st = false) (hd : p.waitAfter.nat = 0 ∨ s.waSkip = true) :
    completeTask p s st m = settle p (retryStep p (failOnStep p { s with st := st, msg := m })) := by
  rw [completeTask_wellTyped p hw s st m hc]
  have e1 : waitAfterStep p { s with st := st, msg := m } = { s with st := st, msg := m } := by
    cases hd with
    | inl h => simp [waitAfterStep, h]
    | inr h => simp [waitAfterStep, h]
  rw [e1]

/-- when the retry policy does not apply, `retryStep` is the identity -/
theorem retryStep_stop (p : Params) (s : S)
    (h : ∀ r, p.retry = some r → r.count.nat ≠ 0 → isCompleted s.st = true →
          retryApplies r s.retryNo s.st (evalFlags s.acts).1 (evalFlags s.acts).2 = false) :
    retryStep p s = s := by
  simp only [retryStep]
  cases hr : p.retry with
  | none => rfl
  | some r =>
    simp only []
    by_cases h0 : r.count.nat = 0
    · simp [h0]
    · by_cases hcst : isCompleted s.st = true
      · simp [h0, hcst, h r hr h0 hcst]
      · simp [h0, hcst]

theorem retryStep_go (p : Params) (r : Retry) (s : S) (hr : p.retry = some r) (h0 : r.count.nat ≠ 0)
    (hc : isCompleted s.st = true)
    (h : retryApplies r s.retryNo s.st (evalFlags s.acts).1 (evalFlags s.acts).2 = true) :
    retryStep p s = schedule { s with acts := invalidate s.acts, retryNo := s.retryNo + 1, st := .delayed, msg := .retry }
                      .cont r.delay.nat := by
  simp [retryStep, hr, h0, hc, h]

theorem settle_fields (p : Params) (s : S) :
    (settle p s).st = s.st ∧ (settle p s).msg = s.msg ∧ (settle p s).jobs = s.jobs ∧ (settle p s).acts = s.acts ∧
    (settle p s).retryNo = s.retryNo ∧ (settle p s).now = s.now ∧ (settle p s).wf = s.wf := by
  simp only [settle]; (repeat' split) <;> simp



/-- the due time a job of that kind must have when scheduled at `now` -/
def okDue (p : Params) (now : Nat) (j : Job) : Prop :=
  match j.kind with
  | .cont => j.dueAt = now + p.waitBefore.nat ∨ ∃ r, p.retry = some r ∧ j.dueAt = now + r.delay.nat
  | .complete _ _ => j.dueAt = now + p.waitAfter.nat
  | .timeout => j.dueAt = now + p.timeout.nat

structure JobsRel (p : Params) (s s2 : S) : Prop where
  now : s2.now = s.now
  mem : ∀ j ∈ s2.jobs, j ∈ s.jobs ∨ okDue p s.now j

theorem JobsRel.refl (p : Params) (s : S) : JobsRel p s s := ⟨rfl, fun _ h => Or.inl h⟩

theorem JobsRel.of_jobs_eq {p : Params} {s s2 : S} (hn : s2.now = s.now) (hj : s2.jobs = s.jobs) : JobsRel p s s2 :=
  ⟨hn, fun j h => Or.inl (by rw [← hj]; exact h)⟩

theorem JobsRel.trans {p : Params} {a b c : S} (h1 : JobsRel p a b) (h2 : JobsRel p b c) : JobsRel p a c := by
  refine ⟨by rw [h2.now, h1.now], fun j hj => ?_⟩
  cases h2.mem j hj with
  | inl h => exact h1.mem j h
  | inr h => right; rw [h1.now] at h; exact h

theorem JobsRel.schedule (p : Params) (s : S) (k : JobKind) (d : Nat) (h : okDue p s.now ⟨k, s.now + d⟩) :
    JobsRel p s (schedule s k d) := by
  refine ⟨rfl, fun j hj => ?_⟩
  simp only [Policy.schedule, List.mem_append, List.mem_singleton] at hj
  cases hj with
  | inl h' => exact Or.inl h'
  | inr h' => right; rw [h']; exact h

theorem JobsRel.schedule' (p : Params) (s s0 : S) (k : JobKind) (d : Nat) (hn : s0.now = s.now) (hj : s0.jobs = s.jobs)
    (h : okDue p s.now ⟨k, s.now + d⟩) : JobsRel p s (Policy.schedule s0 k d) := by
  refine ⟨hn, fun j hj' => ?_⟩
  simp only [Policy.schedule, List.mem_append, List.mem_singleton] at hj'
  cases hj' with
  | inl h' => exact Or.inl (by rw [← hj]; exact h')
  | inr h' => right; rw [h', hn]; exact h

theorem beforeOne_jobs (p : Params) (k : PolicyKind) (s : S) : JobsRel p s (beforeOne p k s).state := by
  cases k <;> simp only [beforeOne, check, checkPause, checkRetry]
  all_goals (repeat' (first | split | simp only [R.bind]))
  all_goals first
    | exact JobsRel.refl _ _
    | exact JobsRel.of_jobs_eq rfl rfl
    | skip
  · exact JobsRel.schedule' p s _ _ _ rfl rfl (Or.inl rfl)
  · exact JobsRel.schedule' p s _ _ _ rfl rfl rfl

theorem afterOne_jobs (p : Params) (k : PolicyKind) (s : S) : JobsRel p s (afterOne p k s).state := by
  cases k
  case retry =>
    simp only [afterOne, checkRetry]
    cases hr : p.retry with
    | none => exact JobsRel.refl _ _
    | some r =>
      simp only []
      split
      · simp only [R.bind]
        split
        · exact JobsRel.refl _ _
        · split
          · exact JobsRel.refl _ _
          · split
            · exact JobsRel.schedule' p s _ _ _ rfl rfl (Or.inr ⟨r, hr, rfl⟩)
            · exact JobsRel.refl _ _
      · exact JobsRel.refl _ _
  case waitAfter =>
    simp only [afterOne, check]
    split
    · simp only [R.bind]
      split
      · exact JobsRel.refl _ _
      · split
        · exact JobsRel.refl _ _
        · exact JobsRel.schedule' p s _ _ _ rfl rfl rfl
    · exact JobsRel.refl _ _
  all_goals
    simp only [afterOne, check, checkPause]
    (repeat' split) <;> first | exact JobsRel.refl _ _ | exact JobsRel.of_jobs_eq rfl rfl

theorem runHooks_jobs (p : Params) (f : PolicyKind → S → R) (hf : ∀ k s, JobsRel p s (f k s).state)
    (ks : List PolicyKind) (s : S) : JobsRel p s (runHooks f ks s).state := by
  induction ks generalizing s with
  | nil => exact JobsRel.refl _ _
  | cons k ks ih =>
    simp only [runHooks]
    have h1 := hf k s
    cases h : f k s with
    | ok s1 => rw [h] at h1; simp only [R.state] at h1; simp only [R.bind]; exact h1.trans (ih s1)
    | raise s1 => rw [h] at h1; simpa [R.bind] using h1

theorem completeTask_jobs (p : Params) (s : S) (st : TSt) (m : Msg) : JobsRel p s (completeTask p s st m) := by
  simp only [completeTask]
  split
  · exact JobsRel.refl _ _
  · have h := runHooks_jobs p (afterOne p) (afterOne_jobs p) Gen.PolicyOrder.order { s with st := st, msg := m }
    have h0 : JobsRel p s { s with st := st, msg := m } := JobsRel.of_jobs_eq rfl rfl
    change JobsRel p _ (afterAll p { s with st := st, msg := m }).state at h
    cases hr : afterAll p { s with st := st, msg := m } with
    | raise s2 =>
      rw [hr] at h; simp only [R.state] at h
      exact (h0.trans h).trans (JobsRel.of_jobs_eq rfl rfl)
    | ok s2 =>
      rw [hr] at h; simp only [R.state] at h
      simp only []
      (repeat' split) <;> first | exact h0.trans h | exact (h0.trans h).trans (JobsRel.of_jobs_eq rfl rfl)

theorem launch_jobs (p : Params) (s : S) : JobsRel p s (launch p s) := by
  simp only [launch]
  have h := runHooks_jobs p (beforeOne p) (beforeOne_jobs p) Gen.PolicyOrder.order { s with st := .running }
  have h0 : JobsRel p s { s with st := .running } := JobsRel.of_jobs_eq rfl rfl
  change JobsRel p _ (beforeAll p { s with st := .running }).state at h
  cases hr : beforeAll p { s with st := .running } with
  | raise s2 =>
    rw [hr] at h; simp only [R.state] at h
    exact (h0.trans h).trans (JobsRel.of_jobs_eq rfl rfl)
  | ok s2 =>
    rw [hr] at h; simp only [R.state] at h
    by_cases hrun : s2.st = .running
    · by_cases hx : p.execTimeoutRaises = true
      · simp only [hrun, if_true, scheduleAction, hx]
        exact JobsRel.of_jobs_eq rfl rfl
      · simp only [hrun, if_true, scheduleAction, hx]
        exact (h0.trans h).trans (JobsRel.of_jobs_eq rfl rfl)
    · simp only [hrun, if_false]
      exact h0.trans h

theorem mem_of_mem_eraseIdx' {l : List Job} {i : Nat} {j : Job} (h : j ∈ l.eraseIdx i) : j ∈ l :=
  List.mem_of_mem_eraseIdx h

theorem step_jobs (p : Params) (s : S) (e : Ev) : ∀ j ∈ (step p s e).jobs, j ∈ s.jobs ∨ okDue p s.now j := by
  cases e with
  | startNew =>
    simp only [step, startNew]
    split
    · split
      · have h := launch_jobs p { s with pendingNew := false }
        exact h.mem
      · exact fun j h => Or.inl h
    · exact fun j h => Or.inl h
  | startExisting =>
    have : (step p s .startExisting).jobs = s.jobs := by
      simp only [step]
      by_cases hpe : s.pendingExisting = true
      · by_cases hs : s.st = .success
        · simp [startExisting, hpe, hs]
        · by_cases hc : isCompleted s.st = true
          · simp [startExisting, hpe, hs, hc]
          · have hc' : isCompleted s.st = false := by simpa using hc
            have hcr : isCompleted TSt.running = false := rfl
            by_cases hg : s.st = .running ∧ hasOutstanding s.acts = true
            · simp [startExisting, hpe, hs, hc', hcr, hg]
            · by_cases hx : p.execTimeoutRaises = true
              · simp [startExisting, hpe, hs, hc', hcr, hg, hx, scheduleAction, crash]
              · by_cases hr : s.st = .running ∧ s.msg = .none
                · have ho : hasOutstanding s.acts = false := by
                    cases h : hasOutstanding s.acts with
                    | false => rfl
                    | true => exact absurd ⟨hr.1, h⟩ hg
                  simp [startExisting, hpe, hs, hc', hcr, ho, hx, hr, scheduleAction, setRunningExisting]
                · simp [startExisting, hpe, hs, hc', hcr, hg, hx, hr, scheduleAction, setRunningExisting]
      · simp [startExisting, hpe]
    rw [this]; exact fun j h => Or.inl h
  | result i o c b =>
    simp only [step, result]
    split
    · exact fun j h => Or.inl h
    · split
      · exact fun j h => Or.inl h
      · exact (completeTask_jobs p _ _ _).mem
  | fire idx =>
    simp only [step, fire]
    split
    · exact fun j h => Or.inl h
    · split
      · exact fun j h => Or.inl h
      · have hsub : ∀ j ∈ ({ s with jobs := s.jobs.eraseIdx idx } : S).jobs, j ∈ s.jobs :=
          fun j h => mem_of_mem_eraseIdx' h
        split
        · split
          · intro j hj
            have : (continueTask p { s with jobs := s.jobs.eraseIdx idx }).jobs = s.jobs.eraseIdx idx := by
              by_cases ho : hasOutstanding s.acts = true
              · simp [continueTask, ho]
              · by_cases hx : p.execTimeoutRaises = true <;> simp [continueTask, ho, scheduleAction, crash, hx]
            rw [this] at hj; exact Or.inl (mem_of_mem_eraseIdx' hj)
          · exact fun j h => Or.inl (hsub j h)
        · split
          · intro j hj
            cases (completeTask_jobs p { s with jobs := s.jobs.eraseIdx idx } _ _).mem j hj with
            | inl h => exact Or.inl (hsub j h)
            | inr h => exact Or.inr h
          · exact fun j h => Or.inl (hsub j h)
        · split
          · exact fun j h => Or.inl (hsub j h)
          · intro j hj
            cases (completeTask_jobs p { s with jobs := s.jobs.eraseIdx idx } _ _).mem j hj with
            | inl h => exact Or.inl (hsub j h)
            | inr h => exact Or.inr h
  | tick dt => exact fun j h => Or.inl h
  | resume =>
    have : (step p s .resume).jobs = s.jobs := by
      simp only [step, resume]; (repeat' split) <;> rfl
    rw [this]; exact fun j h => Or.inl h
  | wfDone =>
    have : (step p s .wfDone).jobs = s.jobs := by
      simp only [step]; split <;> rfl
    rw [this]; exact fun j h => Or.inl h



theorem bind_ok {r : R} {f : S → R} {y : S} (h : r.bind f = .ok y) : ∃ z, r = .ok z ∧ f z = .ok y := by
  cases r with
  | ok z => exact ⟨z, rfl, h⟩
  | raise z => simp [R.bind] at h

theorem check_ok {v : PVal} {s y : S} (h : check v s = .ok y) : v.valid = true := by
  simp only [check] at h; split at h
  · assumption
  · cases h

theorem checkPause_ok {p : Params} {s y : S} (h : checkPause p s = .ok y) :
    (match p.pauseBefore with | .bool _ => true | .other _ => false) = true := by
  simp only [checkPause] at h; split at h
  · cases h
  · rename_i hb; simp [hb]

theorem checkRetry_ok {p : Params} {s y : S} (h : checkRetry p s = .ok y) :
    (match p.retry with | none => true | some r => r.count.valid && r.delay.valid) = true := by
  simp only [checkRetry] at h
  cases hr : p.retry with
  | none => rfl
  | some r =>
    simp only [hr] at h
    split at h
    · assumption
    · cases h

/-- each hook (before or after) that returns normally has passed the type check of its policy -/
theorem hook_ok_valid (p : Params) (before : Bool) (k : PolicyKind) (s y : S)
    (h : (if before then beforeOne p k s else afterOne p k s) = .ok y) :
    (match k with
     | .pauseBefore => (match p.pauseBefore with | .bool _ => true | .other _ => false)
     | .waitBefore => p.waitBefore.valid
     | .waitAfter => p.waitAfter.valid
     | .failOn => true
     | .retry => (match p.retry with | none => true | some r => r.count.valid && r.delay.valid)
     | .timeout => p.timeout.valid
     | .concurrency => p.concurrency.valid) = true := by
  cases before <;> cases k <;> simp only [beforeOne, afterOne, Bool.false_eq_true, if_false, if_true] at h
  all_goals first
    | rfl
    | exact check_ok h
    | exact checkPause_ok h
    | exact checkRetry_ok h
    | (obtain ⟨z, hz, _⟩ := bind_ok h; first | exact check_ok hz | exact checkPause_ok hz | exact checkRetry_ok hz)

theorem beforeAll_ok_wellTyped (p : Params) (s y : S) (h : beforeAll p s = .ok y) : p.wellTyped = true := by
  have hu : beforeAll p s = (beforeOne p .pauseBefore s).bind fun s => (beforeOne p .waitBefore s).bind fun s =>
      (beforeOne p .waitAfter s).bind fun s => (beforeOne p .failOn s).bind fun s => (beforeOne p .retry s).bind fun s =>
      (beforeOne p .timeout s).bind fun s => (beforeOne p .concurrency s).bind fun s => .ok s := rfl
  rw [hu] at h
  obtain ⟨z1, h1, h⟩ := bind_ok h
  obtain ⟨z2, h2, h⟩ := bind_ok h
  obtain ⟨z3, h3, h⟩ := bind_ok h
  obtain ⟨z4, _, h⟩ := bind_ok h
  obtain ⟨z5, h5, h⟩ := bind_ok h
  obtain ⟨z6, h6, h⟩ := bind_ok h
  obtain ⟨z7, h7, _⟩ := bind_ok h
  have a1 := hook_ok_valid p true .pauseBefore _ _ h1
  have a2 := hook_ok_valid p true .waitBefore _ _ h2
  have a3 := hook_ok_valid p true .waitAfter _ _ h3
  have a5 := hook_ok_valid p true .retry _ _ h5
  have a6 := hook_ok_valid p true .timeout _ _ h6
  have a7 := hook_ok_valid p true .concurrency _ _ h7
  simp only [] at a1 a2 a3 a5 a6 a7
  simp only [Params.wellTyped, a2, a3, a6, a7, Bool.and_eq_true, Bool.true_and, true_and]
  exact ⟨a1, a5⟩

theorem afterAll_ok_wellTyped (p : Params) (s y : S) (h : afterAll p s = .ok y) : p.wellTyped = true := by
  rw [afterAll_unfold] at h
  obtain ⟨z1, h1, h⟩ := bind_ok h
  obtain ⟨z2, h2, h⟩ := bind_ok h
  obtain ⟨z3, h3, h⟩ := bind_ok h
  obtain ⟨z4, _, h⟩ := bind_ok h
  obtain ⟨z5, h5, h⟩ := bind_ok h
  obtain ⟨z6, h6, h⟩ := bind_ok h
  obtain ⟨z7, h7, _⟩ := bind_ok h
  have a1 := hook_ok_valid p false .pauseBefore _ _ h1
  have a2 := hook_ok_valid p false .waitBefore _ _ h2
  have a3 := hook_ok_valid p false .waitAfter _ _ h3
  have a5 := hook_ok_valid p false .retry _ _ h5
  have a6 := hook_ok_valid p false .timeout _ _ h6
  have a7 := hook_ok_valid p false .concurrency _ _ h7
  simp only [] at a1 a2 a3 a5 a6 a7
  simp only [Params.wellTyped, a2, a3, a6, a7, Bool.and_eq_true, Bool.true_and, true_and]
  exact ⟨a1, a5⟩



def pauseStep (p : Params) (x : S) : S :=
  if p.pauseBefore.truthy then { x with st := .idle, msg := .pauseBefore, wf := pauseWf x.wf } else x

def waitBeforeStep (p : Params) (x : S) : S :=
  if p.waitBefore.nat = 0 then x
  else if x.wbSkip then { x with st := .running, msg := .none }
  else if x.st ≠ .idle then schedule { x with wbSkip := true, st := .delayed, msg := .waitBefore } .cont p.waitBefore.nat
  else x

def timeoutStep (p : Params) (x : S) : S :=
  if p.timeout.nat = 0 then x else schedule x .timeout p.timeout.nat

/-- ORDER-DEPENDENT closed form of the `before_task_start` pass for well-typed parameters:
    pause-before, then wait-before, then the timeout timer. -/
theorem beforeAll_wellTyped (p : Params) (hw : p.wellTyped = true) (x : S) :
    beforeAll p x = .ok (timeoutStep p (waitBeforeStep p (pauseStep p x))) := by
  have hu : beforeAll p x = (beforeOne p .pauseBefore x).bind fun s => (beforeOne p .waitBefore s).bind fun s =>
      (beforeOne p .waitAfter s).bind fun s => (beforeOne p .failOn s).bind fun s => (beforeOne p .retry s).bind fun s =>
      (beforeOne p .timeout s).bind fun s => (beforeOne p .concurrency s).bind fun s => .ok s := rfl
  rw [hu]
  simp only [Params.wellTyped, Bool.and_eq_true] at hw
  obtain ⟨⟨⟨⟨⟨h1, h2⟩, h3⟩, h4⟩, h5⟩, h6⟩ := hw
  have e1 : ∀ s, beforeOne p .pauseBefore s = .ok (pauseStep p s) := by
    intro s
    cases hp : p.pauseBefore with
    | other t => simp [hp] at h5
    | bool b => cases b <;> simp [beforeOne, checkPause, hp, R.bind, pauseStep, PBool.truthy]
  have e2 : ∀ s, beforeOne p .waitBefore s = .ok (waitBeforeStep p s) := by
    intro s; simp only [beforeOne, check, h1, if_true, R.bind, waitBeforeStep]
    (repeat' split) <;> rfl
  have e3 : ∀ s, beforeOne p .waitAfter s = .ok s := by intro s; simp [beforeOne, check, h2]
  have e4 : ∀ s, beforeOne p .failOn s = .ok s := by intro s; rfl
  have e5 : ∀ s, beforeOne p .retry s = .ok s := by
    intro s; simp only [beforeOne, checkRetry]
    cases hr : p.retry with
    | none => rfl
    | some r => simp only [hr] at h6; simp [h6]
  have e6 : ∀ s, beforeOne p .timeout s = .ok (timeoutStep p s) := by
    intro s; simp only [beforeOne, check, h3, if_true, R.bind, timeoutStep]; split <;> rfl
  have e7 : ∀ s, beforeOne p .concurrency s = .ok s := by intro s; simp [beforeOne, check, h4]
  simp only [e1, e2, e3, e4, e5, e6, e7, R.bind]

theorem timeoutStep_fields (p : Params) (x : S) :
    (timeoutStep p x).st = x.st ∧ (timeoutStep p x).msg = x.msg ∧ (timeoutStep p x).wf = x.wf ∧
    (timeoutStep p x).acts = x.acts ∧ (timeoutStep p x).wbSkip = x.wbSkip ∧ contJobs (timeoutStep p x) = contJobs x ∧
    (∀ j ∈ x.jobs, j ∈ (timeoutStep p x).jobs) ∧ (timeoutStep p x).pendingExisting = x.pendingExisting ∧
    (timeoutStep p x).crashes = x.crashes := by
  simp only [timeoutStep]
  split
  · exact ⟨rfl, rfl, rfl, rfl, rfl, rfl, fun _ h => h, rfl, rfl⟩
  · refine ⟨rfl, rfl, rfl, rfl, rfl, by simp [contJobs, schedule, List.countP_append, isCont], ?_, rfl, rfl⟩
    intro j hj; simp [schedule, hj]

/-- an ill-typed parameter: the start pass raises -/
theorem beforeAll_illTyped (p : Params) (hw : p.wellTyped = false) (x : S) : ∃ y, beforeAll p x = .raise y := by
  cases hr : beforeAll p x with
  | raise y => exact ⟨y, rfl⟩
  | ok y => have := beforeAll_ok_wellTyped p x y hr; rw [hw] at this; cases this



theorem runHooks_crashes (f : PolicyKind → S → R) (hf : ∀ k s, (f k s).state.crashes = s.crashes)
    (ks : List PolicyKind) (s : S) : (runHooks f ks s).state.crashes = s.crashes := by
  induction ks generalizing s with
  | nil => rfl
  | cons k ks ih =>
    simp only [runHooks]
    have h1 := hf k s
    cases h : f k s with
    | ok s1 => rw [h] at h1; simp only [R.state] at h1; simp only [R.bind]; rw [ih s1, h1]
    | raise s1 => rw [h] at h1; simpa [R.bind] using h1

theorem beforeOne_crashes (p : Params) (k : PolicyKind) (s : S) : (beforeOne p k s).state.crashes = s.crashes := by
  cases k <;> simp only [beforeOne, check, checkPause, checkRetry]
  all_goals (repeat' (first | split | simp only [R.bind]))
  all_goals rfl

theorem afterOne_crashes (p : Params) (k : PolicyKind) (s : S) : (afterOne p k s).state.crashes = s.crashes := by
  cases k <;> simp only [afterOne, check, checkPause, checkRetry]
  all_goals (repeat' (first | split | simp only [R.bind]))
  all_goals rfl

theorem completeTask_crashes (p : Params) (s : S) (st : TSt) (m : Msg) : (completeTask p s st m).crashes = s.crashes := by
  simp only [completeTask]
  split
  · rfl
  · have h := runHooks_crashes (afterOne p) (afterOne_crashes p) Gen.PolicyOrder.order { s with st := st, msg := m }
    change (afterAll p { s with st := st, msg := m }).state.crashes = _ at h
    cases hr : afterAll p { s with st := st, msg := m } with
    | raise s2 => rw [hr] at h; simp only [R.state] at h; simpa [forceFail] using h
    | ok s2 =>
      rw [hr] at h; simp only [R.state] at h
      simp only []
      (repeat' split) <;> simpa using h

theorem launch_crashes (p : Params) (s : S) (hx : p.execTimeoutRaises = false) : (launch p s).crashes = s.crashes := by
  simp only [launch]
  have h := runHooks_crashes (beforeOne p) (beforeOne_crashes p) Gen.PolicyOrder.order { s with st := .running }
  change (beforeAll p { s with st := .running }).state.crashes = _ at h
  cases hr : beforeAll p { s with st := .running } with
  | raise s2 => rw [hr] at h; simp only [R.state] at h; simpa [forceFail] using h
  | ok s2 =>
    rw [hr] at h; simp only [R.state] at h
    simp only [scheduleAction, hx]
    split <;> simpa using h

theorem step_crashes (p : Params) (s : S) (e : Ev) (hx : p.execTimeoutRaises = false) :
    (step p s e).crashes = s.crashes := by
  cases e with
  | startNew =>
    simp only [step, startNew]
    split
    · split
      · exact launch_crashes p _ hx
      · rfl
    · rfl
  | startExisting =>
    simp only [step]
    by_cases hpe : s.pendingExisting = true
    · by_cases hs : s.st = .success
      · simp [startExisting, hpe, hs]
      · by_cases hc : isCompleted s.st = true
        · simp [startExisting, hpe, hs, hc]
        · have hc' : isCompleted s.st = false := by simpa using hc
          have hcr : isCompleted TSt.running = false := rfl
          by_cases hg : s.st = .running ∧ hasOutstanding s.acts = true
          · simp [startExisting, hpe, hs, hc', hcr, hg]
          · by_cases hr : s.st = .running ∧ s.msg = .none
            · have ho : hasOutstanding s.acts = false := by
                cases h : hasOutstanding s.acts with
                | false => rfl
                | true => exact absurd ⟨hr.1, h⟩ hg
              simp [startExisting, hpe, hs, hc', hcr, ho, hx, hr, scheduleAction, setRunningExisting]
            · simp [startExisting, hpe, hs, hc', hcr, hg, hx, hr, scheduleAction, setRunningExisting]
    · simp [startExisting, hpe]
  | result i o c b =>
    simp only [step, result]
    split
    · rfl
    · split
      · rfl
      · rw [completeTask_crashes]
  | fire idx =>
    simp only [step, fire]
    split
    · rfl
    · split
      · rfl
      · split
        · split
          · by_cases ho : hasOutstanding s.acts = true <;> simp [continueTask, ho, scheduleAction, hx]
          · rfl
        · split
          · rw [completeTask_crashes]
          · rfl
        · split
          · rfl
          · rw [completeTask_crashes]
  | tick dt => rfl
  | resume => simp only [step, resume]; (repeat' split) <;> rfl
  | wfDone => simp only [step]; split <;> rfl

theorem run_crashes (p : Params) (hx : p.execTimeoutRaises = false) (evs : List Ev) (s : S) :
    (run p s evs).crashes = s.crashes := by
  induction evs generalizing s with
  | nil => rfl
  | cons e es ih => simp only [run, List.foldl] at ih ⊢; rw [ih, step_crashes p s e hx]



/-- SUCCESS is final (as of 831643dc: stale continue / complete jobs are dropped): no event changes the
    state of a SUCCESS task or adds an action execution to it. -/
theorem success_final_step (p : Params) (s : S) (e : Ev) (h : s.st = .success) :
    (step p s e).st = .success ∧ (step p s e).acts.length = s.acts.length := by
  have hc : isCompleted s.st = true := by rw [h]; rfl
  cases e with
  | startNew =>
    by_cases hp : s.pendingNew = true
    · simp [step, startNew, hp, h]
    · simp [step, startNew, hp, h]
  | startExisting =>
    by_cases hp : s.pendingExisting = true
    · simp [step, startExisting, hp, h]
    · simp [step, startExisting, hp, h]
  | result i o c b =>
    simp only [step, result]
    split
    · exact ⟨h, rfl⟩
    · split
      · exact ⟨h, rfl⟩
      · simp [completeTask, h, isCompleted]
  | fire idx =>
    simp only [step, fire]
    split
    · exact ⟨h, rfl⟩
    · split
      · exact ⟨h, rfl⟩
      · split <;> simp [h, isCompleted]
  | tick dt => exact ⟨h, rfl⟩
  | resume => simp only [step, resume]; (repeat' split) <;> exact ⟨h, rfl⟩
  | wfDone => simp only [step]; split <;> exact ⟨h, rfl⟩

theorem success_final_run (p : Params) (s : S) (evs : List Ev) (h : s.st = .success) :
    (run p s evs).st = .success ∧ (run p s evs).acts.length = s.acts.length := by
  induction evs generalizing s with
  | nil => exact ⟨h, rfl⟩
  | cons e es ih =>
    have h1 := success_final_step p s e h
    have h2 := ih (step p s e) h1.1
    simp only [run, List.foldl] at h2 ⊢
    exact ⟨h2.1, by rw [h2.2, h1.2]⟩

/-- ERROR is final unless a start request of the task is still in flight. -/
theorem error_final_step (p : Params) (s : S) (e : Ev) (h : s.st = .error) (hpe : s.pendingExisting = false) :
    (step p s e).st = .error ∧ (step p s e).acts.length = s.acts.length ∧ (step p s e).pendingExisting = false := by
  have hc : isCompleted s.st = true := by rw [h]; rfl
  cases e with
  | startNew =>
    by_cases hp : s.pendingNew = true
    · simp [step, startNew, hp, h, hpe]
    · simp [step, startNew, hp, h, hpe]
  | startExisting => simp [step, startExisting, hpe, h]
  | result i o c b =>
    simp only [step, result]
    split
    · exact ⟨h, rfl, hpe⟩
    · split
      · exact ⟨h, rfl, hpe⟩
      · simp [completeTask, h, isCompleted, hpe]
  | fire idx =>
    simp only [step, fire]
    split
    · exact ⟨h, rfl, hpe⟩
    · split
      · exact ⟨h, rfl, hpe⟩
      · split <;> simp [h, isCompleted, hpe]
  | tick dt => exact ⟨h, rfl, hpe⟩
  | resume =>
    simp only [step, resume]
    split
    · exact ⟨h, rfl, hpe⟩
    · simp [h, isCompleted, hpe]; split <;> simp [h, hpe]
  | wfDone => simp only [step]; split <;> exact ⟨h, rfl, hpe⟩



/-- since repo_patches/20 (a stale start request for a completed task is ignored) without the proviso -/
theorem error_final_step_full (p : Params) (s : S) (e : Ev) (h : s.st = .error) :
    (step p s e).st = .error ∧ (step p s e).acts.length = s.acts.length := by
  have hc : isCompleted s.st = true := by rw [h]; rfl
  cases e with
  | startNew =>
    by_cases hp : s.pendingNew = true
    · simp [step, startNew, hp, h]
    · simp [step, startNew, hp, h]
  | startExisting =>
    by_cases hpe : s.pendingExisting = true
    · simp [step, startExisting, hpe, h, isCompleted]
    · simp [step, startExisting, hpe, h]
  | result i o c b =>
    simp only [step, result]
    split
    · exact ⟨h, rfl⟩
    · split
      · exact ⟨h, rfl⟩
      · simp [completeTask, h, isCompleted]
  | fire idx =>
    simp only [step, fire]
    split
    · exact ⟨h, rfl⟩
    · split
      · exact ⟨h, rfl⟩
      · split <;> simp [h, isCompleted]
  | tick dt => exact ⟨h, rfl⟩
  | resume =>
    simp only [step, resume]
    split
    · exact ⟨h, rfl⟩
    · simp [h, isCompleted]; split <;> simp [h]
  | wfDone => simp only [step]; split <;> exact ⟨h, rfl⟩

theorem afterAll_illTyped (p : Params) (hw : p.wellTyped = false) (x : S) : ∃ y, afterAll p x = .raise y := by
  cases hr : afterAll p x with
  | raise y => exact ⟨y, rfl⟩
  | ok y => have := afterAll_ok_wellTyped p x y hr; rw [hw] at this; cases this

/-- with an ill-typed parameter the task never gets an action execution: invariant of every run -/
structure IllInv (s : S) : Prop where
  cr : s.crashes = 0
  acts : s.acts = []
  pe : s.pendingExisting = false
  st : s.st = .idle ∨ s.st = .error
  idle : s.st = .idle → s.pendingNew = true ∧ s.wf ≠ .paused

theorem illInv_init : IllInv init := ⟨rfl, rfl, rfl, Or.inl rfl, fun _ => ⟨rfl, by simp [init]⟩⟩

theorem illInv_step (p : Params) (hw : p.wellTyped = false) (s : S) (e : Ev) (h : IllInv s) : IllInv (step p s e) := by
  cases e with
  | startNew =>
    by_cases hp : s.pendingNew = true
    · by_cases hi : s.st = .idle
      · have e0 : step p s .startNew = launch p { s with pendingNew := false } := by simp [step, startNew, hp, hi]
        obtain ⟨y, hy⟩ := beforeAll_illTyped p hw { s with pendingNew := false, st := .running }
        have hr := beforeAll_rel p { s with pendingNew := false, st := .running }
        have hcr := runHooks_crashes (beforeOne p) (beforeOne_crashes p) Gen.PolicyOrder.order { s with pendingNew := false, st := .running }
        change (beforeAll p _).state.crashes = _ at hcr
        rw [hy] at hr hcr
        simp only [R.state] at hr hcr
        have el : launch p { s with pendingNew := false } = forceFail y := by simp only [launch, hy]
        rw [e0, el]
        exact ⟨by simp [forceFail, hcr, h.cr], by simp [forceFail, hr.acts, h.acts], by simp [forceFail, hr.pe, h.pe],
               Or.inr rfl, fun hh => by simp [forceFail] at hh⟩
      · have e0 : step p s .startNew = { s with pendingNew := false } := by simp [step, startNew, hp, hi]
        rw [e0]
        exact ⟨h.cr, h.acts, h.pe, h.st, fun hh => absurd hh hi⟩
    · have e0 : step p s .startNew = s := by simp [step, startNew, hp]
      rw [e0]; exact h
  | startExisting =>
    have e0 : step p s .startExisting = s := by simp [step, startExisting, h.pe]
    rw [e0]; exact h
  | result i o c b =>
    have e0 : step p s (.result i o c b) = s := by simp [step, result, h.acts]
    rw [e0]; exact h
  | fire idx =>
    simp only [step, fire]
    split
    · exact h
    · split
      · exact h
      · have hnd : s.st ≠ .delayed := by cases h.st with
          | inl hh => rw [hh]; simp
          | inr hh => rw [hh]; simp
        have h0 : IllInv { s with jobs := s.jobs.eraseIdx idx } := ⟨h.cr, h.acts, h.pe, h.st, h.idle⟩
        split
        · simp only [hnd, if_false]; exact h0
        · simp only [hnd, if_false]; exact h0
        · split
          · exact h0
          · rename_i hnc
            -- the timer on the not yet started task: Task.complete raises in a hook → force-failed
            obtain ⟨y, hy⟩ := afterAll_illTyped p hw { s with jobs := s.jobs.eraseIdx idx, st := .error, msg := .timeout }
            have hr := afterAll_rel p { s with jobs := s.jobs.eraseIdx idx, st := .error, msg := .timeout }
            have hcr := runHooks_crashes (afterOne p) (afterOne_crashes p) Gen.PolicyOrder.order
              { s with jobs := s.jobs.eraseIdx idx, st := .error, msg := .timeout }
            change (afterAll p _).state.crashes = _ at hcr
            rw [hy] at hr hcr
            simp only [R.state] at hr hcr
            have hnc' : isCompleted s.st = false := by simpa using hnc
            have el : completeTask p { s with jobs := s.jobs.eraseIdx idx } .error .timeout = forceFail y := by
              simp only [completeTask, hnc', hy]; simp
            rw [el]
            have hacts : y.acts = [] := by
              have := hr.acts; simp only [h.acts, List.length_nil] at this
              exact List.eq_nil_of_length_eq_zero this
            exact ⟨by simp [forceFail, hcr, h.cr], by simp [forceFail, hacts], by simp [forceFail, hr.pe, h.pe],
                   Or.inr rfl, fun hh => by simp [forceFail] at hh⟩
  | tick dt => exact ⟨h.cr, h.acts, h.pe, h.st, h.idle⟩
  | resume =>
    show IllInv (resume p s)
    by_cases hwf : s.wf = .paused
    · cases h.st with
      | inl hi => exact absurd hwf (h.idle hi).2
      | inr he =>
        have hf : (resume p s).crashes = s.crashes ∧ (resume p s).acts = s.acts ∧
            (resume p s).pendingExisting = s.pendingExisting ∧ (resume p s).st = s.st := by
          by_cases hpr : s.processed = true <;> simp [resume, hwf, he, isCompleted, hpr]
        exact ⟨by rw [hf.1]; exact h.cr, by rw [hf.2.1]; exact h.acts, by rw [hf.2.2.1]; exact h.pe,
               Or.inr (by rw [hf.2.2.2]; exact he), fun hh => by rw [hf.2.2.2, he] at hh; cases hh⟩
    · have e0 : resume p s = s := by simp [resume, hwf]
      rw [e0]; exact h
  | wfDone =>
    simp only [step]
    split
    · exact ⟨h.cr, h.acts, h.pe, h.st, fun hh => ⟨(h.idle hh).1, by simp⟩⟩
    · exact h

theorem illInv_run (p : Params) (hw : p.wellTyped = false) (evs : List Ev) (s : S) (h : IllInv s) : IllInv (run p s evs) := by
  induction evs generalizing s with
  | nil => exact h
  | cons e es ih => exact ih _ (illInv_step p hw s e h)


end Mistral.Policy
