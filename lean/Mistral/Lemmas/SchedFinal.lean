import Mistral.Lemmas.SchedCount

namespace Mistral.Sched

theorem Ext.trans {a b c : State} (h1 : Ext a b) (h2 : Ext b c) : Ext a c :=
  ⟨Nat.le_trans h1.clock h2.clock, RowsExt.trans h1.rows h2.rows, fun e h => h2.trace e (h1.trace e h)⟩

theorem run_ext (cfg : Cfg) : ∀ (steps : List Step) (s : State), Ext s (run cfg s steps) := by
  intro steps
  induction steps with
  | nil => intro s; exact Ext.refl s
  | cons e es ih => intro s; exact Ext.trans (step_ext cfg s e) (ih _)

theorem isCapture_iff {j : Nat} {e : Ev} : isCapture j e = true ↔ ∃ t i, e = .captured j t i := by
  cases e <;> simp [isCapture]

theorem isInvoke_iff {j : Nat} {e : Ev} : isInvoke j e = true ↔ ∃ t i, e = .invoked j t i := by
  cases e <;> simp [isInvoke]

theorem spaced_split {to : Nat} {j t i t' i' : Nat} : ∀ (pre post : List Ev),
    Spaced to (pre ++ Ev.captured j t i :: post) → Ev.captured j t' i' ∈ post → t' + to ≤ t := by
  intro pre
  induction pre with
  | nil => intro post h hm; exact h.1 j t i rfl t' i' hm
  | cons a pre ih => intro post h hm; exact ih post h.2 hm

theorem spaced_count (to j : Nat) : ∀ tr : List Ev, Spaced to tr →
    (∀ t' i' t i, Ev.captured j t' i' ∈ tr → Ev.captured j t i ∈ tr → ¬ (t' + to ≤ t)) →
    (tr.filter (isCapture j)).length ≤ 1 := by
  intro tr
  induction tr with
  | nil => intro _ _; simp
  | cons e rest ih =>
    intro hs hno
    rw [filter_capture_cons]
    by_cases he : isCapture j e = true
    · obtain ⟨t, i, rfl⟩ := isCapture_iff.mp he
      have hnil : rest.filter (isCapture j) = [] := by
        rw [List.filter_eq_nil_iff]
        intro x hx hxc
        obtain ⟨t', i', rfl⟩ := isCapture_iff.mp hxc
        exact hno t' i' t i (by simp [hx]) (by simp) (hs.1 j t i rfl t' i' hx)
      simp [hnil, he]
    · have := ih hs.2 (fun t' i' t i h1 h2 => hno t' i' t i (by simp [h1]) (by simp [h2]))
      simp [he]; exact this

theorem timely_spec {cfg : Cfg} {s : State} (h : timelyB cfg s = true) :
    ∀ j t i, Ev.captured j t i ∈ s.trace →
      s.clock < t + cfg.timeout ∨ ∃ td, Ev.deleted j td i ∈ s.trace ∧ td < t + cfg.timeout := by
  intro j t i hm
  unfold timelyB at h
  rw [List.all_eq_true] at h
  have := h _ hm
  simp only [Bool.or_eq_true, decide_eq_true_eq, List.any_eq_true] at this
  rcases this with h1 | ⟨d, hd, hdd⟩
  · exact Or.inl h1
  · cases d with
    | deleted j' td i' =>
      simp only [Bool.and_eq_true, decide_eq_true_eq] at hdd
      obtain ⟨⟨rfl, rfl⟩, h3⟩ := hdd
      exact Or.inr ⟨td, hd, h3⟩
    | captured _ _ _ => simp at hdd
    | invoked _ _ _ => simp at hdd

/-- under the timely-finish hypothesis no job is captured twice -/
theorem capture_once {cfg : Cfg} {s : State} (hc : Cap cfg s) (ht : timelyB cfg s = true) (j : Nat) :
    captureCount s j ≤ 1 := by
  apply spaced_count cfg.timeout j s.trace hc.inv.spaced
  intro t' i' t i h1 h2 hsp
  have hle := (hc.inv.ex j t i h2).2
  rcases timely_spec ht j t' i' h1 with h | ⟨td, hd, hlt⟩
  · omega
  · have := (hc.inv.del j td i' hd).2 t i h2
    omega

/-- a candidate whose row is committed with the captured_at that was read gets captured -/
theorem captureAll_captures (now : Nat) : ∀ (cs : List (Nat × Option Nat)) (rows : List Row) (j : Nat) (r : Row),
    (j, r.capturedAt) ∈ cs → rows[j]? = some r → r.vis = .committed → j ∈ (captureAll now cs rows).2 := by
  intro cs
  induction cs with
  | nil => intro rows j r h; simp at h
  | cons c cs ih =>
    intro rows j r hm hr hv
    obtain ⟨j0, s0⟩ := c
    simp only [captureAll]
    split
    · rename_i rows' hcas
      by_cases hj : j0 = j
      · simp [hj]
      · simp only [List.mem_cons] at hm ⊢
        rcases hm with hm | hm
        · simp at hm; exact absurd hm.1.symm hj
        · right
          obtain ⟨r0, _, _, _, rfl⟩ := cas_spec hcas
          exact ih _ j r hm (by simp [hj, hr]) hv
    · rename_i hcas
      simp only [List.mem_cons] at hm
      rcases hm with hm | hm
      · simp at hm
        obtain ⟨rfl, rfl⟩ := hm
        simp [cas, hr, hv] at hcas
      · exact ih rows j r hm hr hv

end Mistral.Sched
