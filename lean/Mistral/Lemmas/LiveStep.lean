/-
One step of the engine core preserves: identities of the executions, (A) every IDLE execution has
a start in flight and every RUNNING execution an action in flight, (B) a RUNNING workflow without
an incomplete execution has a completion check in flight.
-/
import Mistral.Lemmas.EngineLive
namespace Mistral.Engine.Live
open Mistral Mistral.Join Mistral.Engine

theorem Inv1.same (w : World) (h : Inv1 w) (wf' : St) (p' : List Item) (b' : List Cmd) (c' : Bool)
    (hwf : wf' = .RUNNING → w.wf = .RUNNING) (hrl : RL w.tasks p')
    (hck : Item.postCheck ∈ w.pending → Item.postCheck ∈ p') :
    Inv1 { wf := wf', tasks := w.tasks, pending := p', backlog := b', crashed := c' } := by
  refine ⟨h.ids, hrl, ?_⟩
  intro hr
  rcases h.chk (hwf hr) with h1 | h1
  · exact Or.inl h1
  · exact Or.inr (hck h1)

theorem Inv1.set (w : World) (h : Inv1 w) (r r' : TaskRow) (hr : r ∈ w.tasks) (hn : r'.name = r.name) (ho : r'.occ = r.occ)
    (hinc : isCompleted r'.state = false) (p' : List Item) (b' : List Cmd) (c' : Bool)
    (hrl : RL (setTask w.tasks r') p') :
    Inv1 { wf := w.wf, tasks := setTask w.tasks r', pending := p', backlog := b', crashed := c' } :=
  ⟨idsOK_setTask w.tasks r r' h.ids hr hn ho, hrl, fun _ => Or.inl ⟨r', self_mem_setTask w.tasks r r' hr hn ho, hinc⟩⟩

theorem RL_map (ts : List TaskRow) (p : List Item) (f : TaskRow → TaskRow) (h : RL ts p)
    (hf : ∀ t, (f t).state = t.state ∧ (f t).name = t.name ∧ (f t).occ = t.occ) : RL (ts.map f) p := by
  intro x hx
  rcases List.mem_map.mp hx with ⟨y, hy, rfl⟩
  have := hf y
  have hid : idOf (f y) = idOf y := by unfold idOf; rw [this.2.1, this.2.2]
  rw [this.1, hid]
  exact h y hy

theorem countL_map (ts : List TaskRow) (f : TaskRow → TaskRow) (hf : ∀ t, (f t).name = t.name) (n : String) :
    countL (ts.map f) n = countL ts n := by
  rw [countL_names, countL_names]
  congr 2
  rw [List.map_map]
  apply List.map_congr_left
  intro a _
  exact hf a

theorem idsOK_map (ts : List TaskRow) (f : TaskRow → TaskRow) (h : IdsOK ts)
    (hf : ∀ t, (f t).name = t.name ∧ (f t).occ = t.occ) : IdsOK (ts.map f) := by
  refine ⟨?_, ?_⟩
  · intro x hx
    rcases List.mem_map.mp hx with ⟨y, hy, rfl⟩
    rw [countL_map ts f (fun t => (hf t).1), (hf y).1, (hf y).2]
    exact h.1 y hy
  · intro x hx y hy hxy hoxy
    rcases List.mem_map.mp hx with ⟨x0, hx0, rfl⟩
    rcases List.mem_map.mp hy with ⟨y0, hy0, rfl⟩
    rw [(hf x0).1, (hf y0).1] at hxy
    rw [(hf x0).2, (hf y0).2] at hoxy
    rw [h.2 x0 hx0 y0 hy0 hxy hoxy]

theorem hasIncomplete_map (ts : List TaskRow) (f : TaskRow → TaskRow) (h : HasIncomplete ts)
    (hf : ∀ t, (f t).state = t.state) : HasIncomplete (ts.map f) := by
  obtain ⟨x, hx, hxs⟩ := h
  exact ⟨f x, List.mem_map.mpr ⟨x, hx, rfl⟩, by rw [hf x]; exact hxs⟩


theorem Inv1.checkAffected (sp : Spec) (w : World) (t : Tid) (h : Inv1 w) : Inv1 (checkAffected sp w t) := by
  refine ⟨?_, checkAffected_RL sp w t h.rl, ?_⟩
  · rw [(checkAffected_tasks sp w t).1]; exact h.ids
  · intro hr
    rw [(checkAffected_tasks sp w t).2] at hr
    rw [(checkAffected_tasks sp w t).1]
    rcases h.chk hr with h1 | h1
    · exact Or.inl h1
    · exact Or.inr (checkAffected_pending_sub sp w t _ h1)

theorem Inv1.completeTask (sp : Spec) (w : World) (r : TaskRow) (s : St) (h : Inv1 w) (hr : r ∈ w.tasks)
    (hs : s ≠ .IDLE ∧ s ≠ .RUNNING) : Inv1 (completeTask sp w r s) := by
  refine ⟨completeTask_ids sp w r s h.ids hr, completeTask_RL sp w r s hs (RLx_of_RL _ _ _ h.rl) (fun _ => h.rl), ?_⟩
  intro hwf
  rw [completeTask_wf] at hwf
  exact completeTask_check sp w r s hwf (h.chk hwf)

theorem startCmds_ne (sp : Spec) (h : startTasks sp ≠ []) :
    ((sp.graph.tasks.filter fun t => (inbound sp.graph t.name).isEmpty).map (·.name)).map
      (fun n => ({ target := n, src := none } : Cmd)) ≠ [] := by
  intro e
  apply h
  unfold startTasks
  have := congrArg List.length e
  simp only [List.length_map, List.length_nil] at this
  exact List.eq_nil_of_length_eq_zero (by simpa using this)

/-- the tail of `Workflow.resume`: backlog, re-start of IDLE tasks, continuation commands -/
theorem resume_tail (sp : Spec) (w2 : World) (idle : List Tid) (cmds : List Cmd) (hwf : w2.wf = .RUNNING)
    (hids : IdsOK w2.tasks) (hrl : RL w2.tasks w2.pending) (hidle : idle ≠ [] → HasIncomplete w2.tasks)
    (hne : ¬ (idle.isEmpty && cmds.isEmpty && w2.backlog.isEmpty) = true) :
    Inv1 (dispatch sp
      { dispatch sp { w2 with backlog := [] } w2.backlog with
        pending := (dispatch sp { w2 with backlog := [] } w2.backlog).pending ++ idle.map fun n => Item.postStartTask n false }
      cmds) := by
  have h3wf : (dispatch sp { w2 with backlog := [] } w2.backlog).wf = .RUNNING := by rw [dispatch_wf]; exact hwf
  refine ⟨dispatch_ids sp _ _ (dispatch_ids sp _ _ hids), ?_, fun _ => Or.inl ?_⟩
  · apply dispatch_RL
    exact RL_sub _ _ _ (dispatch_RL sp _ { w2 with backlog := [] } hrl) (fun x hx => List.mem_append_left _ hx)
  · by_cases hb : w2.backlog = []
    · by_cases hi : idle = []
      · have hc : cmds ≠ [] := by
          intro hc; apply hne; simp [hb, hi, hc]
        exact dispatch_creates sp _ _ h3wf hc
      · exact dispatch_incomplete sp _ _ (dispatch_incomplete sp _ { w2 with backlog := [] } (hidle hi))
    · exact dispatch_incomplete sp _ _ (dispatch_creates sp _ { w2 with backlog := [] } hwf hb)

theorem step_inv1 (sp : Spec) (hstart : startTasks sp ≠ []) (w : World) (ev : Event) (hl : lossless ev)
    (h : Inv1 w) : Inv1 (step sp w ev) := by
  cases ev with
  | start =>
    simp only [step]
    split
    · exact h
    · refine ⟨dispatch_ids sp _ _ h.ids, dispatch_RL sp _ _ h.rl, fun _ => Or.inl ?_⟩
      exact dispatch_creates sp _ _ rfl (startCmds_ne sp hstart)
  | pause => exact Inv1.same w h _ _ _ _ (pause_running _) h.rl id
  | stop t => exact Inv1.same w h _ _ _ _ (stop_running _ _) h.rl id
  | execute t ok =>
    simp only [step]
    split
    · exact h
    · refine Inv1.same w h _ _ _ _ id ?_ ?_
      · apply RL_replace _ _ _ _ h.rl
        · intro t' ht; simp [isStartFor] at ht
        · intro t' ht; simpa [isActFor] using ht
      · intro hc
        exact List.mem_append_left _ (mem_removeFirst_of_ne _ _ _ hc (by simp))
  | resume =>
    simp only [step]
    split
    · exact h
    · rename_i hpi0
      have hpi : isPausedOrIdle w.wf = true := by simpa using hpi0
      have hrun := resume_running w.wf hpi
      have hnc : isCompleted St.RUNNING = false := by decide
      simp only [hrun, hnc, Bool.false_eq_true, if_false]
      have hf : ∀ t : TaskRow,
          (if (isCompleted t.state && !t.processed) = true then { t with processed := true } else t).state = t.state ∧
          (if (isCompleted t.state && !t.processed) = true then { t with processed := true } else t).name = t.name ∧
          (if (isCompleted t.state && !t.processed) = true then { t with processed := true } else t).occ = t.occ := by
        intro t; split <;> exact ⟨rfl, rfl, rfl⟩
      have hids2 := idsOK_map w.tasks _ h.ids (fun t => ⟨(hf t).2.1, (hf t).2.2⟩)
      have hrl2 := RL_map w.tasks w.pending _ h.rl hf
      split
      · refine ⟨?_, ?_, ?_⟩
        · rw [checkAndComplete_tasks]; exact hids2
        · rw [checkAndComplete_tasks, checkAndComplete_pending]; exact hrl2
        · intro hr
          rw [checkAndComplete_tasks]
          exact Or.inl (checkAndComplete_running _ hr)
      · rename_i hne
        refine resume_tail sp
          { wf := .RUNNING, tasks := w.tasks.map _, pending := w.pending, backlog := w.backlog, crashed := w.crashed }
          _ _ rfl hids2 hrl2 ?_ hne
        intro hi
        obtain ⟨x, hx⟩ := List.exists_mem_of_ne_nil _ hi
        rcases List.mem_map.mp hx with ⟨y, hy, _⟩
        have hy' := List.mem_filter.mp hy
        have hys : y.state = .IDLE := by simpa using hy'.2
        apply hasIncomplete_map _ _ ⟨y, hy'.1, by rw [hys]; exact idle_incomplete⟩
        intro t; exact (hf t).1
  | deliver it =>
    have keepCheck : ∀ (q : List Item), it ≠ .postCheck → Item.postCheck ∈ w.pending →
        Item.postCheck ∈ removeFirst w.pending it ++ q :=
      fun q hne hc => List.mem_append_left _ (mem_removeFirst_of_ne _ _ _ hc (fun e => hne e.symm))
    have keepCheck0 : it ≠ .postCheck → Item.postCheck ∈ w.pending → Item.postCheck ∈ removeFirst w.pending it :=
      fun hne hc => mem_removeFirst_of_ne _ _ _ hc (fun e => hne e.symm)
    cases it with
    | runAction t => exact absurd rfl (hl t)
    | postStartTask t f =>
      simp only [step]
      split
      · exact h
      · refine Inv1.same w h _ _ _ _ id ?_ (keepCheck _ (by simp))
        apply RL_replace _ _ _ _ h.rl
        · intro t' ht; simpa [isStartFor] using ht
        · intro t' ht; simp [isActFor] at ht
    | postRunAction t =>
      simp only [step]
      split
      · exact h
      · refine Inv1.same w h _ _ _ _ id ?_ (keepCheck _ (by simp))
        apply RL_replace _ _ _ _ h.rl
        · intro t' ht; simp [isStartFor] at ht
        · intro t' ht; simpa [isActFor] using ht
    | postCheck =>
      simp only [step]
      split
      · exact h
      · have hrl : RL w.tasks (removeFirst w.pending .postCheck) :=
          RL_removeFirst_other _ _ _ h.rl (fun _ => rfl) (fun _ => rfl)
        refine ⟨?_, ?_, ?_⟩
        · rw [checkAndComplete_tasks]; exact h.ids
        · rw [checkAndComplete_tasks, checkAndComplete_pending]; exact hrl
        · intro hr
          rw [checkAndComplete_tasks]
          exact Or.inl (checkAndComplete_running _ hr)
    | postSchedRefresh t =>
      simp only [step]
      split
      · exact h
      · have hrl : RL w.tasks (removeFirst w.pending (.postSchedRefresh t)) :=
          RL_removeFirst_other _ _ _ h.rl (fun _ => rfl) (fun _ => rfl)
        split
        · exact Inv1.same w h _ _ _ _ id hrl (keepCheck0 (by simp))
        · exact Inv1.same w h _ _ _ _ id (RL_sub _ _ _ hrl (fun x hx => List.mem_append_left _ hx)) (keepCheck _ (by simp))
    | rpcResult t ok =>
      simp only [step]
      split
      · exact h
      · have hx : RLx t w.tasks (removeFirst w.pending (.rpcResult t ok)) := by
          apply RLx_removeFirst t _ _ _ h.rl
          intro t' hne
          refine ⟨rfl, ?_⟩
          simp only [isActFor, beq_eq_false_iff_ne, ne_eq]
          exact fun e => hne e.symm
        split
        · rename_i hnone
          have hn : findTask w t = none := hnone
          refine Inv1.same w h _ _ _ _ id (RL_of_RLx t _ _ hx ?_) (keepCheck0 (by simp))
          intro r hr e; exact absurd e (findTask_none_no_row w t hn r hr)
        · rename_i r hr
          have hf : findTask w t = some r := hr
          have hm := findTask_mem w t r hf
          have hid : idOf r = t := findTask_id w t r hf
          refine ⟨completeTask_ids sp _ r _ h.ids hm, ?_, ?_⟩
          · apply completeTask_RL sp _ r _ (by cases ok <;> decide) (hid ▸ hx)
            intro hc
            apply RL_of_RLx t _ _ hx
            intro x hxm e
            have : x = r := findTask_unique w t r x h.ids hf hxm e
            rw [this]; exact completed_not_idle_running _ hc
          · intro hwf
            rw [completeTask_wf] at hwf
            apply completeTask_check sp _ r _ hwf
            rcases h.chk hwf with h1 | h1
            · exact Or.inl h1
            · exact Or.inr (keepCheck0 (by simp) h1)
    | rpcStartTask t f =>
      simp only [step]
      split
      · exact h
      · have hst : ∀ t', t' ≠ t → isStartFor t' (.rpcStartTask t f) = false := by
          intro t' hne
          simp only [isStartFor, beq_eq_false_iff_ne, ne_eq]
          exact fun e => hne e.symm
        have hact : ∀ t', isActFor t' (.rpcStartTask t f) = false := fun _ => rfl
        split
        · rename_i hnone
          have hn : findTask w t = none := hnone
          refine Inv1.same w h _ _ _ _ id (RL_removeFirst_start t _ _ _ h.rl hst hact ?_) (keepCheck0 (by simp))
          intro x hx e; exact absurd e (findTask_none_no_row w t hn x hx)
        · rename_i r hr
          have hf : findTask w t = some r := hr
          have hm := findTask_mem w t r hf
          have hid : idOf r = t := findTask_id w t r hf
          have huniq : ∀ x ∈ w.tasks, idOf x = t → x = r := fun x hx e => findTask_unique w t r x h.ids hf hx e
          have run : ∀ (r' : TaskRow), r'.name = r.name → r'.occ = r.occ → r'.state = .RUNNING → ∀ b c,
              Inv1 { wf := w.wf, tasks := setTask w.tasks r',
                     pending := removeFirst w.pending (.rpcStartTask t f) ++ [.postRunAction t], backlog := b, crashed := c } := by
            intro r' hn ho hs b c
            have hid' : idOf r' = t := by
              have : idOf r' = idOf r := by unfold idOf; rw [hn, ho]
              rw [this]; exact hid
            refine Inv1.set w h r r' hm hn ho (by rw [hs]; exact running_incomplete) _ _ _ ?_
            have := RL_run w.tasks w.pending (.rpcStartTask t f) r' h.rl
              (by intro t' hne; rw [hid'] at hne; exact ⟨hst t' hne, hact t'⟩) hs
            rw [hid'] at this
            exact this
          have stay : r.state ≠ .IDLE → ∀ b c,
              Inv1 { wf := w.wf, tasks := w.tasks, pending := removeFirst w.pending (.rpcStartTask t f), backlog := b, crashed := c } := by
            intro hni b c
            refine Inv1.same w h _ _ _ _ id (RL_removeFirst_start t _ _ _ h.rl hst hact ?_) (keepCheck0 (by simp))
            intro x hx e; rw [huniq x hx e]; exact hni
          split
          · split
            · exact run { r with state := .RUNNING } rfl rfl rfl _ _
            · rename_i hni
              have hni' : r.state ≠ .IDLE := by simpa using hni
              split
              · split
                · exact stay hni' _ _
                · have := stay hni' w.backlog w.crashed
                  exact Inv1.same _ this _ _ _ _ id (RL_sub _ _ _ this.rl (fun x hx => List.mem_append_left _ hx))
                    (fun hc => List.mem_append_left _ hc)
              · exact Inv1.checkAffected sp _ t (stay hni' _ _)
          · split
            · rename_i hs
              have : r.state ≠ .IDLE := by
                have : r.state = .SUCCESS := by simpa using hs
                rw [this]; decide
              exact stay this _ _
            · split
              · rename_i hs
                have : r.state ≠ .IDLE := by
                  intro hi; rw [hi] at hs; exact absurd hs (by decide)
                exact Inv1.checkAffected sp _ t (stay this _ _)
              · split
                · rename_i hs
                  have : r.state ≠ .IDLE := by
                    simp only [Bool.and_eq_true, beq_iff_eq] at hs
                    rw [hs.1]; decide
                  exact stay this _ _
                · exact run { r with state := .RUNNING, processed := false } rfl rfl rfl _ _
    | jobRefresh t =>
      simp only [step]
      split
      · exact h
      · have hrl0 : RL w.tasks (removeFirst w.pending (.jobRefresh t)) :=
          RL_removeFirst_other _ _ _ h.rl (fun _ => rfl) (fun _ => rfl)
        have base : ∀ b c, Inv1 { wf := w.wf, tasks := w.tasks, pending := removeFirst w.pending (.jobRefresh t),
                                   backlog := b, crashed := c } :=
          fun b c => Inv1.same w h _ _ _ _ id hrl0 (keepCheck0 (by simp))
        split
        · exact base _ _
        · rename_i r hr
          have hf : findTask w t = some r := hr
          have hm := findTask_mem w t r hf
          have hid : idOf r = t := findTask_id w t r hf
          split
          · exact base _ _
          · rename_i hgu
            have hinc : isCompleted r.state = false := by
              simp only [Bool.or_eq_true, not_or, Bool.not_eq_true] at hgu; exact hgu.1
            split
            · exact base _ _
            · split
              · exact base _ _
              · split
                · exact base _ _
                · rename_i L hL
                  -- the row with the rewritten "triggered_by"
                  generalize (List.filterMap _ L.triggeredBy) = tr
                  have hW : ∀ b c,
                      Inv1 { wf := w.wf, tasks := setTask w.tasks { r with trig := tr },
                             pending := removeFirst w.pending (.jobRefresh t), backlog := b, crashed := c } := by
                    intro b c
                    refine Inv1.set w h r { r with trig := tr } hm rfl rfl hinc _ _ _ ?_
                    exact RL_setTask _ _ _ hrl0 (hrl0 r hm)
                  have hmem : ({ r with trig := tr } : TaskRow) ∈ setTask w.tasks { r with trig := tr } :=
                    self_mem_setTask w.tasks r _ hm rfl rfl
                  split
                  · split
                    · rename_i hlive
                      have hW' := hW w.backlog w.crashed
                      refine Inv1.set _ hW' { r with trig := tr } { r with trig := tr, state := .RUNNING } hmem rfl rfl
                        running_incomplete _ _ _ ?_
                      refine RL_setTask _ _ _ hW'.rl ⟨fun e => absurd e (by show St.RUNNING ≠ St.IDLE; decide), fun _ => ?_⟩
                      rw [hasLiveAction_eq] at hlive
                      rw [show idOf ({ r with trig := tr, state := .RUNNING } : TaskRow) = t from hid]
                      exact hlive
                    · have hW' := hW w.backlog w.crashed
                      refine Inv1.set _ hW' { r with trig := tr } { r with trig := tr, state := .RUNNING } hmem rfl rfl
                        running_incomplete _ _ _ ?_
                      refine RL_setTask _ _ _ (RL_sub _ _ _ hW'.rl (fun x hx => List.mem_append_left _ hx))
                        ⟨fun e => absurd e (by show St.RUNNING ≠ St.IDLE; decide), fun _ => ?_⟩
                      rw [show idOf ({ r with trig := tr, state := .RUNNING } : TaskRow) = t from hid]
                      exact any_of_mem _ _ (.postRunAction t) (by simp) (by simp [isActFor])
                  · split
                    · exact Inv1.completeTask sp _ _ _ (hW _ _) hmem (by decide)
                    · exact hW _ _

end Mistral.Engine.Live
