/-
Concrete definitions and histories for `Props/C02Sem.lean`:
  * `sSpec` / `sPlain` / `sStale`: the former counter-witness of schedule independence, now a
    regression - task t0 (fails; on-error → t1), pause / resume while t0 is still IDLE; the re-queued
    `start_task(first_run=False)` is delivered after t0 has failed AND the workflow has finished.
    Before the fix of `_run_existing` (repo_patches/20) t0 ran again inside the finished workflow and
    its row was rewritten; now the request is ignored (corpus/C02/stale_restart_after_finish.json);
  * `fjSpec` / `fjFifo` / `fjPaused`: a fork / join definition with a failing branch and an on-error
    route, one history without operator commands and one with a pause / resume round and another
    delivery order (non-vacuity of the theorems).
-/
import Mistral.Lemmas.SemRun
namespace Mistral.Sem.Wit
open Mistral Mistral.Join Mistral.Engine Mistral.Engine.Live Mistral.Sem

/-! ### the stale re-start -/

def sGraph : Graph := {
  tasks := [⟨"t0", none, [], ["t1"], [], []⟩, ⟨"t1", none, [], [], [], []⟩],
  defaults := none }

def sSpec : Spec := { graph := sGraph, live := [⟨"t0", [], ["t1"], []⟩, ⟨"t1", [], [], []⟩] }

def sRank : String → Nat := fun n => if n == "t1" then 1 else 0

/-- t0 fails, t1 succeeds -/
def sOrc : String → Bool := fun n => n != "t0"

/-- no operator command -/
def sPlain : List Event :=
  [.deliver (.postStartTask ("t0", 0) true),
   .deliver (.rpcStartTask ("t0", 0) true),
   .deliver (.postRunAction ("t0", 0)),
   .execute ("t0", 0) false,
   .deliver (.rpcResult ("t0", 0) false),
   .deliver (.postStartTask ("t1", 0) true),
   .deliver (.rpcStartTask ("t1", 0) true),
   .deliver (.postRunAction ("t1", 0)),
   .execute ("t1", 0) true,
   .deliver (.rpcResult ("t1", 0) true),
   .deliver .postCheck]

/-- pause / resume while t0 is IDLE; the re-queued start request arrives after the workflow finished
    (and is ignored) -/
def sStale : List Event :=
  [.deliver (.postStartTask ("t0", 0) true),
   .pause,
   .resume,
   .deliver (.rpcStartTask ("t0", 0) true),
   .deliver (.postStartTask ("t0", 0) false),
   .deliver (.postRunAction ("t0", 0)),
   .execute ("t0", 0) false,
   .deliver (.rpcResult ("t0", 0) false),
   .deliver (.postStartTask ("t1", 0) true),
   .deliver (.rpcStartTask ("t1", 0) true),
   .deliver (.postRunAction ("t1", 0)),
   .execute ("t1", 0) true,
   .deliver (.rpcResult ("t1", 0) true),
   .deliver .postCheck,
   .deliver (.rpcStartTask ("t0", 0) false)]

theorem s_names : namesUnique sSpec := by unfold namesUnique; decide

theorem s_joins : joinsSatisfiable sSpec := by
  intro t ht n hn
  simp [sSpec, sGraph] at ht
  rcases ht with rfl | rfl <;> simp at hn

theorem s_budget : walkBudgetOK sSpec := by decide

theorem s_live : liveInGraph sSpec := by
  intro l hl x hx
  simp [sSpec] at hl
  rcases hl with rfl | rfl <;> simp at hx <;> (try subst hx) <;> decide

theorem s_rank : ∀ t, ∀ p ∈ inbound sSpec.graph t, sRank p.name < sRank t := by
  intro t p hp
  simp [inbound, sSpec, sGraph, outNames, clause] at hp
  rcases hp with ⟨hp, ht⟩
  rcases hp with rfl | rfl <;> simp at ht <;> (try subst ht) <;> decide

theorem s_fuel : ∀ t, sRank t < fuelFor sSpec := by
  intro t
  simp only [sRank, fuelFor]
  repeat' split
  all_goals decide

theorem s_ok : SpecOK sSpec sRank := ⟨s_names, s_joins, s_budget, s_live, s_rank, s_fuel⟩

theorem s_starts : startTasks sSpec ≠ [] := by decide

theorem s_known : TargetsKnown sSpec := by
  intro t ht x hx
  simp [sSpec, sGraph] at ht
  rcases ht with rfl | rfl <;> simp [outNames, clause, sSpec, sGraph] at hx <;> (try subst hx) <;> decide

/-! ### fork / join with a failing branch and an on-error route -/

def fjGraph : Graph := {
  tasks := [⟨"a", none, ["b", "c"], [], [], []⟩, ⟨"b", none, ["j"], ["h"], [], []⟩,
            ⟨"c", none, ["j"], [], [], []⟩, ⟨"j", some .all, ["k"], [], [], []⟩,
            ⟨"h", none, [], [], [], []⟩, ⟨"k", none, [], [], [], []⟩],
  defaults := none }

def fjSpec : Spec := {
  graph := fjGraph,
  live := [⟨"a", ["b", "c"], [], []⟩, ⟨"b", ["j"], ["h"], []⟩, ⟨"c", ["j"], [], []⟩, ⟨"j", ["k"], [], []⟩,
           ⟨"h", [], [], []⟩, ⟨"k", [], [], []⟩] }

def fjRank : String → Nat := fun n =>
  if n == "a" then 0 else if n == "b" || n == "c" then 1 else if n == "j" || n == "h" then 2 else if n == "k" then 3 else 0

/-- branch b fails -/
def fjOrc : String → Bool := fun n => n != "b"

/-- first-in first-out, no operator command -/
def fjFifo : List Event :=
  [.deliver (.postStartTask ("a", 0) true),
   .deliver (.rpcStartTask ("a", 0) true),
   .deliver (.postRunAction ("a", 0)),
   .execute ("a", 0) true,
   .deliver (.rpcResult ("a", 0) true),
   .deliver (.postStartTask ("b", 0) true),
   .deliver (.postStartTask ("c", 0) true),
   .deliver (.rpcStartTask ("b", 0) true),
   .deliver (.rpcStartTask ("c", 0) true),
   .deliver (.postRunAction ("b", 0)),
   .deliver (.postRunAction ("c", 0)),
   .execute ("b", 0) false,
   .execute ("c", 0) true,
   .deliver (.rpcResult ("b", 0) false),
   .deliver (.rpcResult ("c", 0) true),
   .deliver (.postStartTask ("h", 0) true),
   .deliver (.postStartTask ("j", 0) true),
   .deliver (.postSchedRefresh ("j", 0)),
   .deliver (.rpcStartTask ("h", 0) true),
   .deliver (.rpcStartTask ("j", 0) true),
   .deliver (.jobRefresh ("j", 0)),
   .deliver (.postRunAction ("h", 0)),
   .deliver .postCheck,
   .execute ("h", 0) true,
   .deliver (.rpcResult ("h", 0) true),
   .deliver .postCheck]

/-- last-in first-out with a pause / resume round: both branches complete while PAUSED -/
def fjPaused : List Event :=
  [.deliver (.postStartTask ("a", 0) true),
   .deliver (.rpcStartTask ("a", 0) true),
   .deliver (.postRunAction ("a", 0)),
   .execute ("a", 0) true,
   .deliver (.rpcResult ("a", 0) true),
   .deliver (.postStartTask ("c", 0) true),
   .deliver (.rpcStartTask ("c", 0) true),
   .deliver (.postRunAction ("c", 0)),
   .execute ("c", 0) true,
   .pause,
   .deliver (.rpcResult ("c", 0) true),
   .deliver (.postStartTask ("b", 0) true),
   .deliver (.rpcStartTask ("b", 0) true),
   .deliver (.postRunAction ("b", 0)),
   .execute ("b", 0) false,
   .deliver (.rpcResult ("b", 0) false),
   .resume,
   .deliver (.postStartTask ("j", 0) true),
   .deliver (.rpcStartTask ("j", 0) true),
   .deliver (.jobRefresh ("j", 0)),
   .deliver .postCheck,
   .deliver (.postStartTask ("h", 0) true),
   .deliver (.rpcStartTask ("h", 0) true),
   .deliver (.postRunAction ("h", 0)),
   .execute ("h", 0) true,
   .deliver (.rpcResult ("h", 0) true),
   .deliver .postCheck]

theorem fj_names : namesUnique fjSpec := by unfold namesUnique; decide

theorem fj_joins : joinsSatisfiable fjSpec := by
  intro t ht n hn
  simp [fjSpec, fjGraph] at ht
  rcases ht with rfl | rfl | rfl | rfl | rfl | rfl <;> simp at hn

theorem fj_budget : walkBudgetOK fjSpec := by decide

theorem fj_live : liveInGraph fjSpec := by
  intro l hl x hx
  simp [fjSpec] at hl
  rcases hl with rfl | rfl | rfl | rfl | rfl | rfl <;> simp at hx <;>
    (try rcases hx with rfl | rfl) <;> (try subst hx) <;> decide

theorem fj_rank : ∀ t, ∀ p ∈ inbound fjSpec.graph t, fjRank p.name < fjRank t := by
  intro t p hp
  simp [inbound, fjSpec, fjGraph, outNames, clause] at hp
  rcases hp with ⟨hp, ht⟩
  rcases hp with rfl | rfl | rfl | rfl | rfl | rfl <;> simp at ht <;>
    (try rcases ht with rfl | rfl) <;> (try subst ht) <;> decide

theorem fj_fuel : ∀ t, fjRank t < fuelFor fjSpec := by
  intro t
  simp only [fjRank, fuelFor]
  repeat' split
  all_goals decide

theorem fj_ok : SpecOK fjSpec fjRank := ⟨fj_names, fj_joins, fj_budget, fj_live, fj_rank, fj_fuel⟩

theorem fj_starts : startTasks fjSpec ≠ [] := by decide

theorem fj_known : TargetsKnown fjSpec := by
  intro t ht x hx
  simp [fjSpec, fjGraph] at ht
  rcases ht with rfl | rfl | rfl | rfl | rfl | rfl <;> simp [outNames, clause, fjSpec, fjGraph] at hx <;>
    (try rcases hx with rfl | rfl) <;> (try subst hx) <;> decide

/-! ### a `join: all` that fails early and is re-opened by a late branch -/

def eGraph : Graph := {
  tasks := [⟨"p1", none, ["j"], [], [], []⟩, ⟨"p2", none, ["j"], [], [], []⟩, ⟨"q", none, [], ["j"], [], []⟩,
            ⟨"j", some .all, [], ["e"], [], []⟩, ⟨"e", none, [], [], [], []⟩],
  defaults := none }

def eSpec : Spec := {
  graph := eGraph,
  live := [⟨"p1", ["j"], [], []⟩, ⟨"p2", ["j"], [], []⟩, ⟨"q", [], ["j"], []⟩, ⟨"j", [], ["e"], []⟩, ⟨"e", [], [], []⟩] }

def eRank : String → Nat := fun n => if n == "j" then 1 else if n == "e" then 2 else 0

/-- every action succeeds -/
def eOrc : String → Bool := fun _ => true

/-- q and p1 complete, the join fails ("not triggered" by q), e runs; THEN the late branch p2 completes -/
def eLate : List Event :=
  [.deliver (.postStartTask ("q", 0) true),
     .deliver (.postStartTask ("p2", 0) true),
     .deliver (.postStartTask ("p1", 0) true),
     .deliver (.rpcStartTask ("q", 0) true),
     .deliver (.rpcStartTask ("p2", 0) true),
     .deliver (.rpcStartTask ("p1", 0) true),
     .deliver (.postRunAction ("q", 0)),
     .deliver (.postRunAction ("p2", 0)),
     .deliver (.postRunAction ("p1", 0)),
     .execute ("q", 0) true,
     .execute ("p2", 0) true,
     .execute ("p1", 0) true,
     .deliver (.rpcResult ("q", 0) true),
     .deliver (.rpcResult ("p1", 0) true),
     .deliver .postCheck,
     .deliver (.postStartTask ("j", 0) true),
     .deliver (.postSchedRefresh ("j", 0)),
     .deliver (.rpcStartTask ("j", 0) true),
     .deliver (.jobRefresh ("j", 0)),
     .deliver (.postStartTask ("e", 0) true),
     .deliver (.rpcStartTask ("e", 0) true),
     .deliver (.postRunAction ("e", 0)),
     .execute ("e", 0) true,
     .deliver (.rpcResult ("e", 0) true),
     .deliver .postCheck,
     .deliver (.rpcResult ("p2", 0) true),
     .deliver (.postStartTask ("j", 0) true),
     .deliver (.postSchedRefresh ("j", 0)),
     .deliver (.rpcStartTask ("j", 0) true),
     .deliver (.jobRefresh ("j", 0)),
     .deliver (.postStartTask ("e", 1) true),
     .deliver (.rpcStartTask ("e", 1) true),
     .deliver (.postRunAction ("e", 1)),
     .execute ("e", 1) true,
     .deliver (.rpcResult ("e", 1) true),
     .deliver .postCheck]

/-- first-in first-out: all three branches complete before the join is refreshed -/
def eFifo : List Event :=
  [.deliver (.postStartTask ("p1", 0) true),
     .deliver (.postStartTask ("p2", 0) true),
     .deliver (.postStartTask ("q", 0) true),
     .deliver (.rpcStartTask ("p1", 0) true),
     .deliver (.rpcStartTask ("p2", 0) true),
     .deliver (.rpcStartTask ("q", 0) true),
     .deliver (.postRunAction ("p1", 0)),
     .deliver (.postRunAction ("p2", 0)),
     .deliver (.postRunAction ("q", 0)),
     .execute ("p1", 0) true,
     .execute ("p2", 0) true,
     .execute ("q", 0) true,
     .deliver (.rpcResult ("p1", 0) true),
     .deliver (.rpcResult ("p2", 0) true),
     .deliver (.rpcResult ("q", 0) true),
     .deliver (.postStartTask ("j", 0) true),
     .deliver (.postSchedRefresh ("j", 0)),
     .deliver (.postStartTask ("j", 0) true),
     .deliver (.postSchedRefresh ("j", 0)),
     .deliver .postCheck,
     .deliver (.postSchedRefresh ("j", 0)),
     .deliver (.rpcStartTask ("j", 0) true),
     .deliver (.jobRefresh ("j", 0)),
     .deliver (.rpcStartTask ("j", 0) true),
     .deliver (.postStartTask ("e", 0) true),
     .deliver (.rpcStartTask ("e", 0) true),
     .deliver (.postRunAction ("e", 0)),
     .execute ("e", 0) true,
     .deliver (.rpcResult ("e", 0) true),
     .deliver .postCheck]

theorem e_names : namesUnique eSpec := by unfold namesUnique; decide

theorem e_joins : joinsSatisfiable eSpec := by
  intro t ht n hn
  simp [eSpec, eGraph] at ht
  rcases ht with rfl | rfl | rfl | rfl | rfl <;> simp at hn

theorem e_budget : walkBudgetOK eSpec := by decide

theorem e_live : liveInGraph eSpec := by
  intro l hl x hx
  simp [eSpec] at hl
  rcases hl with rfl | rfl | rfl | rfl | rfl <;> simp at hx <;> (try subst hx) <;> decide

theorem e_rank : ∀ t, ∀ p ∈ inbound eSpec.graph t, eRank p.name < eRank t := by
  intro t p hp
  simp [inbound, eSpec, eGraph, outNames, clause] at hp
  rcases hp with ⟨hp, ht⟩
  rcases hp with rfl | rfl | rfl | rfl | rfl <;> simp at ht <;> (try subst ht) <;> decide

theorem e_fuel : ∀ t, eRank t < fuelFor eSpec := by
  intro t
  simp only [eRank, fuelFor]
  repeat' split
  all_goals decide

theorem e_ok : SpecOK eSpec eRank := ⟨e_names, e_joins, e_budget, e_live, e_rank, e_fuel⟩

theorem e_starts : startTasks eSpec ≠ [] := by decide

theorem e_known : TargetsKnown eSpec := by
  intro t ht x hx
  simp [eSpec, eGraph] at ht
  rcases ht with rfl | rfl | rfl | rfl | rfl <;> simp [outNames, clause, eSpec, eGraph] at hx <;>
    (try subst hx) <;> decide

end Mistral.Sem.Wit
