/-
From the invariants to the liveness statement: in a RUNNING world that satisfies the invariants
something is pending.
-/
import Mistral.Lemmas.LiveDefs2
namespace Mistral.Engine.Live
open Mistral Mistral.Join Mistral.Engine

theorem any_nonempty (c : Item → Bool) (p : List Item) (h : p.any c = true) : p ≠ [] := by
  intro e; rw [e] at h; simp at h

/-- With nothing pending in a RUNNING world no execution is incomplete: by induction on the rank
    of the task, an IDLE / RUNNING execution would have a delivery of its own, a WAITING join a
    wake-up or a blocker of smaller rank. -/
theorem no_incomplete_of_nothing_pending (sp : Spec) (rk : String → Nat)
    (hpath : ∀ (w : World) (x j : String), Path sp w x j → rk x < rk j)
    (w : World) (h1 : Inv1 w) (hsok : SOK sp w.tasks) (h2 : Inv2 sp w) (hjw : JW sp w)
    (hrun : w.wf = .RUNNING) (hp : w.pending = []) :
    ∀ (n : Nat), ∀ r ∈ w.tasks, isCompleted r.state = false → rk r.name < n → False := by
  have hnc : isCompleted w.wf = false := by rw [hrun]; decide
  intro n
  induction n with
  | zero => intro r _ _ h; omega
  | succ k ih =>
    intro r hr hinc hlt
    rcases hsok r hr with hs | hs | hs | ⟨hs, _⟩
    · rw [hs] at hinc; cases hinc
    · exact any_nonempty _ _ ((h1.rl r hr).1 hs) hp
    · exact any_nonempty _ _ ((h1.rl r hr).2 hs) hp
    · rcases hjw hnc r hr hs with hwake | ⟨u, hu, hb⟩
      · exact any_nonempty _ _ hwake hp
      · rcases hb with ⟨huinc, hpth⟩ | ⟨hucomp, hunproc, _⟩
        · have := hpath w u.name r.name hpth
          exact ih u hu huinc (by omega)
        · have := h2.proc hrun u hu hucomp
          rw [this] at hunproc; cases hunproc

theorem pending_of_invariants (sp : Spec) (rk : String → Nat)
    (hpath : ∀ (w : World) (x j : String), Path sp w x j → rk x < rk j)
    (w : World) (h1 : Inv1 w) (hsok : SOK sp w.tasks) (h2 : Inv2 sp w) (hjw : JW sp w)
    (hrun : w.wf = .RUNNING) : w.pending ≠ [] := by
  intro hp
  rcases h1.chk hrun with ⟨r, hr, hinc⟩ | hck
  · exact no_incomplete_of_nothing_pending sp rk hpath w h1 hsok h2 hjw hrun hp (rk r.name + 1) r hr hinc (by omega)
  · rw [hp] at hck; cases hck

end Mistral.Engine.Live
