import Mistral.Model.Val
namespace Mistral.Dict

variable {α : Type}

@[simp] theorem get?_nil (k : String) : get? ([] : List (String × α)) k = none := rfl

theorem get?_cons (k' : String) (v : α) (rest : List (String × α)) (k : String) :
    get? ((k', v) :: rest) k = if k' == k then some v else get? rest k := rfl

theorem get?_set_self (d : List (String × α)) (k : String) (v : α) :
    get? (set d k v) k = some v := by
  induction d with
  | nil => simp [set, get?_cons]
  | cons p rest ih =>
    obtain ⟨k', v'⟩ := p
    unfold set
    by_cases h : (k' == k) = true
    · simp [h, get?_cons]
    · simp [h, get?_cons, ih]

theorem get?_set_other (d : List (String × α)) (k k2 : String) (v : α) (hne : k ≠ k2) :
    get? (set d k v) k2 = get? d k2 := by
  induction d with
  | nil =>
    have : (k == k2) = false := by simpa using hne
    simp [set, get?_cons, this]
  | cons p rest ih =>
    obtain ⟨k', v'⟩ := p
    unfold set
    by_cases h : (k' == k) = true
    · have hk : k' = k := by simpa using h
      subst hk
      have : (k' == k2) = false := by simpa using hne
      simp [h, get?_cons, this]
    · simp [h, get?_cons, ih]

theorem get?_set (d : List (String × α)) (k k2 : String) (v : α) :
    get? (set d k v) k2 = if k = k2 then some v else get? d k2 := by
  by_cases h : k = k2
  · subst h; simp [get?_set_self]
  · simp [h, get?_set_other _ _ _ _ h]

theorem get?_append (a b : List (String × α)) (k : String) :
    get? (a ++ b) k = match get? a k with | some v => some v | none => get? b k := by
  induction a with
  | nil => simp
  | cons p rest ih =>
    obtain ⟨k', v'⟩ := p
    simp only [List.cons_append, get?_cons]
    by_cases h : (k' == k) = true
    · simp [h]
    · simp [h, ih]

/-- python `left.update(right)`: right wins -/
theorem get?_update (l r : List (String × α)) (k : String) :
    get? (update l r) k = match get? (r.reverse) k with | some v => some v | none => get? l k := by
  unfold update
  induction r generalizing l with
  | nil => simp
  | cons p rest ih =>
    obtain ⟨k', v'⟩ := p
    simp only [List.foldl_cons, List.reverse_cons]
    rw [ih, get?_append]
    cases hr : get? rest.reverse k with
    | some v => simp
    | none =>
      simp only [get?_cons, get?_nil]
      rw [get?_set]
      by_cases h : k' = k
      · subst h; simp
      · have : (k' == k) = false := by simpa using h
        simp [h, this]

theorem get?_erase_other (d : List (String × α)) (k k2 : String) (hne : k ≠ k2) :
    get? (erase d k) k2 = get? d k2 := by
  induction d with
  | nil => simp [erase]
  | cons p rest ih =>
    obtain ⟨k', v'⟩ := p
    unfold erase at *
    by_cases h : k' = k
    · subst h
      have : (k' == k2) = false := by simpa using hne
      simp [List.filter_cons, get?_cons, this, ih]
    · have h2 : (k' != k) = true := by simpa using h
      simp [List.filter_cons, h2, get?_cons, ih]

end Mistral.Dict
