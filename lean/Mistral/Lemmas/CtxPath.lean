/-
Nested values: what `_merge_ctx` does along a PATH of keys.  No flatness hypothesis.
-/
import Mistral.Model.Hist
import Mistral.Lemmas.Ctx
namespace Mistral.Ctx
open Mistral Mistral.Dict Mistral.Hist

theorem mem_keys_of_get? {α : Type} (d : List (String × α)) (k : String) (v : α) (h : get? d k = some v) :
    k ∈ d.map (·.1) := by
  apply Decidable.byContradiction
  intro hn
  rw [get?_none_of_not_mem d k hn] at h; cases h

theorem not_mem_keys_of_get?_none {α : Type} (d : List (String × α)) (k : String) (h : get? d k = none) :
    k ∉ d.map (·.1) := by
  induction d with
  | nil => simp
  | cons p rest ih =>
    obtain ⟨k', v'⟩ := p
    rw [get?_cons] at h
    by_cases hb : (k' == k) = true
    · simp [hb] at h
    · simp only [hb, Bool.false_eq_true, if_false] at h
      have hne : k' ≠ k := by simpa using hb
      simp only [List.map_cons, List.mem_cons, not_or]
      exact ⟨fun e => hne e.symm, ih h⟩

theorem keys_set_of_get? {α : Type} (d : List (String × α)) (k : String) (v w : α) (h : get? d k = some w) :
    (set d k v).map (·.1) = d.map (·.1) := by
  induction d with
  | nil => simp at h
  | cons p rest ih =>
    obtain ⟨k', v'⟩ := p
    unfold Dict.set
    by_cases hb : (k' == k) = true
    · have : k' = k := by simpa using hb
      simp [hb, this]
    · rw [get?_cons] at h
      simp only [hb, Bool.false_eq_true, if_false] at h
      simp [hb, ih h]

theorem keys_set_of_none {α : Type} (d : List (String × α)) (k : String) (v : α) (h : get? d k = none) :
    (set d k v).map (·.1) = d.map (·.1) ++ [k] := by
  induction d with
  | nil => simp [Dict.set]
  | cons p rest ih =>
    obtain ⟨k', v'⟩ := p
    unfold Dict.set
    rw [get?_cons] at h
    by_cases hb : (k' == k) = true
    · simp [hb] at h
    · simp only [hb, Bool.false_eq_true, if_false] at h
      simp [hb, ih h]

theorem uniqueKeys_append_new {α : Type} (d : List (String × α)) (k : String) (v : α)
    (hu : UniqueKeys d) (h : get? d k = none) : UniqueKeys (d ++ [(k, v)]) := by
  unfold UniqueKeys at *
  simp only [List.map_append, List.map_cons, List.map_nil]
  rw [List.nodup_append]
  refine ⟨hu, by simp, ?_⟩
  intro a ha b hb
  simp only [List.mem_singleton] at hb
  subst hb
  intro e
  subst e
  exact not_mem_keys_of_get?_none d _ h ha

theorem uniqueKeys_set {α : Type} (d : List (String × α)) (k : String) (v : α) (hu : UniqueKeys d) :
    UniqueKeys (set d k v) := by
  cases h : get? d k with
  | some w => unfold UniqueKeys; rw [keys_set_of_get? d k v w h]; exact hu
  | none =>
    unfold UniqueKeys at *
    rw [keys_set_of_none d k v h, List.nodup_append]
    refine ⟨hu, by simp, ?_⟩
    intro a ha b hb
    simp only [List.mem_singleton] at hb
    subst hb
    intro e
    subst e
    exact not_mem_keys_of_get?_none d _ h ha

theorem uniqueKeys_tail {α : Type} {p : String × α} {rest : List (String × α)} (hu : UniqueKeys (p :: rest)) :
    UniqueKeys rest ∧ p.1 ∉ rest.map (·.1) := by
  unfold UniqueKeys at *
  simp only [List.map_cons, List.nodup_cons] at hu
  exact ⟨hu.2, hu.1⟩

/-- `_merge_ctx` never duplicates a key of the left dictionary. -/
theorem uniqueKeys_mergeKv (lv rv : Vers) (pre : Option String) :
    ∀ (r l : Dict), UniqueKeys l → UniqueKeys (mergeKv lv rv pre l r) := by
  intro r
  induction r with
  | nil => intro l hl; simpa [mergeKv] using hl
  | cons p rest ih =>
    obtain ⟨k', v'⟩ := p
    intro l hl
    cases hg : get? l k' with
    | none =>
      simp only [mergeKv, hg]
      exact ih _ (uniqueKeys_append_new l k' v' hl hg)
    | some lval =>
      simp only [mergeKv, hg]
      exact ih _ (uniqueKeys_set l k' _ hl)

/-- THE MERGE RULE, one level, any values: a key of the right dictionary that is new on the left is
    copied, a key both have is merged by `mergeVal` under its dotted version key, everything else is the
    left's. -/
theorem mergeKv_get (lv rv : Vers) (pre : Option String) :
    ∀ (r l : Dict), UniqueKeys r → ∀ k,
      get? (mergeKv lv rv pre l r) k =
        match get? r k with
        | none => get? l k
        | some v => match get? l k with
          | none => some v
          | some lval => some (mergeVal lv rv (path pre k) lval v) := by
  intro r
  induction r with
  | nil => intro l _ k; simp [mergeKv]
  | cons p rest ih =>
    obtain ⟨k', v'⟩ := p
    intro l hu k
    obtain ⟨hu', hk'⟩ := uniqueKeys_tail hu
    simp only at hk'
    by_cases hk : k' = k
    · subst hk
      have hr : get? rest k' = none := get?_none_of_not_mem rest k' hk'
      cases hl : get? l k' with
      | none =>
        simp only [mergeKv, hl]
        rw [ih _ hu' k']
        simp [hr, get?_append, hl, get?_cons]
      | some lval =>
        simp only [mergeKv, hl]
        rw [ih _ hu' k']
        simp [hr, get?_cons, get?_set_self]
    · have hb : (k' == k) = false := by simpa using hk
      cases hl : get? l k' with
      | none =>
        simp only [mergeKv, hl]
        rw [ih _ hu' k]
        have : get? (l ++ [(k', v')]) k = get? l k := by
          simp only [get?_append]
          cases get? l k <;> simp [get?_cons, hb]
        simp only [this, get?_cons, hb, Bool.false_eq_true, if_false]
      | some lval =>
        simp only [mergeKv, hl]
        rw [ih _ hu' k]
        simp only [get?_set_other _ _ _ _ hk, get?_cons, hb, Bool.false_eq_true, if_false]

theorem mergeVal_obj_obj (lv rv : Vers) (p : String) (a b : Dict) :
    mergeVal lv rv p (.obj a) (.obj b) = .obj (mergeKv lv rv (some p) a b) := by
  simp [mergeVal]

/-- unless BOTH values are dictionaries the version of the node itself decides, the right value winning
    only with a strictly higher version -/
theorem mergeVal_not_both (lv rv : Vers) (p : String) (a b : Val) (h : (a.isObj && b.isObj) = false) :
    mergeVal lv rv p a b = if ver rv p > ver lv p then b else a := by
  cases b <;> cases a <;> simp_all [mergeVal, Val.isObj]

/-! ### paths -/

/-- the dictionaries met along the path have unique keys (python dicts) -/
def UniqAlong : Val → List String → Prop
  | _, [] => True
  | .obj kv, k :: rest => UniqueKeys kv ∧ match get? kv k with
    | some v => UniqAlong v rest
    | none => True
  | _, _ :: _ => True

/-- no NON-dictionary sits at a proper prefix of the path (the value is a dictionary as far down the
    path as it goes): the value has not "another shape" above the path -/
def NoLeafAbove : Val → List String → Prop
  | _, [] => True
  | .obj kv, k :: rest => match get? kv k with
    | some v => NoLeafAbove v rest
    | none => True
  | _, _ :: _ => False

/-- the path leads through dictionaries with unique keys to a LEAF (a non-dictionary) -/
def LeafPath : Val → List String → Prop
  | v, [] => v.isObj = false
  | .obj kv, k :: rest => UniqueKeys kv ∧ match get? kv k with
    | some v => LeafPath v rest
    | none => False
  | _, _ :: _ => False

theorem getPathVal_nil (v : Val) : getPathVal v [] = some v := by
  cases v <;> rfl

theorem getPathVal_obj_cons (kv : Dict) (k : String) (rest : List String) :
    getPathVal (.obj kv) (k :: rest) = match get? kv k with
      | some v => getPathVal v rest
      | none => none := rfl

theorem getPathVal_nonobj_cons (v : Val) (k : String) (rest : List String) (h : v.isObj = false) :
    getPathVal v (k :: rest) = none := by
  cases v <;> simp_all [getPathVal, Val.isObj]

theorem keyOf_nil (p : String) : keyOf p [] = p := rfl
theorem keyOf_cons (p k : String) (rest : List String) : keyOf p (k :: rest) = keyOf (p ++ "." ++ esc k) rest := rfl

theorem path_some (p k : String) : path (some p) k = p ++ "." ++ esc k := rfl
theorem path_none (k : String) : path none k = esc k := rfl

theorem LeafPath.noLeafAbove : ∀ (rest : List String) (v : Val), LeafPath v rest → NoLeafAbove v rest := by
  intro rest
  induction rest with
  | nil => intro v _; cases v <;> trivial
  | cons k rest ih =>
    intro v h
    cases v with
    | obj kv =>
      simp only [LeafPath] at h
      simp only [NoLeafAbove]
      cases hg : get? kv k with
      | none => trivial
      | some w => simp only [hg] at h; exact ih w h.2
    | _ => simp [LeafPath] at h

theorem LeafPath.uniqAlong : ∀ (rest : List String) (v : Val), LeafPath v rest → UniqAlong v rest := by
  intro rest
  induction rest with
  | nil => intro v _; cases v <;> trivial
  | cons k rest ih =>
    intro v h
    cases v with
    | obj kv =>
      simp only [LeafPath] at h
      simp only [UniqAlong]
      refine ⟨h.1, ?_⟩
      cases hg : get? kv k with
      | none => trivial
      | some w => simp only [hg] at h; exact ih w h.2
    | _ => simp [LeafPath] at h

theorem LeafPath.get : ∀ (rest : List String) (v : Val), LeafPath v rest →
    ∃ x, getPathVal v rest = some x ∧ x.isObj = false := by
  intro rest
  induction rest with
  | nil => intro v h; exact ⟨v, getPathVal_nil v, h⟩
  | cons k rest ih =>
    intro v h
    cases v with
    | obj kv =>
      simp only [LeafPath] at h
      cases hg : get? kv k with
      | none => simp [hg] at h
      | some w =>
        simp only [hg] at h
        obtain ⟨x, hx, hxo⟩ := ih w h.2
        exact ⟨x, by rw [getPathVal_obj_cons, hg]; exact hx, hxo⟩
    | _ => simp [LeafPath] at h

/-- "never replaced by a stale copy", at any depth: a LEAF on the left at a path survives the merge
    whenever the right context's version of that path is not strictly higher, provided the right value
    has not another shape ABOVE the path (what it holds AT the path is irrelevant). -/
theorem mergeVal_stale (lv rv : Vers) : ∀ (ks : List String) (p : String) (a b : Val) (x : Val),
    getPathVal a ks = some x → x.isObj = false → NoLeafAbove b ks → UniqAlong b ks →
    ver rv (keyOf p ks) ≤ ver lv (keyOf p ks) →
    getPathVal (mergeVal lv rv p a b) ks = some x := by
  intro ks
  induction ks with
  | nil =>
    intro p a b x ha hx _ _ hv
    rw [getPathVal_nil] at ha
    cases ha
    have hnb : (a.isObj && b.isObj) = false := by simp [hx]
    rw [mergeVal_not_both _ _ _ _ _ hnb, getPathVal_nil]
    have : ¬ (ver rv p > ver lv p) := by simp only [keyOf_nil] at hv; omega
    simp [this]
  | cons k rest ih =>
    intro p a b x ha hx hb hub hv
    cases a with
    | obj akv =>
      rw [getPathVal_obj_cons] at ha
      cases hga : get? akv k with
      | none => simp [hga] at ha
      | some a' =>
        simp only [hga] at ha
        cases b with
        | obj bkv =>
          simp only [NoLeafAbove] at hb
          simp only [UniqAlong] at hub
          rw [mergeVal_obj_obj, getPathVal_obj_cons, mergeKv_get _ _ _ _ _ hub.1, hga]
          cases hgb : get? bkv k with
          | none => simpa using ha
          | some b' =>
            simp only [hgb] at hb hub
            simp only [path_some]
            exact ih _ a' b' x ha hx hb hub.2 (by simpa [keyOf_cons] using hv)
        | _ => simp [NoLeafAbove] at hb
    | _ => simp [getPathVal] at ha

/-- "... and a strictly newer value always wins", at any depth: a LEAF on the right at a path with a
    strictly higher version is what the merge holds there, provided the left value has not another
    shape above the path. -/
theorem mergeVal_newer (lv rv : Vers) : ∀ (ks : List String) (p : String) (a b : Val) (y : Val),
    getPathVal b ks = some y → y.isObj = false → NoLeafAbove a ks → UniqAlong b ks →
    ver lv (keyOf p ks) < ver rv (keyOf p ks) →
    getPathVal (mergeVal lv rv p a b) ks = some y := by
  intro ks
  induction ks with
  | nil =>
    intro p a b y hb hy _ _ hv
    rw [getPathVal_nil] at hb
    cases hb
    have hnb : (a.isObj && b.isObj) = false := by simp [hy]
    rw [mergeVal_not_both _ _ _ _ _ hnb, getPathVal_nil]
    have : ver rv p > ver lv p := by simpa [keyOf_nil] using hv
    simp [this]
  | cons k rest ih =>
    intro p a b y hb hy ha hub hv
    cases b with
    | obj bkv =>
      rw [getPathVal_obj_cons] at hb
      cases hgb : get? bkv k with
      | none => simp [hgb] at hb
      | some b' =>
        simp only [hgb] at hb
        simp only [UniqAlong, hgb] at hub
        cases a with
        | obj akv =>
          simp only [NoLeafAbove] at ha
          rw [mergeVal_obj_obj, getPathVal_obj_cons, mergeKv_get _ _ _ _ _ hub.1, hgb]
          cases hga : get? akv k with
          | none => simpa using hb
          | some a' =>
            simp only [hga] at ha
            simp only [path_some]
            exact ih _ a' b' y hb hy ha hub.2 (by simpa [keyOf_cons] using hv)
        | _ => simp [NoLeafAbove] at ha
    | _ => simp [getPathVal] at hb

/-- Both sides hold a leaf at the path: the full rule, and the result is again a leaf path. -/
theorem mergeVal_leafPath (lv rv : Vers) : ∀ (ks : List String) (p : String) (a b : Val),
    LeafPath a ks → LeafPath b ks →
    LeafPath (mergeVal lv rv p a b) ks ∧
    getPathVal (mergeVal lv rv p a b) ks =
      if ver rv (keyOf p ks) > ver lv (keyOf p ks) then getPathVal b ks else getPathVal a ks := by
  intro ks
  induction ks with
  | nil =>
    intro p a b ha hb
    simp only [LeafPath] at ha hb
    have hnb : (a.isObj && b.isObj) = false := by simp [ha]
    rw [mergeVal_not_both _ _ _ _ _ hnb]
    simp only [keyOf_nil, getPathVal_nil]
    split <;> simp [LeafPath, ha, hb]
  | cons k rest ih =>
    intro p a b ha hb
    cases a with
    | obj akv =>
      cases b with
      | obj bkv =>
        simp only [LeafPath] at ha hb
        cases hga : get? akv k with
        | none => simp [hga] at ha
        | some a' =>
          cases hgb : get? bkv k with
          | none => simp [hgb] at hb
          | some b' =>
            simp only [hga] at ha
            simp only [hgb] at hb
            obtain ⟨h1, h2⟩ := ih (p ++ "." ++ esc k) a' b' ha.2 hb.2
            have hg : get? (mergeKv lv rv (some p) akv bkv) k = some (mergeVal lv rv (p ++ "." ++ esc k) a' b') := by
              rw [mergeKv_get _ _ _ _ _ hb.1, hgb, hga]; rfl
            rw [mergeVal_obj_obj]
            refine ⟨?_, ?_⟩
            · simp only [LeafPath, hg]
              exact ⟨uniqueKeys_mergeKv _ _ _ _ _ ha.1, h1⟩
            · simp only [getPathVal_obj_cons, hg, hga, hgb, keyOf_cons]
              exact h2
      | _ => simp [LeafPath] at hb
    | _ => simp [LeafPath] at ha

end Mistral.Ctx
