/-
One step of the engine core preserves the wake-up invariant of WAITING joins (`JW`): every
WAITING execution has a wake-up delivery in flight or a blocker.
-/
import Mistral.Lemmas.LiveDefs2
import Mistral.Props.C04
namespace Mistral.Engine.Live
open Mistral Mistral.Join Mistral.Engine

/-- the hypotheses on a definition: what the validator guarantees (unique task names, `join: N`
    with N ≤ number of inbound tasks), consistency of the fired routes with the transitions,
    acyclicity (a rank that strictly decreases along inbound transitions) within the recursion
    budget, and the walk budget of the model -/
structure SpecOK (sp : Spec) (rk : String → Nat) : Prop where
  names : namesUnique sp
  joins : joinsSatisfiable sp
  budget : walkBudgetOK sp
  live : liveInGraph sp
  rank : ∀ t, ∀ p ∈ inbound sp.graph t, rk p.name < rk t
  fuel : ∀ t, rk t < fuelFor sp

/-! ### transitions, ranks, fired routes -/

theorem jw_edge_rank (sp : Spec) (rk : String → Nat) (hsp : SpecOK sp rk) (x y : String)
    (h : y ∈ outsOf sp x) : rk x < rk y := by
  unfold outsOf at h
  split at h
  · rename_i t ht
    have hm : t ∈ sp.graph.tasks := List.mem_of_find?_eq_some ht
    have hn : t.name = x := by simpa using List.find?_some ht
    have hin : t ∈ inbound sp.graph y := by
      unfold inbound
      exact List.mem_filter.mpr ⟨hm, by simpa using h⟩
    have := hsp.rank y t hin
    rw [hn] at this
    exact this
  · cases h

theorem path_rank (sp : Spec) (rk : String → Nat) (hsp : SpecOK sp rk) (w : World) (x j : String)
    (hp : Path sp w x j) : rk x < rk j := by
  induction hp with
  | edge h => exact jw_edge_rank sp rk hsp _ _ h
  | cons h _ _ ih => exact Nat.lt_trans (jw_edge_rank sp rk hsp _ _ h) ih

theorem jw_path_known (sp : Spec) (w : World) (x j : String) (hp : Path sp w x j) : known sp x = true := by
  have key : ∀ y, y ∈ outsOf sp x → known sp x = true := by
    intro y hy
    unfold outsOf at hy
    unfold known
    split at hy
    · rename_i t ht; rw [ht]; rfl
    · cases hy
  cases hp with
  | edge h => exact key _ h
  | cons h _ _ => exact key _ h

theorem jw_next_outs (sp : Spec) (hl : liveInGraph sp) (n : String) (s : St) (x : String × String)
    (hx : x ∈ nextOf sp n s) : x.1 ∈ outsOf sp n := by
  have key : ∀ y, y ∈ (liveOf sp n).onSuccess ++ (liveOf sp n).onError ++ (liveOf sp n).onComplete →
      y ∈ outsOf sp n := by
    intro y hy
    unfold liveOf at hy
    cases hf : sp.live.find? (·.name == n) with
    | none => rw [hf] at hy; simp at hy
    | some l =>
      rw [hf] at hy
      simp only [Option.getD_some] at hy
      have hm : l ∈ sp.live := List.mem_of_find?_eq_some hf
      have hn : l.name = n := by simpa using List.find?_some hf
      have := hl l hm y hy
      rw [hn] at this
      exact this
  unfold nextOf at hx
  simp only [List.mem_append] at hx
  rcases hx with (hx | hx) | hx
  · split at hx
    · rcases List.mem_map.mp hx with ⟨y, hy, rfl⟩
      exact key y (by simp [hy])
    · cases hx
  · split at hx
    · rcases List.mem_map.mp hx with ⟨y, hy, rfl⟩
      exact key y (by simp [hy])
    · cases hx
  · split at hx
    · rcases List.mem_map.mp hx with ⟨y, hy, rfl⟩
      exact key y (by simp [hy])
    · cases hx

/-- an execution completed while PAUSED recorded transitions of the definition -/
def JwE (sp : Spec) (w : World) : Prop :=
  ∀ u ∈ w.tasks, isCompleted u.state = true → u.processed = false →
    ∀ x ∈ u.nextTasks, x.1 ∈ outsOf sp u.name

theorem jw_E_of_inv2 (sp : Spec) (hl : liveInGraph sp) (w : World) (h2 : Inv2 sp w) : JwE sp w := by
  intro u hu hc hp x hx
  rw [h2.next u hu hc hp] at hx
  exact jw_next_outs sp hl _ _ x hx

/-! ### worlds that differ in their rows -/

theorem jw_path_mono (sp : Spec) (w w' : World)
    (h : ∀ y, passes sp w y = true → passes sp w' y = true) {x j : String}
    (hp : Path sp w x j) : Path sp w' x j := by
  induction hp with
  | edge h1 => exact .edge h1
  | cons h1 h2 _ ih => exact .cons h1 (h _ h2) ih

theorem jw_passes_congr (sp : Spec) (w w' : World)
    (h : ∀ n, findByName w n = none → findByName w' n = none) (y : String)
    (hp : passes sp w y = true) : passes sp w' y = true := by
  unfold passes joinWithRow at *
  cases hk : known sp y with
  | false => rw [hk] at hp; simp at hp
  | true =>
    rw [hk] at hp
    cases hj : (isJoin sp y).isSome with
    | false => simp
    | true =>
      rw [hj] at hp
      cases hf' : findByName w' y with
      | none => simp
      | some a =>
        exfalso
        cases hf : findByName w y with
        | none => rw [h y hf] at hf'; cases hf'
        | some b => rw [hf] at hp; simp at hp

theorem jw_path_tasks_eq (sp : Spec) (w w' : World) (h : w'.tasks = w.tasks) {x j : String}
    (hp : Path sp w x j) : Path sp w' x j := by
  apply jw_path_mono sp w w' _ hp
  intro y hy
  apply jw_passes_congr sp w w' _ y hy
  intro n hn
  unfold findByName at *
  rw [h]; exact hn

theorem jw_findByName_tasks_eq (w w' : World) (h : w'.tasks = w.tasks) (n : String) :
    findByName w' n = findByName w n := by
  unfold findByName; rw [h]

theorem jw_blocked_tasks_eq (sp : Spec) (w w' : World) (h : w'.tasks = w.tasks) (j : String)
    (hb : BlockedBy sp w j) : BlockedBy sp w' j := by
  obtain ⟨u, hu, hb⟩ := hb
  refine ⟨u, by rw [h]; exact hu, ?_⟩
  rcases hb with ⟨hc, hp⟩ | ⟨hc, hpr, x, hx, hxn, hp⟩
  · exact Or.inl ⟨hc, jw_path_tasks_eq sp w w' h hp⟩
  · exact Or.inr ⟨hc, hpr, x, hx, by rw [jw_findByName_tasks_eq w w' h]; exact hxn,
      jw_path_tasks_eq sp w w' h hp⟩

/-- the rows of `w'` continue the rows of `w`: incomplete executions stay incomplete (under the
    same name), a completed execution not yet continued is kept or re-opened, a task that gets
    its first row gets an incomplete one -/
structure JwGrow (w w' : World) : Prop where
  inc : ∀ u ∈ w.tasks, isCompleted u.state = false →
    ∃ u' ∈ w'.tasks, u'.name = u.name ∧ isCompleted u'.state = false
  unp : ∀ u ∈ w.tasks, isCompleted u.state = true → u.processed = false →
    u ∈ w'.tasks ∨ ∃ u' ∈ w'.tasks, u'.name = u.name ∧ isCompleted u'.state = false
  nor : ∀ n, findByName w n = none →
    findByName w' n = none ∨ ∃ r ∈ w'.tasks, r.name = n ∧ isCompleted r.state = false

theorem jw_grow_eq (w w' : World) (h : w'.tasks = w.tasks) : JwGrow w w' := by
  refine ⟨?_, ?_, ?_⟩
  · intro u hu hc; exact ⟨u, by rw [h]; exact hu, rfl, hc⟩
  · intro u hu _ _; exact Or.inl (by rw [h]; exact hu)
  · intro n hn; exact Or.inl (by rw [jw_findByName_tasks_eq w w' h]; exact hn)

theorem jw_grow_trans (w w' w'' : World) (h1 : JwGrow w w') (h2 : JwGrow w' w'') : JwGrow w w'' := by
  refine ⟨?_, ?_, ?_⟩
  · intro u hu hc
    obtain ⟨u', hu', hn', hc'⟩ := h1.inc u hu hc
    obtain ⟨u'', hu'', hn'', hc''⟩ := h2.inc u' hu' hc'
    exact ⟨u'', hu'', hn''.trans hn', hc''⟩
  · intro u hu hc hp
    rcases h1.unp u hu hc hp with h | ⟨u', hu', hn', hc'⟩
    · exact h2.unp u h hc hp
    · obtain ⟨u'', hu'', hn'', hc''⟩ := h2.inc u' hu' hc'
      exact Or.inr ⟨u'', hu'', hn''.trans hn', hc''⟩
  · intro n hn
    rcases h1.nor n hn with h | ⟨r, hr, hrn, hrc⟩
    · exact h2.nor n h
    · obtain ⟨r', hr', hrn', hrc'⟩ := h2.inc r hr hrc
      exact Or.inr ⟨r', hr', hrn'.trans hrn, hrc'⟩

theorem jw_mem_setTask_image (ts : List TaskRow) (r1 u : TaskRow) (hu : u ∈ ts) :
    u ∈ setTask ts r1 ∨ (r1 ∈ setTask ts r1 ∧ u.name = r1.name ∧ u.occ = r1.occ) := by
  unfold setTask
  by_cases c : (u.name == r1.name && u.occ == r1.occ) = true
  · right
    refine ⟨List.mem_map.mpr ⟨u, hu, by simp [c]⟩, ?_⟩
    simpa using c
  · left
    exact List.mem_map.mpr ⟨u, hu, by simp [c]⟩

theorem jw_grow_setTask (w w' : World) (r1 : TaskRow) (h : w'.tasks = setTask w.tasks r1)
    (hc1 : isCompleted r1.state = false) : JwGrow w w' := by
  refine ⟨?_, ?_, ?_⟩
  · intro u hu hc
    rcases jw_mem_setTask_image w.tasks r1 u hu with h1 | ⟨h1, hn, _⟩
    · exact ⟨u, by rw [h]; exact h1, rfl, hc⟩
    · exact ⟨r1, by rw [h]; exact h1, hn.symm, hc1⟩
  · intro u hu _ _
    rcases jw_mem_setTask_image w.tasks r1 u hu with h1 | ⟨h1, hn, _⟩
    · exact Or.inl (by rw [h]; exact h1)
    · exact Or.inr ⟨r1, by rw [h]; exact h1, hn.symm, hc1⟩
  · intro n hn
    left
    rw [findByName_none_iff] at hn ⊢
    rw [h, countL_setTask]; exact hn

theorem jw_grow_append (w w' : World) (r1 : TaskRow) (h : w'.tasks = w.tasks ++ [r1])
    (hc1 : isCompleted r1.state = false) : JwGrow w w' := by
  refine ⟨?_, ?_, ?_⟩
  · intro u hu hc; exact ⟨u, by rw [h]; exact List.mem_append_left _ hu, rfl, hc⟩
  · intro u hu _ _; exact Or.inl (by rw [h]; exact List.mem_append_left _ hu)
  · intro n hn
    by_cases c : (r1.name == n) = true
    · right
      exact ⟨r1, by rw [h]; simp, by simpa using c, hc1⟩
    · left
      rw [findByName_none_iff] at hn ⊢
      rw [h, countL_append, hn]
      simp [c]

/-- a path survives the growth of the rows, or an incomplete execution blocks its end -/
theorem jw_path_grow (sp : Spec) (w w' : World)
    (hnor : ∀ n, findByName w n = none →
      findByName w' n = none ∨ ∃ r ∈ w'.tasks, r.name = n ∧ isCompleted r.state = false)
    {x j : String} (hp : Path sp w x j) :
    Path sp w' x j ∨ ∃ r ∈ w'.tasks, isCompleted r.state = false ∧ Path sp w' r.name j := by
  induction hp with
  | edge h => exact Or.inl (.edge h)
  | @cons x y j h hpass _ ih =>
    rcases ih with ih | ih
    · unfold passes at hpass
      have hk : known sp y = true := by
        cases hk : known sp y with
        | true => rfl
        | false => rw [hk] at hpass; simp at hpass
      have hj : joinWithRow sp w y = false := by
        cases hj : joinWithRow sp w y with
        | false => rfl
        | true => rw [hj] at hpass; simp at hpass
      unfold joinWithRow at hj
      cases hjn : (isJoin sp y).isSome with
      | false =>
        left
        refine .cons h ?_ ih
        unfold passes joinWithRow
        simp [hk, hjn]
      | true =>
        rw [hjn] at hj
        have hnone : findByName w y = none := by
          cases hf : findByName w y with
          | none => rfl
          | some a => rw [hf] at hj; simp at hj
        rcases hnor y hnone with h1 | ⟨r, hr, hrn, hrc⟩
        · left
          refine .cons h ?_ ih
          unfold passes joinWithRow
          simp [hk, h1]
        · right
          exact ⟨r, hr, hrc, by rw [hrn]; exact ih⟩
    · exact Or.inr ih

theorem jw_blocked_grow (sp : Spec) (w w' : World) (hg : JwGrow w w') (hE : JwE sp w) (j : String)
    (hb : BlockedBy sp w j) : BlockedBy sp w' j := by
  obtain ⟨u, hu, hb⟩ := hb
  rcases hb with ⟨hc, hp⟩ | ⟨hc, hpr, x, hx, hxn, hp⟩
  · rcases jw_path_grow sp w w' hg.nor hp with h1 | ⟨r, hr, hrc, hrp⟩
    · obtain ⟨u', hu', hn', hc'⟩ := hg.inc u hu hc
      exact ⟨u', hu', Or.inl ⟨hc', by rw [hn']; exact h1⟩⟩
    · exact ⟨r, hr, Or.inl ⟨hrc, hrp⟩⟩
  · rcases jw_path_grow sp w w' hg.nor hp with h1 | ⟨r, hr, hrc, hrp⟩
    · rcases hg.nor x.1 hxn with h2 | ⟨r, hr, hrn, hrc⟩
      · rcases hg.unp u hu hc hpr with h3 | ⟨u', hu', hn', hc'⟩
        · exact ⟨u, h3, Or.inr ⟨hc, hpr, x, hx, h2, h1⟩⟩
        · refine ⟨u', hu', Or.inl ⟨hc', ?_⟩⟩
          rw [hn']
          exact .cons (hE u hu hc hpr x hx)
            (passes_of_no_row sp w' x.1 (jw_path_known sp w _ _ hp) h2) h1
      · exact ⟨r, hr, Or.inl ⟨hrc, by rw [hrn]; exact h1⟩⟩
    · exact ⟨r, hr, Or.inl ⟨hrc, hrp⟩⟩

/-! ### pending deliveries, the wake-up invariant on rows -/

theorem jw_any_transfer (c : Item → Bool) (p p' : List Item) (it : Item)
    (hsub : ∀ x ∈ p, x ≠ it → x ∈ p') (hit : c it = true → p'.any c = true)
    (h : p.any c = true) : p'.any c = true := by
  obtain ⟨x, hx, hcx⟩ := List.any_eq_true.mp h
  by_cases e : x = it
  · exact hit (e ▸ hcx)
  · exact any_of_mem c p' x (hsub x hx e) hcx

/-- the body of `JW` -/
def JWrows (sp : Spec) (w : World) : Prop :=
  ∀ j ∈ w.tasks, j.state = .WAITING →
    w.pending.any (isWakeFor (idOf j)) = true ∨ BlockedBy sp w j.name

theorem jw_transfer (sp : Spec) (w w' : World) (hg : JwGrow w w') (hE : JwE sp w)
    (hrows : ∀ j ∈ w'.tasks, j.state = .WAITING →
      w'.pending.any (isWakeFor (idOf j)) = true ∨
      (j ∈ w.tasks ∧ (w.pending.any (isWakeFor (idOf j)) = true → w'.pending.any (isWakeFor (idOf j)) = true)))
    (h : JWrows sp w) : JWrows sp w' := by
  intro j hj hs
  rcases hrows j hj hs with h1 | ⟨h1, h2⟩
  · exact Or.inl h1
  · rcases h j h1 hs with h3 | h3
    · exact Or.inl (h2 h3)
    · exact Or.inr (jw_blocked_grow sp w w' hg hE _ h3)

/-! ### the dispatcher -/

theorem jw_grow_dispatchOne (sp : Spec) (w : World) (c : Cmd) : JwGrow w (dispatchOne sp w c) := by
  unfold dispatchOne
  simp only
  split
  · exact jw_grow_eq _ _ rfl
  · split
    · exact jw_grow_eq _ _ rfl
    · split
      · split
        · exact jw_grow_append _ _ (newRow w c .WAITING) rfl waiting_incomplete
        · split
          · exact jw_grow_setTask _ _ _ rfl waiting_incomplete
          · exact jw_grow_eq _ _ rfl
      · exact jw_grow_append _ _ (newRow w c .IDLE) rfl idle_incomplete

theorem jw_grow_dispatch (sp : Spec) (cs : List Cmd) : ∀ w, JwGrow w (dispatch sp w cs) := by
  unfold dispatch
  induction cs with
  | nil => intro w; exact jw_grow_eq _ _ rfl
  | cons c rest ih =>
    intro w
    simp only [List.foldl_cons]
    exact jw_grow_trans _ _ _ (jw_grow_dispatchOne sp w c) (ih _)

theorem jw_dispatchOne_waiting (sp : Spec) (w : World) (c : Cmd) (j : TaskRow)
    (hj : j ∈ (dispatchOne sp w c).tasks) (hs : j.state = .WAITING) :
    j ∈ w.tasks ∨ (dispatchOne sp w c).pending.any (isWakeFor (idOf j)) = true := by
  unfold dispatchOne at hj ⊢
  simp only at hj ⊢
  by_cases h1 : isCompleted w.wf = true
  · simp only [h1, if_true] at hj; exact Or.inl hj
  · simp only [h1, Bool.false_eq_true, if_false] at hj ⊢
    by_cases h2 : (w.wf == St.PAUSED) = true
    · simp only [h2, if_true] at hj; exact Or.inl hj
    · simp only [h2, Bool.false_eq_true, if_false] at hj ⊢
      cases hk : isJoin sp c.target with
      | none =>
        simp only [hk] at hj ⊢
        rcases List.mem_append.mp hj with h | h
        · exact Or.inl h
        · have : j = newRow w c .IDLE := by simpa using h
          subst this; simp [newRow] at hs
      | some k =>
        simp only [hk] at hj ⊢
        cases hf : findByName w c.target with
        | none =>
          simp only [hf] at hj ⊢
          rcases List.mem_append.mp hj with h | h
          · exact Or.inl h
          · right
            have : j = newRow w c .WAITING := by simpa using h
            subst this
            apply any_of_mem _ _ (Item.postStartTask (c.target, 0) true) (by simp)
            have h0 : countName w c.target = 0 := (findByName_none_iff w c.target).mp hf
            simp [isWakeFor, idOf, newRow, h0]
        | some r =>
          simp only [hf] at hj ⊢
          by_cases h3 : (r.state != St.WAITING) = true
          · simp only [h3, if_true] at hj ⊢
            rcases mem_setTask _ _ _ hj with h | h
            · exact Or.inl h
            · right
              subst h
              apply any_of_mem _ _ (Item.postStartTask (r.name, r.occ) true) (by simp)
              simp [isWakeFor, idOf]
          · simp only [h3, Bool.false_eq_true, if_false] at hj ⊢
            exact Or.inl hj

theorem jw_dispatch_waiting (sp : Spec) (cs : List Cmd) : ∀ (w : World) (j : TaskRow),
    j ∈ (dispatch sp w cs).tasks → j.state = .WAITING →
    j ∈ w.tasks ∨ (dispatch sp w cs).pending.any (isWakeFor (idOf j)) = true := by
  induction cs with
  | nil => intro w j hj _; exact Or.inl hj
  | cons c rest ih =>
    intro w j hj hs
    have hd : dispatch sp w (c :: rest) = dispatch sp (dispatchOne sp w c) rest := rfl
    rw [hd] at hj ⊢
    rcases ih _ j hj hs with h | h
    · rcases jw_dispatchOne_waiting sp w c j h hs with h' | h'
      · exact Or.inl h'
      · exact Or.inr (any_sub _ _ _ h' (dispatch_pending_sub sp rest _))
    · exact Or.inr h

theorem jw_dispatchOne_row (sp : Spec) (w : World) (c : Cmd) (h1 : isCompleted w.wf = false)
    (h2 : (w.wf == St.PAUSED) = false) :
    ∃ r ∈ (dispatchOne sp w c).tasks, r.name = c.target ∧ isCompleted r.state = false := by
  unfold dispatchOne
  simp only [h1, h2, Bool.false_eq_true, if_false]
  split
  · split
    · exact ⟨newRow w c .WAITING, by simp, rfl, waiting_incomplete⟩
    · rename_i r hr
      simp only
      have hm := findByName_mem w _ r hr
      split
      · refine ⟨{ r with state := .WAITING, processed := false }, ?_, hm.2, waiting_incomplete⟩
        unfold setTask
        exact List.mem_map.mpr ⟨r, hm.1, by simp⟩
      · rename_i hs
        have : r.state = .WAITING := by simpa using hs
        exact ⟨r, hm.1, hm.2, by rw [this]; exact waiting_incomplete⟩
  · exact ⟨newRow w c .IDLE, by simp, rfl, idle_incomplete⟩

theorem jw_dispatch_row (sp : Spec) (cs : List Cmd) : ∀ (w : World) (c : Cmd), c ∈ cs →
    isCompleted w.wf = false → (w.wf == St.PAUSED) = false →
    ∃ r ∈ (dispatch sp w cs).tasks, r.name = c.target ∧ isCompleted r.state = false := by
  induction cs with
  | nil => intro w c hc; cases hc
  | cons c0 rest ih =>
    intro w c hc h1 h2
    have hd : dispatch sp w (c0 :: rest) = dispatch sp (dispatchOne sp w c0) rest := rfl
    rw [hd]
    rcases List.mem_cons.mp hc with e | e
    · subst e
      obtain ⟨r, hr, hrn, hrc⟩ := jw_dispatchOne_row sp w c h1 h2
      obtain ⟨r', hr', hrn', hrc'⟩ := (jw_grow_dispatch sp rest (dispatchOne sp w c)).inc r hr hrc
      exact ⟨r', hr', hrn'.trans hrn, hrc'⟩
    · exact ih _ c e (by rw [dispatchOne_wf]; exact h1) (by rw [dispatchOne_wf]; exact h2)

theorem jw_dispatch_rows (sp : Spec) (cs : List Cmd) (w : World) (hE : JwE sp w) (h : JWrows sp w) :
    JWrows sp (dispatch sp w cs) := by
  apply jw_transfer sp w _ (jw_grow_dispatch sp cs w) hE _ h
  intro j hj hs
  rcases jw_dispatch_waiting sp cs w j hj hs with h1 | h1
  · exact Or.inr ⟨h1, fun hw => any_sub _ _ _ hw (dispatch_pending_sub sp cs w)⟩
  · exact Or.inl h1

/-! ### `Task.complete` followed by `_check_affected_tasks` -/

theorem jw_setTask_setTask (ts : List TaskRow) (r1 r2 : TaskRow) (hn : r2.name = r1.name) (ho : r2.occ = r1.occ) :
    setTask (setTask ts r1) r2 = setTask ts r2 := by
  unfold setTask
  rw [List.map_map]
  apply List.map_congr_left
  intro a _
  simp only [Function.comp]
  by_cases c : (a.name == r1.name && a.occ == r1.occ) = true
  · simp [c, hn, ho]
  · simp [c, hn, ho]

theorem jw_findByName_unique (w : World) (j : TaskRow) (hj : j ∈ w.tasks) (hc : countL w.tasks j.name ≤ 1) :
    findByName w j.name = some j := by
  unfold findByName
  unfold countL at hc
  have hm : j ∈ w.tasks.filter (·.name == j.name) := List.mem_filter.mpr ⟨hj, by simp⟩
  generalize w.tasks.filter (·.name == j.name) = l at hm hc
  match l, hm, hc with
  | [a], hm, _ =>
    have : j = a := by simpa using hm
    subst this; rfl
  | a :: b :: l', _, hc => simp at hc

theorem jw_waiting_join (sp : Spec) (ts : List TaskRow) (hsok : SOK sp ts) (j : TaskRow) (hj : j ∈ ts)
    (hs : j.state = .WAITING) : (isJoin sp j.name).isSome = true := by
  rcases hsok j hj with h | h | h | ⟨_, h⟩
  · rw [hs] at h; exact absurd h (by decide)
  · rw [hs] at h; cases h
  · rw [hs] at h; cases h
  · exact h

theorem jw_blocked_complete (sp : Spec) (w wc : World) (r r1 : TaskRow) (hids : IdsOK w.tasks)
    (hr : r ∈ w.tasks) (hrc : isCompleted r.state = false) (hn : r1.name = r.name) (ho : r1.occ = r.occ)
    (hwc : wc.tasks = setTask w.tasks r1) (j : String) (hb : BlockedBy sp w j) :
    BlockedBy sp wc j ∨ Path sp wc r.name j := by
  have hnone : ∀ n, findByName w n = none → findByName wc n = none := by
    intro n h
    rw [findByName_none_iff] at h ⊢
    rw [hwc, countL_setTask]; exact h
  have hpath : ∀ {x : String}, Path sp w x j → Path sp wc x j := fun hp =>
    jw_path_mono sp w wc (jw_passes_congr sp w wc hnone) hp
  obtain ⟨u, hu, hb⟩ := hb
  have himg : u ∈ wc.tasks ∨ u = r := by
    rcases jw_mem_setTask_image w.tasks r1 u hu with h | ⟨_, h1, h2⟩
    · left; rw [hwc]; exact h
    · right; exact hids.2 u hu r hr (h1.trans hn) (h2.trans ho)
  rcases hb with ⟨hc, hp⟩ | ⟨hc, hpr, x, hx, hxn, hp⟩
  · rcases himg with h | h
    · exact Or.inl ⟨u, h, Or.inl ⟨hc, hpath hp⟩⟩
    · subst h; exact Or.inr (hpath hp)
  · rcases himg with h | h
    · exact Or.inl ⟨u, h, Or.inr ⟨hc, hpr, x, hx, hnone _ hxn, hpath hp⟩⟩
    · subst h; rw [hc] at hrc; cases hrc

theorem jw_checkAffected_wake (sp : Spec) (hb : walkBudgetOK sp) (w2 : World) (t : Tid) (r1 j : TaskRow)
    (hfind : findTask w2 t = some r1) (hr1c : isCompleted r1.state = true) (hwf : isCompleted w2.wf = false)
    (hj : j ∈ w2.tasks) (hjoin : (isJoin sp j.name).isSome = true) (hjru : JRU sp w2.tasks)
    (hne : j.name ≠ r1.name) (hp : Path sp w2 r1.name j.name) :
    (checkAffected sp w2 t).pending.any (isWakeFor (idOf j)) = true := by
  have hfj : findByName w2 j.name = some j := jw_findByName_unique w2 j hj (hjru _ hjoin)
  have hjw : joinWithRow sp w2 j.name = true := by unfold joinWithRow; rw [hfj]; simp [hjoin]
  have haff := affected_complete sp w2 r1.name j.name hb hjw hne hp
  unfold checkAffected
  rw [hfind]
  simp only [hr1c, hwf, Bool.not_true, Bool.false_eq_true, if_false]
  apply any_of_mem _ _ (Item.postSchedRefresh (j.name, j.occ))
  · apply List.mem_append_right
    rw [List.mem_filterMap]
    exact ⟨j.name, haff, by rw [hfj]; rfl⟩
  · simp [isWakeFor, idOf]

theorem jw_complete_tail (sp : Spec) (rk : String → Nat) (hsp : SpecOK sp rk) (w wc w2 : World) (r r1 : TaskRow)
    (hids : IdsOK w.tasks) (hsok : SOK sp w.tasks) (hE : JwE sp w)
    (hr : r ∈ w.tasks) (hrc : isCompleted r.state = false)
    (hwc : wc.tasks = setTask w.tasks r1) (hn : r1.name = r.name) (ho : r1.occ = r.occ)
    (hr1c : isCompleted r1.state = true)
    (hr1E : r1.processed = false → ∀ x ∈ r1.nextTasks, x.1 ∈ outsOf sp r1.name)
    (hg : JwGrow wc w2)
    (hw2rows : ∀ j ∈ w2.tasks, j.state = .WAITING →
      j ∈ wc.tasks ∨ w2.pending.any (isWakeFor (idOf j)) = true)
    (hpend : ∀ x ∈ w.pending, x ∈ w2.pending)
    (hfind : findTask w2 (r.name, r.occ) = some r1) (hw2wf : isCompleted w2.wf = false)
    (hjru2 : JRU sp w2.tasks)
    (h : ∀ j ∈ w.tasks, j.state = .WAITING → ¬(j.name = r.name ∧ j.occ = r.occ) →
        w.pending.any (isWakeFor (idOf j)) = true ∨ BlockedBy sp w j.name) :
    JWrows sp (checkAffected sp w2 (r.name, r.occ)) := by
  intro j hj hs
  have ht := (checkAffected_tasks sp w2 (r.name, r.occ)).1
  rw [ht] at hj
  have hback : ∀ b, BlockedBy sp w2 b → BlockedBy sp (checkAffected sp w2 (r.name, r.occ)) b :=
    fun b => jw_blocked_tasks_eq sp w2 _ ht b
  rcases hw2rows j hj hs with h1 | h1
  · rw [hwc] at h1
    rcases mem_setTask' _ _ _ h1 with ⟨h2, h3⟩ | h2
    · rw [hn, ho] at h3
      rcases h j h2 hs h3 with h4 | h4
      · left
        exact any_sub _ _ _ h4 (fun x hx => checkAffected_pending_sub sp w2 _ x (hpend x hx))
      · have hEc : JwE sp wc := by
          intro u hu huc hup x hx
          rw [hwc] at hu
          rcases mem_setTask _ _ _ hu with h5 | h5
          · exact hE u h5 huc hup x hx
          · subst h5; exact hr1E hup x hx
        rcases jw_blocked_complete sp w wc r r1 hids hr hrc hn ho hwc _ h4 with h5 | h5
        · right; exact hback _ (jw_blocked_grow sp wc w2 hg hEc _ h5)
        · rcases jw_path_grow sp wc w2 hg.nor h5 with h6 | ⟨u, hu, huc, hup⟩
          · left
            have hlt := path_rank sp rk hsp w2 _ _ h6
            apply jw_checkAffected_wake sp hsp.budget w2 _ r1 j hfind hr1c hw2wf hj
              (jw_waiting_join sp _ hsok j h2 hs) hjru2
            · rw [hn]; intro e; rw [e] at hlt; exact Nat.lt_irrefl _ hlt
            · rw [hn]; exact h6
          · right; exact hback _ ⟨u, hu, Or.inl ⟨huc, hup⟩⟩
    · subst h2; rw [hs] at hr1c; exact absurd hr1c (by decide)
  · left; exact any_sub _ _ _ h1 (checkAffected_pending_sub sp w2 _)

theorem jw_completeTask (sp : Spec) (rk : String → Nat) (hsp : SpecOK sp rk) (w : World) (r : TaskRow) (s : St)
    (hs : isCompleted s = true)
    (hids : IdsOK w.tasks) (hjru : JRU sp w.tasks) (hsok : SOK sp w.tasks) (hE : JwE sp w)
    (hf : findTask w (r.name, r.occ) = some r) (hwf : isCompleted w.wf = false)
    (h : ∀ j ∈ w.tasks, j.state = .WAITING → ¬(j.name = r.name ∧ j.occ = r.occ) →
        w.pending.any (isWakeFor (idOf j)) = true ∨ BlockedBy sp w j.name) :
    JWrows sp (completeTask sp w r s) := by
  have hr : r ∈ w.tasks := findTask_mem w _ r hf
  have hf' : w.tasks.find? (fun x => x.name == r.name && x.occ == r.occ) = some r := hf
  by_cases hc : isCompleted r.state = true
  · unfold completeTask
    simp only [hc, if_true]
    intro j hj hsj
    have ht := (checkAffected_tasks sp w (r.name, r.occ)).1
    rw [ht] at hj
    have hne : ¬(j.name = r.name ∧ j.occ = r.occ) := by
      intro e
      have := hids.2 j hj r hr e.1 e.2
      rw [this] at hsj; rw [hsj] at hc; exact absurd hc (by decide)
    rcases h j hj hsj hne with h1 | h1
    · exact Or.inl (any_sub _ _ _ h1 (checkAffected_pending_sub sp w _))
    · exact Or.inr (jw_blocked_tasks_eq sp w _ ht _ h1)
  · have hrc : isCompleted r.state = false := by simpa using hc
    rw [completeTask_unfold sp w r s hrc]
    have hnt : ∀ x ∈ ctNt sp w r s, x.1 ∈ outsOf sp r.name := by
      intro x hx
      unfold ctNt at hx
      split at hx
      · cases hx
      · exact jw_next_outs sp hsp.live _ _ x hx
    by_cases hp : isPaused w.wf = true
    · simp only [hp, if_true]
      refine jw_complete_tail sp rk hsp w { w with tasks := setTask w.tasks (ctRow sp w r s) }
        { w with tasks := setTask w.tasks (ctRow sp w r s) } r (ctRow sp w r s) hids hsok hE hr hrc rfl rfl rfl hs
        (fun _ => hnt) (jw_grow_eq _ _ rfl) (fun j hj _ => Or.inl hj) (fun x hx => hx) ?_ hwf
        (JRU_setTask sp _ _ hjru) h
      exact find_setTask w.tasks r (ctRow sp w r s) rfl rfl hf'
    · simp only [hp, Bool.false_eq_true, if_false]
      have hcol : (ctPre sp w r s).tasks = setTask w.tasks { ctRow sp w r s with processed := true } :=
        jw_setTask_setTask w.tasks _ _ rfl rfl
      refine jw_complete_tail sp rk hsp w (ctPre sp w r s) (dispatch sp (ctPre sp w r s) (ctCmds sp w r s)) r
        { ctRow sp w r s with processed := true } hids hsok hE hr hrc hcol rfl rfl hs
        (fun e => by cases e) (jw_grow_dispatch sp _ _) (jw_dispatch_waiting sp _ _)
        (fun x hx => dispatch_pending_sub sp _ _ x (ctPre_pending_sub sp w r s x hx)) ?_
        (by rw [dispatch_wf]; exact hwf) ?_ h
      · rw [findTask_dispatch_other]
        · unfold findTask
          rw [hcol]
          exact find_setTask w.tasks r _ rfl rfl hf'
        · intro c hc
          unfold ctCmds at hc
          rcases List.mem_map.mp hc with ⟨x, hx, rfl⟩
          have hlt := jw_edge_rank sp rk hsp _ _ (hnt x hx)
          intro e
          have e' : x.1 = r.name := e
          rw [e'] at hlt; exact Nat.lt_irrefl _ hlt
      · apply dispatch_jru
        exact JRU_setTask sp _ _ (JRU_setTask sp _ _ hjru)

/-! ### the join verdict -/

theorem jw_verdict_some (sp : Spec) (rk : String → Nat) (hsp : SpecOK sp rk) (rows : List Row) (j : String)
    (k : JoinKind) : joinLogicalState sp.graph rows (fuelFor sp) j k ≠ none := by
  unfold joinLogicalState
  simp only
  split
  · simp
  · have hall : ∀ (l : List TaskG), (∀ p ∈ l, rk p.name < fuelFor sp) →
        l.mapM (fun x => inducedState sp.graph rows (fuelFor sp) x j) ≠ none := by
      intro l
      induction l with
      | nil => intro _; simp
      | cons p ps ih =>
        intro hp
        rw [List.mapM_cons]
        have h1 : inducedState sp.graph rows (fuelFor sp) p j ≠ none := by
          unfold inducedState
          split
          · have := Props.C04.possibleRoute_terminates_partial sp.graph rows rk hsp.rank
              (fuelFor sp) p.name 1 (hp p List.mem_cons_self)
            split
            · contradiction
            · simp
            · simp
          · split
            · simp
            · split <;> simp
        have h2 := ih (fun q hq => hp q (List.mem_cons_of_mem _ hq))
        cases hi : inducedState sp.graph rows (fuelFor sp) p j with
        | none => exact absurd hi h1
        | some i =>
          cases hm : ps.mapM (fun x => inducedState sp.graph rows (fuelFor sp) x j) with
          | none => exact absurd hm h2
          | some ys => simp
    have := hall (inbound sp.graph j) (fun p _ => hsp.fuel p.name)
    split
    · contradiction
    · simp

theorem jw_join_count (sp : Spec) (hj : joinsSatisfiable sp) (n : String) (k : JoinKind)
    (hk : isJoin sp n = some k) : ∀ m, k = .count m → m ≤ (inbound sp.graph n).length := by
  intro m e
  unfold isJoin at hk
  split at hk
  · rename_i t ht
    have hm : t ∈ sp.graph.tasks := List.mem_of_find?_eq_some ht
    have hn : t.name = n := by simpa using List.find?_some ht
    have := hj t hm m (by rw [hk, e])
    rw [hn] at this; exact this
  · cases hk

/-! ### one step -/

theorem jw_simple (sp : Spec) (w w' : World) (it : Item) (hg : JwGrow w w') (hE : JwE sp w)
    (hsub : ∀ x ∈ w.pending, x ≠ it → x ∈ w'.pending)
    (hrows : ∀ j ∈ w'.tasks, j.state = .WAITING →
      j ∈ w.tasks ∧ (isWakeFor (idOf j) it = true → w'.pending.any (isWakeFor (idOf j)) = true))
    (h : JWrows sp w) : JWrows sp w' := by
  apply jw_transfer sp w w' hg hE _ h
  intro j hj hs
  obtain ⟨h1, h2⟩ := hrows j hj hs
  exact Or.inr ⟨h1, jw_any_transfer _ _ _ it hsub h2⟩

theorem jw_simple0 (sp : Spec) (w w' : World) (hg : JwGrow w w') (hE : JwE sp w)
    (hsub : ∀ x ∈ w.pending, x ∈ w'.pending)
    (hrows : ∀ j ∈ w'.tasks, j.state = .WAITING → j ∈ w.tasks)
    (h : JWrows sp w) : JWrows sp w' := by
  apply jw_transfer sp w w' hg hE _ h
  intro j hj hs
  exact Or.inr ⟨hrows j hj hs, fun hw => any_sub _ _ _ hw hsub⟩

theorem jw_pause_nc (s : St) (h : isCompleted (Lifecycle.wfApply s .pause).1 = false) : isCompleted s = false := by
  cases s <;> revert h <;> decide

theorem jw_stop_nc (s t : St) (h : isCompleted (Lifecycle.wfApply s (.stop t)).1 = false) :
    isCompleted s = false := by
  cases s <;> cases t <;> revert h <;> decide

theorem jw_wake_id (t t' : Tid) (it : Item) (h : isWakeFor t' it = true)
    (hit : it = .postStartTask t true ∨ it = .rpcStartTask t true ∨ it = .postSchedRefresh t ∨ it = .jobRefresh t) :
    t' = t := by
  rcases hit with e | e | e | e <;> (subst e; simp [isWakeFor] at h; exact h.symm)

theorem jw_init (sp : Spec) : JW sp init := by
  intro _ j hj
  simp [init] at hj

theorem jw_step_simple (sp : Spec) (rk : String → Nat) (hsp : SpecOK sp rk) (w : World) (ev : Event) (hl : lossless ev)
    (hnr : ev ≠ .resume) (hnj : ∀ t, ev ≠ .deliver (.jobRefresh t))
    (h1 : Inv1 w) (hsok : SOK sp w.tasks) (h2 : Inv2 sp w) (hjru : JoinRowsUnique sp w)
    (h : JW sp w) : JW sp (step sp w ev) := by
  have hE : JwE sp w := jw_E_of_inv2 sp hsp.live w h2
  cases ev with
  | resume => exact absurd rfl hnr
  | start =>
    simp only [step]
    split
    · exact h
    · rename_i hidle
      have hi : w.wf = .IDLE := by simpa using hidle
      intro _ j hj hs
      rcases jw_dispatch_waiting sp _ _ j hj hs with h3 | h3
      · have h3' : j ∈ w.tasks := h3
        rw [h2.idle hi] at h3'; cases h3'
      · exact Or.inl h3
  | pause =>
    intro hwf'
    have hwf : isCompleted w.wf = false := jw_pause_nc _ hwf'
    exact jw_simple0 sp w _ (jw_grow_eq _ _ rfl) hE (fun x hx => hx) (fun j hj _ => hj) (h hwf)
  | stop t =>
    intro hwf'
    have hwf : isCompleted w.wf = false := jw_stop_nc _ _ hwf'
    exact jw_simple0 sp w _ (jw_grow_eq _ _ rfl) hE (fun x hx => hx) (fun j hj _ => hj) (h hwf)
  | execute t ok =>
    simp only [step]
    split
    · exact h
    · intro hwf'
      refine jw_simple sp w _ (.runAction t) (jw_grow_eq _ _ rfl) hE ?_ ?_ (h hwf')
      · intro x hx hne; exact List.mem_append_left _ (mem_removeFirst_of_ne _ _ _ hx hne)
      · intro j hj _; exact ⟨hj, fun hw => by simp [isWakeFor] at hw⟩
  | deliver it =>
    have hrm : ∀ x ∈ w.pending, x ≠ it → x ∈ removeFirst w.pending it :=
      fun x hx hne => mem_removeFirst_of_ne _ _ _ hx hne
    cases it with
    | runAction t => exact absurd rfl (hl t)
    | jobRefresh t => exact absurd rfl (hnj t)
    | postStartTask t f =>
      simp only [step]
      split
      · exact h
      · intro hwf'
        refine jw_simple sp w _ (.postStartTask t f) (jw_grow_eq _ _ rfl) hE ?_ ?_ (h hwf')
        · intro x hx hne; exact List.mem_append_left _ (hrm x hx hne)
        · intro j hj _
          refine ⟨hj, fun hw => ?_⟩
          apply any_of_mem _ _ (.rpcStartTask t f) (by simp)
          cases f with
          | false => simp [isWakeFor] at hw
          | true => simpa [isWakeFor] using hw
    | postRunAction t =>
      simp only [step]
      split
      · exact h
      · intro hwf'
        refine jw_simple sp w _ (.postRunAction t) (jw_grow_eq _ _ rfl) hE ?_ ?_ (h hwf')
        · intro x hx hne; exact List.mem_append_left _ (hrm x hx hne)
        · intro j hj _; exact ⟨hj, fun hw => by simp [isWakeFor] at hw⟩
    | postCheck =>
      simp only [step]
      split
      · exact h
      · intro hwf'
        have hwf : isCompleted w.wf = false := by
          rcases checkAndComplete_wf { w with pending := removeFirst w.pending .postCheck } with e | ⟨_, e⟩
          · rw [e] at hwf'; exact hwf'
          · rcases e with e | e | e <;> (rw [e] at hwf'; exact absurd hwf' (by decide))
        refine jw_simple sp w _ .postCheck (jw_grow_eq _ _ (checkAndComplete_tasks _)) hE ?_ ?_ (h hwf)
        · intro x hx hne; rw [checkAndComplete_pending]; exact hrm x hx hne
        · intro j hj _
          rw [checkAndComplete_tasks] at hj
          exact ⟨hj, fun hw => by simp [isWakeFor] at hw⟩
    | postSchedRefresh t =>
      simp only [step]
      split
      · exact h
      · split
        · rename_i hc
          intro hwf'
          refine jw_simple sp w _ (.postSchedRefresh t) (jw_grow_eq _ _ rfl) hE hrm ?_ (h hwf')
          intro j hj _
          refine ⟨hj, fun hw => ?_⟩
          apply any_of_mem _ _ (.jobRefresh t) (by simpa using hc)
          simpa [isWakeFor] using hw
        · intro hwf'
          refine jw_simple sp w _ (.postSchedRefresh t) (jw_grow_eq _ _ rfl) hE
            (fun x hx hne => List.mem_append_left _ (hrm x hx hne)) ?_ (h hwf')
          intro j hj _
          refine ⟨hj, fun hw => ?_⟩
          apply any_of_mem _ _ (.jobRefresh t) (by simp)
          simpa [isWakeFor] using hw
    | rpcResult t ok =>
      simp only [step]
      split
      · exact h
      · split
        · intro hwf'
          refine jw_simple sp w _ (.rpcResult t ok) (jw_grow_eq _ _ rfl) hE hrm ?_ (h hwf')
          intro j hj _; exact ⟨hj, fun hw => by simp [isWakeFor] at hw⟩
        · rename_i r hr
          have hf : findTask w t = some r := hr
          have hid : (r.name, r.occ) = t := findTask_id w t r hf
          subst hid
          intro hwf'
          rw [completeTask_wf] at hwf'
          refine jw_completeTask sp rk hsp _ r _ (by cases ok <;> decide) h1.ids hjru hsok hE hf hwf' ?_
          intro j hj hs _
          rcases h hwf' j hj hs with h3 | h3
          · exact Or.inl (any_removeFirst _ _ _ h3 rfl)
          · exact Or.inr (jw_blocked_tasks_eq sp w _ (by rfl) _ h3)
    | rpcStartTask t f =>
      cases f with
      | false =>
        simp only [step, Bool.false_eq_true, if_false]
        split
        · exact h
        · split
          · intro hwf'
            refine jw_simple sp w _ (.rpcStartTask t false) (jw_grow_eq _ _ rfl) hE hrm ?_ (h hwf')
            intro j hj _; exact ⟨hj, fun hw => by simp [isWakeFor] at hw⟩
          · split
            · intro hwf'
              refine jw_simple sp w _ (.rpcStartTask t false) (jw_grow_eq _ _ rfl) hE hrm ?_ (h hwf')
              intro j hj _; exact ⟨hj, fun hw => by simp [isWakeFor] at hw⟩
            · split
              · intro hwf'
                rw [(checkAffected_tasks sp _ t).2] at hwf'
                refine jw_simple sp w _ (.rpcStartTask t false)
                  (jw_grow_eq _ _ (checkAffected_tasks sp _ t).1) hE
                  (fun x hx hne => checkAffected_pending_sub sp _ t x (hrm x hx hne)) ?_ (h hwf')
                intro j hj _
                rw [(checkAffected_tasks sp _ t).1] at hj
                exact ⟨hj, fun hw => by simp [isWakeFor] at hw⟩
              · split
                · intro hwf'
                  refine jw_simple sp w _ (.rpcStartTask t false) (jw_grow_eq _ _ rfl) hE hrm ?_ (h hwf')
                  intro j hj _; exact ⟨hj, fun hw => by simp [isWakeFor] at hw⟩
                · intro hwf'
                  refine jw_simple sp w _ (.rpcStartTask t false)
                    (jw_grow_setTask _ _ _ rfl running_incomplete) hE
                    (fun x hx hne => List.mem_append_left _ (hrm x hx hne)) ?_ (h hwf')
                  intro j hj hs
                  rcases mem_setTask' _ _ _ hj with ⟨h3, _⟩ | h3
                  · exact ⟨h3, fun hw => by simp [isWakeFor] at hw⟩
                  · subst h3; cases hs
      | true =>
        simp only [step, if_true]
        split
        · exact h
        · split
          · rename_i hnone
            have hn : findTask w t = none := hnone
            intro hwf'
            refine jw_simple sp w _ (.rpcStartTask t true) (jw_grow_eq _ _ rfl) hE hrm ?_ (h hwf')
            intro j hj _
            refine ⟨hj, fun hw => ?_⟩
            exact absurd (jw_wake_id t _ _ hw (Or.inr (Or.inl rfl))) (findTask_none_no_row w t hn j hj)
          · rename_i r hr
            have hf : findTask w t = some r := hr
            have hid : idOf r = t := findTask_id w t r hf
            have huniq : ∀ x ∈ w.tasks, idOf x = t → x = r :=
              fun x hx e => findTask_unique w t r x h1.ids hf hx e
            split
            · intro hwf'
              refine jw_simple sp w _ (.rpcStartTask t true)
                (jw_grow_setTask _ _ _ rfl running_incomplete) hE
                (fun x hx hne => List.mem_append_left _ (hrm x hx hne)) ?_ (h hwf')
              intro j hj hs
              rcases mem_setTask' _ _ _ hj with ⟨h3, h4⟩ | h3
              · refine ⟨h3, fun hw => ?_⟩
                exfalso
                have e := jw_wake_id t _ _ hw (Or.inr (Or.inl rfl))
                rw [← hid] at e
                unfold idOf at e
                injection e with e1 e2
                exact h4 ⟨e1, e2⟩
              · subst h3; cases hs
            · split
              · split
                · rename_i hc
                  intro hwf'
                  refine jw_simple sp w _ (.rpcStartTask t true) (jw_grow_eq _ _ rfl) hE hrm ?_ (h hwf')
                  intro j hj _
                  refine ⟨hj, fun hw => ?_⟩
                  apply any_of_mem _ _ (.jobRefresh t) (by simpa using hc)
                  simpa [isWakeFor] using hw
                · intro hwf'
                  refine jw_simple sp w _ (.rpcStartTask t true) (jw_grow_eq _ _ rfl) hE
                    (fun x hx hne => List.mem_append_left _ (hrm x hx hne)) ?_ (h hwf')
                  intro j hj _
                  refine ⟨hj, fun hw => ?_⟩
                  apply any_of_mem _ _ (.jobRefresh t) (by simp)
                  simpa [isWakeFor] using hw
              · rename_i hnw
                intro hwf'
                rw [(checkAffected_tasks sp _ t).2] at hwf'
                refine jw_simple sp w _ (.rpcStartTask t true)
                  (jw_grow_eq _ _ (checkAffected_tasks sp _ t).1) hE
                  (fun x hx hne => checkAffected_pending_sub sp _ t x (hrm x hx hne)) ?_ (h hwf')
                intro j hj hs
                rw [(checkAffected_tasks sp _ t).1] at hj
                refine ⟨hj, fun hw => ?_⟩
                exfalso
                have e := jw_wake_id t _ _ hw (Or.inr (Or.inl rfl))
                have := huniq j hj e
                rw [this] at hs
                rw [hs] at hnw
                simp at hnw

theorem jw_step_jobRefresh (sp : Spec) (rk : String → Nat) (hsp : SpecOK sp rk) (w : World) (t : Tid)
    (h1 : Inv1 w) (hsok : SOK sp w.tasks) (h2 : Inv2 sp w) (hjru : JoinRowsUnique sp w)
    (h : JW sp w) : JW sp (step sp w (.deliver (.jobRefresh t))) := by
  have hE : JwE sp w := jw_E_of_inv2 sp hsp.live w h2
  simp only [step]
  split
  · exact h
  · have hrm : ∀ x ∈ w.pending, x ≠ Item.jobRefresh t → x ∈ removeFirst w.pending (.jobRefresh t) :=
      fun x hx hne => mem_removeFirst_of_ne _ _ _ hx hne
    have base : ∀ b c, (∀ j ∈ w.tasks, j.state = .WAITING → idOf j ≠ t) →
        JW sp { wf := w.wf, tasks := w.tasks, pending := removeFirst w.pending (.jobRefresh t),
                backlog := b, crashed := c } := by
      intro b c hno hwf'
      refine jw_simple sp w _ (.jobRefresh t) (jw_grow_eq _ _ rfl) hE hrm ?_ (h hwf')
      intro j hj hs
      refine ⟨hj, fun hw => ?_⟩
      exact absurd (jw_wake_id t _ _ hw (Or.inr (Or.inr (Or.inr rfl)))) (hno j hj hs)
    split
    · rename_i hnone
      have hn : findTask w t = none := hnone
      exact base _ _ (fun j hj _ => findTask_none_no_row w t hn j hj)
    · rename_i r hr
      have hf : findTask w t = some r := hr
      have hm := findTask_mem w t r hf
      have hid : idOf r = t := findTask_id w t r hf
      have huniq : ∀ x ∈ w.tasks, idOf x = t → x = r :=
        fun x hx e => findTask_unique w t r x h1.ids hf hx e
      have hnotw : r.state ≠ .WAITING → ∀ j ∈ w.tasks, j.state = .WAITING → idOf j ≠ t := by
        intro hne j hj hs e
        rw [huniq j hj e] at hs; exact hne hs
      split
      · rename_i hgu
        apply base _ _ (hnotw ?_)
        intro e
        rw [e] at hgu
        exact absurd hgu (by decide)
      · rename_i hgu
        have hinc : isCompleted r.state = false := by
          simp only [Bool.or_eq_true, not_or, Bool.not_eq_true] at hgu; exact hgu.1
        split
        · rename_i hwc
          intro hwf'
          have : false = true := hwf'.symm.trans hwc
          cases this
        · rename_i hwnc
          have hwf : isCompleted w.wf = false := by simpa using hwnc
          have hrows := h hwf
          split
          · rename_i hjn
            apply base _ _ (hnotw ?_)
            intro e
            have hj := jw_waiting_join sp _ hsok r hm e
            have hrn : r.name = t.1 := by rw [← hid]; rfl
            rw [hrn, hjn] at hj; cases hj
          · rename_i k hk
            split
            · rename_i hnone
              exact absurd hnone (jw_verdict_some sp rk hsp _ _ _)
            · rename_i L hL
              generalize (List.filterMap _ L.triggeredBy) = tr
              have hwk : ∀ j : TaskRow, ¬(j.name = r.name ∧ j.occ = r.occ) →
                  isWakeFor (idOf j) (.jobRefresh t) = false := by
                intro j hne
                cases hb : isWakeFor (idOf j) (.jobRefresh t) with
                | false => rfl
                | true =>
                  exfalso
                  have e := jw_wake_id t _ _ hb (Or.inr (Or.inr (Or.inr rfl)))
                  rw [← hid] at e
                  unfold idOf at e
                  injection e with e1 e2
                  exact hne ⟨e1, e2⟩
              have hother : ∀ j ∈ w.tasks, j.state = .WAITING → ¬(j.name = r.name ∧ j.occ = r.occ) →
                  (removeFirst w.pending (.jobRefresh t)).any (isWakeFor (idOf j)) = true ∨
                  BlockedBy sp w j.name := by
                intro j hj hs hne
                rcases hrows j hj hs with h3 | h3
                · exact Or.inl (any_removeFirst _ _ _ h3 (hwk j hne))
                · exact Or.inr h3
              have hgt : ∀ b c, JwGrow w (World.mk w.wf (setTask w.tasks { r with trig := tr })
                  (removeFirst w.pending (.jobRefresh t)) b c) :=
                fun b c => jw_grow_setTask _ _ _ rfl hinc
              have hrun : ∀ j ∈ setTask (setTask w.tasks { r with trig := tr }) { r with trig := tr, state := .RUNNING },
                  j.state = .WAITING → j ∈ w.tasks ∧ ¬(j.name = r.name ∧ j.occ = r.occ) := by
                intro j hj hs
                rcases mem_setTask' _ _ _ hj with ⟨h3, h4⟩ | h3
                · rcases mem_setTask' _ _ _ h3 with ⟨h5, h6⟩ | h5
                  · exact ⟨h5, h6⟩
                  · subst h5; exact absurd ⟨rfl, rfl⟩ h4
                · subst h3; cases hs
              split
              · split
                · intro _
                  refine jw_simple sp w _ (.jobRefresh t)
                    (jw_grow_trans _ _ _ (hgt w.backlog w.crashed) (jw_grow_setTask _ _ _ rfl running_incomplete))
                    hE hrm ?_ hrows
                  intro j hj hs
                  obtain ⟨h3, h4⟩ := hrun j hj hs
                  exact ⟨h3, fun hw => by rw [hwk j h4] at hw; cases hw⟩
                · intro _
                  refine jw_simple sp w _ (.jobRefresh t)
                    (jw_grow_trans _ _ _ (hgt w.backlog w.crashed) (jw_grow_setTask _ _ _ rfl running_incomplete))
                    hE (fun x hx hne => List.mem_append_left _ (hrm x hx hne)) ?_ hrows
                  intro j hj hs
                  obtain ⟨h3, h4⟩ := hrun j hj hs
                  exact ⟨h3, fun hw => by rw [hwk j h4] at hw; cases hw⟩
              · rename_i hnrun
                split
                · intro hwf'
                  rw [completeTask_wf] at hwf'
                  have hf' : w.tasks.find? (fun x => x.name == r.name && x.occ == r.occ) = some r := by
                    rw [← hid] at hf; exact hf
                  refine jw_completeTask sp rk hsp _ { r with trig := tr } .ERROR (by decide)
                    (idsOK_setTask w.tasks r _ h1.ids hm rfl rfl) (JRU_setTask sp _ _ hjru)
                    (SOK_setTask sp _ _ hsok (hsok r hm)) ?_ ?_ hwf' ?_
                  · intro u hu huc hup x hx
                    rcases mem_setTask _ _ _ hu with h3 | h3
                    · exact hE u h3 huc hup x hx
                    · subst h3
                      have : isCompleted r.state = true := huc
                      rw [hinc] at this; cases this
                  · exact find_setTask w.tasks r { r with trig := tr } rfl rfl hf'
                  · intro j hj hs hne
                    rcases mem_setTask' _ _ _ hj with ⟨h3, _⟩ | h3
                    · rcases hother j h3 hs hne with h4 | h4
                      · exact Or.inl h4
                      · exact Or.inr (jw_blocked_grow sp w _ (hgt _ _) hE _ h4)
                    · subst h3; exact absurd ⟨rfl, rfl⟩ hne
                · rename_i hnerr
                  intro _ j hj hs
                  rcases mem_setTask' _ _ _ hj with ⟨h3, h4⟩ | h3
                  · rcases hother j h3 hs h4 with h5 | h5
                    · exact Or.inl h5
                    · exact Or.inr (jw_blocked_grow sp w _ (hgt _ _) hE _ h5)
                  · subst h3
                    right
                    have hb := waiting_verdict_blocked sp
                      { w with pending := removeFirst w.pending (.jobRefresh t) } t.1 k L (fuelFor sp)
                      hsp.names (jw_join_count sp hsp.joins _ _ hk) hL (by simpa using hnrun) (by simpa using hnerr)
                      (h2.starts (List.ne_nil_of_mem hm)) h2.routes
                    have hrn : r.name = t.1 := by rw [← hid]; rfl
                    have hb' := jw_blocked_grow sp w _ (hgt w.backlog w.crashed) hE _
                      (jw_blocked_tasks_eq sp _ w (by rfl) _ hb)
                    rw [← hrn] at hb'
                    exact hb'

/-! ### `Workflow.resume` -/

theorem jw_resume_tail (sp : Spec) (w2 : World) (idle : List Tid) (cmds : List Cmd)
    (hbl : w2.backlog = []) (hwf2 : w2.wf = .RUNNING) (hE2 : JwE sp w2)
    (hrows2 : ∀ j ∈ w2.tasks, j.state = .WAITING →
      w2.pending.any (isWakeFor (idOf j)) = true ∨ BlockedBy sp w2 j.name ∨
      ∃ c ∈ cmds, Path sp w2 c.target j.name) :
    JW sp (dispatch sp
      { dispatch sp { w2 with backlog := [] } w2.backlog with
        pending := (dispatch sp { w2 with backlog := [] } w2.backlog).pending ++ idle.map fun n => Item.postStartTask n false }
      cmds) := by
  have e : dispatch sp { w2 with backlog := [] } w2.backlog = { w2 with backlog := [] } := by rw [hbl]; rfl
  rw [e]
  have key : ∀ w4 : World, w4.tasks = w2.tasks → (∀ x ∈ w2.pending, x ∈ w4.pending) → w4.wf = .RUNNING →
      JW sp (dispatch sp w4 cmds) := by
    intro w4 ht hp hwf _ j hj hs
    have hE4 : JwE sp w4 := by
      intro u hu; rw [ht] at hu; exact hE2 u hu
    rcases jw_dispatch_waiting sp cmds w4 j hj hs with h3 | h3
    · rw [ht] at h3
      rcases hrows2 j h3 hs with h4 | h4 | ⟨c, hc, hpath⟩
      · left
        exact any_sub _ _ _ h4 (fun x hx => dispatch_pending_sub sp cmds w4 x (hp x hx))
      · right
        exact jw_blocked_grow sp w4 _ (jw_grow_dispatch sp cmds w4) hE4 _ (jw_blocked_tasks_eq sp w2 w4 ht _ h4)
      · right
        have hp4 := jw_path_tasks_eq sp w2 w4 ht hpath
        obtain ⟨r, hr, hrn, hrc⟩ := jw_dispatch_row sp cmds w4 c hc (by rw [hwf]; decide) (by rw [hwf]; decide)
        rcases jw_path_grow sp w4 _ (jw_grow_dispatch sp cmds w4).nor hp4 with h5 | ⟨u, hu, huc, hup⟩
        · exact ⟨r, hr, Or.inl ⟨hrc, by rw [hrn]; exact h5⟩⟩
        · exact ⟨u, hu, Or.inl ⟨huc, hup⟩⟩
    · exact Or.inl h3
  exact key _ rfl (fun x hx => List.mem_append_left _ hx) hwf2

/-- `continue_workflow` marks the completed executions as continued -/
def jwMark (t : TaskRow) : TaskRow :=
  if isCompleted t.state && !t.processed then { t with processed := true } else t

theorem jw_resume_rows (sp : Spec) (w w2 : World) (cmds : List Cmd)
    (ht : w2.tasks = w.tasks.map jwMark) (hp : w2.pending = w.pending)
    (hcm : ∀ u ∈ w.tasks, isCompleted u.state = true → u.processed = false →
      ∀ x ∈ u.nextTasks, findByName w x.1 = none → ∃ c ∈ cmds, c.target = x.1)
    (hrows : JWrows sp w) :
    JwE sp w2 ∧ ∀ j ∈ w2.tasks, j.state = .WAITING →
      w2.pending.any (isWakeFor (idOf j)) = true ∨ BlockedBy sp w2 j.name ∨
      ∃ c ∈ cmds, Path sp w2 c.target j.name := by
  have hfs : ∀ t : TaskRow, (jwMark t).state = t.state ∧ (jwMark t).name = t.name := by
    intro t; unfold jwMark; split <;> exact ⟨rfl, rfl⟩
  have hinc : ∀ t : TaskRow, isCompleted t.state = false → jwMark t = t := by
    intro t h; unfold jwMark; simp [h]
  have hnone : ∀ n, findByName w n = none → findByName w2 n = none := by
    intro n h
    rw [findByName_none_iff] at h ⊢
    rw [ht, countL_map w.tasks jwMark (fun t => (hfs t).2)]; exact h
  have hpath : ∀ {x j : String}, Path sp w x j → Path sp w2 x j := fun hp' =>
    jw_path_mono sp w w2 (jw_passes_congr sp w w2 hnone) hp'
  refine ⟨?_, ?_⟩
  · intro u hu huc hup
    exfalso
    rw [ht] at hu
    obtain ⟨u0, _, rfl⟩ := List.mem_map.mp hu
    rw [(hfs u0).1] at huc
    unfold jwMark at hup
    split at hup
    · cases hup
    · rename_i hn
      apply hn
      simp [huc, hup]
  · intro j hj hs
    rw [ht] at hj
    obtain ⟨j0, hj0, rfl⟩ := List.mem_map.mp hj
    have hs0 : j0.state = .WAITING := by rw [← (hfs j0).1]; exact hs
    have hjj : jwMark j0 = j0 := hinc j0 (by rw [hs0]; decide)
    rw [hjj]
    rcases hrows j0 hj0 hs0 with h3 | ⟨u, hu, hb⟩
    · exact Or.inl (by rw [hp]; exact h3)
    · rcases hb with ⟨hc, hpu⟩ | ⟨hc, hpr, x, hx, hxn, hpx⟩
      · right; left
        refine ⟨u, ?_, Or.inl ⟨hc, hpath hpu⟩⟩
        rw [ht]
        exact List.mem_map.mpr ⟨u, hu, hinc u hc⟩
      · right; right
        obtain ⟨c, hc', hct⟩ := hcm u hu hc hpr x hx hxn
        exact ⟨c, hc', by rw [hct]; exact hpath hpx⟩

theorem jw_step_resume (sp : Spec) (w : World)
    (h2 : Inv2 sp w) (h : JW sp w) : JW sp (step sp w .resume) := by
  simp only [step]
  split
  · exact h
  · rename_i hpi0
    have hpi : isPausedOrIdle w.wf = true := by simpa using hpi0
    have hrun := resume_running w.wf hpi
    have hnc : isCompleted St.RUNNING = false := by decide
    simp only [hrun, hnc, Bool.false_eq_true, if_false]
    have hwf : isCompleted w.wf = false := by
      cases hw : w.wf <;> rw [hw] at hpi <;> first | rfl | (exact absurd hpi (by decide))
    have hrows := h hwf
    generalize hcd : List.filter _ (List.flatMap _ (List.filter (fun t => isCompleted t.state && !t.processed) w.tasks)) = cmds
    generalize (List.map (fun t => (t.name, t.occ)) (List.filter (fun t => t.state == St.IDLE) w.tasks)) = idle
    have hcm : ∀ u ∈ w.tasks, isCompleted u.state = true → u.processed = false →
        ∀ x ∈ u.nextTasks, findByName w x.1 = none → ∃ c ∈ cmds, c.target = x.1 := by
      intro u hu huc hup x hx hxn
      refine ⟨{ target := x.1, src := some ((u.name, u.occ), x.2) }, ?_, rfl⟩
      rw [← hcd]
      apply List.mem_filter.mpr
      refine ⟨List.mem_flatMap.mpr ⟨u, List.mem_filter.mpr ⟨hu, by simp [huc, hup]⟩,
        List.mem_map.mpr ⟨x, by rw [← h2.next u hu huc hup]; exact hx, rfl⟩⟩, ?_⟩
      have hfn : findByName (World.mk St.RUNNING w.tasks w.pending w.backlog w.crashed) x.1 = none := hxn
      dsimp only
      split
      · rename_i heq _
        rw [hfn] at heq; cases heq
      · rfl
    obtain ⟨hE2, hrows2⟩ := jw_resume_rows sp w
      { wf := .RUNNING, tasks := w.tasks.map jwMark, pending := w.pending, backlog := w.backlog, crashed := w.crashed }
      cmds rfl rfl hcm hrows
    split
    · rename_i hemp
      simp only [Bool.and_eq_true] at hemp
      have hce : cmds = [] := by simpa using hemp.1.2
      intro _
      refine jw_simple0 sp
        { wf := .RUNNING, tasks := w.tasks.map jwMark, pending := w.pending, backlog := w.backlog, crashed := w.crashed }
        _ (jw_grow_eq _ _ (checkAndComplete_tasks _)) hE2
        (fun x hx => by rw [checkAndComplete_pending]; exact hx)
        (fun j hj _ => by rw [checkAndComplete_tasks] at hj; exact hj) ?_
      intro j hj hs
      rcases hrows2 j hj hs with a | a | ⟨c, hc, _⟩
      · exact Or.inl a
      · exact Or.inr a
      · rw [hce] at hc; cases hc
    · exact jw_resume_tail sp
        { wf := .RUNNING, tasks := w.tasks.map jwMark, pending := w.pending, backlog := w.backlog, crashed := w.crashed }
        idle cmds h2.nobl rfl hE2 hrows2

/-- one step of the engine core preserves the wake-up invariant of WAITING joins -/
theorem step_JW (sp : Spec) (rk : String → Nat) (hsp : SpecOK sp rk) (w : World) (ev : Event) (hl : lossless ev)
    (h1 : Inv1 w) (hsok : SOK sp w.tasks) (h2 : Inv2 sp w) (hjru : JoinRowsUnique sp w) (hji : JoinInv sp w)
    (hpc : PausedClean w) (h : JW sp w) : JW sp (step sp w ev) := by
  have _ := hji
  have _ := hpc
  by_cases hr : ev = .resume
  · subst hr; exact jw_step_resume sp w h2 h
  · by_cases hj : ∃ t, ev = .deliver (.jobRefresh t)
    · obtain ⟨t, rfl⟩ := hj
      exact jw_step_jobRefresh sp rk hsp w t h1 hsok h2 hjru h
    · exact jw_step_simple sp rk hsp w ev hl hr (fun t e => hj ⟨t, e⟩) h1 hsok h2 hjru h

end Mistral.Engine.Live
