/- Helper lemmas about the constructor model (Model/SchemaCtor.lean): when a step is `fine`
   (not an internal error). -/
import Mistral.Model.SchemaCtor
import Mistral.Lemmas.SchemaFrags
open Mistral.Schema Mistral.Gen.LangSchemas
namespace Mistral.SchemaCtor

theorem fine_bind {α β : Type} {r : Res α} {f : α → Res β} (hr : r.fine = true)
    (hf : ∀ a, r = .ok a → (f a).fine = true) : (r.bind f).fine = true := by
  cases r with
  | ok a => exact hf a rfl
  | defErr w => rfl
  | stuck w => cases hr

theorem mapRes_fine {α β : Type} {f : α → Res β} {xs : List α} (h : ∀ x ∈ xs, (f x).fine = true) :
    (mapRes f xs).fine = true := by
  induction xs with
  | nil => rfl
  | cons x xs ih =>
    simp only [mapRes]
    refine fine_bind (h x (List.mem_cons_self ..)) (fun y _ => ?_)
    refine fine_bind (ih (fun x' hx' => h x' (List.mem_cons_of_mem _ hx'))) (fun ys _ => rfl)

theorem mapRes_ok_mem {α β : Type} {f : α → Res β} {xs : List α} {ys : List β} (h : mapRes f xs = .ok ys) :
    ∀ y ∈ ys, ∃ x ∈ xs, f x = .ok y := by
  induction xs generalizing ys with
  | nil => simp [mapRes] at h; subst h; intro y hy; cases hy
  | cons x xs ih =>
    simp only [mapRes] at h
    cases hx : f x with
    | ok y0 =>
      cases hr : mapRes f xs with
      | ok ys0 =>
        simp [hx, hr, Res.bind] at h
        subst h
        intro y hy
        rcases List.mem_cons.mp hy with rfl | hm
        · exact ⟨x, List.mem_cons_self .., hx⟩
        · obtain ⟨x', hx', hfx⟩ := ih hr y hm
          exact ⟨x', List.mem_cons_of_mem _ hx', hfx⟩
      | defErr w => simp [hx, hr, Res.bind] at h
      | stuck w => simp [hx, hr, Res.bind] at h
    | defErr w => simp [hx, Res.bind] at h
    | stuck w => simp [hx, Res.bind] at h

@[simp] theorem checkExpr_fine (O : Oracle) (j : JVal) : (checkExpr O j).fine = true := by
  unfold checkExpr; split <;> rfl

@[simp] theorem guardDef_fine (c : Bool) (w : String) : (guardDef c w).fine = true := by
  unfold guardDef; split <;> rfl

@[simp] theorem parseCmd_str_fine (O : Oracle) (s : String) : (parseCmd O (.str s)).fine = true := by
  simp only [parseCmd]
  split
  · cases O.cmd s <;> rfl
  · rfl

theorem parseCmd_fine_of {O : Oracle} {j : JVal} (h : IsStr j) : (parseCmd O j).fine = true := by
  obtain ⟨s, rfl⟩ := h
  exact parseCmd_str_fine O s

theorem specProperty_fine {kvs : List (Key × JVal)} {k : String} {ctor : JVal → Res JVal}
    (h : ∀ v, (ctor v).fine = true) : (specProperty kvs k ctor).fine = true := by
  unfold specProperty
  split
  · rfl
  · rfl
  · exact h _

theorem getItem_fine {kvs : List (Key × JVal)} {k : String} {v : JVal} (h : lookup k kvs = some v) :
    getItem kvs k = .ok v := by
  simp [getItem, h]

theorem getD_some {kvs : List (Key × JVal)} {k : String} {v d : JVal} (h : lookup k kvs = some v) :
    getD kvs k d = v := by
  simp [getD, h]

theorem getD_none {kvs : List (Key × JVal)} {k : String} {d : JVal} (h : lookup k kvs = none) :
    getD kvs k d = d := by
  simp [getD, h]

theorem lookupKey_setKey_same (k : Key) (v : JVal) (kvs : List (Key × JVal)) :
    lookupKey k (setKey k v kvs) = some v := by
  induction kvs with
  | nil => simp [setKey, lookupKey]
  | cons x xs ih =>
    obtain ⟨k', v'⟩ := x
    by_cases h : k' = k
    · simp [setKey, h, lookupKey]
    · simp [setKey, h, lookupKey, ih]

theorem lookupKey_setKey_other {k k2 : Key} (hne : k2 ≠ k) (v : JVal) (kvs : List (Key × JVal)) :
    lookupKey k2 (setKey k v kvs) = lookupKey k2 kvs := by
  induction kvs with
  | nil => simp [setKey, lookupKey, Ne.symm hne]
  | cons x xs ih =>
    obtain ⟨k', v'⟩ := x
    by_cases h : k' = k
    · subst h
      simp [setKey, lookupKey, Ne.symm hne]
    · by_cases h2 : k' = k2
      · subst h2
        simp [setKey, h, lookupKey]
      · simp [setKey, h, lookupKey, h2, ih]

end Mistral.SchemaCtor
