import Mistral.Model.Reverse
namespace Mistral.Reverse
open Mistral

/-! ### the needed set: graph search from the target -/

/-- `n` is the target or a task the target transitively requires (through tasks that exist) -/
inductive Reach (sp : Spec) : String → Prop
  | target : Reach sp sp.target
  | step {a r : String} : Reach sp a → r ∈ reqsN sp a → isTask sp r = true → Reach sp r

theorem isTask_of_mem (sp : Spec) (t : Task) (h : t ∈ sp.tasks) : isTask sp t.name = true := by
  unfold isTask
  exact List.any_eq_true.mpr ⟨t, h, by simp⟩

theorem isTask_iff (sp : Spec) (n : String) : isTask sp n = true ↔ ∃ t ∈ sp.tasks, t.name = n := by
  unfold isTask
  rw [List.any_eq_true]
  constructor
  · rintro ⟨t, ht, h⟩; exact ⟨t, ht, by simpa using h⟩
  · rintro ⟨t, ht, h⟩; exact ⟨t, ht, by simpa using h⟩

theorem findTaskSpec_some (sp : Spec) (n : String) (t : Task) (h : findTaskSpec sp n = some t) :
    t ∈ sp.tasks ∧ t.name = n := by
  unfold findTaskSpec at h
  exact ⟨List.mem_of_find?_eq_some h, by simpa using List.find?_some h⟩

theorem findTaskSpec_isSome (sp : Spec) (n : String) (h : isTask sp n = true) :
    ∃ t, findTaskSpec sp n = some t := by
  rcases (isTask_iff sp n).mp h with ⟨t, ht, hn⟩
  unfold findTaskSpec
  cases hf : sp.tasks.find? (·.name == n) with
  | some x => exact ⟨x, rfl⟩
  | none =>
    have := List.find?_eq_none.mp hf t ht
    simp [hn] at this

theorem frontier_some (sp : Spec) (pool : List Task) (acc : List String) (t : Task)
    (h : frontier? sp pool acc = some t) :
    t ∈ pool ∧ t.name ∉ acc ∧ ∃ a ∈ acc, t.name ∈ reqsN sp a := by
  unfold frontier? at h
  have hm := List.mem_of_find?_eq_some h
  have hp := List.find?_some h
  simp only [Bool.and_eq_true, Bool.not_eq_true', List.any_eq_true] at hp
  refine ⟨hm, ?_, ?_⟩
  · intro hc
    have : acc.contains t.name = true := List.contains_iff_mem.mpr hc
    rw [this] at hp; exact absurd hp.1 (by decide)
  · rcases hp.2 with ⟨a, ha, hc⟩
    exact ⟨a, ha, List.contains_iff_mem.mp hc⟩

theorem frontier_none (sp : Spec) (pool : List Task) (acc : List String)
    (h : frontier? sp pool acc = none) (t : Task) (ht : t ∈ pool) (a : String) (ha : a ∈ acc)
    (hr : t.name ∈ reqsN sp a) : t.name ∈ acc := by
  unfold frontier? at h
  have := List.find?_eq_none.mp h t ht
  simp only [Bool.and_eq_true, Bool.not_eq_true', List.any_eq_true, not_and] at this
  cases hc : acc.contains t.name with
  | true => exact List.contains_iff_mem.mp hc
  | false =>
    exact absurd ⟨a, ha, List.contains_iff_mem.mpr hr⟩ (this hc)

/-- everything already found stays found -/
theorem grow_mono (sp : Spec) : ∀ (f : Nat) (pool : List Task) (acc : List String) (n : String),
    n ∈ acc → n ∈ grow sp f pool acc := by
  intro f
  induction f with
  | zero => intro pool acc n h; simpa [grow] using h
  | succ f ih =>
    intro pool acc n h
    unfold grow
    split
    · exact h
    · exact ih _ _ n (List.mem_append.mpr (Or.inl h))

/-- soundness of the search: whatever holds of the start set and is inherited along a `requires`
    edge to an existing task holds of everything found -/
theorem grow_ind (sp : Spec) (P : String → Prop)
    (hstep : ∀ a r, P a → r ∈ reqsN sp a → isTask sp r = true → P r) :
    ∀ (f : Nat) (pool : List Task) (acc : List String), (∀ t ∈ pool, t ∈ sp.tasks) →
      (∀ a ∈ acc, P a) → ∀ n ∈ grow sp f pool acc, P n := by
  intro f
  induction f with
  | zero => intro pool acc _ h n hn; exact h n (by simpa [grow] using hn)
  | succ f ih =>
    intro pool acc hpool h n hn
    unfold grow at hn
    split at hn
    · exact h n hn
    · rename_i t ht
      rcases frontier_some sp pool acc t ht with ⟨htp, _, a, ha, hr⟩
      refine ih _ _ ?_ ?_ n hn
      · intro x hx; exact hpool x (List.mem_filter.mp hx).1
      · intro x hx
        rcases List.mem_append.mp hx with h1 | h1
        · exact h x h1
        · have : x = t.name := by simpa using h1
          subst this
          exact hstep a _ (h a ha) hr (isTask_of_mem sp t (hpool t htp))

/-- no name is found twice -/
theorem grow_nodup (sp : Spec) : ∀ (f : Nat) (pool : List Task) (acc : List String),
    acc.Nodup → (grow sp f pool acc).Nodup := by
  intro f
  induction f with
  | zero => intro pool acc h; simpa [grow] using h
  | succ f ih =>
    intro pool acc h
    unfold grow
    split
    · exact h
    · rename_i t ht
      rcases frontier_some sp pool acc t ht with ⟨_, hna, _⟩
      apply ih
      rw [List.nodup_append]
      refine ⟨h, by simp, ?_⟩
      intro a ha b hb
      have : b = t.name := by simpa using hb
      subst this
      intro hab; subst hab; exact hna ha

/-- completeness of the search: with as many rounds as the pool is long the found set is closed
    under `requires` (restricted to tasks that exist) -/
theorem grow_closed (sp : Spec) : ∀ (f : Nat) (pool : List Task) (acc : List String),
    pool.length ≤ f →
    (∀ t ∈ sp.tasks, t.name ∈ acc ∨ ∃ p ∈ pool, p.name = t.name) →
    ∀ a ∈ grow sp f pool acc, ∀ r ∈ reqsN sp a, isTask sp r = true → r ∈ grow sp f pool acc := by
  intro f
  induction f with
  | zero =>
    intro pool acc hlen hcov a ha r _ hr
    have hp : pool = [] := List.eq_nil_of_length_eq_zero (Nat.le_zero.mp hlen)
    subst hp
    rcases (isTask_iff sp r).mp hr with ⟨t, ht, hn⟩
    rcases hcov t ht with h1 | ⟨p, hp, _⟩
    · simpa [grow, ← hn] using h1
    · simp at hp
  | succ f ih =>
    intro pool acc hlen hcov
    unfold grow
    split
    · rename_i hnone
      intro a ha r hra hr
      rcases (isTask_iff sp r).mp hr with ⟨t, ht, hn⟩
      rcases hcov t ht with h1 | ⟨p, hp, hpn⟩
      · rw [← hn]; exact h1
      · have := frontier_none sp pool acc hnone p hp a ha (by rw [hpn, hn]; exact hra)
        rw [← hn, ← hpn]; exact this
    · rename_i t ht
      rcases frontier_some sp pool acc t ht with ⟨htp, _, _⟩
      apply ih
      · have : (pool.filter (fun x => x.name != t.name)).length < pool.length :=
          List.length_filter_lt_length_iff_exists.mpr ⟨t, htp, by simp⟩
        omega
      · intro u hu
        rcases hcov u hu with h1 | ⟨p, hp, hpn⟩
        · exact Or.inl (List.mem_append.mpr (Or.inl h1))
        · by_cases he : p.name = t.name
          · left; rw [← hpn, he]; simp
          · right; exact ⟨p, List.mem_filter.mpr ⟨hp, by simpa using he⟩, hpn⟩

theorem needed_some (sp : Spec) (ns : List String) (h : needed sp = some ns) :
    isTask sp sp.target = true ∧ ns = grow sp sp.tasks.length sp.tasks [sp.target] := by
  unfold needed at h
  split at h
  · rename_i ht; exact ⟨ht, by simpa using h.symm⟩
  · simp at h

theorem needed_none (sp : Spec) (h : needed sp = none) : isTask sp sp.target = false := by
  unfold needed at h
  split at h
  · simp at h
  · rename_i ht; simpa using ht

/-- the target is needed -/
theorem target_mem_needed (sp : Spec) (ns : List String) (h : needed sp = some ns) : sp.target ∈ ns := by
  rw [(needed_some sp ns h).2]; exact grow_mono sp _ _ _ _ (by simp)

theorem needed_nodup (sp : Spec) (ns : List String) (h : needed sp = some ns) : ns.Nodup := by
  rw [(needed_some sp ns h).2]; exact grow_nodup sp _ _ _ (by simp)

/-- the needed set is closed under `requires` -/
theorem needed_closed (sp : Spec) (ns : List String) (h : needed sp = some ns) :
    ∀ a ∈ ns, ∀ r ∈ reqsN sp a, isTask sp r = true → r ∈ ns := by
  rw [(needed_some sp ns h).2]
  exact grow_closed sp _ _ _ (Nat.le_refl _) (fun t ht => Or.inr ⟨t, ht, rfl⟩)

/-- every needed name is the name of a task -/
theorem needed_isTask (sp : Spec) (ns : List String) (h : needed sp = some ns) :
    ∀ n ∈ ns, isTask sp n = true := by
  rcases needed_some sp ns h with ⟨ht, he⟩
  rw [he]
  refine grow_ind sp (fun n => isTask sp n = true) (fun _ _ _ _ hr => hr) _ _ _ (fun _ h => h) ?_
  intro a ha
  have : a = sp.target := by simpa using ha
  rw [this]; exact ht

/-- the needed set is exactly what the target transitively requires -/
theorem mem_needed_iff (sp : Spec) (ns : List String) (h : needed sp = some ns) (n : String) :
    n ∈ ns ↔ Reach sp n := by
  constructor
  · rcases needed_some sp ns h with ⟨_, he⟩
    rw [he]
    refine grow_ind sp (Reach sp) (fun a r ha hr ht => Reach.step ha hr ht) _ _ _ (fun _ h => h) ?_ n
    intro a ha
    have : a = sp.target := by simpa using ha
    rw [this]; exact Reach.target
  · intro hr
    induction hr with
    | target => exact target_mem_needed sp ns h
    | step _ hreq ht ih => exact needed_closed sp ns h _ ih _ hreq ht

/-! ### what the controller asks for -/

theorem runTaskNames_append (a b : List Cmd) : runTaskNames (a ++ b) = runTaskNames a ++ runTaskNames b := by
  unfold runTaskNames; exact List.filterMap_append

theorem runTaskNames_existing (l : List TaskRow) :
    runTaskNames (l.map fun r => Cmd.runExisting r.name) = [] := by
  induction l with
  | nil => rfl
  | cons x xs ih => simp [runTaskNames] at ih ⊢

theorem runTaskNames_runTask (ns : List String) : runTaskNames (ns.map Cmd.runTask) = ns := by
  induction ns with
  | nil => rfl
  | cons x xs ih =>
    have : runTaskNames (List.map Cmd.runTask xs) = xs := ih
    simp [runTaskNames] at this ⊢
    exact this

/-- the names `continue_workflow` wants started: without repetition, each needed and satisfied -/
theorem nextNames_spec (sp : Spec) (wf : St) (rows : List TaskRow) (via : Bool) (ns : List String)
    (h : nextNames sp wf rows via = some ns) :
    ns.Nodup ∧ ∀ n ∈ ns, (∃ nd, needed sp = some nd ∧ n ∈ nd) ∧ satisfiedName sp rows n = true := by
  unfold nextNames continueWorkflow at h
  split at h
  · have : ns = [] := by simpa [runTaskNames] using h.symm
    subst this; exact ⟨by simp, by simp⟩
  · unfold findNextCommands satisfiedTasks at h
    cases hn : needed sp with
    | none => simp [hn] at h
    | some nd =>
      simp only [hn, Option.map_some, Option.some.injEq] at h
      rw [runTaskNames_append, runTaskNames_runTask] at h
      have hb : runTaskNames (if via = true then [] else
          (rows.filter (fun r => r.state == St.IDLE)).map fun r => Cmd.runExisting r.name) = [] := by
        split
        · rfl
        · exact runTaskNames_existing _
      rw [hb, List.nil_append] at h
      subst h
      refine ⟨(needed_nodup sp nd hn).sublist List.filter_sublist, ?_⟩
      intro n hmem
      rcases List.mem_filter.mp hmem with ⟨h1, h2⟩
      exact ⟨⟨nd, rfl, h1⟩, h2⟩

/-- … and, when the workflow is not completed, ALL of them -/
theorem nextNames_complete (sp : Spec) (wf : St) (rows : List TaskRow) (via : Bool) (ns : List String)
    (h : nextNames sp wf rows via = some ns) (hwf : isCompleted wf = false) :
    ∃ nd, needed sp = some nd ∧ ∀ n ∈ nd, satisfiedName sp rows n = true → n ∈ ns := by
  unfold nextNames continueWorkflow at h
  rw [hwf] at h
  simp only [Bool.false_eq_true, if_false] at h
  unfold findNextCommands satisfiedTasks at h
  cases hn : needed sp with
  | none => simp [hn] at h
  | some nd =>
    simp only [hn, Option.map_some, Option.some.injEq] at h
    rw [runTaskNames_append, runTaskNames_runTask] at h
    have hb : runTaskNames (if via = true then [] else
        (rows.filter (fun r => r.state == St.IDLE)).map fun r => Cmd.runExisting r.name) = [] := by
      split
      · rfl
      · exact runTaskNames_existing _
    rw [hb, List.nil_append] at h
    subst h
    exact ⟨nd, rfl, fun n h1 h2 => List.mem_filter.mpr ⟨h1, h2⟩⟩

theorem nextNames_none (sp : Spec) (wf : St) (rows : List TaskRow) (via : Bool)
    (h : nextNames sp wf rows via = none) : needed sp = none := by
  unfold nextNames continueWorkflow at h
  split at h
  · simp at h
  · unfold findNextCommands satisfiedTasks at h
    cases hn : needed sp with
    | none => rfl
    | some nd => simp [hn] at h

/-! ### rows -/

/-- what the controller reads of a row -/
def view (rows : List TaskRow) : List (String × St) := rows.map fun r => (r.name, r.state)

theorem hasRow_view (a b : List TaskRow) (h : view a = view b) (n : String) : hasRow a n = hasRow b n := by
  have e : ∀ l : List TaskRow, hasRow l n = (view l).any (fun p => p.1 == n) := by
    intro l; unfold hasRow view; rw [List.any_map]; rfl
  rw [e a, e b, h]

theorem hasSuccess_view (a b : List TaskRow) (h : view a = view b) (n : String) :
    hasSuccess a n = hasSuccess b n := by
  have e : ∀ l : List TaskRow, hasSuccess l n = (view l).any (fun p => p.1 == n && p.2 == St.SUCCESS) := by
    intro l; unfold hasSuccess view; rw [List.any_map]; rfl
  rw [e a, e b, h]

theorem satisfiedName_view (sp : Spec) (a b : List TaskRow) (h : view a = view b) (n : String) :
    satisfiedName sp a n = satisfiedName sp b n := by
  unfold satisfiedName
  split
  · unfold isSatisfied
    rw [hasRow_view a b h]
    congr 1
    apply List.all_congr rfl
    intro q; exact hasSuccess_view a b h q
  · rfl

theorem updRow_view_congr (ts : List TaskRow) (t : String) (f g : TaskRow → TaskRow)
    (h : ∀ x, (f x).name = (g x).name ∧ (f x).state = (g x).state) :
    view (updRow ts t f) = view (updRow ts t g) := by
  induction ts with
  | nil => rfl
  | cons x xs ih =>
    unfold updRow
    split
    · simp [view, (h x).1, (h x).2]
    · simp only [view, List.map_cons, List.cons.injEq, true_and]; exact ih

theorem updRow_names (ts : List TaskRow) (t : String) (f : TaskRow → TaskRow) (h : ∀ x, (f x).name = x.name) :
    (updRow ts t f).map (·.name) = ts.map (·.name) := by
  induction ts with
  | nil => rfl
  | cons x xs ih =>
    unfold updRow
    split
    · simp [h x]
    · simp only [List.map_cons, List.cons.injEq, true_and]; exact ih

theorem updRow_id (ts : List TaskRow) (t : String) : updRow ts t (fun x => x) = ts := by
  induction ts with
  | nil => rfl
  | cons x xs ih =>
    unfold updRow
    split
    · rfl
    · rw [ih]

theorem hasRow_iff (rows : List TaskRow) (n : String) : hasRow rows n = true ↔ n ∈ rows.map (·.name) := by
  unfold hasRow
  rw [List.any_eq_true, List.mem_map]
  constructor
  · rintro ⟨r, hr, h⟩; exact ⟨r, hr, by simpa using h⟩
  · rintro ⟨r, hr, h⟩; exact ⟨r, hr, by simpa using h⟩

theorem hasRow_updRow (ts : List TaskRow) (t : String) (f : TaskRow → TaskRow) (h : ∀ x, (f x).name = x.name)
    (n : String) : hasRow (updRow ts t f) n = hasRow ts n := by
  rw [Bool.eq_iff_iff, hasRow_iff, hasRow_iff, updRow_names ts t f h]

theorem hasSuccess_iff (rows : List TaskRow) (n : String) :
    hasSuccess rows n = true ↔ ∃ r ∈ rows, r.name = n ∧ r.state = .SUCCESS := by
  unfold hasSuccess
  rw [List.any_eq_true]
  constructor
  · rintro ⟨r, hr, h⟩; exact ⟨r, hr, by simpa using h⟩
  · rintro ⟨r, hr, h⟩; exact ⟨r, hr, by simpa using h⟩

/-- an update of the found row that keeps its name, and keeps SUCCESS if it was SUCCESS, loses no
    succeeded task -/
theorem hasSuccess_updRow (ts : List TaskRow) (t : String) (f : TaskRow → TaskRow)
    (hn : ∀ x, (f x).name = x.name)
    (hs : ∀ r, ts.find? (·.name == t) = some r → r.state = .SUCCESS → (f r).state = .SUCCESS)
    (q : String) (h : hasSuccess ts q = true) : hasSuccess (updRow ts t f) q = true := by
  induction ts with
  | nil => simp [hasSuccess] at h
  | cons x xs ih =>
    unfold updRow
    by_cases hx : (x.name == t) = true
    · simp only [hx, if_true]
      rw [hasSuccess_iff] at h ⊢
      rcases h with ⟨r, hr, h1, h2⟩
      rcases List.mem_cons.mp hr with rfl | hr
      · exact ⟨f r, by simp, by rw [hn]; exact h1, hs r (by simp [List.find?, hx]) h2⟩
      · exact ⟨r, List.mem_cons.mpr (Or.inr hr), h1, h2⟩
    · simp only [hx]
      rw [hasSuccess_iff] at h
      rcases h with ⟨r, hr, h1, h2⟩
      rcases List.mem_cons.mp hr with rfl | hr
      · rw [hasSuccess_iff]; exact ⟨r, by simp, h1, h2⟩
      · have := ih (by intro r' hf; exact hs r' (by simp [List.find?, hx, hf]))
            ((hasSuccess_iff xs q).mpr ⟨r, hr, h1, h2⟩)
        rw [hasSuccess_iff] at this ⊢
        rcases this with ⟨r', hr', h'⟩
        exact ⟨r', List.mem_cons.mpr (Or.inr hr'), h'⟩

theorem hasSuccess_append (a b : List TaskRow) (q : String) (h : hasSuccess a q = true) :
    hasSuccess (a ++ b) q = true := by
  unfold hasSuccess at *; rw [List.any_append, h]; rfl

theorem hasSuccess_append_new (a : List TaskRow) (ns : List String) (q : String) :
    hasSuccess (a ++ ns.map newRow) q = hasSuccess a q := by
  unfold hasSuccess
  rw [List.any_append]
  have : (ns.map newRow).any (fun r => r.name == q && r.state == St.SUCCESS) = false := by
    rw [List.any_map]
    induction ns with
    | nil => rfl
    | cons x xs ih => simp [newRow] at ih ⊢
  rw [this, Bool.or_false]

/-! ### what one event does to the task rows -/

theorem checkAndComplete_tasks (w : World) : (checkAndComplete w).tasks = w.tasks := by
  unfold checkAndComplete
  repeat' split
  all_goals rfl

theorem checkAndComplete_pending (w : World) : (checkAndComplete w).pending = w.pending := by
  unfold checkAndComplete
  repeat' split
  all_goals rfl

theorem nextNames_completed (sp : Spec) (wf : St) (rows : List TaskRow) (via : Bool) (ns : List String)
    (h : nextNames sp wf rows via = some ns) (hwf : isCompleted wf = true) : ns = [] := by
  unfold nextNames continueWorkflow at h
  rw [hwf] at h
  simpa [runTaskNames] using h.symm

theorem dispatch_tasks (w : World) (ns : List String) (h : isCompleted w.wf = true → ns = []) :
    (dispatch w ns).tasks = w.tasks ++ ns.map newRow := by
  unfold dispatch
  split
  · rename_i hc; rw [h hc]; simp
  · rfl

/-- the shape of every change of the task rows: the existing rows keep their names (in order) and
    lose no succeeded task, and rows are appended for names that are pairwise different, needed, and
    satisfied on the rows as they are after the change -/
def Shape (sp : Spec) (old new : List TaskRow) : Prop :=
  ∃ (mid : List TaskRow) (ns : List String),
    new = mid ++ ns.map newRow ∧
    mid.map (·.name) = old.map (·.name) ∧
    (∀ q, hasSuccess old q = true → hasSuccess mid q = true) ∧
    ns.Nodup ∧
    ∀ n ∈ ns, (∃ nd, needed sp = some nd ∧ n ∈ nd) ∧ satisfiedName sp mid n = true

theorem shape_same (sp : Spec) (old new : List TaskRow) (h : new = old) : Shape sp old new :=
  ⟨old, [], by simp [h], rfl, fun _ h => h, by simp, by simp⟩

/-- an update of the found row (name kept, SUCCESS kept) followed by new rows -/
theorem shape_upd (sp : Spec) (old : List TaskRow) (t : String) (f : TaskRow → TaskRow) (ns : List String)
    (hn : ∀ x, (f x).name = x.name)
    (hs : ∀ r, old.find? (·.name == t) = some r → r.state = .SUCCESS → (f r).state = .SUCCESS)
    (hnd : ns.Nodup)
    (hsat : ∀ n ∈ ns, (∃ nd, needed sp = some nd ∧ n ∈ nd) ∧ satisfiedName sp (updRow old t f) n = true) :
    Shape sp old (updRow old t f ++ ns.map newRow) :=
  ⟨updRow old t f, ns, rfl, updRow_names old t f hn, fun q hq => hasSuccess_updRow old t f hn hs q hq, hnd, hsat⟩

theorem not_completed_not_success (s : St) (h : isCompleted s = false) : s ≠ .SUCCESS := by
  intro hs; subst hs; revert h; decide

def completeUpd (s : St) (ns : List String) (r : TaskRow) : TaskRow :=
  { r with state := s, nextTasks := ns, hasNext := !ns.isEmpty,
           errorHandled := if s == St.ERROR then false else r.errorHandled, processed := true }

/-- the same while the workflow is paused: the task stays unprocessed -/
def pausedUpd (s : St) (ns : List String) (r : TaskRow) : TaskRow :=
  { r with state := s, nextTasks := ns, hasNext := !ns.isEmpty,
           errorHandled := if s == St.ERROR then false else r.errorHandled }

theorem completeTask_shape (sp : Spec) (w : World) (t : String) (s : St) (r : TaskRow)
    (hf : w.tasks.find? (·.name == t) = some r) (hc : isCompleted r.state = false) :
    Shape sp w.tasks (completeTask sp w t s).tasks := by
  have hns : ∀ r', w.tasks.find? (·.name == t) = some r' → r'.state = .SUCCESS → False := by
    intro r' h1 h2
    rw [hf] at h1
    have : r' = r := by simpa using h1.symm
    subst this
    exact not_completed_not_success _ hc h2
  unfold completeTask
  split
  · have := shape_upd sp w.tasks t (fun r : TaskRow => ({ r with state := St.ERROR } : TaskRow)) []
      (fun _ => rfl) (fun r' h1 h2 => (hns r' h1 h2).elim) (by simp) (by simp)
    simpa using this
  · rename_i ns hnn
    split
    · have := shape_upd sp w.tasks t (pausedUpd s ns) [] (fun _ => rfl)
        (fun r' h1 h2 => (hns r' h1 h2).elim) (by simp) (by simp)
      rw [List.map_nil, List.append_nil] at this
      exact this
    · have hsh := shape_upd sp w.tasks t (completeUpd s ns) ns (fun _ => rfl)
        (fun r' h1 h2 => (hns r' h1 h2).elim) (nextNames_spec _ _ _ _ _ hnn).1 (by
          intro n hn
          refine ⟨((nextNames_spec _ _ _ _ _ hnn).2 n hn).1, ?_⟩
          rw [← ((nextNames_spec _ _ _ _ _ hnn).2 n hn).2]
          apply satisfiedName_view
          apply updRow_view_congr
          intro x; exact ⟨rfl, rfl⟩)
      have hd := dispatch_tasks { w with tasks := updRow w.tasks t (completeUpd s ns), pending := w.pending ++ [.postCheck] }
        ns (fun hcw => nextNames_completed sp _ _ _ _ hnn hcw)
      rw [← hd] at hsh
      exact hsh

/-- `_continue_workflow` marks completed rows processed: names and states stay -/
def markProcessed (rows : List TaskRow) : List TaskRow :=
  rows.map fun r => if isCompleted r.state && !r.processed then { r with processed := true } else r

theorem markProcessed_view (rows : List TaskRow) : view (markProcessed rows) = view rows := by
  unfold markProcessed view
  rw [List.map_map]
  apply List.map_congr_left
  intro r _
  simp only [Function.comp]
  split <;> rfl

theorem markProcessed_names (rows : List TaskRow) : (markProcessed rows).map (·.name) = rows.map (·.name) := by
  have := congrArg (List.map Prod.fst) (markProcessed_view rows)
  simp only [view, List.map_map] at this
  exact this

theorem runTaskNames_spec_of_continue (sp : Spec) (wf : St) (rows : List TaskRow) (via : Bool) (cmds : List Cmd)
    (h : continueWorkflow sp wf rows via = some cmds) : nextNames sp wf rows via = some (runTaskNames cmds) := by
  unfold nextNames; rw [h]; rfl

theorem step_shape (sp : Spec) (w : World) (e : Event) : Shape sp w.tasks (step sp w e).tasks := by
  cases e with
  | start =>
    simp only [step]
    split
    · exact shape_same _ _ _ rfl
    · split
      · exact shape_same _ _ _ rfl
      · rename_i ns hnn
        rw [checkAndComplete_tasks, dispatch_tasks _ _ (by intro h; exact absurd (show isCompleted St.RUNNING = true from h) (by decide))]
        exact ⟨w.tasks, ns, rfl, rfl, fun _ h => h, (nextNames_spec _ _ _ _ _ hnn).1, (nextNames_spec _ _ _ _ _ hnn).2⟩
  | pause => exact shape_same _ _ _ rfl
  | stop s => exact shape_same _ _ _ rfl
  | resume =>
    simp only [step]
    split
    · exact shape_same _ _ _ rfl
    · split
      · exact shape_same _ _ _ rfl
      · rename_i cmds hc
        have hnn := runTaskNames_spec_of_continue _ _ _ _ _ hc
        have hmid : Shape sp w.tasks (markProcessed w.tasks ++ (runTaskNames cmds).map newRow) := by
          refine ⟨markProcessed w.tasks, runTaskNames cmds, rfl, markProcessed_names _, ?_, (nextNames_spec _ _ _ _ _ hnn).1, ?_⟩
          · intro q hq; rw [hasSuccess_view _ _ (markProcessed_view w.tasks)]; exact hq
          · intro n hn
            refine ⟨((nextNames_spec _ _ _ _ _ hnn).2 n hn).1, ?_⟩
            rw [satisfiedName_view sp _ _ (markProcessed_view w.tasks)]
            exact ((nextNames_spec _ _ _ _ _ hnn).2 n hn).2
        split
        · rename_i hemp
          rw [checkAndComplete_tasks]
          have : runTaskNames cmds = [] := by
            have : cmds = [] := by simpa using hemp
            rw [this]; rfl
          rw [this] at hmid
          simpa [markProcessed] using hmid
        · rw [dispatch_tasks _ _ (fun hcw => nextNames_completed sp _ _ _ _ hnn hcw)]
          exact hmid
  | execute t ok =>
    simp only [step]
    split <;> exact shape_same _ _ _ rfl
  | deliver it =>
    cases it with
    | runAction t => exact shape_same _ _ _ rfl
    | postStartTask t => simp only [step]; split <;> exact shape_same _ _ _ rfl
    | postStartExisting t => simp only [step]; split <;> exact shape_same _ _ _ rfl
    | postRunAction t => simp only [step]; split <;> exact shape_same _ _ _ rfl
    | postCheck =>
      simp only [step]; split
      · exact shape_same _ _ _ rfl
      · exact shape_same _ _ _ (checkAndComplete_tasks _)
    | rpcStartTask t =>
      simp only [step]; split
      · exact shape_same _ _ _ rfl
      · split
        · exact shape_same _ _ _ rfl
        · rename_i r hr
          split
          · rename_i hidle
            have := shape_upd sp w.tasks t (fun x : TaskRow => ({ x with state := St.RUNNING } : TaskRow)) []
              (fun _ => rfl) (by
                intro r' h1 h2
                unfold findRow at hr
                simp only at hr
                rw [hr] at h1
                have : r' = r := by simpa using h1.symm
                subst this
                rw [h2] at hidle; exact absurd hidle (by decide)) (by simp) (by simp)
            simpa using this
          · exact shape_same _ _ _ rfl
    | rpcStartExisting t =>
      simp only [step]; split
      · exact shape_same _ _ _ rfl
      · split
        · exact shape_same _ _ _ rfl
        · rename_i r hr
          split
          · exact shape_same _ _ _ rfl
          · rename_i hns
            split
            · exact shape_same _ _ _ rfl
            · split
              · exact shape_same _ _ _ rfl
              · have := shape_upd sp w.tasks t
                  (fun x : TaskRow => ({ x with state := St.RUNNING, processed := false } : TaskRow)) []
                  (fun _ => rfl) (by
                    intro r' h1 h2
                    unfold findRow at hr
                    simp only at hr
                    rw [hr] at h1
                    have : r' = r := by simpa using h1.symm
                    subst this
                    rw [h2] at hns; exact absurd (by decide) hns) (by simp) (by simp)
                simpa using this
    | rpcResult t ok =>
      simp only [step]; split
      · exact shape_same _ _ _ rfl
      · split
        · exact shape_same _ _ _ rfl
        · rename_i r hr
          split
          · exact shape_same _ _ _ rfl
          · rename_i hcomp
            unfold findRow at hr
            exact completeTask_shape sp _ t _ r hr (by simpa using hcomp)

/-! ### the three invariants of the statement -/

/-- requires-order: every task that has a row has all its requirements in SUCCESS -/
def ReqOrder (sp : Spec) (rows : List TaskRow) : Prop :=
  ∀ r ∈ rows, ∀ q ∈ reqsN sp r.name, hasSuccess rows q = true

/-- only needed tasks have rows -/
def OnlyNeeded (sp : Spec) (rows : List TaskRow) : Prop :=
  ∀ r ∈ rows, ∃ nd, needed sp = some nd ∧ r.name ∈ nd

/-- at most one row per task -/
def Once (rows : List TaskRow) : Prop := (rows.map (·.name)).Nodup

theorem mem_updRow (ts : List TaskRow) (t : String) (f : TaskRow → TaskRow) (x : TaskRow)
    (h : x ∈ updRow ts t f) : x ∈ ts ∨ ∃ y ∈ ts, x = f y := by
  induction ts with
  | nil => simp [updRow] at h
  | cons a as ih =>
    unfold updRow at h
    split at h
    · rcases List.mem_cons.mp h with rfl | h
      · exact Or.inr ⟨a, by simp, rfl⟩
      · exact Or.inl (List.mem_cons.mpr (Or.inr h))
    · rcases List.mem_cons.mp h with rfl | h
      · exact Or.inl (by simp)
      · rcases ih h with h1 | ⟨y, hy, rfl⟩
        · exact Or.inl (List.mem_cons.mpr (Or.inr h1))
        · exact Or.inr ⟨y, List.mem_cons.mpr (Or.inr hy), rfl⟩

theorem satisfiedName_true (sp : Spec) (rows : List TaskRow) (n : String) (h : satisfiedName sp rows n = true) :
    hasRow rows n = false ∧ ∀ q ∈ reqsN sp n, hasSuccess rows q = true := by
  unfold satisfiedName at h
  unfold reqsN
  split at h
  · rename_i t ht
    unfold isSatisfied at h
    simp only [Bool.and_eq_true, Bool.not_eq_true', List.all_eq_true] at h
    rw [(findTaskSpec_some sp n t ht).2] at h
    exact h
  · simp at h

/-- a row of the kept part has a row of the same name before -/
theorem mid_old (old mid : List TaskRow) (h : mid.map (·.name) = old.map (·.name)) (r : TaskRow) (hr : r ∈ mid) :
    ∃ y ∈ old, y.name = r.name := by
  have : r.name ∈ old.map (·.name) := by rw [← h]; exact List.mem_map.mpr ⟨r, hr, rfl⟩
  rcases List.mem_map.mp this with ⟨y, hy, hn⟩
  exact ⟨y, hy, hn⟩

/-- a row created by an event has all its requirements in SUCCESS right then; rows that were there
    keep theirs -/
theorem shape_reqOrder (sp : Spec) (old new : List TaskRow) (h : Shape sp old new) (hi : ReqOrder sp old) :
    ReqOrder sp new := by
  rcases h with ⟨mid, ns, rfl, hname, hsucc, _, hsat⟩
  intro r hr q hq
  rcases List.mem_append.mp hr with h1 | h1
  · apply hasSuccess_append
    rcases mid_old old mid hname r h1 with ⟨y, hy, hn⟩
    exact hsucc q (hi y hy q (by rw [hn]; exact hq))
  · rcases List.mem_map.mp h1 with ⟨n, hn, rfl⟩
    apply hasSuccess_append
    exact (satisfiedName_true sp _ n (hsat n hn).2).2 q hq

theorem shape_onlyNeeded (sp : Spec) (old new : List TaskRow) (h : Shape sp old new) (hi : OnlyNeeded sp old) :
    OnlyNeeded sp new := by
  rcases h with ⟨mid, ns, rfl, hname, _, _, hsat⟩
  intro r hr
  rcases List.mem_append.mp hr with h1 | h1
  · rcases mid_old old mid hname r h1 with ⟨y, hy, hn⟩
    rw [← hn]; exact hi y hy
  · rcases List.mem_map.mp h1 with ⟨n, hn, rfl⟩
    exact (hsat n hn).1

theorem shape_once (sp : Spec) (old new : List TaskRow) (h : Shape sp old new) (hi : Once old) : Once new := by
  rcases h with ⟨mid, ns, rfl, hname, _, hnd, hsat⟩
  unfold Once
  rw [List.map_append, hname, List.map_map]
  have hm : (ns.map ((fun x => x.name) ∘ newRow)) = ns := by
    induction ns with
    | nil => rfl
    | cons a as ih =>
      simp only [List.map_cons, Function.comp, newRow, List.cons.injEq, true_and]
      exact ih (List.nodup_cons.mp hnd).2 (fun n hn => hsat n (List.mem_cons.mpr (Or.inr hn)))
  rw [hm, List.nodup_append]
  refine ⟨hi, hnd, ?_⟩
  intro a ha b hb hab
  subst hab
  have := (satisfiedName_true sp _ a (hsat a hb).2).1
  have h2 : hasRow mid a = true := by rw [hasRow_iff, hname]; exact ha
  rw [this] at h2; exact absurd h2 (by decide)

/-- a row whose name had no row before the event is one of the appended ones: its requirements are
    all in SUCCESS after the event -/
theorem shape_new_row (sp : Spec) (old new : List TaskRow) (h : Shape sp old new) (r : TaskRow) (hr : r ∈ new)
    (hno : hasRow old r.name = false) : ∀ q ∈ reqsN sp r.name, hasSuccess new q = true := by
  rcases h with ⟨mid, ns, rfl, hname, _, _, hsat⟩
  intro q hq
  rcases List.mem_append.mp hr with h1 | h1
  · have : hasRow old r.name = true := by
      rw [hasRow_iff, ← hname]
      exact List.mem_map.mpr ⟨r, h1, rfl⟩
    rw [this] at hno; exact absurd hno (by decide)
  · rcases List.mem_map.mp h1 with ⟨n, hn, rfl⟩
    apply hasSuccess_append
    exact (satisfiedName_true sp _ n (hsat n hn).2).2 q hq

/-- a succeeded task stays succeeded -/
theorem shape_success_stays (sp : Spec) (old new : List TaskRow) (h : Shape sp old new) (q : String)
    (hq : hasSuccess old q = true) : hasSuccess new q = true := by
  rcases h with ⟨mid, ns, rfl, _, hsucc, _, _⟩
  exact hasSuccess_append _ _ q (hsucc q hq)

theorem run_snoc (sp : Spec) (evs : List Event) (e : Event) : run sp (evs ++ [e]) = step sp (run sp evs) e := by
  unfold run; rw [List.foldl_append]; rfl

/-- induction over event histories -/
theorem run_induction (sp : Spec) (P : World → Prop) (h0 : P init) (hs : ∀ w e, P w → P (step sp w e)) :
    ∀ evs, P (run sp evs) := by
  intro evs
  unfold run
  suffices ∀ w, P w → P (evs.foldl (step sp) w) from this init h0
  induction evs with
  | nil => intro w h; exact h
  | cons e es ih => intro w h; exact ih _ (hs w e h)

end Mistral.Reverse
