/-
The states of task executions in the engine core: an execution that is not completed is IDLE,
RUNNING, or a WAITING join.
-/
import Mistral.Lemmas.LiveStep
namespace Mistral.Engine.Live
open Mistral Mistral.Join Mistral.Engine

def SOKrow (sp : Spec) (r : TaskRow) : Prop :=
  isCompleted r.state = true ∨ r.state = .IDLE ∨ r.state = .RUNNING ∨
    (r.state = .WAITING ∧ (isJoin sp r.name).isSome = true)

def SOK (sp : Spec) (ts : List TaskRow) : Prop := ∀ r ∈ ts, SOKrow sp r

theorem SOK_setTask (sp : Spec) (ts : List TaskRow) (r : TaskRow) (h : SOK sp ts) (hr : SOKrow sp r) : SOK sp (setTask ts r) := by
  intro x hx
  rcases mem_setTask ts r x hx with h1 | h1
  · exact h x h1
  · subst h1; exact hr

theorem SOK_append (sp : Spec) (ts : List TaskRow) (r : TaskRow) (h : SOK sp ts) (hr : SOKrow sp r) : SOK sp (ts ++ [r]) := by
  intro x hx
  rcases List.mem_append.mp hx with h1 | h1
  · exact h x h1
  · have : x = r := by simpa using h1
    subst this; exact hr

theorem SOK_map (sp : Spec) (ts : List TaskRow) (f : TaskRow → TaskRow) (h : SOK sp ts)
    (hf : ∀ t, (f t).state = t.state ∧ (f t).name = t.name) : SOK sp (ts.map f) := by
  intro x hx
  rcases List.mem_map.mp hx with ⟨y, hy, rfl⟩
  have := hf y
  unfold SOKrow
  rw [this.1, this.2]
  exact h y hy

theorem dispatchOne_SOK (sp : Spec) (w : World) (c : Cmd) (h : SOK sp w.tasks) : SOK sp (dispatchOne sp w c).tasks := by
  unfold dispatchOne
  simp only
  split
  · exact h
  · split
    · exact h
    · split
      · rename_i k hk
        split
        · exact SOK_append sp _ _ h (Or.inr (Or.inr (Or.inr ⟨rfl, by show (isJoin sp c.target).isSome = true; rw [hk]; rfl⟩)))
        · rename_i r hr
          simp only
          split
          · refine SOK_setTask sp _ _ h (Or.inr (Or.inr (Or.inr ⟨rfl, ?_⟩)))
            show (isJoin sp r.name).isSome = true
            rw [(findByName_mem w _ r hr).2, hk]; rfl
          · exact h
      · exact SOK_append sp _ _ h (Or.inr (Or.inl rfl))

theorem dispatch_SOK (sp : Spec) (cs : List Cmd) : ∀ (w : World), SOK sp w.tasks → SOK sp (dispatch sp w cs).tasks := by
  unfold dispatch
  induction cs with
  | nil => intro w h; exact h
  | cons c rest ih => intro w h; simp only [List.foldl_cons]; exact ih _ (dispatchOne_SOK sp w c h)

theorem completeTask_SOK (sp : Spec) (w : World) (r : TaskRow) (s : St) (hs : isCompleted s = true)
    (h : SOK sp w.tasks) : SOK sp (completeTask sp w r s).tasks := by
  by_cases hc : isCompleted r.state = true
  · unfold completeTask
    simp only [hc, if_true]
    rw [(checkAffected_tasks sp w _).1]; exact h
  · rw [completeTask_unfold sp w r s (by simpa using hc)]
    rw [(checkAffected_tasks sp _ _).1]
    have h1 : SOK sp (setTask w.tasks (ctRow sp w r s)) := SOK_setTask sp _ _ h (Or.inl hs)
    split
    · exact h1
    · apply dispatch_SOK
      exact SOK_setTask sp _ _ h1 (Or.inl hs)

theorem step_SOK (sp : Spec) (w : World) (ev : Event) (h : SOK sp w.tasks) : SOK sp (step sp w ev).tasks := by
  cases ev with
  | start =>
    simp only [step]
    split
    · exact h
    · exact dispatch_SOK sp _ _ h
  | pause => exact h
  | stop t => exact h
  | execute t ok =>
    simp only [step]
    split <;> exact h
  | resume =>
    simp only [step]
    split
    · exact h
    · split
      · exact h
      · have hm : SOK sp (w.tasks.map fun t => if isCompleted t.state && !t.processed then { t with processed := true } else t) := by
          apply SOK_map sp _ _ h
          intro t; split <;> exact ⟨rfl, rfl⟩
        split
        · rw [checkAndComplete_tasks]; exact hm
        · apply dispatch_SOK
          exact dispatch_SOK sp _ _ hm
  | deliver it =>
    cases it with
    | postStartTask t f => simp only [step]; split <;> exact h
    | postRunAction t => simp only [step]; split <;> exact h
    | runAction t => simp only [step]; split <;> exact h
    | postCheck =>
      simp only [step]; split
      · exact h
      · rw [checkAndComplete_tasks]; exact h
    | postSchedRefresh t => simp only [step]; split; exact h; split <;> exact h
    | rpcResult t ok =>
      simp only [step]
      split
      · exact h
      · split
        · exact h
        · exact completeTask_SOK sp _ _ _ (by cases ok <;> decide) h
    | rpcStartTask t f =>
      simp only [step]
      split
      · exact h
      · split
        · exact h
        · split
          · split
            · exact SOK_setTask sp _ _ h (Or.inr (Or.inr (Or.inl rfl)))
            · split
              · split <;> exact h
              · rw [(checkAffected_tasks sp _ _).1]; exact h
          · split
            · exact h
            · split
              · rw [(checkAffected_tasks sp _ _).1]; exact h
              · split
                · exact h
                · exact SOK_setTask sp _ _ h (Or.inr (Or.inr (Or.inl rfl)))
    | jobRefresh t =>
      simp only [step]
      split
      · exact h
      · split
        · exact h
        · rename_i r hr
          have hm := findTask_mem _ _ _ hr
          have hrow : ∀ tr, SOKrow sp { r with trig := tr } := fun tr => h r hm
          split
          · exact h
          · split
            · exact h
            · split
              · exact h
              · split
                · exact h
                · split
                  · split <;> exact SOK_setTask sp _ _ (SOK_setTask sp _ _ h (hrow _)) (Or.inr (Or.inr (Or.inl rfl)))
                  · split
                    · exact completeTask_SOK sp _ _ _ (by decide) (SOK_setTask sp _ _ h (hrow _))
                    · exact SOK_setTask sp _ _ h (hrow _)

end Mistral.Engine.Live
