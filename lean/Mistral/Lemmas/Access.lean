/- Helper lemmas for C15 (flag-level facts about Model.Access.exec). -/
import Mistral.Model.Access
namespace Mistral.Access

/-- a specification of `_secure_query` that has all the reviewed clauses -/
def SecureSpec.Good (s : SecureSpec) : Prop :=
  s.ownProject = true ∧ s.publicScope = true ∧ s.sharedIds = true ∧ s.accType = true ∧
  s.accStatus = true ∧ s.accMember = true ∧
  s.shareTypes = [("WorkflowDefinition", "workflow"), ("Workbook", "workbook")]

theorem lookup_shareTag (rtype : String) :
    List.lookup rtype [("WorkflowDefinition", "workflow"), ("Workbook", "workbook")] = shareTag rtype := by
  unfold shareTag
  by_cases h1 : rtype = "WorkflowDefinition"
  · subst h1; simp [List.lookup]
  · by_cases h2 : rtype = "Workbook"
    · subst h2; simp [List.lookup]
    · have e1 : (rtype == "WorkflowDefinition") = false := by simpa using h1
      have e2 : (rtype == "Workbook") = false := by simpa using h2
      simp [List.lookup, e1, e2, h1, h2]

theorem memberGrants_iff (s : SecureSpec) (hs : s.Good) (a : Actor) (tag : String) (r : Resource)
    (m : Member) : memberGrants s a tag r m = true ↔ Grants a.project tag r m := by
  obtain ⟨_, _, _, h4, h5, h6, _⟩ := hs
  simp [memberGrants, Grants, h4, h5, h6]
  constructor
  · rintro ⟨⟨⟨h1, h2⟩, h3⟩, h4⟩; exact ⟨h1, h2, h4, h3⟩
  · rintro ⟨h1, h2, h3, h4⟩; exact ⟨⟨⟨h1, h2⟩, h4⟩, h3⟩

/-- the translated filter of `_secure_query` is exactly the statement's visibility -/
theorem secureVisible_iff (s : SecureSpec) (hs : s.Good) (db : Db) (a : Actor) (r : Resource)
    (hm : s.secureModels.contains r.rtype = true) :
    secureVisible s db a r = true ↔ Visible db a r := by
  have hg := memberGrants_iff s hs a
  obtain ⟨h1, h2, h3, _, _, _, h7⟩ := hs
  unfold secureVisible Visible SharedWith
  rw [if_pos hm, h7, lookup_shareTag]
  simp only [h1, h2, h3, Bool.true_and, Bool.or_eq_true, beq_iff_eq]
  constructor
  · rintro ((h | h) | h)
    · exact Or.inl h
    · exact Or.inr (Or.inl h)
    · right; right
      cases ht : shareTag r.rtype with
      | none => simp [ht] at h
      | some tag =>
        simp only [ht, List.any_eq_true] at h
        obtain ⟨m, hm1, hm2⟩ := h
        exact ⟨tag, rfl, m, hm1, (hg tag r m).mp hm2⟩
  · rintro (h | h | ⟨tag, ht, m, hm1, hm2⟩)
    · exact Or.inl (Or.inl h)
    · exact Or.inl (Or.inr h)
    · right
      simp only [ht, List.any_eq_true]
      exact ⟨m, hm1, (hg tag r m).mpr hm2⟩

def ReadMode.safe : ReadMode → Bool
  | .secure | .admin | .adminOrParam | .param => true
  | _ => false

/-- with a safe lookup mode, a non-admin who did not pass `insecure` only gets rows the secure
    filter lets through -/
theorem allowed_secure (s : SecureSpec) (fn : FnInfo) (db : Db) (a : Actor) (r : Resource)
    (hsafe : fn.read.safe = true) (hna : a.isAdmin = false)
    (h : allowed s fn db a false r = true) : secureVisible s db a r = true := by
  unfold allowed at h
  cases hr : fn.read <;> simp [hr, hna, ReadMode.safe] at h hsafe <;> exact h

theorem mem_cands {s : SecureSpec} {fn : FnInfo} {db : Db} {a : Actor} {args : Args} {r : Resource}
    (h : r ∈ cands s fn db a args) :
    r ∈ db.resources ∧ r.rtype = fn.model ∧ allowed s fn db a args.insecure r = true := by
  unfold cands at h
  simp only [List.mem_filter, Bool.and_eq_true, beq_iff_eq] at h
  exact ⟨h.1, h.2.1.1, h.2.2⟩

theorem target_mem {cs : List Resource} {pick : Nat} {t : Resource} (h : target cs pick = some t) :
    t ∈ cs := by
  unfold target at h
  split at h
  · rename_i r hr
    cases h
    exact List.mem_of_find?_eq_some hr
  · exact List.mem_of_mem_head? h

end Mistral.Access

namespace Mistral.Access

def Kind.isRead : Kind → Bool
  | .get | .load | .list | .count => true
  | _ => false

def Kind.isMut : Kind → Bool
  | .update | .delete | .deleteAll | .createOrUpdate => true
  | _ => false

theorem resultIds_missing (fn : FnInfo) : resultIds (missing fn) = [] := by
  unfold missing; split <;> rfl

/-- every candidate of a safe lookup by a non-admin (no `insecure`) is visible -/
theorem cands_visible (s : SecureSpec) (hs : s.Good) (fn : FnInfo) (db : Db) (a : Actor) (args : Args)
    (hm : s.secureModels.contains fn.model = true) (hsafe : fn.read.safe = true)
    (hna : a.isAdmin = false) (hins : args.insecure = false) :
    ∀ r ∈ cands s fn db a args, r ∈ db.resources ∧ r.rtype = fn.model ∧ Visible db a r := by
  intro r hr
  obtain ⟨h1, h2, h3⟩ := mem_cands hr
  rw [hins] at h3
  refine ⟨h1, h2, ?_⟩
  have := allowed_secure s fn db a r hsafe hna h3
  exact (secureVisible_iff s hs db a r (by rw [h2]; exact hm)).mp this

/-- G1: what a read returns -/
theorem read_ids_visible (s : SecureSpec) (o : OwnerSpec) (f : ForcingSpec) (hs : s.Good) (fn : FnInfo)
    (db : Db) (a : Actor) (args : Args)
    (hm : s.secureModels.contains fn.model = true) (hsafe : fn.read.safe = true)
    (hk : fn.kind.isRead = true) (hna : a.isAdmin = false) (hins : args.insecure = false) :
    ∀ i ∈ resultIds (exec s o f fn db a args).1,
      ∃ r ∈ db.resources, r.id = i ∧ r.rtype = fn.model ∧ Visible db a r := by
  have hc := cands_visible s hs fn db a args hm hsafe hna hins
  intro i hi
  have key : ∀ i ∈ (cands s fn db a args).map (·.id),
      ∃ r ∈ db.resources, r.id = i ∧ r.rtype = fn.model ∧ Visible db a r := by
    intro i hi
    obtain ⟨r, hr, rfl⟩ := List.mem_map.mp hi
    obtain ⟨h1, h2, h3⟩ := hc r hr
    exact ⟨r, h1, rfl, h2, h3⟩
  unfold exec at hi
  cases hkind : fn.kind <;> simp [hkind, Kind.isRead] at hk hi
  · split at hi
    · simp [resultIds_missing] at hi
    · exact key i (by simpa [resultIds] using hi)
  · split at hi
    · simp [resultIds_missing] at hi
    · exact key i (by simpa [resultIds] using hi)
  · exact key i (by simpa [resultIds] using hi)
  · simp [resultIds] at hi

/-- a count is the number of candidates, all of which are visible -/
theorem count_is_cands (s : SecureSpec) (o : OwnerSpec) (f : ForcingSpec) (fn : FnInfo) (db : Db)
    (a : Actor) (args : Args) (hk : fn.kind = .count) :
    (exec s o f fn db a args).1 = .count (cands s fn db a args).length := by
  unfold exec; simp [hk]

theorem mem_map_ite_of_not {α} [DecidableEq α] (l : List α) (p : α → Bool) (g : α → α) (r : α)
    (hr : r ∈ l) (hp : p r = false) : r ∈ l.map (fun x => if p x then g x else x) := by
  refine List.mem_map.mpr ⟨r, hr, ?_⟩
  simp [hp]

/-- rows outside the candidate set survive doUpdate -/
theorem doUpdate_keeps (s : SecureSpec) (o : OwnerSpec) (f : ForcingSpec) (fn : FnInfo) (db : Db)
    (a : Actor) (args : Args) (r : Resource) (hr : r ∈ db.resources)
    (hn : r ∉ cands s fn db a args) : r ∈ (doUpdate s o f fn db a args).2.resources := by
  unfold doUpdate
  simp only
  split
  · split
    · exact hr
    · refine List.mem_map.mpr ⟨r, hr, ?_⟩
      simp [hn]
  · split
    · exact hr
    · rename_i t ht
      split
      · exact hr
      · refine List.mem_map.mpr ⟨r, hr, ?_⟩
        have hne : (r == t) = false := by
          have := target_mem ht
          simp only [beq_eq_false_iff_ne, ne_eq]
          intro e; subst e; exact hn this
        simp [hne]

theorem doDelete_keeps (s : SecureSpec) (o : OwnerSpec) (fn : FnInfo) (db : Db)
    (a : Actor) (args : Args) (r : Resource) (hr : r ∈ db.resources)
    (hn : r ∉ cands s fn db a args) : r ∈ (doDelete s o fn db a args).2.resources := by
  unfold doDelete
  simp only
  split
  · split
    · exact hr
    · refine List.mem_filter.mpr ⟨hr, ?_⟩
      simp [hn]
  · split
    · exact hr
    · rename_i t ht
      split
      · exact hr
      · refine List.mem_filter.mpr ⟨hr, ?_⟩
        have hne : (r == t) = false := by
          have := target_mem ht
          simp only [beq_eq_false_iff_ne, ne_eq]
          intro e; subst e; exact hn this
        simp [hne]

theorem doCreate_keeps (f : ForcingSpec) (fn : FnInfo) (db : Db) (a : Actor) (args : Args)
    (r : Resource) (hr : r ∈ db.resources) : r ∈ (doCreate f fn db a args).2.resources := by
  unfold doCreate; simp [hr]

/-- G2: a mutator with a safe lookup never touches a row the caller cannot see -/
theorem mutation_confined (s : SecureSpec) (o : OwnerSpec) (f : ForcingSpec) (hs : s.Good) (fn : FnInfo)
    (db : Db) (a : Actor) (args : Args)
    (hm : s.secureModels.contains fn.model = true) (hsafe : fn.read.safe = true)
    (hna : a.isAdmin = false) (hins : args.insecure = false)
    (r : Resource) (hr : r ∈ db.resources) (hv : ¬ Visible db a r) :
    r ∈ (exec s o f fn db a args).2.resources := by
  have hn : r ∉ cands s fn db a args := fun h =>
    hv (cands_visible s hs fn db a args hm hsafe hna hins r h).2.2
  unfold exec
  cases hkind : fn.kind <;> simp only
  all_goals first
    | exact hr
    | exact doUpdate_keeps s o f fn db a args r hr hn
    | exact doDelete_keeps s o fn db a args r hr hn
    | exact doCreate_keeps f fn db a args r hr
    | (split
       · exact doCreate_keeps f fn db a args r hr
       · exact doUpdate_keeps s o f fn db a args r hr hn)
    | (split <;> exact hr)

def OwnerSpec.Good (o : OwnerSpec) : Prop :=
  o.adminExempt = true ∧ o.projectMismatch = true ∧ o.onlyIfNotPublic = false

theorem ownerGuard_foreign (o : OwnerSpec) (ho : o.Good) (a : Actor) (t : Resource)
    (h : t.project ≠ a.project) (hna : a.isAdmin = false) (sys : Bool) :
    ownerGuard o sys a t = some .notAllowed := by
  obtain ⟨h1, h2, h3⟩ := ho
  unfold ownerGuard
  simp [h1, h2, h3, hna, h]

theorem ownerGuard_outcomes (o : OwnerSpec) (sys : Bool) (a : Actor) (t : Resource) (e : Outcome)
    (h : ownerGuard o sys a t = some e) : e = .notAllowed ∨ e = .systemProtected := by
  unfold ownerGuard at h
  split at h
  · left; cases h; rfl
  · split at h
    · right; cases h; rfl
    · cases h

/-- rows of other projects survive an object-level update guarded by check_db_obj_access -/
theorem doUpdate_guarded (s : SecureSpec) (o : OwnerSpec) (f : ForcingSpec) (ho : o.Good) (fn : FnInfo)
    (db : Db) (a : Actor) (args : Args) (hoc : fn.ownerCheck = true) (hb : fn.bulk = false)
    (hna : a.isAdmin = false) (r : Resource) (hr : r ∈ db.resources) (hp : r.project ≠ a.project) :
    r ∈ (doUpdate s o f fn db a args).2.resources := by
  unfold doUpdate
  simp only [hb, hoc, Bool.false_eq_true, ↓reduceIte]
  split
  · exact hr
  · rename_i t ht
    by_cases e : t.project = a.project
    · split
      · exact hr
      · refine List.mem_map.mpr ⟨r, hr, ?_⟩
        have hne : (r == t) = false := by
          simp only [beq_eq_false_iff_ne, ne_eq]
          intro e2; subst e2; exact hp e
        simp [hne]
    · simp [ownerGuard_foreign o ho a t e hna fn.sysCheck, hr]

theorem doDelete_guarded (s : SecureSpec) (o : OwnerSpec) (ho : o.Good) (fn : FnInfo)
    (db : Db) (a : Actor) (args : Args) (hoc : fn.ownerCheck = true) (hb : fn.bulk = false)
    (hna : a.isAdmin = false) (r : Resource) (hr : r ∈ db.resources) (hp : r.project ≠ a.project) :
    r ∈ (doDelete s o fn db a args).2.resources := by
  unfold doDelete
  simp only [hb, hoc, Bool.false_eq_true, ↓reduceIte]
  split
  · exact hr
  · rename_i t ht
    by_cases e : t.project = a.project
    · split
      · exact hr
      · refine List.mem_filter.mpr ⟨hr, ?_⟩
        have hne : (r == t) = false := by
          simp only [beq_eq_false_iff_ne, ne_eq]
          intro e2; subst e2; exact hp e
        simp [hne]
    · simp [ownerGuard_foreign o ho a t e hna fn.sysCheck, hr]

/-- G3: with the owner check, only own rows change -/
theorem mutation_guarded (s : SecureSpec) (o : OwnerSpec) (f : ForcingSpec) (ho : o.Good) (fn : FnInfo)
    (db : Db) (a : Actor) (args : Args) (hoc : fn.ownerCheck = true) (hb : fn.bulk = false)
    (hk : fn.kind = .update ∨ fn.kind = .delete ∨ fn.kind = .createOrUpdate)
    (hna : a.isAdmin = false) (r : Resource) (hr : r ∈ db.resources) (hp : r.project ≠ a.project) :
    r ∈ (exec s o f fn db a args).2.resources := by
  unfold exec
  rcases hk with hk | hk | hk <;> simp only [hk]
  · exact doUpdate_guarded s o f ho fn db a args hoc hb hna r hr hp
  · exact doDelete_guarded s o ho fn db a args hoc hb hna r hr hp
  · split
    · exact doCreate_keeps f fn db a args r hr
    · exact doUpdate_guarded s o f ho fn db a args hoc hb hna r hr hp

/-- G4: the project of a created row -/
theorem create_project (s : SecureSpec) (o : OwnerSpec) (f : ForcingSpec) (fn : FnInfo) (db : Db)
    (a : Actor) (args : Args) (hk : fn.kind = .create)
    (h1 : f.setForced = true) (h2 : f.hooksRegistered = true) (h3 : f.defaultCaller = true)
    (h4 : f.unhooked.contains fn.model = false) :
    (exec s o f fn db a args).1 = .created args.newId a.project ∧
    ∃ row, (exec s o f fn db a args).2.resources = db.resources ++ [row] ∧ row.project = a.project
      ∧ row.id = args.newId := by
  unfold exec doCreate createdProject projectOnSet
  simp only [hk, h1, h2, h3, h4]
  cases args.givenProject <;> simp

/-! resource members -/

theorem memberUpdate_only_member (db : Db) (a : Actor) (resId : Nat) (rt : String) (member : Nat)
    (st : Status) (m : Member) (hm : m ∈ db.members) (hne : m.member ≠ a.project) :
    m ∈ (memberUpdate db a resId rt member st).2.members := by
  unfold memberUpdate
  split
  · exact hm
  · simp only
    split
    · exact hm
    · rename_i t ht
      refine List.mem_map.mpr ⟨m, hm, ?_⟩
      have h := List.find?_some ht
      simp only [Bool.and_eq_true, beq_iff_eq] at h
      have : (m == t) = false := by
        simp only [beq_eq_false_iff_ne, ne_eq]
        intro e; subst e; exact hne h.1.2
      simp [this]

theorem memberDelete_only_creator (db : Db) (a : Actor) (resId : Nat) (rt : String) (member : Nat)
    (m : Member) (hm : m ∈ db.members) (hne : m.owner ≠ a.project) :
    m ∈ (memberDelete db a resId rt member).2.members := by
  unfold memberDelete
  simp only
  split
  · refine List.mem_filter.mpr ⟨hm, ?_⟩
    simp [hne]
  · exact hm

end Mistral.Access
