import Mistral.Lemmas.Reverse
namespace Mistral.Reverse
open Mistral

/-! ### liveness bookkeeping: every unfinished row has a pending delivery that will move it on -/

def about : Item → Option String
  | .postStartTask t => some t
  | .rpcStartTask t => some t
  | .postRunAction t => some t
  | .runAction t => some t
  | .rpcResult t _ => some t
  | .postCheck => none
  | .postStartExisting t => some t
  | .rpcStartExisting t => some t

/-- 0: on the way to start the task; 1: on the way to its result; 2: completion check -/
def kind : Item → Nat
  | .postStartTask _ => 0
  | .rpcStartTask _ => 0
  | .postRunAction _ => 1
  | .runAction _ => 1
  | .rpcResult _ _ => 1
  | .postCheck => 2
  | .postStartExisting _ => 3
  | .rpcStartExisting _ => 3

/-- what a row in state `s` waits for -/
def need : St → Option Nat
  | .IDLE => some 0
  | .RUNNING => some 1
  | _ => none

/-- a row (name, state) that waits for something has a pending delivery of that kind -/
def Wit (p : List Item) (n : String) (s : St) : Prop :=
  ∀ k, need s = some k → ∃ x ∈ p, about x = some n ∧ kind x = k

theorem mem_removeFirst_of_ne (l : List Item) (it x : Item) (h : x ∈ l) (hne : x ≠ it) :
    x ∈ removeFirst l it := by
  induction l with
  | nil => simp at h
  | cons a as ih =>
    unfold removeFirst
    split
    · rename_i heq
      rcases List.mem_cons.mp h with rfl | h
      · exact absurd (by simpa using heq) hne
      · exact h
    · rcases List.mem_cons.mp h with rfl | h
      · simp
      · exact List.mem_cons.mpr (Or.inr (ih h))

theorem wit_none (p : List Item) (n : String) (s : St) (h : need s = none) : Wit p n s := by
  intro k hk; rw [h] at hk; simp at hk

theorem wit_completed (p : List Item) (n : String) (s : St) (h : isCompleted s = true) : Wit p n s := by
  apply wit_none
  cases s <;> first | rfl | (revert h; decide)

theorem wit_of_mem (p : List Item) (n : String) (s : St) (x : Item) (hx : x ∈ p) (ha : about x = some n)
    (hk : need s = some (kind x) ∨ need s = none) : Wit p n s := by
  intro k hk'
  rcases hk with hk | hk
  · rw [hk] at hk'
    exact ⟨x, hx, ha, by simpa using hk'⟩
  · rw [hk] at hk'; simp at hk'

/-- removing a delivery that is not what the row waits for (and adding others) keeps its witness -/
theorem wit_keep (p q : List Item) (it : Item) (n : String) (s : St) (h : Wit p n s)
    (hne : about it = some n → need s ≠ some (kind it)) : Wit (removeFirst p it ++ q) n s := by
  intro k hk
  rcases h k hk with ⟨x, hx, ha, hkx⟩
  refine ⟨x, List.mem_append.mpr (Or.inl (mem_removeFirst_of_ne p it x hx ?_)), ha, hkx⟩
  intro he; subst he
  exact hne ha (by rw [hk, hkx])

/-- a delivery that is replaced by the next one of the same kind about the same task -/
theorem wit_forward (p : List Item) (it y : Item) (n : String) (s : St) (h : Wit p n s)
    (ha : about y = about it) (hk : kind y = kind it) : Wit (removeFirst p it ++ [y]) n s := by
  by_cases hc : about it = some n ∧ need s = some (kind it)
  · exact wit_of_mem _ n s y (by simp) (by rw [ha]; exact hc.1) (Or.inl (by rw [hk]; exact hc.2))
  · exact wit_keep p [y] it n s h (fun h1 h2 => hc ⟨h1, h2⟩)

theorem wit_append (p q : List Item) (n : String) (s : St) (h : Wit p n s) : Wit (p ++ q) n s := by
  intro k hk
  rcases h k hk with ⟨x, hx, ha, hkx⟩
  exact ⟨x, List.mem_append.mpr (Or.inl hx), ha, hkx⟩

/-! ### the invariant -/

/-- facts about the committed rows -/
structure Static (sp : Spec) (w : World) : Prop where
  states : ∀ r ∈ w.tasks, r.state = .IDLE ∨ r.state = .RUNNING ∨ r.state = .SUCCESS ∨ r.state = .ERROR
  wfStates : w.wf = .IDLE ∨ w.wf = .RUNNING ∨ w.wf = .SUCCESS ∨ w.wf = .ERROR
  notStarted : w.wf = .IDLE → w.tasks = []
  done : isCompleted w.wf = true → ∀ r ∈ w.tasks, isCompleted r.state = true
  success : w.wf = .SUCCESS → ∀ r ∈ w.tasks, r.state = .SUCCESS
  error : w.wf = .ERROR → ∃ r ∈ w.tasks, r.state = .ERROR
  /-- once started, no needed task is startable and not started -/
  sat : w.wf ≠ .IDLE → ∃ nd, needed sp = some nd ∧ ∀ n ∈ nd, satisfiedName sp w.tasks n = false

/-- facts about the pending deliveries -/
structure Pend (w : World) : Prop where
  wit : ∀ r ∈ w.tasks, Wit w.pending r.name r.state
  check : w.wf = .RUNNING → (∀ r ∈ w.tasks, isCompleted r.state = true) → Item.postCheck ∈ w.pending
  quiet : w.wf = .IDLE → w.pending = []

theorem static_congr (sp : Spec) (w w' : World) (h1 : w'.wf = w.wf) (h2 : w'.tasks = w.tasks)
    (h : Static sp w) : Static sp w' :=
  ⟨by rw [h2]; exact h.states, by rw [h1]; exact h.wfStates, by rw [h1, h2]; exact h.notStarted,
   by rw [h1, h2]; exact h.done, by rw [h1, h2]; exact h.success, by rw [h1, h2]; exact h.error,
   by rw [h1, h2]; exact h.sat⟩

theorem completed_of_states (s : St) (h : s = .IDLE ∨ s = .RUNNING ∨ s = .SUCCESS ∨ s = .ERROR)
    (hc : isCompleted s = true) : s = .SUCCESS ∨ s = .ERROR := by
  rcases h with h | h | h | h
  · subst h; revert hc; decide
  · subst h; revert hc; decide
  · exact Or.inl h
  · exact Or.inr h

theorem static_check (sp : Spec) (w : World) (h : Static sp w) (hst : w.wf ≠ .IDLE) :
    Static sp (checkAndComplete w) := by
  unfold checkAndComplete
  split
  · exact h
  · rename_i hpc
    split
    · exact h
    · rename_i hinc
      have hall : ∀ r ∈ w.tasks, isCompleted r.state = true := by
        intro r hr
        cases hc : isCompleted r.state with
        | true => rfl
        | false => exact absurd (List.any_eq_true.mpr ⟨r, hr, by simp [hc]⟩) hinc
      split
      · rename_i hcan
        rcases List.any_eq_true.mp hcan with ⟨r, hr, hs⟩
        have hs' : r.state = .CANCELLED := by simpa using hs
        rcases h.states r hr with h1 | h1 | h1 | h1 <;> (rw [h1] at hs'; cases hs')
      · split
        · rename_i hok
          refine ⟨h.states, Or.inr (Or.inr (Or.inl rfl)), (fun hh => by cases hh), fun _ => hall, ?_,
            (fun hh => by cases hh), fun _ => h.sat hst⟩
          intro _ r hr
          rcases completed_of_states _ (h.states r hr) (hall r hr) with h1 | h1
          · exact h1
          · unfold allErrorsHandled at hok
            have : w.tasks.any (fun t => t.state == St.ERROR) = true :=
              List.any_eq_true.mpr ⟨r, hr, by simp [h1]⟩
            rw [this] at hok; exact absurd hok (by decide)
        · rename_i hok
          refine ⟨h.states, Or.inr (Or.inr (Or.inr rfl)), (fun hh => by cases hh), fun _ => hall,
            (fun hh => by cases hh), ?_, fun _ => h.sat hst⟩
          intro _
          unfold allErrorsHandled at hok
          cases ha : w.tasks.any (fun t => t.state == St.ERROR) with
          | false => rw [ha] at hok; exact absurd rfl hok
          | true =>
            rcases List.any_eq_true.mp ha with ⟨r, hr, hs⟩
            exact ⟨r, hr, by simpa using hs⟩

theorem checkAndComplete_wf_idle (w : World) (h : (checkAndComplete w).wf = .IDLE) : w.wf = .IDLE := by
  unfold checkAndComplete at h
  repeat' split at h
  all_goals first | exact h | cases h

/-- after the completion check the `check` obligation holds by itself -/
theorem pend_check (w : World) (hw : ∀ r ∈ w.tasks, Wit w.pending r.name r.state)
    (hq : w.wf = .IDLE → w.pending = []) : Pend (checkAndComplete w) := by
  refine ⟨by rw [checkAndComplete_tasks, checkAndComplete_pending]; exact hw, ?_, ?_⟩
  · intro hwf hall
    rw [checkAndComplete_tasks] at hall
    unfold checkAndComplete at hwf
    split at hwf
    · rename_i hpc
      rw [hwf] at hpc; exact absurd hpc (by decide)
    · split at hwf
      · rename_i hinc
        rcases List.any_eq_true.mp hinc with ⟨r, hr, hs⟩
        rw [hall r hr] at hs; exact absurd hs (by decide)
      · repeat' split at hwf
        all_goals cases hwf
  · intro hwf
    rw [checkAndComplete_pending]
    exact hq (checkAndComplete_wf_idle w hwf)

/-! ### rows under `Once` -/

theorem once_tail (a : TaskRow) (as : List TaskRow) (h : Once (a :: as)) : Once as ∧ a.name ∉ as.map (·.name) := by
  unfold Once at h
  simp only [List.map_cons] at h
  exact ⟨(List.nodup_cons.mp h).2, (List.nodup_cons.mp h).1⟩

theorem find_mem (ts : List TaskRow) (t : String) (r : TaskRow) (h : ts.find? (·.name == t) = some r) :
    r ∈ ts ∧ r.name = t :=
  ⟨List.mem_of_find?_eq_some h, by simpa using List.find?_some h⟩

theorem find_none_name (ts : List TaskRow) (t : String) (h : ts.find? (·.name == t) = none) :
    ∀ r ∈ ts, r.name ≠ t := by
  intro r hr he
  have := List.find?_eq_none.mp h r hr
  simp [he] at this

/-- with one row per name, an update touches exactly the found row -/
theorem mem_updRow_once (ts : List TaskRow) (t : String) (f : TaskRow → TaskRow) (ho : Once ts) (x : TaskRow)
    (h : x ∈ updRow ts t f) :
    (x ∈ ts ∧ x.name ≠ t) ∨ ∃ y, ts.find? (·.name == t) = some y ∧ x = f y := by
  induction ts with
  | nil => simp [updRow] at h
  | cons a as ih =>
    rcases once_tail a as ho with ⟨ho', hna⟩
    unfold updRow at h
    by_cases ha : (a.name == t) = true
    · simp only [ha, if_true] at h
      rcases List.mem_cons.mp h with rfl | h
      · exact Or.inr ⟨a, by simp [List.find?, ha], rfl⟩
      · left
        refine ⟨List.mem_cons.mpr (Or.inr h), ?_⟩
        intro hx
        apply hna
        have : a.name = t := by simpa using ha
        rw [this, ← hx]; exact List.mem_map.mpr ⟨x, h, rfl⟩
    · simp only [ha] at h
      rcases List.mem_cons.mp h with rfl | h
      · exact Or.inl ⟨by simp, by simpa using ha⟩
      · rcases ih ho' h with ⟨h1, h2⟩ | ⟨y, hy, rfl⟩
        · exact Or.inl ⟨List.mem_cons.mpr (Or.inr h1), h2⟩
        · exact Or.inr ⟨y, by simp [List.find?, ha, hy], rfl⟩

theorem mem_updRow_found (ts : List TaskRow) (t : String) (f : TaskRow → TaskRow) (r : TaskRow)
    (h : ts.find? (·.name == t) = some r) : f r ∈ updRow ts t f := by
  induction ts with
  | nil => simp at h
  | cons a as ih =>
    unfold updRow
    by_cases ha : (a.name == t) = true
    · simp only [ha, if_true]
      have : a = r := by simpa [List.find?, ha] using h
      rw [this]; simp
    · simp only [ha]
      exact List.mem_cons.mpr (Or.inr (ih (by simpa [List.find?, ha] using h)))

theorem hasSuccess_updRow_rev (ts : List TaskRow) (t : String) (f : TaskRow → TaskRow)
    (hn : ∀ x, (f x).name = x.name) (hs : ∀ x, (f x).state = .SUCCESS → x.state = .SUCCESS) (q : String)
    (h : hasSuccess (updRow ts t f) q = true) : hasSuccess ts q = true := by
  rw [hasSuccess_iff] at h ⊢
  rcases h with ⟨x, hx, h1, h2⟩
  rcases mem_updRow ts t f x hx with h3 | ⟨y, hy, rfl⟩
  · exact ⟨x, h3, h1, h2⟩
  · exact ⟨y, hy, by rw [← hn]; exact h1, hs y h2⟩

theorem hasRow_append (a b : List TaskRow) (n : String) : hasRow (a ++ b) n = (hasRow a n || hasRow b n) := by
  unfold hasRow; rw [List.any_append]

theorem hasRow_new (ns : List String) (n : String) (h : n ∈ ns) : hasRow (ns.map newRow) n = true := by
  rw [hasRow_iff, List.map_map]
  exact List.mem_map.mpr ⟨n, h, rfl⟩

theorem satisfiedName_hasRow (sp : Spec) (rows : List TaskRow) (n : String) (h : hasRow rows n = true) :
    satisfiedName sp rows n = false := by
  unfold satisfiedName
  split
  · rename_i t ht
    unfold isSatisfied
    rw [(findTaskSpec_some sp n t ht).2, h]; rfl
  · rfl

/-- appending fresh IDLE rows makes no unsatisfied task satisfied -/
theorem satisfiedName_false_append_new (sp : Spec) (rows : List TaskRow) (ns : List String) (n : String)
    (h : satisfiedName sp rows n = false) : satisfiedName sp (rows ++ ns.map newRow) n = false := by
  unfold satisfiedName at h ⊢
  split
  · rename_i t ht
    rw [ht] at h
    simp only at h
    unfold isSatisfied at h ⊢
    rw [hasRow_append]
    have : (requiresOf sp t).all (hasSuccess (rows ++ ns.map newRow)) = (requiresOf sp t).all (hasSuccess rows) := by
      apply List.all_congr rfl
      intro q; exact hasSuccess_append_new rows ns q
    rw [this]
    cases h1 : hasRow rows t.name with
    | true => simp
    | false =>
      rw [h1] at h
      simp only [Bool.not_false, Bool.true_and] at h
      rw [h]; simp
  · rfl

/-- the rows after the controller's commands were dispatched leave no needed task startable -/
theorem sat_after_dispatch (sp : Spec) (rows : List TaskRow) (ns nd : List String)
    (hcomp : ∀ n ∈ nd, satisfiedName sp rows n = true → n ∈ ns) :
    ∀ n ∈ nd, satisfiedName sp (rows ++ ns.map newRow) n = false := by
  intro n hn
  cases hs : satisfiedName sp rows n with
  | true =>
    apply satisfiedName_hasRow
    rw [hasRow_append, hasRow_new ns n (hcomp n hn hs)]; simp
  | false => exact satisfiedName_false_append_new sp rows ns n hs

theorem satisfiedName_updRow_eq (sp : Spec) (ts : List TaskRow) (t : String) (f : TaskRow → TaskRow)
    (hn : ∀ x, (f x).name = x.name)
    (hs : ∀ r, ts.find? (·.name == t) = some r → r.state = .SUCCESS → (f r).state = .SUCCESS)
    (hr : ∀ x, (f x).state = .SUCCESS → x.state = .SUCCESS) (n : String) :
    satisfiedName sp (updRow ts t f) n = satisfiedName sp ts n := by
  unfold satisfiedName
  split
  · unfold isSatisfied
    rw [hasRow_updRow ts t f hn]
    congr 1
    apply List.all_congr rfl
    intro q
    rw [Bool.eq_iff_iff]
    exact ⟨hasSuccess_updRow_rev ts t f hn hr q, hasSuccess_updRow ts t f hn hs q⟩
  · rfl

/-! ### every event preserves the invariant -/

theorem contains_nil_false (it : Item) (h : ([] : List Item).contains it = true) : False := by
  simp at h

/-- deliveries that only move an item forward (post-commit start → RPC, post-commit run → executor,
    executor → result) -/
theorem live_forward (sp : Spec) (w : World) (it y : Item) (hs : Static sp w) (hp : Pend w)
    (hc : w.pending.contains it = true) (ha : about y = about it) (hk : kind y = kind it)
    (hne : it ≠ .postCheck) :
    Static sp { w with pending := removeFirst w.pending it ++ [y] } ∧
    Pend { w with pending := removeFirst w.pending it ++ [y] } := by
  refine ⟨static_congr sp w _ rfl rfl hs, ?_, ?_, ?_⟩
  · intro r hr; exact wit_forward _ it y _ _ (hp.wit r hr) ha hk
  · intro hwf hall
    exact List.mem_append.mpr (Or.inl (mem_removeFirst_of_ne _ it _ (hp.check hwf hall) (Ne.symm hne)))
  · intro hwf
    have := hp.quiet hwf
    rw [this] at hc; exact (contains_nil_false it hc).elim

theorem live_postCheck (sp : Spec) (w : World) (hs : Static sp w) (hp : Pend w)
    (hc : w.pending.contains .postCheck = true) :
    Static sp (checkAndComplete { w with pending := removeFirst w.pending .postCheck }) ∧
    Pend (checkAndComplete { w with pending := removeFirst w.pending .postCheck }) := by
  have hst : w.wf ≠ .IDLE := by
    intro h; have := hp.quiet h; rw [this] at hc; exact contains_nil_false _ hc
  refine ⟨static_check sp _ (static_congr sp w _ rfl rfl hs) hst, pend_check _ ?_ ?_⟩
  · intro r hr
    have := wit_keep w.pending [] .postCheck r.name r.state (hp.wit r hr) (by intro h; cases h)
    simpa using this
  · intro h; exact absurd h hst

def setRunning (x : TaskRow) : TaskRow := { x with state := .RUNNING }

theorem live_started (sp : Spec) (w : World) (t : String) (r : TaskRow) (hs : Static sp w) (hp : Pend w)
    (ho : Once w.tasks) (hc : w.pending.contains (.rpcStartTask t) = true)
    (hf : w.tasks.find? (·.name == t) = some r) (hi : r.state = .IDLE) :
    Static sp { w with tasks := updRow w.tasks t setRunning,
                       pending := removeFirst w.pending (.rpcStartTask t) ++ [.postRunAction t] } ∧
    Pend { w with tasks := updRow w.tasks t setRunning,
                  pending := removeFirst w.pending (.rpcStartTask t) ++ [.postRunAction t] } := by
  have hrm := find_mem w.tasks t r hf
  have hnc : isCompleted w.wf = false := by
    cases h : isCompleted w.wf with
    | false => rfl
    | true =>
      have := hs.done h r hrm.1
      rw [hi] at this; exact absurd this (by decide)
  have hsucc : ∀ r', w.tasks.find? (·.name == t) = some r' → r'.state = .SUCCESS →
      (setRunning r').state = .SUCCESS := by
    intro r' h1 h2
    rw [hf] at h1
    have : r' = r := by simpa using h1.symm
    subst this; rw [hi] at h2; cases h2
  refine ⟨⟨?_, hs.wfStates, ?_, ?_, ?_, ?_, ?_⟩, ?_, ?_, ?_⟩
  · intro x hx
    rcases mem_updRow _ _ _ x hx with h1 | ⟨y, _, rfl⟩
    · exact hs.states x h1
    · exact Or.inr (Or.inl rfl)
  · intro h; have := hs.notStarted h; rw [this] at hrm; simp at hrm
  · intro h; rw [hnc] at h; cases h
  · intro h; rw [h] at hnc; exact absurd hnc (by decide)
  · intro h; rw [h] at hnc; exact absurd hnc (by decide)
  · intro h
    rcases hs.sat h with ⟨nd, hnd, hall⟩
    refine ⟨nd, hnd, fun n hn => ?_⟩
    show satisfiedName sp (updRow w.tasks t setRunning) n = false
    rw [satisfiedName_updRow_eq sp w.tasks t setRunning (fun _ => rfl) hsucc (fun x hx => by simp [setRunning] at hx)]
    exact hall n hn
  · intro x hx
    rcases mem_updRow_once _ _ _ ho x hx with ⟨h1, h2⟩ | ⟨y, _, rfl⟩
    · exact wit_keep _ _ _ _ _ (hp.wit x h1) (by intro h; simp only [about, Option.some.injEq] at h; exact absurd h.symm h2)
    · have hy : y.name = t := by
        rename_i hy'; exact (find_mem w.tasks t y hy').2
      exact wit_of_mem _ _ _ (.postRunAction t) (by simp)
        (by show some t = some (setRunning y).name; rw [show (setRunning y).name = y.name from rfl, hy]) (Or.inl rfl)
  · intro _ hall
    have h2 : isCompleted St.RUNNING = true := hall _ (mem_updRow_found w.tasks t setRunning r hf)
    exact absurd h2 (by decide)
  · intro hwf
    have := hp.quiet hwf
    rw [this] at hc; exact (contains_nil_false _ hc).elim

def afterComplete (w : World) (t : String) (ok : Bool) (s : St) (ns : List String) : World :=
  { wf := w.wf, tasks := updRow w.tasks t (completeUpd s ns),
    pending := removeFirst w.pending (.rpcResult t ok) ++ [.postCheck] }

def afterDispatch (w : World) (t : String) (ok : Bool) (s : St) (ns : List String) : World :=
  { wf := w.wf, tasks := updRow w.tasks t (completeUpd s ns) ++ ns.map newRow,
    pending := removeFirst w.pending (.rpcResult t ok) ++ ([.postCheck] ++ ns.map Item.postStartTask) }

theorem live_complete (sp : Spec) (w : World) (t : String) (ok : Bool) (s : St) (r : TaskRow)
    (hs : Static sp w) (hp : Pend w) (ho : Once w.tasks)
    (hss : s = .SUCCESS ∨ s = .ERROR)
    (hf : w.tasks.find? (·.name == t) = some r) (hcr : isCompleted r.state = false) :
    Static sp (completeTask sp { w with pending := removeFirst w.pending (.rpcResult t ok) } t s) ∧
    Pend (completeTask sp { w with pending := removeFirst w.pending (.rpcResult t ok) } t s) := by
  have hrm := find_mem w.tasks t r hf
  have hnc : isCompleted w.wf = false := by
    cases h : isCompleted w.wf with
    | false => rfl
    | true => have := hs.done h r hrm.1; rw [hcr] at this; cases this
  have hni : w.wf ≠ .IDLE := by
    intro h; have := hs.notStarted h; rw [this] at hrm; simp at hrm
  have hrun : w.wf = .RUNNING := by
    rcases hs.wfStates with h | h | h | h
    · exact absurd h hni
    · exact h
    · rw [h] at hnc; exact absurd hnc (by decide)
    · rw [h] at hnc; exact absurd hnc (by decide)
  rcases hs.sat hni with ⟨nd, hnd, _⟩
  have hscomp : isCompleted s = true := by rcases hss with h | h <;> (subst h; decide)
  unfold completeTask
  split
  · rename_i hnone
    have := nextNames_none _ _ _ _ hnone
    rw [hnd] at this; cases this
  · rename_i ns hnn
    have hcmp := nextNames_complete _ _ _ _ _ hnn hnc
    rcases hcmp with ⟨nd', hnd', hcomp⟩
    have hEq : nd' = nd := by rw [hnd] at hnd'; simpa using hnd'.symm
    rw [hEq] at hcomp
    -- the controller's rows and the committed ones differ in bookkeeping fields only
    have hview : ∀ n, satisfiedName sp (updRow w.tasks t (completeUpd s ns)) n =
        satisfiedName sp (updRow w.tasks t fun r => { r with state := s }) n := by
      intro n
      apply satisfiedName_view
      apply updRow_view_congr
      intro x; exact ⟨rfl, rfl⟩
    have hnp : isPaused w.wf = false := by rw [hrun]; decide
    simp only [hnp, Bool.false_eq_true, if_false]
    show Static sp (dispatch (afterComplete w t ok s ns) ns) ∧ Pend (dispatch (afterComplete w t ok s ns) ns)
    have hd : dispatch (afterComplete w t ok s ns) ns = afterDispatch w t ok s ns := by
      unfold afterComplete afterDispatch
      unfold dispatch
      simp only [hnc, Bool.false_eq_true, if_false, List.append_assoc]
    rw [hd]
    unfold afterDispatch
    refine ⟨⟨?_, hs.wfStates, ?_, ?_, ?_, ?_, ?_⟩, ?_, ?_, ?_⟩
    · intro x hx
      rcases List.mem_append.mp hx with h1 | h1
      · rcases mem_updRow _ _ _ x h1 with h2 | ⟨y, _, rfl⟩
        · exact hs.states x h2
        · rcases hss with h | h
          · exact Or.inr (Or.inr (Or.inl h))
          · exact Or.inr (Or.inr (Or.inr h))
      · rcases List.mem_map.mp h1 with ⟨n, _, rfl⟩
        exact Or.inl rfl
    · intro h; exact absurd h hni
    · intro h; rw [hnc] at h; cases h
    · intro h; rw [h] at hnc; exact absurd hnc (by decide)
    · intro h; rw [h] at hnc; exact absurd hnc (by decide)
    · intro _
      refine ⟨nd, hnd, ?_⟩
      exact sat_after_dispatch sp _ ns nd (fun n hn h => hcomp n hn (by rw [← hview n]; exact h))
    · intro x hx
      rcases List.mem_append.mp hx with h1 | h1
      · rcases mem_updRow_once _ _ _ ho x h1 with ⟨h2, h3⟩ | ⟨y, _, rfl⟩
        · exact wit_keep _ _ _ _ _ (hp.wit x h2)
            (by intro h; simp only [about, Option.some.injEq] at h; exact absurd h.symm h3)
        · exact wit_completed _ _ _ hscomp
      · rcases List.mem_map.mp h1 with ⟨n, hn, rfl⟩
        exact wit_of_mem _ _ _ (.postStartTask n)
          (List.mem_append.mpr (Or.inr (List.mem_append.mpr (Or.inr (List.mem_map.mpr ⟨n, hn, rfl⟩)))))
          rfl (Or.inl rfl)
    · intro _ _
      exact List.mem_append.mpr (Or.inr (by simp))
    · intro h; exact absurd h hni

def afterStart (w : World) (ns : List String) : World :=
  { wf := .RUNNING, tasks := w.tasks ++ ns.map newRow, pending := w.pending ++ ns.map Item.postStartTask }

theorem live_start (sp : Spec) (w : World) (ns : List String) (hs : Static sp w) (_hp : Pend w)
    (hidle : w.wf = .IDLE) (hnn : nextNames sp .RUNNING w.tasks false = some ns) :
    Static sp (checkAndComplete (dispatch { w with wf := .RUNNING } ns)) ∧
    Pend (checkAndComplete (dispatch { w with wf := .RUNNING } ns)) := by
  have ht := hs.notStarted hidle
  have hd : dispatch { w with wf := .RUNNING } ns = afterStart w ns := by
    unfold afterStart
    unfold dispatch
    have : isCompleted St.RUNNING = false := by decide
    simp only [this, Bool.false_eq_true, if_false]
  rw [hd]
  rcases nextNames_complete _ _ _ _ _ hnn (by decide) with ⟨nd, hnd, hcomp⟩
  have hst : Static sp (afterStart w ns) := by
    unfold afterStart
    refine ⟨?_, Or.inr (Or.inl rfl), (fun h => by cases h),
      (fun h => absurd (show isCompleted St.RUNNING = true from h) (by decide)),
      (fun h => by cases h), (fun h => by cases h), ?_⟩
    · intro x hx
      rw [ht] at hx
      rcases List.mem_map.mp (by simpa using hx) with ⟨n, _, rfl⟩
      exact Or.inl rfl
    · intro _
      exact ⟨nd, hnd, sat_after_dispatch sp w.tasks ns nd hcomp⟩
  refine ⟨static_check sp _ hst (by intro h; cases h), pend_check _ ?_ (by intro h; cases h)⟩
  unfold afterStart
  intro x hx
  rw [ht] at hx
  rcases List.mem_map.mp (by simpa using hx) with ⟨n, hn, rfl⟩
  exact wit_of_mem _ _ _ (.postStartTask n)
    (List.mem_append.mpr (Or.inr (List.mem_map.mpr ⟨n, hn, rfl⟩))) rfl (Or.inl rfl)

theorem live_init (sp : Spec) : Static sp init ∧ Pend init := by
  refine ⟨⟨by intro r hr; simp [init] at hr, Or.inl rfl, fun _ => rfl, (fun h => absurd h (by decide)),
    (fun h => by cases h), (fun h => by cases h), (fun h => absurd rfl h)⟩, ?_, (fun h => by cases h), fun _ => rfl⟩
  intro r hr; simp [init] at hr

/-- an event that is not an operator command -/
def NoOp : Event → Prop
  | .pause => False
  | .resume => False
  | .stop _ => False
  | _ => True

def isExisting : Item → Bool
  | .postStartExisting _ => true
  | .rpcStartExisting _ => true
  | _ => false

/-- no start request for an existing task is pending (they only come from resume) -/
def NoExisting (w : World) : Prop := ∀ x ∈ w.pending, isExisting x = false

theorem mem_removeFirst_sub (l : List Item) (it x : Item) (h : x ∈ removeFirst l it) : x ∈ l := by
  induction l with
  | nil => simp [removeFirst] at h
  | cons a as ih =>
    unfold removeFirst at h
    split at h
    · exact List.mem_cons.mpr (Or.inr h)
    · rcases List.mem_cons.mp h with rfl | h
      · simp
      · exact List.mem_cons.mpr (Or.inr (ih h))

theorem dispatch_pending (w : World) (ns : List String) :
    ∀ x ∈ (dispatch w ns).pending, x ∈ w.pending ∨ isExisting x = false := by
  intro x hx
  unfold dispatch at hx
  split at hx
  · exact Or.inl hx
  · rcases List.mem_append.mp hx with h | h
    · exact Or.inl h
    · rcases List.mem_map.mp h with ⟨n, _, rfl⟩; exact Or.inr rfl

/-- without operator commands no such request ever appears -/
theorem noExisting_step (sp : Spec) (w : World) (e : Event) (hop : NoOp e) (h : NoExisting w) :
    NoExisting (step sp w e) := by
  have keep : ∀ (p : List Item), (∀ x ∈ p, x ∈ w.pending ∨ isExisting x = false) → ∀ x ∈ p, isExisting x = false := by
    intro p hp x hx
    rcases hp x hx with h1 | h1
    · exact h x h1
    · exact h1
  have rem : ∀ it x, x ∈ removeFirst w.pending it → x ∈ w.pending := fun it x hx => mem_removeFirst_sub _ it x hx
  cases e with
  | pause => cases hop
  | resume => cases hop
  | stop t => cases hop
  | start =>
    simp only [step]
    split
    · exact h
    · split
      · exact h
      · intro x hx
        rw [checkAndComplete_pending] at hx
        rcases dispatch_pending _ _ x hx with h1 | h1
        · exact h x h1
        · exact h1
  | execute t ok =>
    simp only [step]
    split
    · exact h
    · apply keep
      intro x hx
      rcases List.mem_append.mp hx with h1 | h1
      · exact Or.inl (rem _ x h1)
      · right; have : x = .rpcResult t ok := by simpa using h1
        rw [this]; rfl
  | deliver it =>
    cases it with
    | runAction t => exact h
    | postStartExisting t =>
      simp only [step]; split
      · exact h
      · rename_i hc
        have hm : Item.postStartExisting t ∈ w.pending := List.contains_iff_mem.mp (by simpa using hc)
        have := h _ hm; cases this
    | rpcStartExisting t =>
      simp only [step]; split
      · exact h
      · rename_i hc
        have hm : Item.rpcStartExisting t ∈ w.pending := List.contains_iff_mem.mp (by simpa using hc)
        have := h _ hm; cases this
    | postStartTask t =>
      simp only [step]; split
      · exact h
      · apply keep
        intro x hx
        rcases List.mem_append.mp hx with h1 | h1
        · exact Or.inl (rem _ x h1)
        · right; have : x = .rpcStartTask t := by simpa using h1
          rw [this]; rfl
    | postRunAction t =>
      simp only [step]; split
      · exact h
      · apply keep
        intro x hx
        rcases List.mem_append.mp hx with h1 | h1
        · exact Or.inl (rem _ x h1)
        · right; have : x = .runAction t := by simpa using h1
          rw [this]; rfl
    | postCheck =>
      simp only [step]; split
      · exact h
      · intro x hx
        rw [checkAndComplete_pending] at hx
        exact h x (rem _ x hx)
    | rpcStartTask t =>
      simp only [step]; split
      · exact h
      · split
        · intro x hx; exact h x (rem _ x hx)
        · split
          · apply keep
            intro x hx
            rcases List.mem_append.mp hx with h1 | h1
            · exact Or.inl (rem _ x h1)
            · right; have : x = .postRunAction t := by simpa using h1
              rw [this]; rfl
          · intro x hx; exact h x (rem _ x hx)
    | rpcResult t ok =>
      simp only [step]; split
      · exact h
      · split
        · intro x hx; exact h x (rem _ x hx)
        · split
          · intro x hx; exact h x (rem _ x hx)
          · intro x hx
            unfold completeTask at hx
            split at hx
            · exact h x (rem _ x hx)
            · split at hx
              · exact h x (rem _ x hx)
              · rcases dispatch_pending _ _ x hx with h1 | h1
                · rcases List.mem_append.mp h1 with h2 | h2
                  · exact h x (rem _ x h2)
                  · have : x = .postCheck := by simpa using h2
                    rw [this]; rfl
                · exact h1

theorem live_step (sp : Spec) (w : World) (e : Event) (hop : NoOp e) (hne : NoExisting w)
    (hs : Static sp w) (hp : Pend w) (ho : Once w.tasks) :
    Static sp (step sp w e) ∧ Pend (step sp w e) := by
  cases e with
  | pause => cases hop
  | resume => cases hop
  | stop t => cases hop
  | start =>
    simp only [step]
    split
    · exact ⟨hs, hp⟩
    · rename_i hg
      split
      · exact ⟨hs, hp⟩
      · rename_i ns hnn
        have hidle : w.wf = .IDLE := by
          simp only [Bool.or_eq_true, bne_iff_ne, ne_eq, Bool.not_eq_true', not_or, Decidable.not_not] at hg
          exact hg.1
        exact live_start sp w ns hs hp hidle hnn
  | execute t ok =>
    simp only [step]
    split
    · exact ⟨hs, hp⟩
    · rename_i hc
      exact live_forward sp w (.runAction t) (.rpcResult t ok) hs hp (by simpa using hc) rfl rfl (by intro h; cases h)
  | deliver it =>
    cases it with
    | runAction t => exact ⟨hs, hp⟩
    | postStartExisting t =>
      simp only [step]; split
      · exact ⟨hs, hp⟩
      · rename_i hc
        have hm : Item.postStartExisting t ∈ w.pending := List.contains_iff_mem.mp (by simpa using hc)
        have := hne _ hm; cases this
    | rpcStartExisting t =>
      simp only [step]; split
      · exact ⟨hs, hp⟩
      · rename_i hc
        have hm : Item.rpcStartExisting t ∈ w.pending := List.contains_iff_mem.mp (by simpa using hc)
        have := hne _ hm; cases this
    | postStartTask t =>
      simp only [step]; split
      · exact ⟨hs, hp⟩
      · rename_i hc
        exact live_forward sp w (.postStartTask t) (.rpcStartTask t) hs hp (by simpa using hc) rfl rfl (by intro h; cases h)
    | postRunAction t =>
      simp only [step]; split
      · exact ⟨hs, hp⟩
      · rename_i hc
        exact live_forward sp w (.postRunAction t) (.runAction t) hs hp (by simpa using hc) rfl rfl (by intro h; cases h)
    | postCheck =>
      simp only [step]; split
      · exact ⟨hs, hp⟩
      · rename_i hc
        exact live_postCheck sp w hs hp (by simpa using hc)
    | rpcStartTask t =>
      simp only [step]; split
      · exact ⟨hs, hp⟩
      · rename_i hc
        have hc' : w.pending.contains (.rpcStartTask t) = true := by simpa using hc
        split
        · -- no such row: nothing waits for this message
          rename_i hnone
          unfold findRow at hnone
          refine ⟨static_congr sp w _ rfl rfl hs, ?_, ?_, ?_⟩
          · intro r hr
            have := wit_keep w.pending [] (.rpcStartTask t) r.name r.state (hp.wit r hr)
              (by intro h; simp only [about, Option.some.injEq] at h
                  exact absurd h.symm (find_none_name w.tasks t hnone r hr))
            simpa using this
          · intro hwf hall
            exact mem_removeFirst_of_ne _ _ _ (hp.check hwf hall) (by intro h; cases h)
          · intro hwf; have := hp.quiet hwf; rw [this] at hc'; exact (contains_nil_false _ hc').elim
        · rename_i r hr
          unfold findRow at hr
          split
          · rename_i hidle
            exact live_started sp w t r hs hp ho hc' hr (by simpa using hidle)
          · rename_i hnidle
            refine ⟨static_congr sp w _ rfl rfl hs, ?_, ?_, ?_⟩
            · intro x hx
              have := wit_keep w.pending [] (.rpcStartTask t) x.name x.state (hp.wit x hx) (by
                intro h h2
                simp only [about, Option.some.injEq] at h
                -- the row named t is r, and r is not IDLE
                have hxr : x = r := by
                  rcases mem_updRow_once w.tasks t (fun y => y) ho x (by rw [updRow_id]; exact hx) with ⟨_, h3⟩ | ⟨y, hy, rfl⟩
                  · exact absurd h.symm h3
                  · rw [hr] at hy; simpa using hy.symm
                subst hxr
                cases hst : x.state <;> rw [hst] at h2 hnidle <;> simp [need, kind] at h2 hnidle)
              simpa using this
            · intro hwf hall
              exact mem_removeFirst_of_ne _ _ _ (hp.check hwf hall) (by intro h; cases h)
            · intro hwf; have := hp.quiet hwf; rw [this] at hc'; exact (contains_nil_false _ hc').elim
    | rpcResult t ok =>
      simp only [step]; split
      · exact ⟨hs, hp⟩
      · rename_i hc
        have hc' : w.pending.contains (.rpcResult t ok) = true := by simpa using hc
        split
        · rename_i hnone
          unfold findRow at hnone
          refine ⟨static_congr sp w _ rfl rfl hs, ?_, ?_, ?_⟩
          · intro r hr
            have := wit_keep w.pending [] (.rpcResult t ok) r.name r.state (hp.wit r hr)
              (by intro h; simp only [about, Option.some.injEq] at h
                  exact absurd h.symm (find_none_name w.tasks t hnone r hr))
            simpa using this
          · intro hwf hall
            exact mem_removeFirst_of_ne _ _ _ (hp.check hwf hall) (by intro h; cases h)
          · intro hwf; have := hp.quiet hwf; rw [this] at hc'; exact (contains_nil_false _ hc').elim
        · rename_i r hr
          unfold findRow at hr
          split
          · rename_i hcomp
            refine ⟨static_congr sp w _ rfl rfl hs, ?_, ?_, ?_⟩
            · intro x hx
              have := wit_keep w.pending [] (.rpcResult t ok) x.name x.state (hp.wit x hx) (by
                intro h h2
                simp only [about, Option.some.injEq] at h
                have hxr : x = r := by
                  rcases mem_updRow_once w.tasks t (fun y => y) ho x (by rw [updRow_id]; exact hx) with ⟨_, h3⟩ | ⟨y, hy, rfl⟩
                  · exact absurd h.symm h3
                  · rw [hr] at hy; simpa using hy.symm
                subst hxr
                cases hst : x.state <;> rw [hst] at h2 hcomp <;> simp [need, kind] at h2 <;> revert hcomp <;> decide)
              simpa using this
            · intro hwf hall
              exact mem_removeFirst_of_ne _ _ _ (hp.check hwf hall) (by intro h; cases h)
            · intro hwf; have := hp.quiet hwf; rw [this] at hc'; exact (contains_nil_false _ hc').elim
          · rename_i hcomp
            exact live_complete sp w t ok _ r hs hp ho (by cases ok <;> simp) hr (by simpa using hcomp)

/-- the whole invariant, for every event history without operator commands -/
theorem live_reachable (sp : Spec) (evs : List Event) (hops : ∀ e ∈ evs, NoOp e) :
    Static sp (run sp evs) ∧ Pend (run sp evs) ∧ Once (run sp evs).tasks := by
  unfold run
  suffices ∀ w, (Static sp w ∧ Pend w ∧ Once w.tasks ∧ NoExisting w) →
      (Static sp (evs.foldl (step sp) w) ∧ Pend (evs.foldl (step sp) w) ∧ Once (evs.foldl (step sp) w).tasks) by
    exact this init ⟨(live_init sp).1, (live_init sp).2, by simp [Once, init], by intro x hx; simp [init] at hx⟩
  induction evs with
  | nil => intro w h; exact ⟨h.1, h.2.1, h.2.2.1⟩
  | cons e es ih =>
    intro w ⟨h1, h2, h3, h4⟩
    have hop := hops e (by simp)
    exact ih (fun e' he' => hops e' (List.mem_cons.mpr (Or.inr he'))) _
      ⟨(live_step sp w e hop h4 h1 h2 h3).1, (live_step sp w e hop h4 h1 h2 h3).2,
       shape_once sp _ _ (step_shape sp w e) h3, noExisting_step sp w e hop h4⟩

/-! ### quiescence -/

/-- nothing pending: every row is finished and the workflow is not RUNNING -/
theorem quiescent_finished (sp : Spec) (w : World) (hs : Static sp w) (hp : Pend w) (hq : w.pending = []) :
    (∀ r ∈ w.tasks, r.state = .SUCCESS ∨ r.state = .ERROR) ∧ w.wf ≠ .RUNNING := by
  have hrows : ∀ r ∈ w.tasks, r.state = .SUCCESS ∨ r.state = .ERROR := by
    intro r hr
    have hw := hp.wit r hr
    rw [hq] at hw
    rcases hs.states r hr with h | h | h | h
    · rcases hw 0 (by rw [h]; rfl) with ⟨x, hx, _⟩; simp at hx
    · rcases hw 1 (by rw [h]; rfl) with ⟨x, hx, _⟩; simp at hx
    · exact Or.inl h
    · exact Or.inr h
  refine ⟨hrows, ?_⟩
  intro hwf
  have := hp.check hwf (by
    intro r hr
    rcases hrows r hr with h | h <;> (rw [h]; decide))
  rw [hq] at this; simp at this

/-- acyclic `requires` + nothing startable + every row SUCCESS ⇒ every needed task succeeded -/
theorem all_needed_succeeded (sp : Spec) (rows : List TaskRow) (nd : List String) (rank : String → Nat)
    (hnd : needed sp = some nd)
    (hrank : ∀ n q, q ∈ reqsN sp n → rank q < rank n)
    (hwf : ∀ n q, q ∈ reqsN sp n → isTask sp q = true)
    (hsat : ∀ n ∈ nd, satisfiedName sp rows n = false)
    (hsucc : ∀ r ∈ rows, r.state = .SUCCESS) :
    ∀ k n, rank n < k → n ∈ nd → hasSuccess rows n = true := by
  intro k
  induction k with
  | zero => intro n h; exact absurd h (Nat.not_lt_zero _)
  | succ k ih =>
    intro n hn hmem
    have hreqs : ∀ q ∈ reqsN sp n, hasSuccess rows q = true := by
      intro q hq
      exact ih q (by have := hrank n q hq; omega) (needed_closed sp nd hnd n hmem q hq (hwf n q hq))
    rcases findTaskSpec_isSome sp n (needed_isTask sp nd hnd n hmem) with ⟨t, ht⟩
    have hs := hsat n hmem
    unfold satisfiedName at hs
    rw [ht] at hs
    simp only at hs
    unfold isSatisfied at hs
    have hall : (requiresOf sp t).all (hasSuccess rows) = true := by
      rw [List.all_eq_true]
      intro q hq
      exact hreqs q (by unfold reqsN; rw [ht]; exact hq)
    rw [hall, Bool.and_true, (findTaskSpec_some sp n t ht).2] at hs
    have hrow : hasRow rows n = true := by
      cases h : hasRow rows n with
      | true => rfl
      | false => rw [h] at hs; cases hs
    rcases (hasRow_iff rows n).mp hrow with hm
    rcases List.mem_map.mp hm with ⟨r, hr, hname⟩
    exact (hasSuccess_iff rows n).mpr ⟨r, hr, hname, hsucc r hr⟩

/-! ### a started run stays started -/

theorem checkAndComplete_not_idle (w : World) (h : w.wf ≠ .IDLE) : (checkAndComplete w).wf ≠ .IDLE := by
  intro hc; exact h (checkAndComplete_wf_idle w hc)

theorem dispatch_wf (w : World) (ns : List String) : (dispatch w ns).wf = w.wf := by
  unfold dispatch; split <;> rfl

theorem completeTask_not_idle (sp : Spec) (w : World) (t : String) (s : St) (h : w.wf ≠ .IDLE) :
    (completeTask sp w t s).wf ≠ .IDLE := by
  unfold completeTask
  split
  · simp only
    split
    · exact h
    · intro hc; cases hc
  · split
    · exact h
    · rw [dispatch_wf]; exact h

theorem wfApply_pause_not_idle (s : St) (h : s ≠ .IDLE) : (Lifecycle.wfApply s .pause).1 ≠ .IDLE := by
  cases s <;> first | exact absurd rfl h | decide

theorem wfApply_resume_not_idle (s : St) (h : s ≠ .IDLE) : (Lifecycle.wfApply s .resume).1 ≠ .IDLE := by
  cases s <;> first | exact absurd rfl h | decide

theorem wfApply_stop_not_idle (s t : St) (h : s ≠ .IDLE) : (Lifecycle.wfApply s (.stop t)).1 ≠ .IDLE := by
  cases s <;> cases t <;> first | exact absurd rfl h | decide

theorem step_not_idle (sp : Spec) (w : World) (e : Event) (h : w.wf ≠ .IDLE) : (step sp w e).wf ≠ .IDLE := by
  cases e with
  | start =>
    simp only [step]
    split
    · exact h
    · rename_i hg
      simp only [Bool.or_eq_true, bne_iff_ne, ne_eq, Bool.not_eq_true', not_or, Decidable.not_not] at hg
      exact absurd hg.1 h
  | execute t ok => simp only [step]; split <;> exact h
  | pause => exact wfApply_pause_not_idle _ h
  | stop t => exact wfApply_stop_not_idle _ t h
  | resume =>
    simp only [step]
    split
    · exact h
    · split
      · exact h
      · split
        · exact checkAndComplete_not_idle _ (wfApply_resume_not_idle _ h)
        · rw [dispatch_wf]; exact wfApply_resume_not_idle _ h
  | deliver it =>
    cases it with
    | runAction t => exact h
    | postStartTask t => simp only [step]; split <;> exact h
    | postStartExisting t => simp only [step]; split <;> exact h
    | rpcStartExisting t =>
      simp only [step]; split
      · exact h
      · split
        · exact h
        · split
          · exact h
          · split
            · exact h
            · split <;> exact h
    | postRunAction t => simp only [step]; split <;> exact h
    | postCheck =>
      simp only [step]; split
      · exact h
      · exact checkAndComplete_not_idle _ h
    | rpcStartTask t =>
      simp only [step]; split
      · exact h
      · split
        · exact h
        · split <;> exact h
    | rpcResult t ok =>
      simp only [step]; split
      · exact h
      · split
        · exact h
        · split
          · exact h
          · exact completeTask_not_idle sp _ t _ h

/-- the start of a run on a valid target leaves IDLE, for good -/
theorem started_after_start (sp : Spec) (evs : List Event) (ht : isTask sp sp.target = true) :
    (run sp (.start :: evs)).wf ≠ .IDLE := by
  have h1 : (step sp init .start).wf ≠ .IDLE := by
    simp only [step, init]
    have hn : ∃ ns, nextNames sp .RUNNING [] false = some ns := by
      cases h : nextNames sp .RUNNING [] false with
      | some ns => exact ⟨ns, rfl⟩
      | none =>
        have := needed_none sp (nextNames_none _ _ _ _ h)
        rw [ht] at this; cases this
    rcases hn with ⟨ns, hns⟩
    simp only [hns]
    rw [if_neg (by decide)]
    apply checkAndComplete_not_idle
    rw [dispatch_wf]; intro hc; cases hc
  unfold run
  simp only [List.foldl_cons]
  suffices ∀ w, w.wf ≠ .IDLE → (evs.foldl (step sp) w).wf ≠ .IDLE from this _ h1
  induction evs with
  | nil => intro w h; exact h
  | cons e es ih => intro w h; exact ih _ (step_not_idle sp w e h)

end Mistral.Reverse
