/-
Model of the with-items bookkeeping (C07).  Core Lean only.

Code modelled (mistral/engine/tasks.py `WithItemsTask`, `RegularTask._run_existing/_reset_actions`,
`Task.complete`; mistral/engine/task_handler.py `schedule_on_action_complete`;
mistral/engine/policies.py `ConcurrencyPolicy`, `RetryPolicy`; mistral/engine/workflows.py
`Workflow.rerun` -> `Task.cleanup_runtime_context`; mistral/workflow/data_flow.py
`get_task_execution_result`).

State = the committed rows the code reads and writes:
  * `task_ex.runtime_context['with_items'] = {count, capacity}`  (`prepared` = the key is present),
  * `task_ex.runtime_context['concurrency']` (set by ConcurrencyPolicy.before_task_start, absent
    when the policy value is 0 or the policy is not given),
  * the action executions of the task in creation order: (runtime_context.index, state, accepted),
  * the number of pending `_scheduled_on_action_complete` scheduler jobs (one per accepted result:
    the scheduler does NOT squash jobs with the same key),
  * the task state and `retry_task_policy.retry_no`.
One `Op` = one committed transaction of the engine.
-/
namespace Mistral.WithItems

/-- state of an action execution of the task -/
inductive ISt where
  | running | success | error | cancelled
  deriving DecidableEq, Repr

/-- state of the task execution -/
inductive TSt where
  | idle | running | delayed | success | error | cancelled
  deriving DecidableEq, Repr

/-- `states.is_completed` on a task state -/
def TSt.completed : TSt → Bool
  | .success | .error | .cancelled => true
  | _ => false

structure Item where
  index : Nat
  state : ISt
  accepted : Bool
  deriving DecidableEq, Repr

/-- `states.is_completed(x.state)` for an action execution (never IDLE/PAUSED here) -/
def Item.completed (it : Item) : Bool := it.state != .running

structure WI where
  /-- length of the evaluated with-items list (the task's input) -/
  specCount : Nat
  /-- the `concurrency` policy value of the task spec / task-defaults (after evaluation) -/
  specConc : Option Nat
  /-- `retry: count` (0 = no retry policy) -/
  specRetries : Nat
  /-- rt['with_items'] is present -/
  prepared : Bool := false
  /-- rt['with_items']['count'] -/
  count : Nat := 0
  /-- rt['with_items']['capacity'] (None when there is no limit) -/
  capacity : Option Nat := none
  /-- rt['concurrency'] (absent = none) -/
  concurrency : Option Nat := none
  items : List Item := []
  /-- pending `_scheduled_on_action_complete` jobs of this task -/
  unhandled : Nat := 0
  tstate : TSt := .idle
  /-- rt['retry_task_policy']['retry_no'] (absent = 0) -/
  retryNo : Nat := 0
  deriving DecidableEq, Repr

def init (n : Nat) (c : Option Nat) (r : Nat) : WI :=
  { specCount := n, specConc := c, specRetries := r }

/-- python truthiness of an optional integer -/
def truthy : Option Nat → Bool
  | some (_ + 1) => true
  | _ => false

/-- ConcurrencyPolicy.before_task_start: value 0 (or no policy) leaves the key unset. -/
def policyConc (c : Option Nat) : Option Nat := if truthy c then c else none

/-! ### `_get_next_indexes` -/

/-- insert into a strictly increasing list (no duplicates): `sorted(set(..))` -/
def insertSorted (x : Nat) : List Nat → List Nat
  | [] => [x]
  | y :: ys => if x < y then x :: y :: ys else if x = y then y :: ys else y :: insertSorted x ys

def sortDedup (l : List Nat) : List Nat := l.foldr insertSorted []

/-- `_get_indexes(_get_unaccepted_executions())` as a set -/
def unacceptedIdx (s : WI) : List Nat :=
  (s.items.filter fun it => !it.accepted && it.completed).map (·.index)

/-- `taken`: indexes of the executions that are accepted or RUNNING/IDLE (fix 494951d1) -/
def takenIdx (s : WI) : List Nat :=
  (s.items.filter fun it => it.accepted || it.state == .running).map (·.index)

/-- `sorted(list(set(unaccepted) - taken))` -/
def candidates (s : WI) : List Nat :=
  sortDedup ((unacceptedIdx s).filter fun i => !(takenIdx s).contains i)

/-- `_get_next_start_index`: executions accepted, RUNNING or IDLE -/
def nextStartIndex (s : WI) : Nat :=
  s.items.countP fun it => it.accepted || it.state == .running

/-- `list(range(a, b))` -/
def rangeFromTo (a b : Nat) : List Nat := List.range' a (b - a)

/-- the list `indices` before it is cut to the capacity: the candidates followed by the indexes
    after the largest candidate that are not taken -/
def indices (s : WI) : List Nat :=
  match (candidates s).getLast? with
  | some m => candidates s ++
      (if m < s.count - 1 then (rangeFromTo (m + 1) s.count).filter fun i => !(takenIdx s).contains i else [])
  | none => rangeFromTo (nextStartIndex s) s.count

/-- `indices[:capacity]` (`[:None]` is the whole list) -/
def takeCap : Option Nat → List Nat → List Nat
  | none, l => l
  | some c, l => l.take c

def nextIndexes (s : WI) : List Nat := takeCap s.capacity (indices s)

/-! ### predicates of `on_action_complete` -/

def acceptedCount (s : WI) : Nat := s.items.countP (·.accepted)

def hasAccepted (s : WI) (st : ISt) : Bool := s.items.any fun it => it.accepted && it.state == st

/-- `is_with_items_completed` -/
def isCompleted (s : WI) : Bool :=
  hasAccepted s .cancelled ||
  ((if s.count = 0 then 1 else s.count) == acceptedCount s &&
   (!truthy s.concurrency || s.capacity == s.concurrency))

/-- `_get_final_state` -/
def finalState (s : WI) : TSt :=
  if hasAccepted s .cancelled then .cancelled
  else if hasAccepted s .error then .error
  else .success

/-- `_has_more_iterations` -/
def hasMore (s : WI) : Bool :=
  s.count > s.items.countP fun it => it.accepted || it.state == .running

/-- `_increase_capacity` -/
def increaseCapacity (s : WI) : WI :=
  match s.concurrency, s.capacity with
  | some c, some k => if truthy (some c) && k < c then { s with capacity := some (k + 1) } else s
  | _, _ => s

def running (s : WI) : Nat := s.items.countP fun it => it.state == .running

/-! ### task completion, policies -/

/-- `Task.invalidate_result` -/
def invalidateAll (items : List Item) : List Item := items.map fun it => { it with accepted := false }

/-- `Task.complete(state)` + `RetryPolicy.after_task_complete` (no break-on / continue-on).
    `del policy_ctx['retry_no']` on a completion that does not retry mutates a nested dict of a
    freshly reloaded `runtime_context` without `touch_runtime_context()`: it is never flushed, so
    the committed `retry_no` stays (validated by the correspondence stream). -/
def complete (s : WI) (st : TSt) : WI :=
  if s.tstate.completed then s
  else match st with
    | .error =>
      if s.retryNo < s.specRetries then
        { s with tstate := .delayed, retryNo := s.retryNo + 1, items := invalidateAll s.items }
      else { s with tstate := .error }
        | other => { s with tstate := other }

/-- `_prepare_runtime_context` when `_is_new()` -/
def prepare (s : WI) : WI :=
  if s.prepared then s
  else { s with prepared := true, capacity := s.concurrency, count := s.specCount }

/-- `WithItemsTask._schedule_actions` after the runtime context is prepared: an empty portion
    completes the task with SUCCESS, otherwise one RUNNING execution per index is created and the
    capacity decreased by one each. -/
def scheduleBody (s : WI) : WI :=
  let idxs := nextIndexes s
  if idxs.isEmpty then complete s .success
  else { s with items := s.items ++ idxs.map (fun i => { index := i, state := .running, accepted := false }),
                capacity := s.capacity.map (· - idxs.length) }

/-- `WithItemsTask._schedule_actions` -/
def scheduleActions (s : WI) : WI := scheduleBody (prepare s)

/-- `RegularTask._reset_actions` -/
def resetActions (reset : Bool) (items : List Item) : List Item :=
  items.map fun it =>
    if reset || (it.accepted && (it.state == .error || it.state == .cancelled))
    then { it with accepted := false } else it

/-! ### operations -/

inductive Outcome where
  | success | error | cancelled
  deriving DecidableEq, Repr

def Outcome.toISt : Outcome → ISt
  | .success => .success | .error => .error | .cancelled => .cancelled

inductive Op where
  /-- rpc start_task(first_run): RUNNING, policies, `_schedule_actions` -/
  | start
  /-- engine.on_action_complete for the `pos`-th action execution of the task: state + accepted
      + one `_scheduled_on_action_complete` job -/
  | result (pos : Nat) (o : Outcome)
  /-- one `_scheduled_on_action_complete` job -> WithItemsTask.on_action_complete -/
  | handled
  /-- engine.rerun_workflow (runtime context cleared) + rpc start_task(rerun, reset) -> `_run_existing` -/
  | rerun (reset : Bool)
  /-- the `_continue_task` job of the retry policy -> `_run_existing` -/
  | continue
  deriving DecidableEq, Repr

/-- `WithItemsTask.on_action_complete` (under the named lock, after the refresh) -/
def onActionComplete (s : WI) : WI :=
  if s.tstate.completed then s
  else
    let s := increaseCapacity s
    if isCompleted s then complete s (finalState s)
    else if hasMore s && truthy s.concurrency then scheduleActions s
    else s

def setResult : List Item → Nat → Outcome → List Item
  | [], _, _ => []
  | it :: l, 0, o => { it with state := o.toISt, accepted := true } :: l
  | it :: l, p + 1, o => it :: setResult l p o

def step (s : WI) : Op → WI
  | .start =>
    if s.tstate = .idle then
      scheduleActions { s with tstate := .running, concurrency := policyConc s.specConc }
    else s
  | .result pos o =>
    match s.items[pos]? with
    | some it => if it.state = .running then
        { s with items := setResult s.items pos o, unhandled := s.unhandled + 1 } else s
    | none => s
  | .handled =>
    if s.unhandled = 0 then s
    else onActionComplete { s with unhandled := s.unhandled - 1 }
  | .rerun reset =>
    if s.tstate = .error then
      scheduleActions { s with tstate := .running, prepared := false, count := 0, capacity := none,
                               retryNo := 0, concurrency := policyConc s.specConc,
                               items := resetActions reset s.items }
    else s
  | .continue =>
    if s.tstate = .delayed then
      scheduleActions { s with tstate := .running, items := resetActions false s.items }
    else s

def run (s : WI) (ops : List Op) : WI := ops.foldl step s

/-! ### evaluation of the `with-items` expression, of the per-item action input and of `concurrency`

`WithItemsTask._schedule_actions` starts with `_get_with_items_values()` (the `with-items` expression:
every variable must evaluate to an iterable, all of the same length — else `InputException`; the
expression itself may fail) and `_get_input_dicts()` + `validate_input` (the action input of EVERY
index that the round will process when the task is (re)started — repo fix "a with-items task checks
the inputs of all items before it starts any of them" — and of every index of the portion
`_get_next_indexes()` otherwise, evaluated and validated against the action BEFORE the first action
is created); both are outside the `try` of the scheduling loop, so a failure leaves `_schedule_actions` as an exception and
`task_handler.run_task` / `_on_action_complete` / `continue_task` answer with `force_fail_task`:
`task.set_state(ERROR)` (no `Task.complete`, hence no retry policy) + `force_fail_workflow`; whatever
the transaction had written before (`_prepare_runtime_context`, `_increase_capacity`,
`_reset_actions`) is committed with it.  `concurrency` is validated by
`ConcurrencyPolicy.before_task_start` (`_run_new`, and `_run_existing` of a rerun) before anything
else happens.

The outcome of these evaluations is an oracle of the run (like the item outcomes): `EvalSpec`.
`step` / `run` above are the transactions when every evaluation succeeds (`stepE {} = step`). -/

structure EvalSpec where
  /-- the `with-items` expression evaluates to iterables of one common length -/
  itemsOk : Bool := true
  /-- the `concurrency` value is a non-negative integer -/
  concOk : Bool := true
  /-- the item indexes whose action input fails to evaluate or is refused by the action -/
  badInputs : List Nat := []
  deriving DecidableEq, Repr

/-- the indexes whose inputs `_schedule_actions` evaluates and validates before it creates anything
    (`_get_input_dicts(all_items=new_round)` + `validate_input`): when the task is (re)started —
    first run or rerun, `_is_new()`: `rt['with_items']` was absent — ALL indexes still to be
    processed (`indices`, not cut to the capacity), otherwise the next portion -/
def evalIndexes (newRound : Bool) (s : WI) : List Nat := if newRound then indices s else nextIndexes s

/-- the evaluation / validation of the input of one of those indexes fails -/
def inputFails (e : EvalSpec) (newRound : Bool) (s : WI) : Bool :=
  (evalIndexes newRound s).any fun i => e.badInputs.contains i

/-- `force_fail_task`: `set_state(ERROR)`, no policies -/
def failTask (s : WI) : WI := { s with tstate := .error }

/-- `WithItemsTask._schedule_actions` with its evaluations: values, (prepare), inputs of the whole
    portion, and only then the scheduling loop -/
def scheduleEval (e : EvalSpec) (s : WI) : WI :=
  if !e.itemsOk then failTask s
  else if inputFails e (!s.prepared) (prepare s) then failTask (prepare s)
  else scheduleActions s

/-- `WithItemsTask.on_action_complete` -/
def onActionCompleteE (e : EvalSpec) (s : WI) : WI :=
  if s.tstate.completed then s
  else
    let s := increaseCapacity s
    if isCompleted s then complete s (finalState s)
    else if hasMore s && truthy s.concurrency then scheduleEval e s
    else s

/-- one committed transaction, evaluation failures included -/
def stepE (e : EvalSpec) (s : WI) : Op → WI
  | .start =>
    if s.tstate = .idle then
      if !e.concOk then failTask s
      else scheduleEval e { s with tstate := .running, concurrency := policyConc s.specConc }
    else s
  | .result pos o => step s (.result pos o)
  | .handled =>
    if s.unhandled = 0 then s
    else onActionCompleteE e { s with unhandled := s.unhandled - 1 }
  | .rerun reset =>
    if s.tstate = .error then
      if !e.concOk then
        { s with tstate := .error, prepared := false, count := 0, capacity := none, retryNo := 0, concurrency := none }
      else
        scheduleEval e { s with tstate := .running, prepared := false, count := 0, capacity := none,
                                retryNo := 0, concurrency := policyConc s.specConc,
                                items := resetActions reset s.items }
    else s
  | .continue =>
    if s.tstate = .delayed then
      scheduleEval e { s with tstate := .running, items := resetActions false s.items }
    else s

def runE (e : EvalSpec) (s : WI) (ops : List Op) : WI := ops.foldl (stepE e) s

/-! ### vocabulary of the property statements -/

/-- the state in which the rerun transaction computes its first portion of indexes:
    runtime context cleared and prepared again, `_reset_actions(reset)` applied -/
def rerunPrepared (s : WI) (reset : Bool) : WI :=
  prepare { s with tstate := .running, prepared := false, count := 0, capacity := none,
                   retryNo := 0, concurrency := policyConc s.specConc,
                   items := resetActions reset s.items }

/-- the indexes for which the rerun transaction creates new executions -/
def rerunStarted (s : WI) (reset : Bool) : List Nat := nextIndexes (rerunPrepared s reset)

/-- item `i` has an accepted SUCCESS execution -/
def succeeded (s : WI) (i : Nat) : Bool :=
  s.items.any fun it => it.index == i && (it.accepted && it.state == .success)

/-- item `i` has a completed execution -/
def executed (s : WI) (i : Nat) : Bool :=
  s.items.any fun it => it.index == i && it.completed

/-- number of executions of index `i` that count (accepted) or may still count (RUNNING) -/
def liveCount (s : WI) (i : Nat) : Nat :=
  s.items.countP fun it => it.index == i && (it.accepted || it.state == .running)

/-! ### `get_task_execution_result`: accepted executions, stable sort by index -/

/-- insert `x` (which stood earlier in the list) in front of the first element whose index is
    not smaller: equal indexes keep their order (stable) -/
def insertByIndex (x : Nat × Nat) : List (Nat × Nat) → List (Nat × Nat)
  | [] => [x]
  | y :: ys => if x.1 ≤ y.1 then x :: y :: ys else y :: insertByIndex x ys

/-- stable sort by first component (python `list.sort(key=index)`) -/
def sortByIndex (l : List (Nat × Nat)) : List (Nat × Nat) := l.foldr insertByIndex []

/-- (index, position of the execution) of every accepted execution -/
def acceptedPairs (s : WI) : List (Nat × Nat) :=
  ((s.items.zipIdx).filter fun p => p.1.accepted).map fun p => (p.1.index, p.2)

/-- the task result as the list of (index, position) in the order of the result list -/
def resultList (s : WI) : List (Nat × Nat) := sortByIndex (acceptedPairs s)

end Mistral.WithItems
