/-
L5-tree: an execution TREE (workflow executions linked to the task executions that started them) as a
transition system over committed rows and pending deliveries, at the atomicity the code has: one
`Event` = one committed transaction of one engine entry point, one post-commit operation, one scheduler
job, one executor run or one operator command (properties C11 / C10 / C09 on trees).  Core Lean only.

What is modelled, function by function (mistral @ /repo):
  * engine/default_engine.py  start_workflow / start_task / on_action_complete(wf_action or not) /
                              stop_workflow / pause_workflow / resume_workflow     -> `step`
  * engine/workflow_handler.py stop_workflow: `wf.stop(state, msg)` and, ONLY for CANCELLED, the
                              recursion `for task_ex in wf_ex.task_executions: for sub in
                              get_workflow_executions(task_execution_id=task_ex.id): if not
                              is_completed(sub.state): stop_workflow(sub, ...)` IN THE SAME
                              TRANSACTION                                          -> `below`, `cancelTx`
  * engine/workflows.py       Workflow.stop / _succeed_workflow / _fail_workflow / _cancel_workflow /
                              set_state (table + CAS) / check_and_complete /
                              _send_result_to_parent_workflow (a post-commit operation that sends the
                              RPC message on_action_complete(child id, wf_action=True))  -> `stopOne`,
                              `finish`, `checkAndComplete`
  * engine/dispatcher.py      dispatch_workflow_commands (nothing once the workflow is completed;
                              `_rearrange_commands` sorts with a comparator that answers "less" for
                              every pair of non-join commands, which REVERSES the list)  -> `dispatch`
  * engine/task_handler.py    run_task (NO guard on the workflow state), _on_action_complete,
                              schedule_on_action_complete (synchronous for a plain task, a scheduler
                              job for a with-items task)                           -> `runTask`, `childResult`
  * engine/tasks.py           Task.complete, RegularTask._run_new / on_action_complete (the task takes
                              the CHILD ROW's state), WithItemsTask.on_action_complete /
                              _schedule_actions / _get_next_indexes / is_with_items_completed /
                              _get_final_state / capacity bookkeeping              -> `completeTask`,
                              `wiSchedule`, `wiOnComplete`
  * engine/actions.py         WorkflowAction.schedule: in-process start (same transaction) or, with
                              [engine] start_subworkflows_via_rpc, a post-commit operation that sends the
                              RPC message start_workflow                           -> `startSub`
Not modelled: data flow / expressions (results are part of the event), joins, policies, rerun, name
resolution (C09's own model), the integrity-check timer.

Identification: executions and task executions are numbered in creation order (index into
`World.execs` / `World.tasks`), which is what the harness reads off the real database.
-/
import Mistral.Model.Lifecycle
namespace Mistral.Tree
open Mistral Mistral.Lifecycle

/-- what a task does -/
inductive Kind where
  | action                                                        -- an ordinary (asynchronous) action
  | subwf (defn : Nat) (items : Option Nat) (conc : Option Nat)   -- `workflow: <defn>`; items = with-items count
  deriving Repr, DecidableEq

structure TaskSpec where
  name : String
  kind : Kind
  onSuccess : List String
  onError : List String
  deriving Repr

/-- the definitions (index = definition id) and the `[engine] start_subworkflows_via_rpc` flag -/
structure Cfg where
  defs : List (List TaskSpec)
  viaRpc : Bool
  deriving Repr

/-- `state_info`: nothing, the operator's message, or a message the engine computed -/
inductive Info where
  | none | op (msg : String) | auto
  deriving Repr, DecidableEq

/-- `output`: `{}`, the evaluated output of the definition, or `{'result': <message>}` -/
inductive Out where
  | empty | data | result (i : Info)
  deriving Repr, DecidableEq

structure Exec where
  defn : Nat
  parent : Option Nat          -- task_execution_id (index into World.tasks)
  index : Nat                  -- runtime_context['index']
  state : St
  info : Info
  out : Out
  accepted : Bool
  sent : Nat                   -- ghost: how many times `_send_result` was registered for this execution
  got : Nat                    -- ghost: how many result messages of this execution the engine processed
  backlog : List String        -- runtime_context['backlog_commands']: commands saved while PAUSED
  deriving Repr

structure Task where
  wf : Nat                     -- workflow_execution_id (index into World.execs)
  name : String
  state : St
  processed : Bool
  hasNext : Bool
  errorHandled : Bool
  wi : Option (Nat × Option Nat)   -- runtime_context['with_items'] = (count, capacity)
  conc : Option Nat            -- runtime_context['concurrency']: set by the concurrency policy in
                               -- `_before_task_start`, i.e. only when the task starts through `_run_new`
  ran : Nat                    -- ghost: how many times the completion logic of Task.complete ran
  deriving Repr

/-- something handed to another thread / process / point in time -/
inductive Item where
  | postStartTask (t : Nat) (first : Bool)   -- post-commit op: send RPC start_task (first_run)
  | rpcStartTask (t : Nat) (first : Bool)
  | postRunAction (t : Nat)              -- post-commit op: hand the action to an executor
  | runAction (t : Nat)                  -- at the executor
  | rpcResult (t : Nat) (ok : Bool)      -- RPC on_action_complete of an ordinary action
  | postCheck (wf : Nat)                 -- post-commit op (own tx): workflow completion check
  | postStartSub (t : Nat) (idx : Nat)   -- post-commit op: send RPC start_workflow (via-rpc mode)
  | rpcStartSub (t : Nat) (idx : Nat)
  | postSendResult (c : Nat)             -- post-commit op `_send_result` of child execution c
  | rpcChildResult (c : Nat)             -- RPC on_action_complete(c, wf_action=True)
  | jobChildComplete (c : Nat)           -- scheduler job `_scheduled_on_action_complete` (with-items parent)
  | jobChildUpdate (c : Nat)             -- scheduler job `_scheduled_on_action_update` (with-items parent)
  deriving Repr, DecidableEq

structure World where
  execs : List Exec
  tasks : List Task
  pending : List Item
  deriving Repr

inductive Event where
  | startRoot (defn : Nat)                       -- API start_workflow of a root execution
  | deliver (it : Item)
  | execute (t : Nat) (ok : Bool)                -- the executor runs the action of task t and reports
  | stop (wf : Nat) (s : St) (msg : String)      -- engine.stop_workflow(wf, s, msg): force-fail / succeed / cancel
  | pause (wf : Nat)                             -- engine.pause_workflow(wf)
  | resume (wf : Nat)                            -- engine.resume_workflow(wf)
  deriving Repr

def init : World := { execs := [], tasks := [], pending := [] }

/-! ## definitions -/

def defOf (c : Cfg) (d : Nat) : List TaskSpec := c.defs.getD d []

def specOf (c : Cfg) (d : Nat) (n : String) : Option TaskSpec := (defOf c d).find? (·.name == n)

def kindOf (c : Cfg) (d : Nat) (n : String) : Option Kind := (specOf c d n).map (·.kind)

/-- `find_start_tasks`: the tasks no on-clause of the definition leads to -/
def startTasks (d : List TaskSpec) : List String :=
  (d.filter fun t => !(d.any fun u => u.onSuccess.contains t.name || u.onError.contains t.name)).map (·.name)

/-- `_find_next_tasks` (on-error for ERROR, on-success for SUCCESS; nothing for CANCELLED) -/
def nextOf (c : Cfg) (d : Nat) (n : String) (s : St) : List String :=
  match specOf c d n with
  | none => []
  | some sp => (if s == .ERROR then sp.onError else []) ++ (if s == .SUCCESS then sp.onSuccess else [])

/-! ## rows -/

def removeFirst (l : List Item) (it : Item) : List Item :=
  match l with
  | [] => []
  | x :: xs => if x == it then xs else x :: removeFirst xs it

def stateOf (w : World) (i : Nat) : Option St := (w.execs[i]?).map (·.state)

/-- the execution that owns the parent task of execution x -/
def parentWf (w : World) (x : Nat) : Option Nat :=
  match w.execs[x]? with
  | some e => match e.parent with
    | some t => (w.tasks[t]?).map (·.wf)
    | none => none
  | none => none

/-- the child executions of task t, in creation order, with their indices into `execs` -/
def childrenOfTask (w : World) (t : Nat) : List (Nat × Exec) :=
  (w.execs.zipIdx.filter fun p => p.1.parent == some t).map fun p => (p.2, p.1)

/-! ## dispatcher -/

def newTask (wf : Nat) (n : String) : Task :=
  { wf := wf, name := n, state := .IDLE, processed := false, hasNext := false, errorHandled := false,
    wi := none, conc := none, ran := 0 }

/-- one RunTask command: nothing once the workflow is completed; saved to the backlog while it is PAUSED;
    else the row (IDLE) and the post-commit `_start_task` -/
def dispatchOne (w : World) (wf : Nat) (n : String) : World :=
  match w.execs[wf]? with
  | some e =>
    if isCompleted e.state then w
    else if e.state == .PAUSED then { w with execs := w.execs.set wf { e with backlog := e.backlog ++ [n] } }
    else { w with tasks := w.tasks ++ [newTask wf n], pending := w.pending ++ [.postStartTask w.tasks.length true] }
  | none => w

/-- `dispatch_workflow_commands`: `_rearrange_commands` reverses the commands (see the header) -/
def dispatch (w : World) (wf : Nat) (names : List String) : World :=
  names.reverse.foldl (fun w n => dispatchOne w wf n) w

/-! ## workflow completion -/

/-- `set_state(s, info)` into a completed state, the output, and `_send_result_to_parent_workflow`
    (registered only for an execution that has a parent task) -/
def finish (w : World) (i : Nat) (e : Exec) (s : St) (info : Info) (out : Out) : World :=
  { w with
    execs := w.execs.set i { e with state := s, info := info, out := out, accepted := true,
                                    sent := if e.parent.isSome then e.sent + 1 else e.sent },
    pending := if e.parent.isSome then w.pending ++ [.postSendResult i] else w.pending }

/-- `Workflow.check_and_complete` (the completion verdict; messages are engine-computed) -/
def checkAndComplete (w : World) (i : Nat) : World :=
  match w.execs[i]? with
  | none => w
  | some e =>
    if isPausedOrCompleted e.state then w
    else
      let ts := w.tasks.filter (·.wf == i)
      if ts.any (fun t => !isCompleted t.state) then w
      else if ts.any (fun t => t.state == .CANCELLED) then finish w i e .CANCELLED .auto (.result .auto)
      else if ts.all (fun t => t.state != .ERROR || t.errorHandled) then finish w i e .SUCCESS .none .data
      else finish w i e .ERROR .auto (.result .auto)

/-- `Workflow.stop(state, msg)`; `none` = an exception leaves the entry point (invalid transition:
    WorkflowException) and the whole transaction is rolled back.  All three of `_succeed_workflow`,
    `_fail_workflow`, `_cancel_workflow` ignore an execution that is already completed
    (`_succeed_workflow` since repo patch 15). -/
def stopOne (w : World) (i : Nat) (s : St) (msg : Info) : Option World :=
  match w.execs[i]? with
  | none => none                               -- DBEntityNotFoundError
  | some e =>
    match s with
    | .SUCCESS =>
      if isCompleted e.state then some w
      else if isValidTransition e.state .SUCCESS == some true
        then some (finish w i e .SUCCESS msg .data) else none
    | .ERROR =>
      if isCompleted e.state then some w
      else if isValidTransition e.state .ERROR == some true
        then some (finish w i e .ERROR msg (.result msg)) else none
    | .CANCELLED =>
      if isCompleted e.state then some w
      else if isValidTransition e.state .CANCELLED == some true
        then some (finish w i e .CANCELLED msg (.result msg)) else none
    | _ => some w

/-- `x` is `a` or a descendant of `a` (whatever the states on the path): what the recursion of
    `stop_workflow(a, CANCELLED)` visits (since repo patch 14 the loop over the sub-workflows of every task
    execution descends into completed children too).  Fuel: the depth of the tree. -/
def below (w : World) (a : Nat) : Nat → Nat → Bool
  | 0, _ => false
  | f + 1, x =>
    x == a || (match parentWf w x with
      | some p => below w a f p
      | none => false)

/-- one visited execution: `_cancel_workflow(msg)` (ignored when completed): CANCELLED, the message as
    state_info and as `{'result': msg}`, accepted, and one `_send_result` if it has a parent task -/
def cancelled (msg : String) (e : Exec) : Exec :=
  { e with state := .CANCELLED, info := .op msg, out := .result (.op msg), accepted := true,
           sent := if e.parent.isSome then e.sent + 1 else e.sent }

/-- is execution x (row e) cancelled by `stop_workflow(a, CANCELLED)`? -/
def hit (w : World) (a : Nat) (x : Nat) (e : Exec) : Bool :=
  below w a w.execs.length x && !isCompleted e.state

/-- the whole transaction of `stop_workflow(a, CANCELLED, msg)`: every execution at or below `a` that is not
    completed is cancelled (each execution is visited once; `_cancel_workflow` ignores completed ones) -/
def cancelTx (w : World) (a : Nat) (msg : String) : World :=
  { w with
    execs := w.execs.mapIdx fun x e => if hit w a x e then cancelled msg e else e,
    pending := w.pending ++
      ((w.execs.zipIdx.filter fun p => hit w a p.2 p.1 && p.1.parent.isSome).map fun p => Item.postSendResult p.2) }

/-! ## tasks -/

def newExec (d : Nat) (parent : Option Nat) (index : Nat) : Exec :=
  { defn := d, parent := parent, index := index, state := .RUNNING, info := .none, out := .empty,
    accepted := false, sent := 0, got := 0, backlog := [] }

/-- `Workflow.start` of a new execution (state RUNNING, start tasks dispatched); `check` = the
    completion check `DefaultEngine.start_workflow` runs in the same transaction (not run by the
    in-process start of a sub-workflow) -/
def startWf (c : Cfg) (w : World) (d : Nat) (parent : Option Nat) (index : Nat) (check : Bool) : World :=
  let i := w.execs.length
  let w1 := { w with execs := w.execs ++ [newExec d parent index] }
  let w2 := dispatch w1 i (startTasks (defOf c d))
  if check then checkAndComplete w2 i else w2

/-- the state of a sub-workflow task whose child is refused because its workflow execution (state s) is
    completed (`Task.get_state_for_completed_workflow`, repo patch 19): cancelled with a CANCELLED workflow,
    failed otherwise -/
def refusedState (s : St) : St := if s == .CANCELLED then .CANCELLED else .ERROR

/-- `WorkflowAction.schedule` for item `idx` of task t (called when the parent workflow execution is not
    completed; for a completed one `schedule` raises WorkflowException since repo patch 16 and the caller
    completes the task with `refusedState`) -/
def startSub (c : Cfg) (w : World) (t : Nat) (d : Nat) (idx : Nat) : World :=
  if c.viaRpc then { w with pending := w.pending ++ [.postStartSub t idx] }
  else startWf c w d (some t) idx false

/-- `Task.complete(state)` past its guards + dispatch of the next commands -/
def completeTask (c : Cfg) (w : World) (t : Nat) (s : St) : World :=
  match w.tasks[t]? with
  | none => w
  | some tk =>
    if isCompleted tk.state then w else
    match w.execs[tk.wf]? with
    | none => w
    | some e =>
      -- WorkflowController.continue_workflow returns no commands for a completed workflow
      let nt := if isCompleted e.state then [] else nextOf c e.defn tk.name s
      let tk1 : Task := { tk with state := s, hasNext := !nt.isEmpty, ran := tk.ran + 1,
                                  errorHandled := if s == .ERROR then !nt.isEmpty else tk.errorHandled }
      if isPaused e.state then { w with tasks := w.tasks.set t tk1 }
      else
        let w1 := { w with tasks := w.tasks.set t { tk1 with processed := true },
                           pending := if nt.isEmpty then w.pending ++ [.postCheck tk.wf] else w.pending }
        dispatch w1 tk.wf nt

/-- `WithItemsTask._get_next_indexes` on the child rows: the indexes of completed children whose result does
    not count any more (`accepted` reset by `_reset_actions`) and that are not taken by an accepted / running /
    idle child, followed by the not yet taken indexes above them; if there is none, the indexes from the number of
    accepted / running / idle children up to count; cut to capacity -/
def wiNextIndexes (w : World) (t : Nat) (count : Nat) (cap : Option Nat) : List Nat :=
  let ch := childrenOfTask w t
  let takenRows := ch.filter fun p => p.2.accepted || isRunning p.2.state || isIdle p.2.state
  let taken := takenRows.map (·.2.index)
  let unacc := (ch.filter fun p => !p.2.accepted && isCompleted p.2.state).map (·.2.index)
  let cands := (List.range count).filter fun i => unacc.contains i && !taken.contains i
  let cands := cands ++ (unacc.filter fun i => i ≥ count && !taken.contains i).eraseDups
  let l := match cands.getLast? with
    | some m => cands ++ (if m + 1 < count then (List.range count).filter fun i => i > m && !taken.contains i else [])
    | none => (List.range count).drop takenRows.length
  match cap with
  | some k => l.take k
  | none => l

/-- `WithItemsTask._schedule_actions` once the runtime context is prepared -/
def wiSchedule (c : Cfg) (w : World) (t : Nat) (d : Nat) (count : Nat) (cap : Option Nat) : World :=
  let idxs := wiNextIndexes w t count cap
  if idxs.isEmpty then completeTask c w t .SUCCESS
  else
    match w.tasks[t]? with
    | none => w
    | some tk0 =>
      match w.execs[tk0.wf]? with
      | none => w
      | some e =>
        -- WorkflowAction.schedule raises for a completed parent workflow: the task completes with ERROR
        if isCompleted e.state then completeTask c w t (refusedState e.state)
        else
          let w1 := idxs.foldl (fun w i => startSub c w t d i) w
          match w1.tasks[t]? with
          | some tk => { w1 with tasks := w1.tasks.set t { tk with wi := some (count, cap.map (· - idxs.length)) } }
          | none => w1

/-- `task_handler.run_task(first_run=True)` -> `RegularTask._run_new`: only an IDLE task starts.  The
    state of the WORKFLOW is not consulted, except that no sub-workflow is started in a completed one. -/
def runTask (c : Cfg) (w : World) (t : Nat) : World :=
  match w.tasks[t]? with
  | none => w
  | some tk =>
    if tk.state != .IDLE then w else
    match w.execs[tk.wf]? with
    | none => w
    | some e =>
      let w1 := { w with tasks := w.tasks.set t { tk with state := .RUNNING } }
      match kindOf c e.defn tk.name with
      | none => w1
      | some .action => { w1 with pending := w1.pending ++ [.postRunAction t] }
      | some (.subwf d none _) =>
        if isCompleted e.state then completeTask c w1 t (refusedState e.state) else startSub c w1 t d 0
      | some (.subwf d (some n) conc) =>
        let w2 := { w with tasks := w.tasks.set t { tk with state := .RUNNING, wi := some (n, conc), conc := conc } }
        wiSchedule c w2 t d n conc

/-- `is_with_items_completed` -/
def wiCompleted (w : World) (t : Nat) (count : Nat) (cap conc : Option Nat) : Bool :=
  let ch := childrenOfTask w t
  ch.any (fun p => p.2.accepted && p.2.state == .CANCELLED) ||
  (((if count == 0 then 1 else count) == (ch.filter fun p => p.2.accepted).length) &&
   (match conc with
    | none => true
    | some k => k == 0 || cap == some k))

/-- `_get_final_state` -/
def wiFinalState (w : World) (t : Nat) : St :=
  let ch := childrenOfTask w t
  if ch.any (fun p => p.2.accepted && p.2.state == .CANCELLED) then .CANCELLED
  else if ch.any (fun p => p.2.accepted && p.2.state == .ERROR) then .ERROR
  else .SUCCESS

/-- python truthiness of `runtime_context.get('concurrency')` -/
def hasConc (conc : Option Nat) : Bool :=
  match conc with
  | some k => k != 0
  | none => false

/-- `_increase_capacity` -/
def incCap (conc cap : Option Nat) : Option Nat :=
  match conc, cap with
  | some k, some cp => if k != 0 && cp < k then some (cp + 1) else some cp
  | _, cp => cp

/-- `WithItemsTask.on_action_complete` (the scheduled `_on_action_complete` of a with-items task) -/
def wiOnComplete (c : Cfg) (w : World) (t : Nat) : World :=
  match w.tasks[t]? with
  | none => w
  | some tk =>
    if isCompleted tk.state then w else
    match w.execs[tk.wf]?, tk.wi with
    | some e, some (count, cap) =>
      match kindOf c e.defn tk.name with
      | some (.subwf d (some _) _) =>
        let conc := tk.conc
        let cap1 := incCap conc cap
        let w1 := { w with tasks := w.tasks.set t { tk with wi := some (count, cap1) } }
        if wiCompleted w1 t count cap1 conc then completeTask c w1 t (wiFinalState w1 t)
        else
          -- _has_more_iterations and a concurrency limit
          let busy := (childrenOfTask w1 t).filter fun p => p.2.accepted || p.2.state == .RUNNING
          if count > busy.length && hasConc conc
          then wiSchedule c w1 t d count cap1 else w1
      | _ => w
    | _, _ => w

/-- `DefaultEngine.on_action_complete(child, wf_action=True)`: `WorkflowAction.complete` is a no-op;
    a plain parent task takes the child row's state at once, a with-items parent gets a scheduler job -/
def childResult (c : Cfg) (w : World) (x : Nat) : World :=
  match w.execs[x]? with
  | none => w
  | some e =>
    let w1 := { w with execs := w.execs.set x { e with got := e.got + 1 } }
    match e.parent with
    | none => w1
    | some t =>
      match w1.tasks[t]? with
      | none => w1
      | some tk =>
        match w1.execs[tk.wf]? with
        | none => w1
        | some pe =>
          match kindOf c pe.defn tk.name with
          | some (.subwf _ (some _) _) => { w1 with pending := w1.pending ++ [.jobChildComplete x] }
          | _ => completeTask c w1 t e.state

/-! ## pause / resume and their propagation through the tree -/

/-- the task has an action in progress (registered for an executor, at an executor, result on its way) or a
    child execution that is not completed: `any(not is_completed(e.state) for e in task_ex.executions)` -/
def hasLive (w : World) (t : Nat) : Bool :=
  (w.pending.any fun i => match i with
    | .postRunAction t' => t' == t
    | .runAction t' => t' == t
    | .rpcResult t' _ => t' == t
    | _ => false) ||
  (childrenOfTask w t).any fun p => !isCompleted p.2.state

/-- `RegularTask._reset_actions` (no reset flag): the results of the failed / cancelled children of the task
    do not count any more -/
def resetKids (w : World) (t : Nat) : World :=
  { w with execs := w.execs.mapIdx fun _ e =>
      if e.parent == some t && e.accepted && (e.state == .ERROR || e.state == .CANCELLED)
      then { e with accepted := false } else e }

/-- `task_handler.run_task(first_run=False)` -> `RegularTask._run_existing` (a RunExistingTask command: an
    IDLE task found by `continue_workflow` on resume) -/
def runExisting (c : Cfg) (w : World) (t : Nat) : World :=
  match w.tasks[t]? with
  | none => w
  | some tk =>
    -- SUCCESS: MistralError, the transaction is rolled back; any other completed state: the request is
    -- stale and ignored (repo 17f326b9)
    if isCompleted tk.state then w
    else if tk.state == .RUNNING && hasLive w t then w
    else
    match w.execs[tk.wf]? with
    | none => w
    | some e =>
      let w0 := resetKids w t
      let w1 := { w0 with tasks := w0.tasks.set t { tk with state := .RUNNING, processed := false } }
      match kindOf c e.defn tk.name with
      | none => w1
      | some .action => { w1 with pending := w1.pending ++ [.postRunAction t] }
      | some (.subwf d none _) =>
        if isCompleted e.state then completeTask c w1 t (refusedState e.state) else startSub c w1 t d 0
      | some (.subwf d (some n) _) =>
        -- `_run_existing` does not run the policies (`if self.rerun: self._before_task_start()`): a task that
        -- starts through this request has no 'concurrency' in its runtime context, all items start at once
        let wi := tk.wi.getD (n, tk.conc)
        let w2 := { w0 with tasks := w0.tasks.set t { tk with state := .RUNNING, processed := false, wi := some wi } }
        wiSchedule c w2 t d wi.1 wi.2

/-- `Task.update(state)` (an external state change of the task's sub-workflow) -/
def taskUpdate (w : World) (t : Nat) (s : St) : World :=
  match w.tasks[t]? with
  | none => w
  | some tk =>
    if isCompleted tk.state then w
    else if isValidTransition tk.state s != some true then w
    else if s == .RUNNING && (childrenOfTask w t).any (fun p => p.2.state == .PAUSED) then w
    else
      -- a bare `set_state` (no completion logic); for a completed state (a stale update job that finds its
      -- child finished) the completion check of the workflow is registered
      { w with tasks := w.tasks.set t { tk with state := s },
               pending := if isCompleted s && !tk.hasNext then w.pending ++ [.postCheck tk.wf] else w.pending }

/-- `Workflow.set_state` into a state that is not completed (PAUSED / RUNNING): state_info is reset,
    accepted = is_completed(state) = False -/
def setState (w : World) (x : Nat) (e : Exec) (s : St) : World :=
  { w with execs := w.execs.set x { e with state := s, info := .none, accepted := false } }

/-- the sub-workflow executions of the tasks of execution x (task order, then creation order) -/
def kidsOf (w : World) (x : Nat) : List Nat :=
  (w.tasks.zipIdx.filter fun p => p.1.wf == x).flatMap fun p => (childrenOfTask w p.2).map (·.1)

def isWithItemsTask (c : Cfg) (w : World) (t : Nat) : Bool :=
  match w.tasks[t]? with
  | some tk => (match w.execs[tk.wf]? with
    | some e => (match kindOf c e.defn tk.name with
      | some (.subwf _ (some _) _) => true
      | _ => false)
    | none => false)
  | none => false

/-- `Workflow.resume` after the state change: `continue_workflow()` (RunExistingTask for IDLE tasks, the
    next commands of completed tasks that are not processed yet), `_continue_workflow` (those tasks become
    processed; the backlog and the commands are dispatched, or the completion check runs) -/
def resumeSelf (c : Cfg) (w : World) (x : Nat) : World :=
  match w.execs[x]? with
  | none => w
  | some e =>
    let ts := w.tasks.zipIdx.filter fun p => p.1.wf == x
    let idle := (ts.filter fun p => p.1.state == .IDLE).map (·.2)
    let cmds := (ts.filter fun p => isCompleted p.1.state && !p.1.processed).flatMap fun p =>
      nextOf c e.defn p.1.name p.1.state
    let w1 := { w with tasks := w.tasks.map fun tk =>
                  if tk.wf == x && isCompleted tk.state && !tk.processed then { tk with processed := true } else tk }
    if idle.isEmpty && cmds.isEmpty && e.backlog.isEmpty then checkAndComplete w1 x
    else
      let w2 := dispatch { w1 with execs := w1.execs.set x { e with backlog := [] } } x e.backlog
      let w3 := { w2 with pending := w2.pending ++ idle.map fun t => Item.postStartTask t false }
      dispatch w3 x cmds

/-- `task_handler.force_fail_task` -/
def forceFail (w : World) (t : Nat) : World × Bool :=
  match w.tasks[t]? with
  | none => (w, false)
  | some tk =>
    let w1 := { w with tasks := w.tasks.set t { tk with state := .ERROR } }
    match stopOne w1 tk.wf .ERROR .auto with
    | some w2 => (w2, false)
    | none => (w1, true)

/-- the first step of `_on_action_update(x)`: `task.on_action_update` = `Task.update(x.state)` of the parent task -/
def updateLocal (w : World) (x : Nat) : World :=
  match w.execs[x]? with
  | none => w
  | some e =>
    match e.parent with
    | none => w
    | some t => taskUpdate w t e.state

inductive Mode where
  | pause      -- workflow_handler.pause_workflow(x)
  | resume     -- workflow_handler.resume_workflow(x)
  | update     -- task_handler._on_action_update(x): x changed state, its parent task / workflow follow
  | belowP     -- pause_workflow(x, nested=True) of a COMPLETED x: only its sub-workflows (repo patch 23)
  | belowR     -- resume_workflow(x, nested=True) of a COMPLETED x: only its sub-workflows
  deriving Repr, DecidableEq

/-- pause_workflow / resume_workflow / _on_action_update call each other inside ONE transaction: the
    sub-workflows first (ALL of them since repo patch 23: below a completed sub-workflow only its own
    sub-workflows are visited), then the workflow itself, then (`schedule_on_action_update`) the parent task and the
    parent workflow — synchronously for a plain parent task, through a scheduler job for a with-items one.
    Result: the world and "an exception left this call" (an invalid transition in `Workflow.set_state`;
    inside `_on_action_update` it is caught and the parent task is force-failed).  Fuel: nesting depth (a call
    without fuel does nothing, except that `_on_action_update` still updates the parent task: the local step
    never depends on the fuel). -/
def prop (c : Cfg) : Nat → Mode → World → Nat → World × Bool
  | 0, .update, w, x => (updateLocal w x, false)
  | 0, _, w, _ => (w, false)
  | f + 1, .pause, w, x =>
    let r := (kidsOf w x).foldl (fun (acc : World × Bool) k =>
      if acc.2 then acc else
      match acc.1.execs[k]? with
      | some ek => if isCompleted ek.state then prop c f .belowP acc.1 k else prop c f .pause acc.1 k
      | none => acc) (w, false)
    if r.2 then r else
    match r.1.execs[x]? with
    | none => r
    | some e =>
      if isPaused e.state then r
      else if isValidTransition e.state .PAUSED == some true then
        let w1 := setState r.1 x e .PAUSED
        match e.parent with
        | none => (w1, false)
        | some t =>
          if isWithItemsTask c w1 t then ({ w1 with pending := w1.pending ++ [.jobChildUpdate x] }, false)
          else prop c f .update w1 x
      else (r.1, true)
  | f + 1, .resume, w, x =>
    match w.execs[x]? with
    | none => (w, false)
    | some e0 =>
      if !isPausedOrIdle e0.state then (w, false) else
      let r := (kidsOf w x).foldl (fun (acc : World × Bool) k =>
        if acc.2 then acc else
        match acc.1.execs[k]? with
        | some ek => if isCompleted ek.state then prop c f .belowR acc.1 k else prop c f .resume acc.1 k
        | none => acc) (w, false)
      if r.2 then r else
      match r.1.execs[x]? with
      | none => r
      | some e =>
        -- repo patch 20: a nested call (a resumed sub-workflow resumes its parent) may have resumed, even
        -- completed, this execution already
        if !isPausedOrIdle e.state then r
        else if isValidTransition e.state .RUNNING == some true then
          let w1 := resumeSelf c (setState r.1 x e .RUNNING) x
          match e.parent with
          | none => (w1, false)
          | some t =>
            if isWithItemsTask c w1 t then ({ w1 with pending := w1.pending ++ [.jobChildUpdate x] }, false)
            else prop c f .update w1 x
        else (r.1, true)
  | f + 1, .belowP, w, x =>
    (kidsOf w x).foldl (fun (acc : World × Bool) k =>
      if acc.2 then acc else
      match acc.1.execs[k]? with
      | some ek => if isCompleted ek.state then prop c f .belowP acc.1 k else prop c f .pause acc.1 k
      | none => acc) (w, false)
  | f + 1, .belowR, w, x =>
    (kidsOf w x).foldl (fun (acc : World × Bool) k =>
      if acc.2 then acc else
      match acc.1.execs[k]? with
      | some ek => if isCompleted ek.state then prop c f .belowR acc.1 k else prop c f .resume acc.1 k
      | none => acc) (w, false)
  | f + 1, .update, w, x =>
    match w.execs[x]? with
    | none => (w, false)
    | some e =>
      match e.parent with
      | none => (w, false)
      | some t =>
        match w.tasks[t]? with
        | none => (w, false)
        | some tk =>
          let w1 := taskUpdate w t e.state
          if isPaused e.state then
            let r := prop c f .pause w1 tk.wf
            if r.2 then forceFail r.1 t else r
          else if isRunning e.state then
            -- "if any subworkflow of the parent workflow is paused, keep the parent paused"
            if (w1.tasks.any fun u => u.wf == tk.wf && isPaused u.state) then (w1, false)
            else
              let r := prop c f .resume w1 tk.wf
              if r.2 then forceFail r.1 t else r
          else (w1, false)

def fuelOf (w : World) : Nat := 4 * w.execs.length + 8

/-! ## the transition system -/

def step (c : Cfg) (w : World) : Event → World
  | .startRoot d => startWf c w d none 0 true
  | .stop a s msg =>
    match s with
    | .CANCELLED => if a < w.execs.length then cancelTx w a msg else w
    | _ => (stopOne w a s (.op msg)).getD w
  | .pause a =>
    let r := prop c (fuelOf w) .pause w a
    if r.2 then w else r.1
  | .resume a =>
    let r := prop c (fuelOf w) .resume w a
    if r.2 then w else r.1
  | .execute t ok =>
    if !w.pending.contains (.runAction t) then w else
    { w with pending := removeFirst w.pending (.runAction t) ++ [.rpcResult t ok] }
  | .deliver it =>
    if !w.pending.contains it then w else
    let w := { w with pending := removeFirst w.pending it }
    match it with
    | .postStartTask t f => { w with pending := w.pending ++ [.rpcStartTask t f] }
    | .rpcStartTask t f => if f then runTask c w t else runExisting c w t
    | .postRunAction t => { w with pending := w.pending ++ [.runAction t] }
    | .runAction _ => w                         -- executors answer through `execute`
    | .rpcResult t ok => completeTask c w t (if ok then .SUCCESS else .ERROR)
    | .postCheck i => checkAndComplete w i
    | .postStartSub t i => { w with pending := w.pending ++ [.rpcStartSub t i] }
    | .rpcStartSub t i =>
      match w.tasks[t]? with
      | some tk =>
        match w.execs[tk.wf]? with
        | some e =>
          match kindOf c e.defn tk.name with
          | some (.subwf d _ _) =>
            -- DefaultEngine.start_workflow (repo patch 16): a child of a completed workflow execution is
            -- not started, its parent task is completed with ERROR
            if isCompleted e.state then completeTask c w t (refusedState e.state) else startWf c w d (some t) i true
          | _ => w
        | none => w
      | none => w
    | .postSendResult x => { w with pending := w.pending ++ [.rpcChildResult x] }
    | .rpcChildResult x => childResult c w x
    | .jobChildComplete x =>
      match w.execs[x]? with
      | some e => match e.parent with
        | some t => wiOnComplete c w t
        | none => w
      | none => w
    | .jobChildUpdate x => (prop c (fuelOf w) .update w x).1

def run (c : Cfg) (evs : List Event) : World := evs.foldl (step c) init

end Mistral.Tree
