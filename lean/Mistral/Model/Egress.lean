/-
Model of mistral/utils/egress.py (C19).  Core Lean only.

`validate` is the decision `validate_url` takes once `urlsplit` has produced
(scheme, hostname) and `getaddrinfo` has produced the address list (or failed).
`parseV4Parts` / `parseHostV4` model the numeric host forms libc accepts
(inet_aton: 1-4 parts, decimal / 0-octal / 0x-hex), `parseV6` the textual
IPv6 forms (`::` compression, embedded dotted quad).
-/
namespace Mistral.Egress

/-- An IP address: family + value. -/
inductive Addr where
  | v4 (n : Nat)
  | v6 (n : Nat)
  deriving Repr, DecidableEq

/-- A CIDR network as `ipaddress.ip_network(cidr, strict=False)` yields it. -/
structure Net where
  is6 : Bool
  base : Nat
  plen : Nat
  deriving Repr, DecidableEq

def bitsOf (is6 : Bool) : Nat := if is6 then 128 else 32

/-- `address in network` for python's ipaddress: families must match, then the
    top `plen` bits agree. -/
def inNet (a : Addr) (n : Net) : Bool :=
  match a, n.is6 with
  | .v4 x, false => x / 2 ^ (32 - n.plen) == n.base / 2 ^ (32 - n.plen)
  | .v6 x, true  => x / 2 ^ (128 - n.plen) == n.base / 2 ^ (128 - n.plen)
  | _, _ => false

/-- The IPv4 address an IPv4-mapped IPv6 address (::ffff:a.b.c.d) carries
    (`IPv6Address.ipv4_mapped`). -/
def ipv4Mapped : Addr → Option Addr
  | .v6 x => if x / 2 ^ 32 == 0xffff then some (.v4 (x % 2 ^ 32)) else none
  | .v4 _ => none

/-- Every address a resolved address *denotes*: itself and, for a mapped
    address, the embedded IPv4 address. -/
def denotes (a : Addr) : List Addr :=
  match ipv4Mapped a with
  | some m => [a, m]
  | none => [a]

structure Config where
  allowedHosts : List String
  denied : List Net
  deriving Repr

/-- What `parsed.port` + `socket.getaddrinfo` produce. -/
inductive Resolved where
  | addrs (l : List Addr)
  | unresolvable            -- socket.gaierror: the code fails open
  | badPort                 -- `parsed.port` raises ValueError (not a number / out of range)
  deriving Repr

inductive Verdict where
  | ok
  | portError               -- ValueError escapes; no request is made
  | badScheme
  | noHost
  | hostNotAllowed
  | blocked
  deriving Repr, DecidableEq

def addrDenied (cfg : Config) (a : Addr) : Bool :=
  (denotes a).any fun d => cfg.denied.any fun n => inNet d n

/-- `validate_url` after parsing. -/
def validate (cfg : Config) (scheme host : String) (addrs : Resolved) : Verdict :=
  if !(scheme == "http" || scheme == "https") then .badScheme
  else if host == "" then .noHost
  else if !cfg.allowedHosts.isEmpty && !cfg.allowedHosts.contains host then .hostNotAllowed
  else match addrs with
    | .unresolvable => .ok
    | .badPort => .portError
    | .addrs as => if as.any (addrDenied cfg) then .blocked else .ok

/-! ### Numeric host forms (inet_aton) -/

/-- Combine 1-4 already parsed numeric parts the way inet_aton does:
    every part but the last is one byte, the last fills the remaining bytes. -/
def combineParts : List Nat → Option Nat
  | [a] => if a < 2 ^ 32 then some a else none
  | [a, b] => if a < 256 ∧ b < 2 ^ 24 then some (a * 2 ^ 24 + b) else none
  | [a, b, c] => if a < 256 ∧ b < 256 ∧ c < 2 ^ 16 then some (a * 2 ^ 24 + b * 2 ^ 16 + c) else none
  | [a, b, c, d] =>
    if a < 256 ∧ b < 256 ∧ c < 256 ∧ d < 256 then some (a * 2 ^ 24 + b * 2 ^ 16 + c * 2 ^ 8 + d) else none
  | _ => none

def digitVal (c : Char) : Option Nat :=
  if '0' ≤ c ∧ c ≤ '9' then some (c.toNat - '0'.toNat)
  else if 'a' ≤ c ∧ c ≤ 'f' then some (c.toNat - 'a'.toNat + 10)
  else if 'A' ≤ c ∧ c ≤ 'F' then some (c.toNat - 'A'.toNat + 10)
  else none

def parseBase (base : Nat) (cs : List Char) : Option Nat :=
  if cs.isEmpty then none else
  cs.foldl (fun acc c => match acc, digitVal c with
    | some a, some d => if d < base then some (a * base + d) else none
    | _, _ => none) (some 0)

/-- One inet_aton part: `0x`/`0X` hex, leading `0` octal, else decimal. -/
def parsePart (s : List Char) : Option Nat :=
  match s with
  | '0' :: 'x' :: rest => parseBase 16 rest
  | '0' :: 'X' :: rest => parseBase 16 rest
  | ['0'] => some 0
  | '0' :: rest => parseBase 8 rest
  | _ => parseBase 10 s

def splitOnChar (c : Char) (s : List Char) : List (List Char) :=
  let rec go (cur : List Char) (acc : List (List Char)) : List Char → List (List Char)
    | [] => (cur.reverse :: acc).reverse
    | x :: xs => if x == c then go [] (cur.reverse :: acc) xs else go (x :: cur) acc xs
  go [] [] s

/-- Numeric IPv4 host as libc's inet_aton accepts it. -/
def parseHostV4 (s : String) : Option Nat :=
  let parts := splitOnChar '.' s.toList
  if parts.length > 4 then none else
  match parts.mapM parsePart with
  | some ps => combineParts ps
  | none => none

/-- Strict dotted quad (as inside an IPv6 literal: 4 decimal parts, no leading zeros handling beyond value). -/
def parseDottedQuad (s : List Char) : Option Nat :=
  let parts := splitOnChar '.' s
  if parts.length != 4 then none else
  match parts.mapM (fun p => if p.length > 3 ∨ (p.length > 1 ∧ p.head? == some '0') then none else parseBase 10 p) with
  | some [a, b, c, d] => if a < 256 ∧ b < 256 ∧ c < 256 ∧ d < 256 then
      some (a * 2 ^ 24 + b * 2 ^ 16 + c * 2 ^ 8 + d) else none
  | _ => none

def parseGroup (g : List Char) : Option Nat :=
  if g.length > 4 then none else parseBase 16 g

/-- groups (16-bit) of a `:`-separated run; the last one may be a dotted quad
    (2 groups) when `allowQuad`. -/
def parseGroups (gs : List (List Char)) (allowQuad : Bool) : Option (List Nat) :=
  match gs with
  | [] => some []
  | [g] =>
    if allowQuad ∧ g.contains '.' then
      match parseDottedQuad g with
      | some q => some [q / 2 ^ 16, q % 2 ^ 16]
      | none => none
    else (parseGroup g).map fun x => [x]
  | g :: rest =>
    match parseGroup g, parseGroups rest allowQuad with
    | some x, some xs => some (x :: xs)
    | _, _ => none

def groupsVal (gs : List Nat) : Nat := gs.foldl (fun acc g => acc * 2 ^ 16 + g) 0

/-- find the first occurrence of "::" and split around it -/
def splitDouble : List Char → Option (List Char × List Char)
  | [] => none
  | ':' :: ':' :: rest => some ([], rest)
  | c :: rest => (splitDouble rest).map fun (a, b) => (c :: a, b)

def nonEmptyGroups (s : List Char) : List (List Char) :=
  if s.isEmpty then [] else splitOnChar ':' s

/-- Textual IPv6 (inet_pton AF_INET6), no zone id. -/
def parseV6 (s : String) : Option Nat :=
  let cs := s.toList
  match splitDouble cs with
  | some (l, r) =>
    if (splitDouble r).isSome ∨ r.head? == some ':' then none else
    match parseGroups (nonEmptyGroups l) false, parseGroups (nonEmptyGroups r) true with
    | some lg, some rg =>
      if lg.length + rg.length > 7 then none
      else some (groupsVal (lg ++ List.replicate (8 - lg.length - rg.length) 0 ++ rg))
    | _, _ => none
  | none =>
    match parseGroups (nonEmptyGroups cs) true with
    | some g => if g.length == 8 then some (groupsVal g) else none
    | none => none

/-- A host string as `getaddrinfo` sees a numeric literal. -/
def parseHost (s : String) : Option Addr :=
  if s.toList.contains ':' then (parseV6 s).map .v6
  else (parseHostV4 s).map .v4

end Mistral.Egress
