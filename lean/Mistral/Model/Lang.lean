/-
Model of the definition-language code that is pure logic (C14):

* `cutDef`      = mistral/lang/parser.py `_parse_def_from_wb` (text slicing of a workbook member),
                  over code points, line by line, exactly as the Python does it;
* `normWfList`  = the in-place normalisation that spec construction performs on its source dict
                  (`BaseListSpec.__init__`, `WorkflowSpec.__init__`, `BaseSpecList.__init__`:
                  injected `name` / `version` / `type`), over a small JSON-like value;
* `validateGraph` = the graph part of `DirectWorkflowSpec.validate_semantics`
                  (`find_start_tasks`, `_check_workflow_integrity`, `_check_join_tasks`) and of
                  `ReverseWorkflowSpec._check_workflow_integrity`.

Core Lean only.  Tied to the real functions by the correspondence streams `cut`, `norm`, `graph`
of props/C14.py.
-/
import Mistral.Model.Reverse
namespace Mistral.Lang

abbrev Str := List Char

/-! ## Python string primitives -/

/-- `str.isspace()` of one code point (the set `str.strip()` removes). -/
def isPyWs (c : Char) : Bool :=
  let n := c.toNat
  (9 ≤ n && n ≤ 13) || (28 ≤ n && n ≤ 32) || n == 0x85 || n == 0xa0 || n == 0x1680 ||
  (0x2000 ≤ n && n ≤ 0x200a) || n == 0x2028 || n == 0x2029 || n == 0x202f || n == 0x205f ||
  n == 0x3000

def lstrip (s : Str) : Str := s.dropWhile isPyWs
def rstrip (s : Str) : Str := (s.reverse.dropWhile isPyWs).reverse
def strip (s : Str) : Str := rstrip (lstrip s)

/-- number of leading whitespace characters = `line.index(line.lstrip())` for a non-blank line. -/
def leadWs (s : Str) : Nat := (s.takeWhile isPyWs).length

/-- `s.index(pat)`; `none` = ValueError. -/
def indexOf (pat : Str) : Str → Option Nat
  | [] => if pat.isEmpty then some 0 else none
  | c :: t => if pat.isPrefixOf (c :: t) then some 0 else (indexOf pat t).map (· + 1)

/-- Iteration of `io.StringIO(s)`: lines *with* their terminator, split at '\n' only. -/
def splitLines : Str → List Str
  | [] => []
  | c :: t =>
    if c = '\n' then ['\n'] :: splitLines t
    else match splitLines t with
      | [] => [[c]]
      | l :: ls => (c :: l) :: ls

/-- `io.readline()` on a fresh StringIO: what is left after the first line. -/
def dropLine : Str → Str
  | [] => []
  | c :: t => if c = '\n' then t else dropLine t

/-! ## `_parse_def_from_wb` -/

/-- second loop: "Add strings to list unless same/less indentation is found". -/
def phase2 (ident : Nat) : List Str → List Str
  | [] => []
  | line :: rest =>
    let nl := strip line
    if nl.isEmpty then line :: phase2 ident rest
    else if nl.head? = some '#' then
      (match indexOf ['#'] line with
       | some i => if ident > i then line else line.drop ident
       | none => line.drop ident) :: phase2 ident rest
    else if ident < leadWs line then line.drop ident :: phase2 ident rest
    else []

/-- first loop: find the first line that, stripped, equals the item tag; then the second loop. -/
def phase1 (item : Str) : List Str → List Str
  | [] => []
  | line :: rest =>
    if item = strip line then
      match indexOf item line with
      | some ident => lstrip line :: phase2 ident rest
      | none => []
    else phase1 item rest

/-- `_parse_def_from_wb(wb_def, section_name, item_name)`; `none` = ValueError of `wb_def.index`. -/
def cutDef (wb sec item : Str) : Option Str :=
  match indexOf sec wb with
  | none => none
  | some i => some (rstrip (phase1 item (splitLines (dropLine (wb.drop i)))).flatten ++ ['\n'])

/-! ## the verified cut (repo patch 31: `parser._get_member_definition`) -/

/-- PyYAML as an oracle: `D` = parsed values up to python `==`; `parse` = `parser.parse_yaml` (`none` =
    DSLParsingException), `dump` = `safe_yaml.dump(…, default_flow_style=False, sort_keys=False)`. -/
structure Yaml (D : Type) where
  parse : Str → Option D
  dump : D → Str

/-- `_get_member_definition` once the member `{name: section[name]}` of the parsed workbook is known:
    the text cut is kept when it is YAML for exactly that member, else the member is written out. -/
def cutVerified {D : Type} [DecidableEq D] (Y : Yaml D) (wb sec name : Str) (member : D) : Str :=
  match cutDef wb (sec ++ [':']) (name ++ [':']) with
  | some t => if Y.parse t = some member then t else Y.dump member
  | none => Y.dump member

/-- `_get_member_definition`; `member` = what the parsed workbook text holds under `sec` / `name`
    (`none`: not a workbook with that member — nothing to verify against, the plain cut as before;
    a `none` result is the ValueError of `wb_def.index`). -/
def memberDefinition {D : Type} [DecidableEq D] (Y : Yaml D) (wb sec name : Str) (member : Option D) : Option Str :=
  match member with
  | some m => some (cutVerified Y wb sec name m)
  | none => cutDef wb (sec ++ [':']) (name ++ [':'])

/-! ## canonical rendering of a workbook section (what `cutDef_correct` is about) -/

/-- a body line of a member: indentation relative to the member's name line, and its text. -/
structure BLine where
  ind : Nat
  txt : Str
deriving DecidableEq, Repr

structure Member where
  name : Str
  body : List BLine
deriving DecidableEq, Repr

def spaces (n : Nat) : Str := List.replicate n ' '

def renderLine (base : Nat) (l : BLine) : Str := spaces (base + l.ind) ++ l.txt ++ ['\n']

def renderMember (base : Nat) (m : Member) : Str :=
  spaces base ++ m.name ++ [':', '\n'] ++ (m.body.map (renderLine base)).flatten

/-- a text without line break that neither starts nor ends with whitespace (non-empty). -/
def WFText (t : Str) : Prop :=
  t ≠ [] ∧ '\n' ∉ t ∧ (∀ c, t.head? = some c → isPyWs c = false) ∧
  (∀ c, t.getLast? = some c → isPyWs c = false)

instance (t : Str) : Decidable (WFText t) := by unfold WFText; exact inferInstance

def WFLine (l : BLine) : Prop := 1 ≤ l.ind ∧ WFText l.txt ∧ l.txt.head? ≠ some '#'

instance (l : BLine) : Decidable (WFLine l) := by unfold WFLine; exact inferInstance

def WFMember (m : Member) : Prop :=
  '\n' ∉ m.name ∧ (∀ c, (m.name ++ [':']).head? = some c → isPyWs c = false ∧ c ≠ '#') ∧
  ∀ l ∈ m.body, WFLine l

instance (m : Member) : Decidable (WFMember m) := by unfold WFMember; exact inferInstance

/-- what may follow the member: nothing, or a non-blank, non-comment line indented at most `b`. -/
def StopsAt (b : Nat) (tail : Str) : Prop :=
  tail = [] ∨ ∃ l, (splitLines tail).head? = some l ∧ strip l ≠ [] ∧ (strip l).head? ≠ some '#' ∧
    leadWs l ≤ b

/-- a whole workbook as the cutter sees it: header lines, the section line, members. -/
structure Workbook where
  header : List Str          -- lines before the section (without '\n')
  sec : Str                  -- "workflows:" or "actions:"
  base : Nat                 -- indentation of member names
  members : List Member
  tail : Str                 -- rest of the document (next section ...)
deriving Repr

def renderWb (w : Workbook) : Str :=
  (w.header.map (· ++ ['\n'])).flatten ++ w.sec ++ ['\n'] ++
  (w.members.map (renderMember w.base)).flatten ++ w.tail

/-! ## counter-witnesses of the unrestricted cutter statement (used by Props/C14 and replayed by the harness) -/

/-- counter-witness 1 (candidate defect I): a task of an earlier workflow is named like a later
    workflow. -/
def clashWf1 : Member := ⟨"wf1".toList, [⟨2, "tasks:".toList⟩, ⟨4, "wf2:".toList⟩, ⟨6, "action: std.noop".toList⟩]⟩
def clashWf2 : Member := ⟨"wf2".toList, [⟨2, "tasks:".toList⟩, ⟨4, "t1:".toList⟩, ⟨6, "action: std.fail".toList⟩]⟩
def witnessTaskClash : Workbook :=
  { header := ["version: '2.0'".toList, "name: wb".toList], sec := "workflows:".toList, base := 2,
    members := [clashWf1, clashWf2], tail := [] }

/-- counter-witness 2: the section keyword occurs earlier in the text (inside the description), and
    the `actions:` section, which comes first, has an action named like the workflow. -/
def secWf1 : Member := ⟨"wf1".toList, [⟨2, "tasks:".toList⟩, ⟨4, "t1:".toList⟩, ⟨6, "action: std.noop".toList⟩]⟩
def witnessSectionEarlier : Workbook :=
  { header := ["version: '2.0'".toList, "name: wb".toList, "description: 'my workflows: all'".toList,
               "actions:".toList, "  wf1:".toList, "    base: std.noop".toList],
    sec := "workflows:".toList, base := 2, members := [secWf1], tail := [] }

/-! ## normalisation performed by spec construction -/

inductive J where
  | null | bool (b : Bool) | num (n : Int) | str (s : String)
  | arr (xs : List J) | obj (kvs : List (String × J))
deriving Repr, Inhabited

/-- Python `d[k] = v`: replace in place when the key exists, else append. -/
def setKey (k : String) (v : J) : List (String × J) → List (String × J)
  | [] => [(k, v)]
  | (k', v') :: rest => if k' = k then (k, v) :: rest else (k', v') :: setKey k v rest

def getKey (k : String) : List (String × J) → Option J
  | [] => none
  | (k', v') :: rest => if k' = k then some v' else getKey k rest

inductive NormErr where
  | notADict        -- item assignment on a non-dict (TypeError in the code)
  | noTasks         -- `self._data.get('tasks').values()` on None (AttributeError in the code)
deriving Repr, DecidableEq

/-- `utils.merge_dicts(left, params)` for the inline `key=value` parameters of an action / workflow
    string: the right-hand values are never dictionaries (they come from a regular expression), so
    every key is simply assigned.  `inl` is an oracle bit computed by the real `_parse_cmd_and_input`. -/
def mergeInline (inl : List (String × J)) (kvs : List (String × J)) : List (String × J) :=
  inl.foldl (fun acc kv => setKey kv.1 kv.2 acc) kvs

/-- `TaskSpec._process_action_and_workflow`: `self._input = data.get('input', {})` is the dict of the
    source data only when the key is present.  Domain: `input` absent, null or a dict.  For a string /
    list / number `input` together with inline parameters the code rejects the task (InvalidModelException
    since repo fix 9c810d01, TypeError before); the correspondence skips those documents. -/
def mergeInput (inl : List (String × J)) (kvs : List (String × J)) : List (String × J) :=
  match getKey "input" kvs with
  | some (.obj inp) => setKey "input" (.obj (mergeInline inl inp)) kvs
  | _ => kvs

/-- `WorkflowSpec.__init__` injects `type` into every task value, then `BaseSpecList.__init__` of
    TaskSpecList injects `name` and `version` (it skips the key `version`, the `type` loop does not),
    then `TaskSpec.__init__` merges the inline parameters into `input`. -/
def normTask (typ : J) (inl : String → List (String × J)) (name : String) (t : J) : Except NormErr J :=
  match t with
  | .obj kvs =>
    let kvs := setKey "type" typ kvs
    if name = "version" then .ok (.obj kvs)
    else .ok (.obj (mergeInput (inl name)
      (setKey "version" (.str "2.0") (setKey "name" (.str name) kvs))))
  | _ => .error .notADict

def normTasks (typ : J) (inl : String → List (String × J)) :
    List (String × J) → Except NormErr (List (String × J))
  | [] => .ok []
  | (n, t) :: rest =>
    match normTask typ inl n t with
    | .error e => .error e
    | .ok t' =>
      match normTasks typ inl rest with
      | .error e => .error e
      | .ok rest' => .ok ((n, t') :: rest')

/-- one member of a workflow list: `v['name'] = k`, `v['version'] = '2.0'` (BaseListSpec /
    BaseSpecList), then the task normalisation of `WorkflowSpec.__init__`.
    `inl wf task` = inline parameters of that task's action/workflow string. -/
def normWf (inl : String → String → List (String × J)) (name : String) (w : J) : Except NormErr J :=
  match w with
  | .obj kvs =>
    let kvs := setKey "version" (.str "2.0") (setKey "name" (.str name) kvs)
    let typ := (getKey "type" kvs).getD (.str "direct")
    match getKey "tasks" kvs with
    | some (.obj ts) =>
      match normTasks typ (inl name) ts with
      | .error e => .error e
      | .ok ts' => .ok (.obj (setKey "tasks" (.obj ts') kvs))
    | _ => .error .noTasks
  | _ => .error .notADict

def normMembers (inl : String → String → List (String × J)) :
    List (String × J) → Except NormErr (List (String × J))
  | [] => .ok []
  | (n, w) :: rest =>
    if n = "version" then
      match normMembers inl rest with
      | .error e => .error e
      | .ok rest' => .ok ((n, w) :: rest')
    else
      match normWf inl n w with
      | .error e => .error e
      | .ok w' =>
        match normMembers inl rest with
        | .error e => .error e
        | .ok rest' => .ok ((n, w') :: rest')

/-- `WorkflowListSpec(data, validate)` seen as a function on its dict (`to_dict()` afterwards). -/
def normWfList (inl : String → String → List (String × J)) (d : J) : Except NormErr J :=
  match d with
  | .obj kvs =>
    match normMembers inl kvs with
    | .error e => .error e
    | .ok kvs' => .ok (.obj kvs')
  | _ => .error .notADict

/-! ## graph checks of workflow validation -/

inductive JoinSpec where
  | none | all | count (n : Nat)
deriving Repr, DecidableEq

structure Clauses where
  onSuccess : List String := []
  onError : List String := []
  onComplete : List String := []
  onSkip : List String := []
deriving Repr, DecidableEq

/-- one entry of an on-clause: the target (task name or engine command, after
    `_parse_cmd_and_input`) and whether it was written with a guard expression (`{target: <% … %>}`). -/
structure Entry where
  target : String
  guarded : Bool := false
deriving Repr, DecidableEq

/-- the syntactic forms the on-clause schema accepts (`OnClauseSpec._schema`, a `oneOf`). -/
inductive OnClause where
  | absent
  | single (e : Entry)          -- `on-success: t1`  /  `on-success: {t1: <% guard %>}`
  | list (es : List Entry)      -- `on-success: [t1, {t2: <% guard %>}]`
  | advSingle (e : Entry)       -- `on-success: {next: t1, publish: …}` (also `next: {t1: <% g %>}`)
  | advList (es : List Entry)   -- `on-success: {next: [..], publish: …}`
  | advNoNext                   -- `on-success: {publish: …}`
deriving Repr, DecidableEq

/-- the targets the user wrote. -/
def OnClause.written : OnClause → List String
  | .absent | .advNoNext => []
  | .single e | .advSingle e => [e.target]
  | .list es | .advList es => es.map (·.target)

/-- `OnClauseSpec.__init__` + `prepare_next_clause` as coded (after repo fix e74e4242): a dict is the
    advanced form only if it has `next` or `publish`; the guarded single form `{t1: <% guard %>}` is a
    one-element list of transitions, also as the value of `next`. -/
def OnClause.nextOf : OnClause → List String
  | .absent | .advNoNext => []
  | .single e => [e.target]
  | .advSingle e => [e.target]
  | .list es | .advList es => es.map (·.target)

/-- the guarded single entry (before repo fix e74e4242 the constructor did not read it). -/
def OnClause.isGuardedSingle : OnClause → Bool
  | .single e => e.guarded
  | _ => false

structure TaskG where
  name : String
  cl : Clauses := {}
  join : JoinSpec := .none
  requires : List String := []
deriving Repr, DecidableEq

structure WfG where
  reverse : Bool := false
  tasks : List TaskG
  defaults : Option Clauses := none
  defaultRequires : List String := []
deriving Repr, DecidableEq

def engineCommands : List String := ["noop", "fail", "succeed", "pause"]

/-- `get_on_*_clause`: the task's own clause, else the task-defaults clause without the task itself. -/
def effClause (own : List String) (dflt : Option (List String)) (self : String) : List String :=
  if own.isEmpty then
    match dflt with
    | some d => d.filter (· != self)
    | none => []
  else own

/-- `find_outbound_task_names(task)` (as a list; the code builds a set). -/
def outbound (w : WfG) (t : TaskG) : List String :=
  effClause t.cl.onError (w.defaults.map (·.onError)) t.name ++
  effClause t.cl.onSuccess (w.defaults.map (·.onSuccess)) t.name ++
  effClause t.cl.onComplete (w.defaults.map (·.onComplete)) t.name ++
  effClause t.cl.onSkip (w.defaults.map (·.onSkip)) t.name

def taskExists (w : WfG) (n : String) : Bool := w.tasks.any (·.name == n)

/-- `find_inbound_task_specs(task)`. -/
def inbound (w : WfG) (n : String) : List TaskG := w.tasks.filter (fun s => (outbound w s).contains n)

def startTasks (w : WfG) : List TaskG := w.tasks.filter (fun t => (inbound w t.name).isEmpty)

inductive GraphErr where
  | noStartTasks | taskNotFound (n : String) | joinInbound (task : String) | requiresCycle
deriving Repr, DecidableEq

instance : DecidableEq (Except GraphErr Unit) := fun a b =>
  match a, b with
  | .ok (), .ok () => isTrue rfl
  | .error e1, .error e2 =>
    if h : e1 = e2 then isTrue (by rw [h]) else isFalse (by intro h'; cases h'; exact h rfl)
  | .ok _, .error _ => isFalse (by intro h; cases h)
  | .error _, .ok _ => isFalse (by intro h; cases h)

def linkOk (w : WfG) (allowCmds : Bool) (n : String) : Bool :=
  taskExists w n || (allowCmds && engineCommands.contains n)

def joinOk (w : WfG) (t : TaskG) : Bool :=
  match t.join with
  | .none => true
  | .all => !(inbound w t.name).isEmpty
  | .count k => k ≤ (inbound w t.name).length

/-- `get_task_requires`: own ∪ defaults, minus the task itself. -/
def taskRequires (w : WfG) (t : TaskG) : List String :=
  (t.requires ++ w.defaultRequires).filter (· != t.name)

def firstBad (p : String → Bool) : List String → Option String
  | [] => none
  | x :: xs => if p x then firstBad p xs else some x

/-- the reverse workflow as the run model `Mistral.Reverse` sees it (the target is chosen at start) -/
def toSpec (w : WfG) (target : String := "") : Mistral.Reverse.Spec :=
  { tasks := w.tasks.map fun t => { name := t.name, requires := t.requires },
    defaultRequires := w.defaultRequires, target := target }

/-- the graph part of `validate_semantics` (direct: start tasks, integrity, joins; reverse:
    requirements exist, then `_check_requires_cycles` = `Mistral.Reverse.requiresAcyclic`).  Which
    missing name is reported first is not modelled (the code iterates sets). -/
def validateGraph (w : WfG) : Except GraphErr Unit :=
  if w.reverse then
    match firstBad (linkOk w false) (w.tasks.flatMap (taskRequires w)) with
    | some n => .error (.taskNotFound n)
    | none => if Mistral.Reverse.requiresAcyclic (toSpec w) then .ok () else .error .requiresCycle
  else if (startTasks w).isEmpty then .error .noStartTasks
  else
    match firstBad (linkOk w true) (w.tasks.flatMap (outbound w)) with
    | some n => .error (.taskNotFound n)
    | none =>
      match w.tasks.find? (fun t => !joinOk w t) with
      | some t => .error (.joinInbound t.name)
      | none => .ok ()

end Mistral.Lang
