/-
L5x: the engine core WITH ENGINE COMMANDS.  `Mistral.Engine.step` (Model/Engine.lean) is the engine on
definitions whose on-clauses name tasks only; here the on-clause targets may also be the four engine
commands `fail`, `succeed`, `pause`, `noop` (reserved task names of the workflow language,
mistral/workflow/commands.py: FailWorkflow / SucceedWorkflow / PauseWorkflow / Noop).  Modelled:
  dispatcher._rearrange_commands   noops removed; the commands after the first state command are
                                   dropped (fail / succeed) or kept as the tail to be saved (pause);
                                   the task commands before it are sorted as `list.sort` does with
                                   the (non-total) comparator `_compare_task_commands`
  dispatcher._process_commands     per command: completed workflow → break; PAUSED → saved to the
                                   backlog (`runtime_context['backlog_commands']`); RunTask → create
                                   (joins through `defer`) + register start; SetWorkflowState →
                                   `wf_handler.set_workflow_state` (= Workflow.stop / pause)
  dispatcher.dispatch_workflow_commands   the backlog is polled (popped) and processed FIRST, then the
                                   new commands; a RunTask command restored from its dict keeps `wait` /
                                   `unique_key` (repo_patches/32; before, a restored join command created an
                                   ordinary IDLE execution that started at once)
  Task.complete                    next_tasks / has_next_tasks without the engine commands,
                                   error_handled over ALL commands, completion check registered iff the
                                   task has no next TASKS
  Workflow._continue_workflow      pause / noop commands of tasks completed while PAUSED are ignored
`stepX_eq_step` (Lemmas/EngineX.lean): on a definition without engine commands `stepX` IS `step`.
Core Lean only.
-/
import Mistral.Model.Engine
namespace Mistral.Engine
open Mistral Mistral.Join

inductive CmdKind where
  | task | noop | pause | fail | succeed
  deriving DecidableEq, Repr

/-- engine commands are reserved task names -/
def cmdKind (n : String) : CmdKind :=
  if n == "noop" then .noop else if n == "pause" then .pause else if n == "fail" then .fail
  else if n == "succeed" then .succeed else .task

def isCmdName (n : String) : Bool := cmdKind n != .task

/-! ### `_rearrange_commands`

The task commands before the first state command are SORTED with `_compare_task_commands` through
`list.sort(key=cmp_to_key(…))`.  The comparator is not a total order (a command that is not a waiting
RunTask is "less" than everything), so the result is whatever CPython's sort does with it: for fewer than 64
elements one natural run (reversed if strictly descending) followed by binary insertion of the rest
(Objects/listobject.c: count_run / binarysort).  Modelled as such, because the ORDER IN WHICH TASK
EXECUTIONS ARE CREATED is observable: `continue_workflow()` on resume lists the unprocessed tasks in that
order, and a fail / succeed command among their commands cuts off what comes after it. -/

/-- `ISLT(a, b)` = `_compare_task_commands(a, b) < 0`; `waiting c` = c is a RunTask with the wait flag (a join) -/
def cmdLT (waiting : Cmd → Bool) (a b : Cmd) : Bool :=
  !waiting a || (waiting b && decide (a.target < b.target))

/-- binary insertion of `pivot` into the sorted prefix (binarysort) -/
def insertBin (lt : Cmd → Cmd → Bool) (sorted : List Cmd) (pivot : Cmd) : List Cmd :=
  let rec go (fuel l r : Nat) : Nat :=
    match fuel with
    | 0 => l
    | fuel + 1 =>
      if l < r then
        let p := l + (r - l) / 2
        match sorted[p]? with
        | some x => if lt pivot x then go fuel l p else go fuel (p + 1) r
        | none => l
      else l
  let k := go (sorted.length + 1) 0 sorted.length
  sorted.take k ++ pivot :: sorted.drop k

/-- length of the initial run (count_run) -/
def runLen (lt : Cmd → Cmd → Bool) (desc : Bool) : Cmd → List Cmd → Nat → Nat
  | _, [], n => n
  | prev, y :: ys, n => if lt y prev == desc then runLen lt desc y ys (n + 1) else n

/-- `list.sort` for lists shorter than 64 elements -/
def pySort (lt : Cmd → Cmd → Bool) (l : List Cmd) : List Cmd :=
  match l with
  | [] => []
  | [x] => [x]
  | x0 :: x1 :: rest =>
    let desc := lt x1 x0
    let n := runLen lt desc x1 rest 2
    let run := l.take n
    (l.drop n).foldl (insertBin lt) (if desc then run.reverse else run)

/-- split at the first state command (pause / fail / succeed) -/
def splitState : List Cmd → List Cmd × Option Cmd × List Cmd
  | [] => ([], none, [])
  | c :: cs =>
    match cmdKind c.target with
    | .pause => ([], some c, cs)
    | .fail => ([], some c, cs)
    | .succeed => ([], some c, cs)
    | _ => let (p, s, t) := splitState cs; (c :: p, s, t)

/-- `_rearrange_commands`: noops removed; the task commands before the first state command sorted; the
    commands after `fail` / `succeed` dropped; after `pause` kept (they will be saved to the backlog) -/
def rearrange (srt : List Cmd → List Cmd) (cmds : List Cmd) : List Cmd :=
  let cs := cmds.filter fun c => cmdKind c.target != .noop
  match splitState cs with
  | (pre, none, _) => srt pre
  | (pre, some c, tail) =>
    srt pre ++ c :: (if cmdKind c.target == .pause then tail else [])

/-- how the task commands before the state command are ordered, given which of them are waiting (joins) -/
abbrev Sorter := (Cmd → Bool) → List Cmd → List Cmd

/-- what the code does: `list.sort` with `_compare_task_commands` -/
def pySorter : Sorter := fun waiting l => pySort (cmdLT waiting) l

/-- clause order (no sort): the order of `Mistral.Engine.dispatch` -/
def idSorter : Sorter := fun _ l => l

/-- the execution a lookup by UNIQUE KEY finds (`Task.defer`, `_is_consumed_join_trigger`): rows created
    from restored commands have no unique key -/
def findKeyed (w : World) (n : String) : Option TaskRow :=
  (w.tasks.filter fun r => r.name == n && r.keyed).getLast?

/-- an ordinary IDLE execution without unique key (only for a RunExistingTask command restored from the
    backlog, which is rebuilt as a RunTask) -/
def dispatchPlain (w : World) (c : Cmd) : World :=
  { w with tasks := w.tasks ++ [{ newRow w c .IDLE with keyed := false }],
           pending := w.pending ++ [Item.postStartTask (c.target, countName w c.target) true] }

/-- a RunTask command produced by the workflow controller (joins: `wait`, unique key, `Task.defer`) -/
def dispatchTask (sp : Spec) (w : World) (c : Cmd) : World :=
  let n := c.target
  match isJoin sp n with
  | some _ =>
    match findKeyed w n with
    | none =>
      { w with tasks := w.tasks ++ [newRow w c .WAITING],
               pending := w.pending ++ [Item.postStartTask (n, countName w n) true] }
    | some r =>
      let w' : World :=
        if r.state != .WAITING then { w with tasks := setTask w.tasks { r with state := .WAITING, processed := false } } else w
      { w' with pending := w'.pending ++ [Item.postStartTask (r.name, r.occ) true] }
  | none =>
    { w with tasks := w.tasks ++ [newRow w c .IDLE],
             pending := w.pending ++ [Item.postStartTask (n, countName w n) true] }

/-- one iteration of the loop of `_process_commands`; `restored` = the command comes from the backlog -/
def dispatchOneX (sp : Spec) (restored : Bool) (w : World) (c : Cmd) : World :=
  if isCompleted w.wf then w
  else if w.wf == .PAUSED then { w with backlog := w.backlog ++ [c] }
  else
    match cmdKind c.target with
    | .noop => w
    | .pause => { w with wf := (Lifecycle.wfApply w.wf .pause).1 }
    | .fail => { w with wf := (Lifecycle.wfApply w.wf (.stop .ERROR)).1 }
    | .succeed => { w with wf := (Lifecycle.wfApply w.wf (.stop .SUCCESS)).1 }
    | .task =>
      match c.existing with
      | some t =>
        -- RunExistingTask; restored from the backlog it is rebuilt as a RunTask (two `pause` commands in
        -- one clause: corner not exercised by the tie)
        if restored then dispatchPlain w c else { w with pending := w.pending ++ [.postStartTask t false] }
      -- RunTask: since repo_patches/32 a command restored from the backlog keeps `wait` / `unique_key`,
      -- so a restored join command defers like a freshly calculated one
      | none => dispatchTask sp w c

/-- `_process_commands` -/
def processX (srt : Sorter) (sp : Spec) (restored : Bool) (w : World) (cmds : List Cmd) : World :=
  (rearrange (srt fun c => c.existing.isNone && (isJoin sp c.target).isSome) cmds).foldl (dispatchOneX sp restored) w

/-- `dispatch_workflow_commands`: the backlog first (it is popped), then the new commands -/
def dispatchX (srt : Sorter) (sp : Spec) (w : World) (cmds : List Cmd) : World :=
  processX srt sp false (processX srt sp true { w with backlog := [] } w.backlog) cmds

/-- `Task.complete(state)` followed by `_check_affected_tasks` -/
def completeTaskX (srt : Sorter) (sp : Spec) (w : World) (r : TaskRow) (s : St) : World :=
  if isCompleted r.state then checkAffected sp w (r.name, r.occ) else
  let cmds := if isCompleted w.wf then [] else nextOf sp r.name s
  let nt := cmds.filter fun x => !isCmdName x.1
  let r1 : TaskRow := { r with state := s, nextTasks := nt, hasNext := !nt.isEmpty,
                                errorHandled := if s == .ERROR then cmds.any (·.2 == "on-error") else r.errorHandled }
  let w1 := { w with tasks := setTask w.tasks r1 }
  let w2 :=
    if isPaused w1.wf then w1
    else
      let w1' := { w1 with tasks := setTask w1.tasks { r1 with processed := true } }
      let w1'' := if nt.isEmpty then { w1' with pending := w1'.pending ++ [.postCheck] } else w1'
      dispatchX srt sp w1'' (cmds.map fun (n, e) => { target := n, src := some ((r.name, r.occ), e) })
  checkAffected sp w2 (r.name, r.occ)

def stepXg (srt : Sorter) (sp : Spec) (w : World) : Event → World
  | .start =>
    if w.wf != .IDLE then w else
    let starts := (sp.graph.tasks.filter fun t => (inbound sp.graph t.name).isEmpty).map (·.name)
    dispatchX srt sp { w with wf := .RUNNING } (starts.map fun n => { target := n, src := none })
  | .pause => { w with wf := (Lifecycle.wfApply w.wf .pause).1 }
  | .stop t => { w with wf := (Lifecycle.wfApply w.wf (.stop t)).1 }
  | .resume =>
    if !isPausedOrIdle w.wf then w else
    let w1 := { w with wf := (Lifecycle.wfApply w.wf .resume).1 }
    if isCompleted w1.wf then w1 else
    let idle : List Tid := (w1.tasks.filter fun t => t.state == .IDLE).map fun t => (t.name, t.occ)
    let unproc := w1.tasks.filter fun t => isCompleted t.state && !t.processed
    let cmds : List Cmd := unproc.flatMap fun t =>
      (nextOf sp t.name t.state).map fun (n, e) => { target := n, src := some ((t.name, t.occ), e) }
    -- pause / noop commands of tasks that completed while the workflow was paused are ignored
    let cmds := cmds.filter fun c => cmdKind c.target != .pause && cmdKind c.target != .noop
    let cmds := cmds.filter fun c =>
      !(match isJoin sp c.target, findKeyed w1 c.target, c.src with
        | some _, some j, some s => j.state != .WAITING && j.trig.contains s
        | _, _, _ => false)
    let w2 := { w1 with tasks := w1.tasks.map fun t =>
                  if isCompleted t.state && !t.processed then { t with processed := true } else t }
    if idle.isEmpty && cmds.isEmpty && w2.backlog.isEmpty then checkAndComplete w2
    else
      -- `dispatch_workflow_commands`: the backlog first, then ONE command list: the RunExistingTask
      -- commands of the IDLE tasks followed by the next commands
      dispatchX srt sp w2 (idle.map (fun t => ({ target := t.1, src := none, existing := some t } : Cmd)) ++ cmds)
  | .execute t ok =>
    if !w.pending.contains (.runAction t) then w else
    { w with pending := removeFirst w.pending (.runAction t) ++ [.rpcResult t ok] }
  | .deliver it =>
    if !w.pending.contains it then w else
    let w := { w with pending := removeFirst w.pending it }
    match it with
    | .postStartTask t f => { w with pending := w.pending ++ [.rpcStartTask t f] }
    | .postRunAction t => { w with pending := w.pending ++ [.runAction t] }
    | .runAction _ => w
    | .postCheck => checkAndComplete w
    | .postSchedRefresh t =>
      if w.pending.contains (.jobRefresh t) then w else { w with pending := w.pending ++ [.jobRefresh t] }
    | .rpcStartTask t firstRun =>
      match findTask w t with
      | none => w
      | some r =>
        if firstRun then
          if r.state == .IDLE then
            { w with tasks := setTask w.tasks { r with state := .RUNNING },
                     pending := w.pending ++ [.postRunAction t] }
          else if r.state == .WAITING then
            if w.pending.contains (.jobRefresh t) then w else { w with pending := w.pending ++ [.jobRefresh t] }
          else checkAffected sp w t
        else
          if r.state == .SUCCESS then w
          else if isCompleted r.state then checkAffected sp w t
          else if r.state == .RUNNING && hasLiveAction w t then w
          else { w with tasks := setTask w.tasks { r with state := .RUNNING, processed := false },
                        pending := w.pending ++ [.postRunAction t] }
    | .rpcResult t ok =>
      match findTask w t with
      | none => w
      | some r => completeTaskX srt sp w r (if ok then .SUCCESS else .ERROR)
    | .jobRefresh t =>
      match findTask w t with
      | none => w
      | some r =>
        if isCompleted r.state || r.state == .RUNNING then w
        else if isCompleted w.wf then w
        else match isJoin sp t.1 with
          | none => w
          | some k =>
            match joinLogicalState sp.graph (rowsOf w) (fuelFor sp) t.1 k with
            | none => { w with crashed := true }
            | some L =>
              let trig : List (Tid × String) := L.triggeredBy.filterMap fun (n, e) =>
                (findByName w n).map fun x => ((x.name, x.occ), e.getD "")
              let r := { r with trig := trig }
              let w := { w with tasks := setTask w.tasks r }
              if L.state == .RUNNING then
                if hasLiveAction w t then { w with tasks := setTask w.tasks { r with state := .RUNNING } }
                else
                { w with tasks := setTask w.tasks { r with state := .RUNNING },
                         pending := w.pending ++ [.postRunAction t] }
              else if L.state == .ERROR then completeTaskX srt sp w r .ERROR
              else w

/-- the engine as the code runs it: the dispatcher's sort is `list.sort` -/
def stepX (sp : Spec) (w : World) (e : Event) : World := stepXg pySorter sp w e

def runX (sp : Spec) (evs : List Event) : World := evs.foldl (stepX sp) init

def runXg (srt : Sorter) (sp : Spec) (evs : List Event) : World := evs.foldl (stepXg srt sp) init

end Mistral.Engine
