/-
L1: the direct-workflow graph (clause resolution with task-defaults) and the join
logic of mistral/workflow/direct_workflow.py:
`_get_join_logical_state`, `_get_induced_join_state`, `_possible_route`,
plus `find_inbound_task_specs` / `find_outbound_task_names` /
`get_on_*_clause` of mistral/lang/v2/workflows.py.
Core Lean only.
-/
import Mistral.Model.States
namespace Mistral.Join
open Mistral

inductive JoinKind where
  | all
  | count (n : Nat)          -- `join: N`; `join: one` is `count 1`
  deriving Repr, DecidableEq

/-- Targets of the four on-clauses of one task (guards do not matter for the graph). -/
structure TaskG where
  name : String
  join : Option JoinKind
  onSuccess : List String
  onError : List String
  onComplete : List String
  onSkip : List String
  deriving Repr

structure Defaults where
  onSuccess : List String
  onError : List String
  onComplete : List String
  onSkip : List String
  deriving Repr

structure Graph where
  tasks : List TaskG
  defaults : Option Defaults
  deriving Repr

/-- `get_on_X_clause`: the task's own clause if non-empty, else the task-defaults
    clause with the task itself removed. -/
def clause (own : List String) (dflt : Option (List String)) (tname : String) : List String :=
  if !own.isEmpty then own
  else match dflt with
    | some d => d.filter (· != tname)
    | none => []

def outNames (g : Graph) (t : TaskG) : List String :=
  clause t.onError (g.defaults.map (·.onError)) t.name ++
  clause t.onSuccess (g.defaults.map (·.onSuccess)) t.name ++
  clause t.onComplete (g.defaults.map (·.onComplete)) t.name ++
  clause t.onSkip (g.defaults.map (·.onSkip)) t.name

/-- `find_inbound_task_specs`: tasks (in definition order) with a transition to `name`. -/
def inbound (g : Graph) (name : String) : List TaskG :=
  g.tasks.filter fun t => (outNames g t).contains name

/-- What the join logic reads of a task execution row. -/
structure Row where
  name : String
  state : St
  nextTasks : List (String × String)      -- (task name, event)
  deriving Repr

/-- `t_execs_cache[name]`: a dict comprehension over the rows in DB order, so the
    last row with that name wins. -/
def findRow (rows : List Row) (name : String) : Option Row :=
  (rows.filter (·.name == name)).getLast?

def routesTo (r : Row) (target : String) : Bool := r.nextTasks.any (·.1 == target)

/-- `_possible_route(task_spec, cache, depth)`.  `none` = fuel exhausted, i.e. the
    implementation's unbounded recursion (RecursionError).  Note that the python code
    overwrites its local `depth` with the depth returned by the recursive call. -/
def possibleRoute (g : Graph) (rows : List Row) : (fuel : Nat) → (tname : String) → (depth : Nat) → Option (Bool × Nat)
  | 0, _, _ => none
  | fuel + 1, tname, depth =>
    let ins := inbound g tname
    if ins.isEmpty then some (true, depth) else
    let rec loop : List TaskG → Nat → Option (Bool × Nat)
      | [], d => some (false, d)
      | t :: rest, d =>
        match findRow rows t.name with
        | none =>
          match possibleRoute g rows fuel t.name (d + 1) with
          | none => none
          | some (true, d') => some (true, d')
          | some (false, d') => loop rest d'
        | some r =>
          if !isCompleted r.state then some (true, d)
          else if routesTo r tname then some (true, d)
          else loop rest d
    loop ins depth

/-- The state one inbound task induces on the join, with depth and event. -/
structure Induced where
  name : String
  hasRow : Bool
  state : St                 -- WAITING | RUNNING | ERROR
  depth : Nat
  event : Option String
  deriving Repr

/-- `_get_induced_join_state`. -/
def inducedState (g : Graph) (rows : List Row) (fuel : Nat) (inb : TaskG) (joinName : String) : Option Induced :=
  match findRow rows inb.name with
  | none =>
    match possibleRoute g rows fuel inb.name 1 with
    | none => none
    | some (true, d) => some ⟨inb.name, false, .WAITING, d, none⟩
    | some (false, d) => some ⟨inb.name, false, .ERROR, d, some "impossible route"⟩
  | some r =>
    if !isCompleted r.state then some ⟨inb.name, true, .WAITING, 1, none⟩
    else
      -- next_tasks_dict = {name: event}: the last tuple for a name wins
      match (r.nextTasks.filter (·.1 == joinName)).getLast? with
      | none => some ⟨inb.name, true, .ERROR, 1, some "not triggered"⟩
      | some (_, ev) => some ⟨inb.name, true, .RUNNING, 1, some ev⟩

structure Logical where
  state : St
  cardinality : Nat
  triggeredBy : List (String × Option String)     -- (inbound task name, event), rows that exist only
  blockedBy : List String                         -- names inducing WAITING (state_info of WAITING)
  failedBy : List String                          -- names inducing ERROR (state_info of ERROR)
  deriving Repr

def countState (xs : List Induced) (s : St) : Nat := (xs.filter (·.state == s)).length
def depthState (xs : List Induced) (s : St) : Nat := ((xs.filter (·.state == s)).map (·.depth)).sum

def triggered (xs : List Induced) (s : St) : List (String × Option String) :=
  (xs.filter fun i => i.state == s && i.hasRow).map fun i => (i.name, i.event)

def namesOf (xs : List Induced) (s : St) : List String := (xs.filter (·.state == s)).map (·.name)

/-- The verdict of `_get_join_logical_state` from the induced states. -/
def decide (kind : JoinKind) (xs : List Induced) : Logical :=
  let errors := countState xs .ERROR
  let runnings := countState xs .RUNNING
  let total := xs.length
  match kind with
  | .count n =>
    if runnings ≥ n then ⟨.RUNNING, 0, triggered xs .RUNNING, [], []⟩
    else if errors > total - n then ⟨.ERROR, 0, [], [], namesOf xs .ERROR⟩
    else ⟨.WAITING, n - runnings, [], namesOf xs .WAITING, []⟩
  | .all =>
    if total == runnings then ⟨.RUNNING, 0, triggered xs .RUNNING, [], []⟩
    else if errors > 0 then ⟨.ERROR, 0, triggered xs .ERROR, [], namesOf xs .ERROR⟩
    else ⟨.WAITING, total - depthState xs .RUNNING, [], namesOf xs .WAITING, []⟩

/-- `_get_join_logical_state(task_spec)`; `none` = RecursionError. -/
def joinLogicalState (g : Graph) (rows : List Row) (fuel : Nat) (joinName : String) (kind : JoinKind) : Option Logical :=
  let ins := inbound g joinName
  if ins.isEmpty then some ⟨.RUNNING, 0, [], [], []⟩ else
  match ins.mapM (fun t => inducedState g rows fuel t joinName) with
  | none => none
  | some xs => some (decide kind xs)

end Mistral.Join
