/- Statement-granularity model of ONE database row under READ COMMITTED.

   Everything above this file treats "one committed transaction" (engine) or "one db-api call"
   (cron) as an atomic step.  Here a *transaction script* is a list of statements over one row
   and other committed transactions (*interferers*, arbitrary functions `Row → Row`) may commit
   between ANY two statements of the script.

   What is modelled (the devices Mistral relies on between processes):
   * READ COMMITTED: every SELECT (`read`) sees what is committed at that moment (plus the
     script's own uncommitted writes); the ORM copy of the row (`obj`) is as stale as the last
     `read` made it;
   * ORM attribute assignment `obj.f = v` (`assign`) is a *pending unconditional* write
     (`UPDATE t SET f = v WHERE id = ..`): it is issued at the next flush (before a `cas` /
     `delete`, i.e. `session.flush()` in `update_on_match`, or at commit), only if `v` differs
     from the loaded value (SQLAlchemy attribute history), and overwrites whatever an interferer
     committed in between;
   * `cas` = `update_on_match` / `UPDATE .. WHERE id = .. AND f = expected ..`: re-checked on the
     current row at statement time, yields a flag (row count);
   * `delete` = `DELETE .. WHERE id = ..` returning the row count; `ormDelete` =
     `session.delete(obj)`: the DELETE is issued at the next flush and its row count is ignored
     (SQLAlchemy warns, does not raise);
   * row lock: from its first write to the row until commit / rollback the script holds the row
     lock: an interferer that writes the row waits (its effect is applied, in arrival order,
     right after the script unlocks); its own SELECTs meanwhile see the committed version.

   Two runners share `exec`: `runWith` (one script, an interferer — any function — at every gap)
   and `runMany` (N scripts interleaved statement by statement by an arbitrary schedule). -/
namespace Mistral.Race

inductive Val where
  | null
  | bool (b : Bool)
  | nat (n : Nat)
  | str (s : String)
  deriving DecidableEq, Repr, Inhabited

abbrev Fields := Nat → Val

def Fields.set (r : Fields) (k : Nat) (v : Val) : Fields := fun j => if j = k then v else r j

def Fields.setMany (r : Fields) : List (Nat × Val) → Fields
  | [] => r
  | (k, v) :: rest => Fields.setMany (Fields.set r k v) rest

@[ext] structure Row where
  alive : Bool
  f : Fields

/-- an interferer: the whole effect of another committed transaction on the row -/
abbrev Intf := Row → Row

inductive Expr where
  | const (v : Val)
  | var (i : Nat)        -- a local variable / parameter of the script
  | obj (k : Nat)        -- attribute k of the ORM copy of the row
  deriving Repr

def Expr.eval (vars obj : Fields) : Expr → Val
  | .const v => v
  | .var i => vars i
  | .obj k => obj k

/-- python truthiness of the values that occur -/
def Val.truthy : Val → Bool
  | .null => false
  | .bool b => b
  | .nat n => n != 0
  | .str s => s != ""

inductive Cond where
  | tt
  | flag (i : Nat)
  | notFlag (i : Nat)
  | isIn (e : Expr) (vs : List Val)
  | notIn (e : Expr) (vs : List Val)
  | truthy (e : Expr)
  deriving Repr

inductive Stmt where
  | nop (what : String)
  /-- SELECT of the row / refresh of the expired ORM object; a missing row raises (abort) -/
  | read
  | setVar (i : Nat) (e : Expr)
  /-- `obj.k = e`: pending unconditional write; dropped when equal to the loaded value unless the
      column is a mutable JSON type (`always`: assignment always marks it dirty) -/
  | assign (k : Nat) (e : Expr) (always : Bool)
  /-- flush; `UPDATE .. SET sets WHERE id AND expect`; flag := matched -/
  | cas (flag : Nat) (expect : List (Nat × Expr)) (sets : List (Nat × Expr))
  /-- flush; `DELETE .. WHERE id`; flag := row count = 1 -/
  | delete (flag : Nat)
  /-- `session.delete(obj)`: DELETE at the next flush, row count ignored -/
  | ormDelete
  | setFlag (i : Nat) (b : Bool)
  | retIf (c : Cond)
  /-- raise: the following statements are skipped up to a `catch`; uncaught = rollback at the end -/
  | raiseIf (c : Cond)
  /-- `except` clause: entered only if something raised; reached normally the script returns -/
  | catch
  /-- register a post-commit side effect (kept only if the transaction commits) -/
  | emit (c : Cond) (tag : Nat)
  /-- end of a db-api-call-scoped transaction inside a longer script -/
  | commit
  deriving Repr

abbrev Script := List Stmt

inductive Status where
  | running | returned | raised | aborted
  deriving DecidableEq, Repr

/-- SQL statements issued on the row (what Tie B compares with the real statement log) -/
inductive Ev where
  | select
  | flush            -- unconditional UPDATE of dirty attributes
  | flushMiss        -- .. that matched no row (StaleDataError)
  | cas (ok : Bool)
  | delete (ok : Bool)
  | ormDelete (ok : Bool)
  deriving DecidableEq, Repr

structure Local where
  obj : Fields
  vars : Fields
  flags : Nat → Bool
  pend : List (Nat × Val)
  pendDel : Bool
  emitTx : List Nat
  emitted : List Nat
  status : Status
  trace : List Ev

structure Shared where
  db : Row                 -- committed
  work : Option Row        -- `some`: the script holds the row lock; its uncommitted version

def Shared.vis (s : Shared) : Row := s.work.getD s.db

/-- membership in a literal list of values (kept as a named function so that proofs can treat
    a guard as one opaque test) -/
def memVals (vs : List Val) (v : Val) : Bool := vs.contains v

def Cond.eval (l : Local) : Cond → Bool
  | .tt => true
  | .flag i => l.flags i
  | .notFlag i => !(l.flags i)
  | .isIn e vs => memVals vs (e.eval l.vars l.obj)
  | .notIn e vs => !(memVals vs (e.eval l.vars l.obj))
  | .truthy e => (e.eval l.vars l.obj).truthy

def setFlagOf (fl : Nat → Bool) (i : Nat) (b : Bool) : Nat → Bool := fun j => if j = i then b else fl j

def evalSets (l : Local) (sets : List (Nat × Expr)) : List (Nat × Val) :=
  sets.map fun p => (p.1, p.2.eval l.vars l.obj)

def rowMatches (l : Local) (r : Row) (expect : List (Nat × Expr)) : Bool :=
  r.alive && expect.all fun p => r.f p.1 == p.2.eval l.vars l.obj

def rollback (sh : Shared) (l : Local) : Shared × Local :=
  ({ sh with work := none },
   { l with status := .aborted, pend := [], pendDel := false, emitTx := [] })

def raise (sh : Shared) (l : Local) : Shared × Local := (sh, { l with status := .raised })

/-- issue the pending ORM writes -/
def flush (sh : Shared) (l : Local) : Shared × Local :=
  if l.pend.isEmpty && !l.pendDel then (sh, l)
  else
    let r := sh.vis
    if r.alive then
      let r1 : Row := if l.pend.isEmpty then r else { r with f := r.f.setMany l.pend }
      let r2 : Row := if l.pendDel then { r1 with alive := false } else r1
      ({ sh with work := some r2 },
       { l with pend := [], pendDel := false,
                trace := l.trace ++ (if l.pend.isEmpty then [] else [Ev.flush])
                          ++ (if l.pendDel then [Ev.ormDelete true] else []) })
    else if l.pend.isEmpty then
      -- only an ORM delete that rowMatches nothing: a warning, not an error
      (sh, { l with pendDel := false, trace := l.trace ++ [Ev.ormDelete false] })
    else
      raise sh { l with trace := l.trace ++ [Ev.flushMiss] }

def commitTx (sh : Shared) (l : Local) : Shared × Local :=
  let (sh1, l1) := flush sh l
  if l1.status = .raised then rollback sh1 l1
  else ({ db := sh1.vis, work := none },
        { l1 with emitted := l1.emitted ++ l1.emitTx, emitTx := [] })

def exec (s : Stmt) (sh : Shared) (l : Local) : Shared × Local :=
  match s with
  | .nop _ => (sh, l)
  | .read =>
    if sh.vis.alive then (sh, { l with obj := sh.vis.f, trace := l.trace ++ [Ev.select] })
    else raise sh { l with trace := l.trace ++ [Ev.select] }
  | .setVar i e => (sh, { l with vars := l.vars.set i (e.eval l.vars l.obj) })
  | .assign k e always =>
    let v := e.eval l.vars l.obj
    if !always && v = l.obj k then (sh, l)
    else (sh, { l with obj := l.obj.set k v, pend := l.pend ++ [(k, v)] })
  | .cas fl expect sets =>
    let (sh1, l1) := flush sh l
    if l1.status = .raised then (sh1, l1)
    else
      let r := sh1.vis
      if rowMatches l1 r expect then
        let vs := evalSets l1 sets
        ({ sh1 with work := some { r with f := r.f.setMany vs } },
         { l1 with obj := l1.obj.setMany vs, flags := setFlagOf l1.flags fl true,
                   trace := l1.trace ++ [Ev.cas true] })
      else (sh1, { l1 with flags := setFlagOf l1.flags fl false, trace := l1.trace ++ [Ev.cas false] })
  | .delete fl =>
    let (sh1, l1) := flush sh l
    if l1.status = .raised then (sh1, l1)
    else
      let r := sh1.vis
      if r.alive then
        ({ sh1 with work := some { r with alive := false } },
         { l1 with flags := setFlagOf l1.flags fl true, trace := l1.trace ++ [Ev.delete true] })
      else (sh1, { l1 with flags := setFlagOf l1.flags fl false, trace := l1.trace ++ [Ev.delete false] })
  | .ormDelete => (sh, { l with pendDel := true })
  | .setFlag i b => (sh, { l with flags := setFlagOf l.flags i b })
  | .retIf c => if c.eval l then (sh, { l with status := .returned }) else (sh, l)
  | .raiseIf c => if c.eval l then raise sh l else (sh, l)
  | .catch => (sh, { l with status := .returned })
  | .emit c tag => if c.eval l then (sh, { l with emitTx := l.emitTx ++ [tag] }) else (sh, l)
  | .commit => commitTx sh l

/-- end of the script: commit, or roll back when an exception escapes -/
def finish (sh : Shared) (l : Local) : Shared × Local :=
  if l.status = .raised then rollback sh l
  else if l.status = .aborted then (sh, l)
  else commitTx sh l

/-! ### one script, an interferer at every gap -/

structure Run where
  sh : Shared
  l : Local
  q : Intf        -- interferers waiting for the row lock, composed in arrival order

/-- an interferer commits now, or (the script holds the row lock) queues -/
def gap (g : Intf) (x : Run) : Run :=
  match x.sh.work with
  | some _ => { x with q := fun r => g (x.q r) }
  | none => { x with sh := { x.sh with db := g x.sh.db } }

/-- after a possible unlock the waiting interferers proceed -/
def settle (x : Run) : Run :=
  match x.sh.work with
  | some _ => x
  | none => { x with sh := { x.sh with db := x.q x.sh.db }, q := fun r => r }

/-- a raised exception skips statements up to the `catch`, which resumes the script -/
def resume (s : Stmt) (l : Local) : Local :=
  match s with
  | .catch => if l.status = .raised then { l with status := .running } else l
  | _ => l

def stepStmt (s : Stmt) (x : Run) : Run :=
  if x.l.status = .running then
    let p := exec s x.sh x.l
    settle { x with sh := p.1, l := p.2 }
  else { x with l := resume s x.l }

/-- gap k is the instant just before statement k (k = length: just before the commit).
    After an early return the remaining statements are skipped, their gaps still pass. -/
def runFrom (sched : Nat → Intf) : Nat → Script → Run → Run
  | k, [], x =>
    let x1 := gap (sched k) x
    let p := finish x1.sh x1.l
    settle { x1 with sh := p.1, l := p.2 }
  | k, s :: ss, x => runFrom sched (k + 1) ss (stepStmt s (gap (sched k) x))

def Local.init (vars : Fields) : Local :=
  { obj := fun _ => .null, vars := vars, flags := fun _ => false, pend := [], pendDel := false,
    emitTx := [], emitted := [], status := .running, trace := [] }

def runWith (script : Script) (sched : Nat → Intf) (vars : Fields) (row0 : Row) : Run :=
  runFrom sched 0 script { sh := { db := row0, work := none }, l := Local.init vars, q := fun r => r }

/-- the row after the interferers of gaps 0 .. k-1 -/
def pre (sched : Nat → Intf) : Nat → Row → Row
  | 0, r => r
  | k + 1, r => sched k (pre sched k r)

/-- the interferers of gaps a .. a+m-1 -/
def between (sched : Nat → Intf) (a : Nat) : Nat → Row → Row
  | 0, r => r
  | m + 1, r => sched (a + m) (between sched a m r)

/-- the whole effect of a script run WITHOUT interference: what it is as an interferer -/
def atomicOf (script : Script) (vars : Fields) : Intf :=
  fun r => (runWith script (fun _ r => r) vars r).sh.db

/-! ### N scripts interleaved statement by statement -/

structure Proc where
  script : Script
  pc : Nat
  l : Local

structure World where
  db : Row
  owner : Option Nat      -- who holds the row lock
  work : Row              -- the owner's uncommitted version
  procs : List Proc

def needsLock (s : Stmt) (l : Local) : Bool :=
  match s with
  | .cas _ _ _ => true
  | .delete _ => true
  | .commit => !(l.pend.isEmpty && !l.pendDel)
  | _ => false

def procDone (p : Proc) : Bool := p.l.status != .running && p.pc > p.script.length

/-- one statement of processor i (the step after the last statement is the commit); a statement
    that needs the row lock while another processor holds it does not happen (the processor waits) -/
def stepProc (w : World) (i : Nat) : World :=
  match w.procs[i]? with
  | none => w
  | some p =>
    if p.pc > p.script.length then w
    else
      let mine := w.owner == some i
      let sh : Shared := { db := w.db, work := if mine then some w.work else none }
      let stmt0 := p.script.getD p.pc (.nop "")
      let skipping := p.l.status == .raised && p.pc < p.script.length
      let atEnd := !skipping && (p.pc == p.script.length || p.l.status != .running)
      let stmt := if atEnd then Stmt.commit else if skipping then Stmt.nop "" else stmt0
      let blocked := w.owner.isSome && !mine && needsLock stmt p.l
      if blocked then w
      else
        let r := if atEnd then finish sh p.l
                 else if skipping then (sh, resume stmt0 p.l) else exec stmt sh p.l
        let pc' := if atEnd then p.script.length + 1 else p.pc + 1
        let p' : Proc := { p with pc := pc', l := r.2 }
        match r.1.work with
        | some wr => { db := r.1.db, owner := some i, work := wr, procs := w.procs.set i p' }
        | none => { db := r.1.db, owner := if mine then none else w.owner, work := w.work,
                    procs := w.procs.set i p' }

inductive Step where
  | proc (i : Nat)
  | ext (g : Intf)       -- another committed transaction (waits while the row is locked)

def stepWorld (w : World) : Step → World
  | .proc i => stepProc w i
  | .ext g => if w.owner.isSome then w else { w with db := g w.db }

def runMany (w : World) (sched : List Step) : World := sched.foldl stepWorld w

def World.init (row0 : Row) (ps : List (Script × Fields)) : World :=
  { db := row0, owner := none, work := row0,
    procs := ps.map fun p => { script := p.1, pc := 0, l := Local.init p.2 } }

/-- the row as the lock owner sees it (what the next writer will see after the commit) -/
def World.eff (w : World) : Row := if w.owner.isSome then w.work else w.db

end Mistral.Race
