/-
Engine-side idempotence logic for ONE task execution with its action executions, and for the
table of workflow execution ids.  One `step` = one committed (or rolled back) transaction of an
engine entry point handling one delivered message.

Code modelled:
  * DefaultEngine.on_action_complete -> action_handler.on_action_complete ->
    RegularAction.complete (raises ValueError "already completed" when the action execution is in a
    completed state: the transaction rolls back, nothing changes) else state/output/accepted are
    set -> task_handler.schedule_on_action_complete -> RegularTask.on_action_complete ->
    Task.complete(state) ("Ignore if task already completed"; otherwise CAS the state and run the
    completion logic that dispatches downstream commands).
  * WorkflowAction.complete is a no-op: the result message of a sub-workflow goes straight to
    Task.complete.
  * action_heartbeat_checker.handle_expired_actions: in one transaction, for every RUNNING (sync,
    expired) action execution: action_handler.on_action_complete(action_ex, Result(error=..)).
  * DefaultEngine.start_task -> task_handler.run_task -> RegularTask.run(first_run):
      _run_new      : only an IDLE task is set RUNNING and gets its action scheduled;
      _run_existing : in this order: a SUCCESS task raises MistralError (rolled back); a COMPLETED task
                      and a request that is not an explicit rerun (`rerun=False`: the request re-queued by
                      Workflow.resume for a task that was still IDLE; `rerun=True` is sent by
                      rerun_workflow only): return, nothing changes (repo commit 17f326b9); a RUNNING task
                      with an action (or sub-workflow) execution that has not completed: return, nothing
                      changes (repo commit 258aaaae); ANY other state: set RUNNING, un-accept (reset) old
                      action executions, schedule a NEW action execution.
  * DefaultEngine.start_workflow with an execution id: the insert of an existing id raises
    DBDuplicateEntryError, the transaction is rolled back and the existing execution is returned.
Not modelled here: policies (wait/retry/pause-before), with-items tasks, workflow-level state.
-/
namespace Mistral.Dedup

inductive Kind where
  | ok | error | cancel
  deriving DecidableEq, Repr

inductive AState where
  | running | success | error | cancelled
  deriving DecidableEq, Repr

inductive TState where
  | idle | waiting | running | delayed | paused | success | error | cancelled | skipped
  deriving DecidableEq, Repr

def AState.completed : AState → Bool
  | .running => false
  | _ => true

def TState.completed : TState → Bool
  | .success | .error | .cancelled | .skipped => true
  | _ => false

def aStateOf : Kind → AState
  | .ok => .success | .error => .error | .cancel => .cancelled

def tStateOf : Kind → TState
  | .ok => .success | .error => .error | .cancel => .cancelled

structure ActionRow where
  state : AState
  accepted : Bool
  out : Nat           -- tag of the result stored in `output` (0 = nothing stored)
  acceptCount : Nat   -- ghost: how many results this row has taken
  deriving DecidableEq, Repr

structure Task where
  state : TState
  actions : List ActionRow
  dispatched : Nat     -- run_action requests registered (one per scheduled action execution)
  completions : Nat    -- ghost: how often Task.complete ran its completion logic (downstream dispatch)
  deriving DecidableEq, Repr

inductive Verdict where
  | accepted   -- committed
  | rejected   -- ValueError "already completed", rolled back
  | notFound   -- no such action execution
  | noop       -- committed, nothing to do
  | refused    -- MistralError "Rerunning succeeded tasks is not supported", rolled back
  deriving DecidableEq, Repr

inductive Delivery where
  | result (a : Nat) (k : Kind) (tag : Nat)   -- on_action_complete(action #a, Result of kind k); tag = payload
  | wfResult (k : Kind)                       -- on_action_complete(sub-workflow, wf_action=True)
  | expiry                                    -- heartbeat checker pass, every RUNNING action expired
  | startTask (firstRun : Bool) (rerun : Bool) (reset : Bool)
      -- start_task(task, first_run, rerun, reset): first_run=True is the request created with a new task;
      -- first_run=False asks to run an EXISTING task: rerun=True by rerun_workflow, rerun=False by
      -- Workflow.resume (for every task that is still IDLE)
  deriving DecidableEq, Repr

/-- the tag under which the heartbeat checker's synthetic error result is stored -/
def hbTag : Nat := 1

/-- `Task.complete(state)` of a regular task without policies (`state` completed, not SKIPPED) -/
def taskComplete (t : Task) (s : TState) : Task :=
  if t.state.completed then t
  else { t with state := s, completions := t.completions + 1 }

/-- `on_action_complete` for a regular action execution -/
def deliverResult (t : Task) (a : Nat) (k : Kind) (tag : Nat) : Task × Verdict :=
  match t.actions[a]? with
  | none => (t, .notFound)
  | some r =>
    if r.state.completed then (t, .rejected)
    else
      let r' : ActionRow := { state := aStateOf k, accepted := true, out := tag,
                              acceptCount := r.acceptCount + 1 }
      (taskComplete { t with actions := t.actions.set a r' } (tStateOf k), .accepted)

/-- the checker's loop over the RUNNING action executions `idx`, one transaction -/
def expireFrom (t : Task) : List Nat → Task
  | [] => t
  | a :: rest => expireFrom (deliverResult t a .error hbTag).1 rest

def runningIdx (as : List ActionRow) : List Nat :=
  (List.range as.length).filter fun i => match as[i]? with
    | some r => !r.state.completed
    | none => false

def deliverExpiry (t : Task) : Task := expireFrom t (runningIdx t.actions)

def newAction : ActionRow := { state := .running, accepted := false, out := 0, acceptCount := 0 }

/-- `_schedule_actions` of a regular task: one new action execution + one run_action request -/
def scheduleAction (t : Task) : Task :=
  { t with actions := t.actions ++ [newAction], dispatched := t.dispatched + 1 }

/-- `_run_new` (the message never carries waiting=True after the RPC hop) -/
def runNew (t : Task) : Task :=
  if t.state = .idle then scheduleAction { t with state := .running } else t

/-- `_reset_actions` -/
def resetActions (reset : Bool) (as : List ActionRow) : List ActionRow :=
  as.map fun r =>
    if reset || (r.accepted && (r.state == .error || r.state == .cancelled))
    then { r with accepted := false } else r

/-- some action execution of the task has not completed -/
def hasRunningAction (as : List ActionRow) : Bool := as.any fun r => !r.state.completed

/-- the task is running the action of an earlier start request -/
def inProgress (t : Task) : Bool := t.state == .running && hasRunningAction t.actions

/-- `_run_existing` (checks in the order of the code) -/
def runExisting (t : Task) (rerun reset : Bool) : Task × Verdict :=
  if t.state = .success then (t, .refused)
  else if t.state.completed && !rerun then (t, .noop)
  else if inProgress t then (t, .noop)
  else (scheduleAction { t with state := .running, actions := resetActions reset t.actions }, .accepted)

def step (t : Task) : Delivery → Task
  | .result a k tag => (deliverResult t a k tag).1
  | .wfResult k => taskComplete t (tStateOf k)
  | .expiry => deliverExpiry t
  | .startTask true _ _ => runNew t
  | .startTask false rerun reset => (runExisting t rerun reset).1

def verdict (t : Task) : Delivery → Verdict
  | .result a k tag => (deliverResult t a k tag).2
  | .wfResult _ => if t.state.completed then .noop else .accepted
  | .expiry => .accepted
  | .startTask true _ _ => if t.state = .idle then .accepted else .noop
  | .startTask false rerun reset => (runExisting t rerun reset).2

def run (t : Task) : List Delivery → Task
  | [] => t
  | d :: ds => run (step t d) ds

/-- a freshly created task execution (`create_new`: IDLE, no action executions) -/
def fresh : Task := { state := .idle, actions := [], dispatched := 0, completions := 0 }

/-- the delivery is a start-task request (of either kind) -/
def Delivery.isStart : Delivery → Bool
  | .startTask _ _ _ => true
  | _ => false

/-- the delivery is not an explicit rerun request (`first_run=False, rerun=True`, sent by rerun_workflow);
    the request re-queued on resume (`first_run=False, rerun=False`) is NOT excluded -/
def Delivery.notRerun : Delivery → Bool
  | .startTask false true _ => false
  | _ => true

/-! ### workflow execution ids -/

/-- ids of the existing workflow executions, in creation order -/
abbrev WfTable := List Nat

/-- `start_workflow(.., wf_ex_id=id, ..)`: (table after, id of the returned execution, created?) -/
def startWorkflow (tb : WfTable) (id : Nat) : WfTable × Nat × Bool :=
  if id ∈ tb then (tb, id, false) else (tb ++ [id], id, true)

def startAll (tb : WfTable) : List Nat → WfTable
  | [] => tb
  | i :: is => startAll (startWorkflow tb i).1 is

end Mistral.Dedup
