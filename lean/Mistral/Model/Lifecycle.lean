/-
Lifecycle state machines of workflow / task / action executions: the guards the engine
applies before a state change (mistral/engine/workflows.py set_state, pause, resume, stop,
check_and_complete, _succeed/_fail/_cancel_workflow; workflow_handler.rerun_workflow /
resume_workflow; engine/tasks.py Task.set_state / complete / update / defer,
task_handler.force_fail_task; engine/actions.py RegularAction.complete, Action.update).
Transition table: regenerated from states.py (Mistral/Gen/States.lean).
-/
import Mistral.Model.States
namespace Mistral.Lifecycle
open Mistral

/-- How an operation ends. -/
inductive Res where
  | changed          -- the state was written
  | noop             -- the guard returned early; nothing written
  | declaredError    -- a MistralException subclass is raised; nothing written
  | undeclaredError  -- another exception type escapes (KeyError, ValueError …); nothing written
  deriving Repr, DecidableEq

/-- `Workflow.set_state`: the transition is validated against the table, then applied with a
    compare-and-swap on the current state (always successful in a serial history). -/
def wfSetState (s t : St) : St × Res :=
  match isValidTransition s t with
  | none => (s, .undeclaredError)
  | some true => (t, .changed)
  | some false => (s, .declaredError)

inductive WfOp where
  | start                      -- Workflow.start
  | pause                      -- Workflow.pause
  | resume                     -- workflow_handler.resume_workflow
  | stop (target : St)         -- Workflow.stop(state)  (API: stop / fail / cancel, engine commands)
  | complete (outcome : St)    -- check_and_complete when no task is incomplete: the verdict
  | rerun                      -- workflow_handler.rerun_workflow → _recursive_rerun
  deriving Repr, DecidableEq

def wfApply (s : St) : WfOp → St × Res
  | .start => wfSetState s .RUNNING
  | .pause => if isPaused s then (s, .noop) else wfSetState s .PAUSED
  | .resume => if !isPausedOrIdle s then (s, .noop) else wfSetState s .RUNNING
  | .stop .SUCCESS => if isCompleted s then (s, .noop) else wfSetState s .SUCCESS   -- guard: repo patch 15
  | .stop .ERROR => if isCompleted s then (s, .noop) else wfSetState s .ERROR
  | .stop .CANCELLED => if isCompleted s then (s, .noop) else wfSetState s .CANCELLED
  | .stop _ => (s, .noop)
  | .complete o =>
    if isPausedOrCompleted s then (s, .noop) else
    -- workflow_handler.check_and_complete catches a MistralException raised while completing
    -- and force-fails the workflow (= stop ERROR)
    let guarded (r : St × Res) : St × Res :=
      if r.2 == .declaredError then wfSetState s .ERROR else r
    match o with
    | .SUCCESS => guarded (wfSetState s .SUCCESS)
    | .ERROR => guarded (wfSetState s .ERROR)
    | .CANCELLED => guarded (wfSetState s .CANCELLED)
    | _ => (s, .noop)
  | .rerun => if s == .PAUSED then (s, .noop) else wfSetState s .RUNNING

/-- the moves the property documents for a workflow execution -/
def documentedMove (a b : St) : Bool :=
  match a, b with
  | .IDLE, .RUNNING => true
  | .RUNNING, .PAUSED | .RUNNING, .SUCCESS | .RUNNING, .ERROR | .RUNNING, .CANCELLED => true
  | .PAUSED, .RUNNING | .PAUSED, .ERROR | .PAUSED, .CANCELLED => true
  | _, _ => false

def rerunMove (a b : St) : Bool :=
  match a, b with
  | .ERROR, .RUNNING | .CANCELLED, .RUNNING => true
  | _, _ => false

/-- the states a workflow execution is ever in (it is never WAITING / DELAYED / SKIPPED) -/
def wfState (s : St) : Bool :=
  match s with
  | .IDLE | .RUNNING | .PAUSED | .SUCCESS | .ERROR | .CANCELLED => true
  | _ => false

/-! ### task executions -/

inductive TaskOp where
  | complete (t : St)          -- Task.complete(state) (skip ⇔ t = SKIPPED)
  | update (t : St)            -- Task.update(state): external action/sub-workflow state change
  | defer                      -- Task.defer on an existing join execution
  | setState (t : St)          -- bare Task.set_state (policies, continue_task, mark_task_running)
  | forceFail                  -- task_handler.force_fail_task
  deriving Repr, DecidableEq

def taskApply (s : St) : TaskOp → St × Res
  | .complete t =>
    if isCompleted s && !isSkipped t then (s, .noop) else (t, .changed)
  | .update t =>
    if isCompleted s then (s, .noop) else
    match isValidTransition s t with
    | none => (s, .undeclaredError)
    | some false => (s, .noop)
    | some true => (t, .changed)
  | .defer => if s != .WAITING then (.WAITING, .changed) else (s, .noop)
  | .setState t => (t, .changed)
  | .forceFail => (.ERROR, .changed)

/-! ### action executions -/

structure ActionSt where
  state : St
  accepted : Bool
  deriving Repr, DecidableEq

inductive ResultKind where | success | error | cancel
  deriving Repr, DecidableEq

def resultState : ResultKind → St
  | .success => .SUCCESS | .error => .ERROR | .cancel => .CANCELLED

/-- `RegularAction.complete(result)`: an already completed action rejects the result with a
    ValueError (the transaction rolls back). -/
def actionComplete (a : ActionSt) (r : ResultKind) : ActionSt × Res :=
  if isCompleted a.state then (a, .undeclaredError)
  else ({ state := resultState r, accepted := true }, .changed)

/-- `Action.update(state)` -/
def actionUpdate (a : ActionSt) (t : St) : ActionSt × Res :=
  match isValidTransition a.state t with
  | none => (a, .undeclaredError)
  | some false => (a, .declaredError)
  | some true => ({ a with state := t }, .changed)

end Mistral.Lifecycle
