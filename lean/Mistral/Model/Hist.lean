/-
L2 (continued): whole publish HISTORIES over a fork/join DAG.

A history lists the tasks of one run in a causal (topological) order.  Every task names its parents
(indices of EARLIER tasks, in the order the database happens to list their rows) and what it
publishes.  Exactly as the engine does it:
  inbound context  = `evaluate_upstream_context` of the parents' outbound contexts, in the listed order
                     (`Ctx.upstream`: the LAST row is the base, the others are folded into it with
                     `merge_context_by_version`);
  outbound context = `evaluate_task_outbound_context` (`Ctx.outbound`: inbound context updated with
                     `published`, the version of every published leaf path bumped).
A parent index that does not denote an earlier task is ignored (the engine cannot produce one).
Paths: a variable is a top-level key, a nested value is navigated key by key (`getPathVal`); the
version key of a path is the dotted string the code builds (`keyOf`).
-/
import Mistral.Model.Ctx
namespace Mistral.Hist
open Mistral Mistral.Ctx

/-- navigate a value along a path of keys (`none`: a key is missing or a non-dict is in the way) -/
def getPathVal : Val → List String → Option Val
  | v, [] => some v
  | .obj kv, k :: rest =>
    match Dict.get? kv k with
    | some v => getPathVal v rest
    | none => none
  | _, _ :: _ => none

/-- the value at path `k0 :: rest` of a context's data -/
def getPath (d : Dict) (k0 : String) (rest : List String) : Option Val :=
  match Dict.get? d k0 with
  | some v => getPathVal v rest
  | none => none

/-- the LEAF at a path: the value there when it is not a dictionary -/
def leafAt (d : Dict) (k0 : String) (rest : List String) : Option Val :=
  match getPath d k0 rest with
  | some v => if v.isObj then none else some v
  | none => none

/-- the version key of the path below a node whose own key is `p`: `p.k1.k2...` -/
def keyOf (p : String) : List String → String
  | [] => p
  | k :: rest => keyOf (p ++ "." ++ k) rest

structure Task where
  parents : List Nat
  pub : Dict
  deriving Repr

/-- one task of a run: what it saw, what it handed on, and its strict causal ancestors -/
structure Row where
  task : Task
  inb : Ctx
  out : Ctx
  anc : List Nat
  deriving Repr

def parentRows (rows : List Row) (t : Task) : List Row := t.parents.filterMap (fun p => rows[p]?)

def newRow (rows : List Row) (t : Task) : Row :=
  let ps := parentRows rows t
  let inb := upstream (ps.map (·.out))
  { task := t, inb := inb, out := outbound inb t.pub,
    anc := t.parents.filter (· < rows.length) ++ ps.flatMap (·.anc) }

def stepRow (rows : List Row) (t : Task) : List Row := rows ++ [newRow rows t]

def runRows (h : List Task) : List Row := h.foldl stepRow []

end Mistral.Hist
