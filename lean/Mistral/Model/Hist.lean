/-
L2 (continued): whole publish HISTORIES over a fork/join DAG.

A history lists the tasks of one run in a causal (topological) order.  Every task names its parents
(indices of EARLIER tasks, in the order the database happens to list their rows) and what it
publishes.  Exactly as the engine does it:
  inbound context  = `evaluate_upstream_context` of the parents' outbound contexts, in the listed order
                     (`Ctx.upstream`: the LAST row is the base, the others are folded into it with
                     `merge_context_by_version`);
  outbound context = `evaluate_task_outbound_context` (`Ctx.outbound`: inbound context updated with
                     `published`, the version of every published leaf path bumped).
A parent index that does not denote an earlier task is ignored (the engine cannot produce one).
Paths: a variable is a top-level key, a nested value is navigated key by key (`getPathVal`); the
version key of a path is the dotted string the code builds (`keyOf`).
-/
import Mistral.Model.Ctx
namespace Mistral.Hist
open Mistral Mistral.Ctx

/-- navigate a value along a path of keys (`none`: a key is missing or a non-dict is in the way) -/
def getPathVal : Val → List String → Option Val
  | v, [] => some v
  | .obj kv, k :: rest =>
    match Dict.get? kv k with
    | some v => getPathVal v rest
    | none => none
  | _, _ :: _ => none

/-- the value at path `k0 :: rest` of a context's data -/
def getPath (d : Dict) (k0 : String) (rest : List String) : Option Val :=
  match Dict.get? d k0 with
  | some v => getPathVal v rest
  | none => none

/-- the LEAF at a path: the value there when it is not a dictionary -/
def leafAt (d : Dict) (k0 : String) (rest : List String) : Option Val :=
  match getPath d k0 rest with
  | some v => if v.isObj then none else some v
  | none => none

/-- the version key of the path below a node whose own key is `p`: `p.k1.k2...` -/
def keyOf (p : String) : List String → String
  | [] => p
  | k :: rest => keyOf (p ++ "." ++ esc k) rest

structure Task where
  parents : List Nat
  pub : Dict
  deriving Repr

/-- one task of a run: what it saw, what it handed on, and its strict causal ancestors -/
structure Row where
  task : Task
  inb : Ctx
  out : Ctx
  anc : List Nat
  deriving Repr

def parentRows (rows : List Row) (t : Task) : List Row := t.parents.filterMap (fun p => rows[p]?)

def newRow (rows : List Row) (t : Task) : Row :=
  let ps := parentRows rows t
  let inb := upstream (ps.map (·.out))
  { task := t, inb := inb, out := outbound inb t.pub,
    anc := t.parents.filter (· < rows.length) ++ ps.flatMap (·.anc) }

def stepRow (rows : List Row) (t : Task) : List Row := rows ++ [newRow rows t]

def runRows (h : List Task) : List Row := h.foldl stepRow []

/-! ### the workflow's FINAL context and output

`DirectWorkflowController.evaluate_workflow_final_context`: the completed task executions without next
tasks (the END tasks) are read from the database in BATCHES (`get_completed_task_executions_as_batches`:
consecutive slices of `batch_size` rows, 20 in the code) and every batch is folded into the context
accumulated so far: `ctx = evaluate_upstream_context(batch, additive_context=ctx)`.  An EMPTY accumulated
context (`{}`: before the first batch) makes the last row of the batch the base of the fold; a non-empty
one is the base itself and EVERY row of the batch is merged into it. -/

/-- one `evaluate_upstream_context(batch, additive_context=acc)`; `none` = the empty dict `{}` -/
def finalStep (acc : Option Ctx) (batch : List Ctx) : Option Ctx :=
  if batch.isEmpty then none else
  match acc with
  | some c => some (batch.foldl mergeByVersion c)
  | none => some (upstream batch)

/-- the loop over the batches: `while idx < count: batch = rows[idx : idx + size]; idx += size`
    (fuel = number of rows: with size >= 1 every round consumes a row) -/
def foldBatches (size : Nat) : Nat → Option Ctx → List Ctx → Option Ctx
  | 0, acc, _ => acc
  | fuel + 1, acc, rows =>
    if rows.isEmpty then acc else foldBatches size fuel (finalStep acc (rows.take size)) (rows.drop size)

/-- `evaluate_workflow_final_context` over the outbound contexts of the end tasks in the order the
    database lists them, for a batch size -/
def finalContext (size : Nat) (ends : List Ctx) : Ctx :=
  (foldBatches size ends.length none ends).getD { data := [], vers := [] }

/-- `evaluate_workflow_output` for an `output:` clause that is a map from output names to VARIABLE
    references (expressions are not modelled): every reference is looked up in the view (final context,
    environment, workflow context, input); a missing variable is an error (`none`); an empty result
    (no `output:` clause) yields the whole final context, without its versions. -/
def workflowOutput (spec : List (String × String)) (final : Ctx) (layers : List Dict) : Option Dict :=
  match spec.mapM (fun (p : String × String) => (viewLookup (final.data :: layers) p.2).map (fun v => (p.1, v))) with
  | none => none
  | some out => if out.isEmpty then some final.data else some out

end Mistral.Hist
