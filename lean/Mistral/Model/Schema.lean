/- C14, schema level: a TOTAL interpreter of the subset of JSON Schema that the definition
   language of mistral uses (`mistral/lang/base.py: BaseSpec.validate_schema` =
   `jsonschema.validate(data, cls.get_schema())`), written after the code of the `jsonschema`
   package that actually runs (4.x, `validator_for(schema)` = Draft 2020-12 because the mistral
   schemas carry no `$schema`; `_keywords.py`, `_utils.py`, `_types.py`).

   What is modelled, keyword by keyword (`validateKw`): type (draft-6+ reading: a float with an
   integral value is an `integer`; a bool is neither integer nor number), enum (`_utils.equal`),
   minimum, minLength, minItems, minProperties, maxProperties, uniqueItems (`_utils.uniq`), pattern
   (`re.search`), required, properties, patternProperties, additionalProperties (False / schema,
   with the sibling `properties` / `patternProperties` it consults), items (single schema), allOf,
   anyOf, oneOf, not; `description` / `definitions` are annotations.  No `$ref` occurs in the mistral
   schemas, hence NO FUEL: every function below is structurally recursive on the schema.

   Exceptions.  YAML mappings may have keys that are not strings; `patternProperties` (and
   `additionalProperties` next to a `patternProperties`) calls `re.search(pattern, key)` on every key
   and raises `TypeError` on such a key, which `validate_schema` turns into a definition error.
   Whether the TypeError is *reached* depends on evaluation order: `is_valid` (used by `not` and by
   the second phase of `oneOf`) stops at the first error, `anyOf` / first phase of `oneOf` drain each
   branch.  `Out` therefore is the sequence of events of the error generator: the errors yielded, in
   order, and whether the generator then died (`crash`).  `Out.eager` / `Out.lazy` are the two ways
   the package consumes a generator.

   Values (`JVal`): what `yaml.load(SafeLoader)` can produce — null, bool, int (unbounded), float
   (exact dyadic fraction, ±inf, nan), str, list, dict with string or non-string keys, and `other`
   (date, bytes, set, tuple: of no JSON type).  Core Lean only. -/
import Mistral.Gen.ReTables
namespace Mistral.Schema

/-! ## values -/

/-- a mapping key: a string, or any other YAML scalar (`1:`, `yes:`, `~:`, a date; canonical repr). -/
inductive Key where
  | s (k : String)
  | ns (r : String)
deriving Repr, DecidableEq, Inhabited

/-- a python float: `n / d` exactly (`float.as_integer_ratio`, reduced, `d` a power of two), or special. -/
inductive Flt where
  | fin (n : Int) (d : Nat)
  | inf | ninf | nan
deriving Repr, DecidableEq, Inhabited

inductive JVal where
  | null
  | bool (b : Bool)
  | int (i : Int)
  | flt (f : Flt)
  | str (s : String)
  | arr (xs : List JVal)
  | obj (kvs : List (Key × JVal))
  | other (tag : String)
deriving Repr, Inhabited

/-- python `d.get(k)` on an association list (python dicts have unique keys; first hit). -/
def lookupKey (k : Key) : List (Key × JVal) → Option JVal
  | [] => none
  | (k', v) :: r => if k' = k then some v else lookupKey k r

/-- `d.get('<name>')` -/
def lookup (name : String) (kvs : List (Key × JVal)) : Option JVal := lookupKey (.s name) kvs

/-- numeric value of an int / float. -/
inductive NumV where
  | q (n : Int) (d : Nat)
  | inf | ninf | nan
deriving Repr, DecidableEq

def Flt.toNumV : Flt → NumV
  | .fin n d => .q n d
  | .inf => .inf
  | .ninf => .ninf
  | .nan => .nan

def JVal.num? : JVal → Option NumV
  | .int i => some (.q i 1)
  | .flt f => some f.toNumV
  | _ => none

/-- python `a < b` on int / float (exact; every comparison with nan is False). -/
def NumV.lt : NumV → NumV → Bool
  | .nan, _ => false
  | _, .nan => false
  | .ninf, .ninf => false
  | .ninf, _ => true
  | _, .ninf => false
  | .inf, _ => false
  | _, .inf => true
  | .q a b, .q c d => decide (a * (d : Int) < c * (b : Int))

/-- python `a == b` on int / float, except that nan equals nan: PyYAML returns ONE nan object for
    every `.nan` and `_utils.equal` starts with `one is two`. -/
def NumV.eq : NumV → NumV → Bool
  | .q a b, .q c d => decide (a * (d : Int) = c * (b : Int))
  | .inf, .inf => true
  | .ninf, .ninf => true
  | .nan, .nan => true
  | _, _ => false

def numEq (a : NumV) : JVal → Bool
  | .int i => a.eq (.q i 1)
  | .flt f => a.eq f.toNumV
  | _ => false

mutual
/-- `jsonschema._utils.equal`: python `==` with bool kept apart from int, recursively through lists
    and dicts (`_sequence_equal`, `_mapping_equal`). -/
def equal : JVal → JVal → Bool
  | .null => fun b => match b with | .null => true | _ => false
  | .bool x => fun b => match b with | .bool y => x == y | _ => false
  | .int i => fun b => numEq (.q i 1) b
  | .flt f => fun b => numEq f.toNumV b
  | .str s => fun b => match b with | .str t => s == t | _ => false
  | .arr xs => fun b => match b with | .arr ys => equalList xs ys | _ => false
  | .obj kvs => fun b => match b with
    | .obj kvs' => kvs.length == kvs'.length && equalObj kvs kvs'
    | _ => false
  | .other t => fun b => match b with | .other u => t == u | _ => false
def equalList : List JVal → List JVal → Bool
  | [] => fun ys => ys.isEmpty
  | x :: xs => fun ys => match ys with
    | y :: ys' => equal x y && equalList xs ys'
    | [] => false
def equalObj : List (Key × JVal) → List (Key × JVal) → Bool
  | [] => fun _ => true
  | (k, v) :: r => fun two =>
    (match lookupKey k two with | some v' => equal v v' | none => false) && equalObj r two
end

/-- `jsonschema._utils.uniq`: no two elements are `equal`. -/
def uniq : List JVal → Bool
  | [] => true
  | x :: xs => !(xs.any (fun y => equal x y)) && uniq xs

inductive Ty where
  | null | boolean | integer | number | string | array | object
deriving Repr, DecidableEq

/-- `TypeChecker.is_type` of the draft-6+ checkers (`_types.py`). -/
def isType : Ty → JVal → Bool
  | .null, .null => true
  | .boolean, .bool _ => true
  | .integer, .int _ => true
  | .integer, .flt (.fin _ d) => d == 1
  | .number, .int _ => true
  | .number, .flt _ => true
  | .string, .str _ => true
  | .array, .arr _ => true
  | .object, .obj _ => true
  | _, _ => false

/-! ## regular expressions (python `re`, str patterns, no flags) -/

def inRanges (n : Nat) : List (Nat × Nat) → Bool
  | [] => false
  | (lo, hi) :: r => (lo ≤ n && n ≤ hi) || inRanges n r

/-- `\w`: `str.isalnum()` or `_` (table regenerated from the running python). -/
def isWord (c : Char) : Bool :=
  if c.val < 128 then c.isAlphanum || c == '_' else inRanges c.toNat Mistral.Gen.ReTables.wordRanges

/-- `\s` -/
def isSpace (c : Char) : Bool := inRanges c.toNat Mistral.Gen.ReTables.spaceRanges

inductive CC where
  | chr (c : Char)
  | range (lo hi : Char)
  | word
  | space
deriving Repr, DecidableEq

def CC.has : CC → Char → Bool
  | .chr c, x => c == x
  | .range lo hi, x => lo.val ≤ x.val && x.val ≤ hi.val
  | .word, x => isWord x
  | .space, x => isSpace x

/-- a set of characters: `[...]`, `[^...]`; `.` is `[^\n]`, `\S` is `[^\s]`. -/
structure Cls where
  neg : Bool
  items : List CC
deriving Repr, DecidableEq

def Cls.has (k : Cls) (x : Char) : Bool := (k.items.any (·.has x)) != k.neg

inductive Atom where
  | lit (c : Char)
  | cls (k : Cls)
  | star (k : Cls)                    -- `k*` / `k*?` (greedy or lazy: same language)
  | plus (k : Cls)                    -- `k+`
  | bos                               -- `^`
  | eos                               -- `$`: at the end, or before a final newline
  | nlaLit (s : String) (eos : Bool)  -- `(?!s)` / `(?!s$)`
deriving Repr, DecidableEq

/-- a pattern is a sequence of atoms (no alternation occurs in the schemas; groups are transparent). -/
abbrev Re := List Atom

def atEnd (s : List Char) : Bool := s == [] || s == ['\n']

/-- the rests reachable by consuming 0, 1, 2, … characters of class `k`. -/
def starRests (k : Cls) : List Char → List (List Char)
  | [] => [[]]
  | x :: xs => (x :: xs) :: (if k.has x then starRests k xs else [])

def prefixRest : List Char → List Char → Option (List Char)
  | [], s => some s
  | _ :: _, [] => none
  | p :: ps, x :: xs => if p == x then prefixRest ps xs else none

/-- does the pattern match at this position (`st`: nothing consumed yet and we are at offset 0). -/
def matchHere : Re → Bool → List Char → Bool
  | [], _, _ => true
  | .lit c :: as, _, s => match s with
    | x :: xs => c == x && matchHere as false xs
    | [] => false
  | .cls k :: as, _, s => match s with
    | x :: xs => k.has x && matchHere as false xs
    | [] => false
  | .star k :: as, st, s => match starRests k s with
    | [] => false
    | r0 :: rs => matchHere as st r0 || rs.any (fun r => matchHere as false r)
  | .plus k :: as, _, s => match s with
    | x :: xs => k.has x && (starRests k xs).any (fun r => matchHere as false r)
    | [] => false
  | .bos :: as, st, s => st && matchHere as st s
  | .eos :: as, st, s => atEnd s && matchHere as st s
  | .nlaLit p e :: as, st, s =>
    !(match prefixRest p.toList s with
      | some r => !e || atEnd r
      | none => false) && matchHere as st s

def searchFrom (r : Re) : Bool → List Char → Bool
  | st, [] => matchHere r st []
  | st, x :: xs => matchHere r st (x :: xs) || searchFrom r false xs

/-- `re.search(pattern, s) is not None` -/
def Re.search (r : Re) (s : String) : Bool := searchFrom r true s.toList

/-! ## schemas -/

mutual
inductive Schema where
  | mk (kws : List Kw)                 -- the keywords in the order of the python dict
inductive Kw where
  | type (ts : List Ty)
  | enum (vs : List JVal)
  | minimum (m : NumV)
  | minLength (n : Nat)
  | minItems (n : Nat)
  | minProperties (n : Nat)
  | maxProperties (n : Nat)
  | uniqueItems (b : Bool)
  | pattern (r : Re)
  | required (ks : List String)
  | properties (ps : List (String × Schema))
  | patternProperties (ps : List (Re × Schema))
  /-- `additionalProperties: False`; `names` / `pats` are the keys of the sibling `properties` /
      `patternProperties`, which the keyword reads from the enclosing schema. -/
  | additionalPropertiesFalse (names : List String) (pats : List Re)
  | additionalProperties (names : List String) (pats : List Re) (s : Schema)
  | items (s : Schema)
  | allOf (ss : List Schema)
  | anyOf (ss : List Schema)
  | oneOf (ss : List Schema)
  | not (s : Schema)
  | annotation (name : String)         -- `description`, `definitions`: no validator
end

instance : Inhabited Schema := ⟨.mk []⟩

/-! ## results -/

inductive Seg where
  | k (key : Key)
  | i (n : Nat)
deriving Repr, DecidableEq

/-- one `ValidationError`: `absolute_path` of the offending instance and the failing keyword. -/
structure Err where
  path : List Seg
  kw : String
deriving Repr, DecidableEq

/-- the events of an error generator: the errors it yields, then (if `crash`) a TypeError. -/
structure Out where
  errs : List Err
  crash : Bool
deriving Repr, DecidableEq

namespace Out
def ok : Out := ⟨[], false⟩
def died : Out := ⟨[], true⟩
def err (kw : String) : Out := ⟨[⟨[], kw⟩], false⟩
def check (b : Bool) (kw : String) : Out := if b then ok else err kw
/-- run `a`, then `b` (nothing of `b` happens when `a` died). -/
def seq (a b : Out) : Out := if a.crash then a else ⟨a.errs ++ b.errs, b.crash⟩
def seqAll : List Out → Out
  | [] => ok
  | o :: os => o.seq (seqAll os)
/-- `validator.descend(..., path=seg)`: the errors of a child get the path segment in front. -/
def pre (seg : Seg) (o : Out) : Out := ⟨o.errs.map (fun e => ⟨seg :: e.path, e.kw⟩), o.crash⟩
/-- accepted: no error and no TypeError. -/
def clean (o : Out) : Bool := o.errs.isEmpty && !o.crash
end Out

inductive Tri where
  | valid | invalid | crash
deriving Repr, DecidableEq

/-- `list(validator.descend(...))`: the generator is drained. -/
def Out.eager (o : Out) : Tri := if o.crash then .crash else if o.errs.isEmpty then .valid else .invalid
/-- `validator.is_valid(...)` = `next(iter_errors, None) is None`: only the first event is seen. -/
def Out.lazy (o : Out) : Tri := match o.errs with
  | _ :: _ => .invalid
  | [] => if o.crash then .crash else .valid

def hasKey (name : String) (kvs : List (Key × JVal)) : Bool := (lookup name kvs).isSome

/-- `find_additional_properties`: the keys that are neither in `properties` nor matched by a
    pattern; `none` = TypeError (`re.search` on a non-string key; only when there are patterns). -/
def extras (names : List String) (pats : List Re) : List (Key × JVal) → Option (List (Key × JVal))
  | [] => some []
  | (k, v) :: r =>
    match k with
    | .s name =>
      if names.contains name then extras names pats r
      else if pats.any (fun p => p.search name) then extras names pats r
      else (extras names pats r).map ((k, v) :: ·)
    | .ns _ =>
      if pats.isEmpty then (extras names pats r).map ((k, v) :: ·) else none

def indexed {α : Type} : Nat → List α → List (Nat × α)
  | _, [] => []
  | n, x :: xs => (n, x) :: indexed (n + 1) xs

def numLt (j : JVal) (m : NumV) : Bool := match j.num? with
  | some a => a.lt m
  | none => false

/-! ## the interpreter -/

mutual
/-- `Validator.iter_errors`: every keyword of the schema, in dict order. -/
def validate : Schema → JVal → Out
  | .mk kws => fun j => validateKws kws j
def validateKws : List Kw → JVal → Out
  | [] => fun _ => .ok
  | k :: ks => fun j => (validateKw k j).seq (validateKws ks j)
def validateKw : Kw → JVal → Out
  | .type ts => fun j => .check (ts.any (fun t => isType t j)) "type"
  | .enum vs => fun j => .check (vs.any (fun v => equal v j)) "enum"
  | .minimum m => fun j => .check (!(numLt j m)) "minimum"
  | .minLength n => fun j => match j with
    | .str s => .check (decide (n ≤ s.length)) "minLength"
    | _ => .ok
  | .minItems n => fun j => match j with
    | .arr xs => .check (decide (n ≤ xs.length)) "minItems"
    | _ => .ok
  | .minProperties n => fun j => match j with
    | .obj kvs => .check (decide (n ≤ kvs.length)) "minProperties"
    | _ => .ok
  | .maxProperties n => fun j => match j with
    | .obj kvs => .check (decide (kvs.length ≤ n)) "maxProperties"
    | _ => .ok
  | .uniqueItems b => fun j => match j with
    | .arr xs => .check (!b || uniq xs) "uniqueItems"
    | _ => .ok
  | .pattern r => fun j => match j with
    | .str s => .check (r.search s) "pattern"
    | _ => .ok
  | .required ks => fun j => match j with
    | .obj kvs => ⟨(ks.filter (fun k => !hasKey k kvs)).map (fun _ => ⟨[], "required"⟩), false⟩
    | _ => .ok
  | .properties ps => fun j => match j with
    | .obj kvs => validateProps ps kvs
    | _ => .ok
  | .patternProperties ps => fun j => match j with
    | .obj kvs => validatePats ps kvs
    | _ => .ok
  | .additionalPropertiesFalse names pats => fun j => match j with
    | .obj kvs => match extras names pats kvs with
      | none => .died
      | some ex => .check ex.isEmpty "additionalProperties"
    | _ => .ok
  | .additionalProperties names pats s => fun j => match j with
    | .obj kvs => match extras names pats kvs with
      | none => .died
      -- python iterates a *set* of the extra keys: the order of these events is unspecified;
      -- document order is used (it only matters below `not` / a later branch of `oneOf`, where the
      -- translator refuses an `additionalProperties` with a schema)
      | some ex => .seqAll (ex.map (fun kv => (validate s kv.2).pre (.k kv.1)))
    | _ => .ok
  | .items s => fun j => match j with
    | .arr xs => .seqAll ((indexed 0 xs).map (fun ix => (validate s ix.2).pre (.i ix.1)))
    | _ => .ok
  | .allOf ss => fun j => allOfGo ss j
  | .anyOf ss => fun j => anyOfGo ss j
  | .oneOf ss => fun j => oneOfGo ss j
  | .not s => fun j => match (validate s j).lazy with
    | .valid => .err "not"
    | .invalid => .ok
    | .crash => .died
  | .annotation _ => fun _ => .ok
/-- `properties`: for every declared property present in the instance, in schema order. -/
def validateProps : List (String × Schema) → List (Key × JVal) → Out
  | [] => fun _ => .ok
  | (k, s) :: ps => fun kvs =>
    (match lookup k kvs with
      | some v => (validate s v).pre (.k (.s k))
      | none => .ok).seq (validateProps ps kvs)
/-- `patternProperties`: for every pattern, every key of the instance in document order;
    `re.search(pattern, key)` raises TypeError on a key that is not a string. -/
def validatePats : List (Re × Schema) → List (Key × JVal) → Out
  | [] => fun _ => .ok
  | (r, s) :: ps => fun kvs =>
    (Out.seqAll (kvs.map (fun kv => match kv.1 with
      | .ns _ => Out.died
      | .s name => if r.search name then (validate s kv.2).pre (.k kv.1) else .ok))).seq
      (validatePats ps kvs)
def allOfGo : List Schema → JVal → Out
  | [] => fun _ => .ok
  | s :: ss => fun j => (validate s j).seq (allOfGo ss j)
/-- `anyOf`: branches are drained one after the other until one has no error. -/
def anyOfGo : List Schema → JVal → Out
  | [] => fun _ => .err "anyOf"
  | s :: ss => fun j => match (validate s j).eager with
    | .crash => .died
    | .valid => .ok
    | .invalid => anyOfGo ss j
/-- `oneOf`, first phase: like `anyOf` up to the first valid branch; then `is_valid` on all the rest. -/
def oneOfGo : List Schema → JVal → Out
  | [] => fun _ => .err "oneOf"
  | s :: ss => fun j => match (validate s j).eager with
    | .crash => .died
    | .valid =>
      let rest := restTris ss j
      if rest.contains .crash then .died
      else if rest.contains .valid then .err "oneOf" else .ok
    | .invalid => oneOfGo ss j
def restTris : List Schema → JVal → List Tri
  | [] => fun _ => []
  | s :: ss => fun j => (validate s j).lazy :: restTris ss j
end

/-- `BaseSpec.validate_schema` does not raise: no ValidationError and no TypeError. -/
def accepts (s : Schema) (j : JVal) : Bool := (validate s j).clean

def JVal.isObj : JVal → Bool
  | .obj _ => true
  | _ => false

/-- `BaseSpecList.__init__` (TaskSpecList, WorkflowSpecList, ActionSpecList): the members of the
    section that get a specification object: `for k, v in data.items(): if k != 'version': …`.  The
    skipped entry is the marker `version: '2.0'` that WorkbookSpec injects into its `actions` /
    `workflows` sections; in a `tasks` section there is no marker, and a task named `version` is
    rejected by `WorkflowSpec.validate_schema` since repo patch 27 (`tasksNameCheck`). -/
def specListMembers (kvs : List (Key × JVal)) : List (Key × JVal) :=
  kvs.filter (fun kv => kv.1 != Key.s "version")

/-- `WorkflowSpec.validate_schema`: `if 'version' in self._data.get('tasks'): raise InvalidModelException`. -/
def tasksNameCheck (tkvs : List (Key × JVal)) : Bool := !hasKey "version" tkvs

/-- `BaseListSpec.__init__` (WorkflowListSpec, ActionListSpec): `if k != 'version'` — here `version` is
    the version of the document itself (required by the schema, a string or a number). -/
def listSpecMembers (kvs : List (Key × JVal)) : List (Key × JVal) :=
  kvs.filter (fun kv => kv.1 != Key.s "version")

end Mistral.Schema
