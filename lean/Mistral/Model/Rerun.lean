/-
L5 fragment for C12: the operator command `rerun_workflow(task_ex_id, reset, skip)` and the
`start_task(first_run=False, rerun=True, reset)` message it sends, over an abstraction of the
execution tree.

Code modelled (mistral/):
  engine/default_engine.py   rerun_workflow            -> `rerunOp` (one transaction)
  engine/workflow_handler.py rerun_workflow            -> PAUSED => no-op; SUCCESS task => refused; integrity jobs
  engine/workflows.py        Workflow.rerun, _recursive_rerun, _continue_workflow, set_state
                                                       -> `chain`, `reactivate`, `rerunOp`
  engine/task_handler.py     mark_task_running, skip_task, run_task
  engine/tasks.py            cleanup_runtime_context, _run_existing, _reset_actions,
                             WithItemsTask._get_next_indexes, Task.complete(skip=True)
                                                       -> `startTask`, `resetActs`, `nextIndexes`,
                                                          `completeTask`
  workflow/direct_workflow.py _find_next_tasks         -> `routes`
  lang/v2/tasks.py           get_publish               -> `publishFor`
  api/controllers/v2/task.py TasksController.put       -> `restGuard`
Workflow state changes go through the regenerated transition table (Gen/States, Tie A).
Core Lean only.
-/
import Mistral.Model.States
namespace Mistral.Rerun
open Mistral

/-- one action execution (or sub-workflow execution) of a task -/
structure Act where
  idx : Nat
  state : St
  accepted : Bool
  deriving Repr, DecidableEq, Inhabited

/-- the part of a task specification that rerun / skip read (effective clauses, unconditional
    routes; published values are rendered literals) -/
structure Spec where
  items : Option Nat := none            -- with-items: number of items
  concurrency : Option Nat := none      -- with-items capacity (`None` = unlimited)
  publish : List (String × String) := []
  publishOnError : List (String × String) := []
  publishOnSkip : List (String × String) := []
  onSuccess : List String := []
  onError : List String := []
  onComplete : List String := []
  onSkip : List String := []
  join : Bool := false                  -- a `join` task (its row is found again by unique key)
  deriving Repr, DecidableEq, Inhabited

structure Task where
  name : String := ""
  wf : Nat                               -- index of its workflow execution
  state : St
  processed : Bool := true
  rt : List String := []                 -- keys of runtime_context
  acts : List Act := []
  published : List (String × String) := []
  nextTasks : List (String × String) := []   -- (task name, event)
  spec : Spec := {}
  deriving Repr, DecidableEq, Inhabited

structure Wf where
  state : St
  parent : Option Nat := none            -- index of the parent *task* (sub-workflow link)
  deriving Repr, DecidableEq, Inhabited

/-- a pending `start_task(first_run=False, rerun=True, reset)` message -/
structure Start where
  task : Nat
  reset : Bool
  deriving Repr, DecidableEq, Inhabited

structure World where
  wfs : List Wf
  tasks : List Task
  starts : List Start := []              -- pending start_task messages
  integrity : List Nat := []             -- workflows for which an integrity check got scheduled
  created : List (Nat × String × String) := []   -- task rows created by skip: (wf, name, event)
  deriving Repr, DecidableEq, Inhabited

inductive Err where
  | noTask
  | invalidWfTransition (wf : Nat)       -- WorkflowException "Can't change workflow execution state"
  | succeeded                            -- MistralError 'Rerunning succeeded tasks is not supported.'
  deriving Repr, DecidableEq

instance {ε α : Type} [DecidableEq ε] [DecidableEq α] : DecidableEq (Except ε α) := fun a b =>
  match a, b with
  | .ok x, .ok y => if h : x = y then isTrue (by rw [h]) else isFalse (by intro e; cases e; exact h rfl)
  | .error x, .error y => if h : x = y then isTrue (by rw [h]) else isFalse (by intro e; cases e; exact h rfl)
  | .ok _, .error _ => isFalse (by intro e; cases e)
  | .error _, .ok _ => isFalse (by intro e; cases e)

/-- `states.is_valid_transition(cur, RUNNING)` as `Workflow.set_state` consults it -/
def canRun (s : St) : Bool := isValidTransition s .RUNNING == some true

/-- The workflow `i`, its parent task, that task's workflow, ... bottom-up
    (`_recursive_rerun`).  `fuel` bounds the walk; `chain_reaches_root` shows that
    `wfs.length` is always enough when parents are created before children. -/
def chain (w : World) : Nat → Nat → List (Nat × Option Nat)
  | 0, _ => []
  | fuel + 1, i =>
    match w.wfs[i]? with
    | none => []
    | some wf =>
      match wf.parent with
      | none => [(i, none)]
      | some p =>
        match w.tasks[p]? with
        | none => [(i, some p)]
        | some t => (i, some p) :: chain w fuel t.wf

def chainWfs (c : List (Nat × Option Nat)) : List Nat := c.map (·.1)
def chainTasks (c : List (Nat × Option Nat)) : List Nat := c.filterMap (·.2)

/-- `task_handler.mark_task_running`: `set_state(RUNNING, None, False)` -/
def markRunning (t : Task) : Task :=
  if t.state == .RUNNING then t else { t with state := .RUNNING, processed := false }

/-- `_recursive_rerun`: every workflow of the chain -> RUNNING (any invalid transition raises and
    rolls the whole transaction back), an integrity check per workflow, every parent task marked
    RUNNING. -/
def reactivate (w : World) (i : Nat) : Except Err World :=
  let c := chain w w.wfs.length i
  match (chainWfs c).find? (fun k => match w.wfs[k]? with
                                      | some wf => !(canRun wf.state)
                                      | none => true) with
  | some k => .error (.invalidWfTransition k)
  | none => .ok { w with
      wfs := w.wfs.mapIdx fun k wf =>
        if (chainWfs c).contains k then { wf with state := .RUNNING } else wf
      tasks := w.tasks.mapIdx fun k t =>
        if (chainTasks c).contains k then markRunning t else t
      integrity := w.integrity ++ chainWfs c }

/-- `DirectWorkflowController._find_next_tasks` for unconditional routes -/
def routes (s : Spec) (st : St) : List (String × String) :=
  let err := if st == .ERROR then s.onError.map (·, "on-error") else []
  let skp := if st == .SKIPPED then s.onSkip.map (·, "on-skip") else []
  let suc := if st == .SUCCESS || (st == .SKIPPED && skp.isEmpty)
             then s.onSuccess.map (·, "on-success") else []
  let cmp := if isCompleted st && !(isCancelled st || isSkipped st)
             then s.onComplete.map (·, "on-complete") else []
  err ++ skp ++ suc ++ cmp

/-- `TaskSpec.get_publish(state)` (branch variables) -/
def publishFor (s : Spec) (st : St) : List (String × String) :=
  match st with
  | .SUCCESS => s.publish
  | .ERROR => s.publishOnError
  | .SKIPPED => s.publishOnSkip
  | _ => []

/-- `Task.complete(state)`: state, `publish_variables` (an empty publish spec leaves the old
    `published` in place), `next_tasks`, processed. -/
def completeTask (x : Task) (st : St) : Task :=
  { x with state := st
           published := if (publishFor x.spec st).isEmpty then x.published else publishFor x.spec st
           nextTasks := routes x.spec st
           processed := true }

def setTask (w : World) (t : Nat) (f : Task → Task) : World :=
  { w with tasks := w.tasks.mapIdx fun k x => if k == t then f x else x }

/-- `Task.defer()` for a join target whose row already exists (found by its unique key): the row
    is put back to WAITING instead of a new row being created, and - being re-opened - loses the
    `processed` flag of its previous completion (`set_state(WAITING, msg, processed=False)`) -/
def deferExisting (wfi : Nat) (names : List String) (x : Task) : Task :=
  if x.wf == wfi && x.spec.join && names.contains x.name && x.state != .WAITING
  then { x with state := .WAITING, processed := false } else x

/-- `task_handler.skip_task`: `complete(SKIPPED, skip=True)` + dispatch of the next commands -/
def skipTask (w : World) (t : Nat) : World :=
  match w.tasks[t]? with
  | none => w
  | some x =>
    let rs := routes x.spec .SKIPPED
    { w with
      tasks := w.tasks.mapIdx fun k y =>
        if k == t then completeTask y .SKIPPED else deferExisting x.wf (rs.map (·.1)) y
      created := w.created ++ rs.map fun (n, e) => (x.wf, n, e) }

/-- `_continue_workflow`: `if is_completed(t.state) and not t.processed: t.processed = True` for
    the tasks of the workflow -/
def markProcessed (wfi : Nat) (x : Task) : Task :=
  { x with processed := x.processed || (x.wf == wfi && isCompleted x.state) }

/-- `DefaultEngine.rerun_workflow` (one transaction). -/
def rerunOp (w : World) (t : Nat) (reset skip : Bool) : Except Err World :=
  match w.tasks[t]? with
  | none => .error .noTask
  | some tk =>
    match w.wfs[tk.wf]? with
    | none => .error .noTask
    | some wf =>
      if wf.state == .PAUSED then .ok w else
      -- workflow_handler.rerun_workflow: a succeeded task is refused before the workflow is touched
      if tk.state == .SUCCESS then .error .succeeded else
      match reactivate w tk.wf with
      | .error e => .error e
      | .ok w1 =>
        -- cmds are never empty here (the workflow has just been set RUNNING), so
        -- task.cleanup_runtime_context() always runs
        let w2 := setTask w1 t fun x => { x with rt := [] }
        -- _continue_workflow: completed and not yet processed tasks of this workflow
        let w3 := { w2 with tasks := w2.tasks.map (markProcessed tk.wf) }
        let w4 := if skip then skipTask w3 t
                  else { w3 with starts := w3.starts ++ [⟨t, reset⟩] }
        let par := match wf.parent with
                   | some p => (w.tasks[p]?.map (·.wf)).toList
                   | none => []
        .ok { w4 with integrity := w4.integrity ++ [tk.wf] ++ par }

/-- `_reset_actions` -/
def resetActs (reset : Bool) (acts : List Act) : List Act :=
  acts.map fun a =>
    if reset || (a.accepted && (a.state == .ERROR || a.state == .CANCELLED))
    then { a with accepted := false } else a

def unaccIdx (acts : List Act) : List Nat :=
  (acts.filter fun a => !a.accepted && isCompleted a.state).map (·.idx)
/-- `taken`: the index has an execution whose result counts (accepted) or that is in progress
    (RUNNING/DELAYED/IDLE); such an index is never started again -/
def taken (acts : List Act) (i : Nat) : Bool :=
  acts.any fun a => a.idx == i && (a.accepted || isRunning a.state || isIdle a.state)
/-- index with a completed, unaccepted execution that is not `taken` -/
def isCand (acts : List Act) (i : Nat) : Bool :=
  (unaccIdx acts).contains i && !taken acts i
def nextStart (acts : List Act) : Nat :=
  (acts.filter fun a => a.accepted || isRunning a.state || isIdle a.state).length

/-- `WithItemsTask._get_next_indexes` (indexes are < count). -/
def nextIndexes (acts : List Act) (count : Nat) (capacity : Option Nat) : List Nat :=
  let cands := (List.range count).filter (isCand acts)
  let indices :=
    match cands.getLast? with
    | some m => cands ++ (List.range' (m + 1) (count - (m + 1))).filter fun i => !taken acts i
    | none => List.range' (nextStart acts) (count - nextStart acts)
  match capacity with
  | none => indices
  | some c => indices.take c

/-- the executions of a with-items task that ran once to the end: item k ended in `outs[k]` -/
def firstRun (outs : List St) : List Act := outs.zipIdx.map fun p => ⟨p.2, p.1, true⟩
def failedSt (s : St) : Bool := s == .ERROR || s == .CANCELLED

/-- delivery of `start_task(first_run=False, rerun=True, reset)`: `run_task` -> `_run_existing` -/
def startTask (w : World) (m : Start) : Except Err World :=
  match w.tasks[m.task]? with
  | none => .error .noTask
  | some x =>
    if x.state == .SUCCESS then .error .succeeded else
    -- already started by another request: RUNNING with an execution that has not completed
    if x.state == .RUNNING && x.acts.any (fun a => !isCompleted a.state)
    then .ok { w with starts := w.starts.erase m } else
    let acts1 := resetActs m.reset x.acts
    let newIdx := match x.spec.items with
                  | none => [0]
                  | some n => nextIndexes acts1 n x.spec.concurrency
    .ok (setTask { w with starts := w.starts.erase m } m.task fun x =>
      { x with state := .RUNNING, processed := false,
               acts := acts1 ++ newIdx.map fun i => ⟨i, .RUNNING, false⟩ })

/-- indexes for which `startTask` creates new executions -/
def newIndexes (x : Task) (reset : Bool) : List Nat :=
  match x.spec.items with
  | none => [0]
  | some n => nextIndexes (resetActs reset x.acts) n x.spec.concurrency

/-! ### REST guard (`TasksController.put`) -/

structure PutReq where
  name : Option String := none
  wfName : Option String := none
  state : St
  resetGiven : Bool
  reset : Bool
  deriving Repr, DecidableEq

inductive RestErr where
  | taskName | wfName | targetState | notError | resetMandatory | onlyWithItemsNoReset
  deriving Repr, DecidableEq

def RestErr.toString : RestErr → String
  | .taskName => "taskName" | .wfName => "wfName" | .targetState => "targetState"
  | .notError => "notError" | .resetMandatory => "resetMandatory"
  | .onlyWithItemsNoReset => "onlyWithItemsNoReset"

/-- returns the `(reset, skip)` handed to `engine.rerun_workflow` (`reset = task.reset or None`) -/
def restGuard (taskName wfName : String) (taskState : St) (withItems : Bool) (r : PutReq) :
    Except RestErr (Bool × Bool) :=
  if r.name.isSome && r.name != some taskName then .error .taskName else
  if r.wfName.isSome && r.wfName != some wfName then .error .wfName else
  if r.state != .RUNNING && r.state != .SKIPPED then .error .targetState else
  if taskState != .ERROR then .error .notError else
  if r.state == .RUNNING && !r.resetGiven then .error .resetMandatory else
  if r.state == .RUNNING && !withItems && !(r.resetGiven && r.reset) then .error .onlyWithItemsNoReset else
  .ok (r.resetGiven && r.reset, r.state == .SKIPPED)

/-! ### the task-local part of "as if it had produced the new result the first time" -/

/-- a fresh task row completing with `st` the first time -/
def freshComplete (x : Task) (st : St) : Task :=
  completeTask { x with published := [], nextTasks := [] } st

/-- names of the tasks started because of this task over its whole life: first attempt ended in
    ERROR, rerun ended in `st` -/
def startedAfterRerun (s : Spec) (st : St) : List String :=
  (routes s .ERROR).map (·.1) ++ (routes s st).map (·.1)

end Mistral.Rerun
