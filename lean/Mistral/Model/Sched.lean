/-
Model of mistral's *default* scheduler protocol (mistral/scheduler/default_scheduler.py
+ the scheduled-job functions of mistral/db/v2/sqlalchemy/api.py) at DB-call
granularity.  The legacy scheduler (mistral/services/legacy_scheduler.py) is modelled in
Model/SchedLegacy.lean.

Core Lean only (linked into the compiled driver).  Everything is total and
structurally recursive so that `decide` can evaluate concrete runs.

Correspondence between model steps and code:

* `schedule i ra key tx`  DefaultScheduler.schedule(job) called inside DB transaction `tx`:
                          `_persist_job` (row insert in the caller's transaction, execute_at =
                          utc_now_sec()+run_after, captured_at NULL) then `_schedule_in_memory`
                          (heap push keyed (execute_at, seq), in_memory_jobs[id] = job).
* `scheduleBad i`         schedule() whose `_persist_job` raises: nothing is pushed.
* `commit tx`/`rollback tx`  end of the caller's transaction (READ COMMITTED: the row becomes
                          visible to everybody atomically / never existed).
* `tick n`                the whole-second clock (`utc_now_sec`) advances.
* `pop i`                 one iteration of `_dispatcher`: if the heap head is due
                          (`execute_at - now <= 0`) pop it and submit `_process_memory_job`.
* `task i j`              the next DB-call-sized piece of `_process_memory_job(j)`:
                          capture (CAS, on failure forget the job) | `_prepare_and_invoke_job`
                          (a job in `cfg.bad` cannot be prepared: logged, not invoked) | delete + forget.
* `pollSelect i`          `get_scheduled_jobs_to_start(now, batch_size)` inside the poll transaction.
* `pollCapture i`         the `_capture_scheduled_job` CASes of that transaction (+ commit).
* `pollNext i`            the next piece of the invoke/delete loop of `_process_store_jobs`
                          (a failing delete raises out of the loop: the rest is abandoned).
* `crash i`               the process of instance `i` dies: heap, in_memory_jobs, running work vanish.
* `hasJobs`               `has_scheduled_jobs(key=…, processing=…)`, in-memory short-cut first.
-/
namespace Mistral.Sched

structure Cfg where
  pickup : Nat            -- scheduler.pickup_job_after (whole seconds)
  timeout : Nat           -- scheduler.captured_job_timeout (whole seconds)
  batch : Option Nat      -- scheduler.batch_size
  /-- ids (= scheduling ordinals) of the jobs that cannot be prepared: `_prepare_job` raises for
      them (target function or argument serializer not importable).  An oracle of the run, like the
      action results of the engine model; fixed for the whole history. -/
  bad : List Nat := []
deriving Repr, DecidableEq

inductive Vis where
  | uncommitted (tx : Nat)
  | committed
  | rolledBack
  | deleted
deriving DecidableEq, Repr

structure Row where
  executeAt : Nat
  capturedAt : Option Nat
  key : Nat
  vis : Vis
deriving DecidableEq, Repr

/-- the python `ScheduledJob` object an instance keeps in `in_memory_jobs` -/
structure MemJob where
  id : Nat
  capturedAt : Option Nat
  key : Nat
deriving DecidableEq, Repr

inductive Stage where
  | popped | captured | invoked
deriving DecidableEq, Repr

/-- a `_process_memory_job` call in progress -/
structure Task where
  id : Nat
  stage : Stage
deriving DecidableEq, Repr

inductive Poll where
  | idle
  | selected (cands : List (Nat × Option Nat))       -- (job id, captured_at as read)
  | running (queue : List Nat) (headInvoked : Bool)  -- captured jobs still to process, in order
deriving DecidableEq, Repr

structure HeapEntry where
  executeAt : Nat
  seq : Nat
  id : Nat
deriving DecidableEq, Repr

structure Inst where
  alive : Bool
  heap : List HeapEntry   -- kept sorted by (executeAt, seq): head = heap minimum
  seq : Nat
  inMem : List MemJob
  tasks : List Task
  poll : Poll
deriving DecidableEq, Repr

inductive Ev where
  | captured (id t inst : Nat)
  | invoked (id t inst : Nat)
  | deleted (id t inst : Nat)
deriving DecidableEq, Repr

structure State where
  clock : Nat
  rows : List Row
  insts : List Inst
  trace : List Ev         -- newest first
deriving DecidableEq, Repr

inductive Step where
  | schedule (i runAfter key tx : Nat)
  | scheduleBad (i : Nat)
  | commit (tx : Nat)
  | rollback (tx : Nat)
  | tick (n : Nat)
  | pop (i : Nat)
  | task (i j : Nat)
  | pollSelect (i : Nat)
  | pollCapture (i : Nat)
  | pollNext (i : Nat)
  | crash (i : Nat)
deriving DecidableEq, Repr

def freshInst : Inst := { alive := true, heap := [], seq := 0, inMem := [], tasks := [], poll := .idle }

def init (n : Nat) : State :=
  { clock := 0, rows := [], insts := List.replicate n freshInst, trace := [] }

/-- comparison operators read from the code by the translator (Gen/SchedDefaults) -/
inductive Cmp where
  | lt | le | gt | ge | eq
deriving DecidableEq, Repr

def Cmp.eval : Cmp → Nat → Nat → Bool
  | .lt, a, b => decide (a < b)
  | .le, a, b => decide (a ≤ b)
  | .gt, a, b => decide (a > b)
  | .ge, a, b => decide (a ≥ b)
  | .eq, a, b => decide (a = b)

/-! ### store operations -/

/-- `update_scheduled_job(id, {captured_at: now}, query_filter={captured_at: expected})`:
    compare-and-swap on a row visible to the caller. -/
def cas (rows : List Row) (id : Nat) (expected : Option Nat) (now : Nat) : Option (List Row) :=
  match rows[id]? with
  | some r =>
    if r.vis = .committed ∧ r.capturedAt = expected then
      some (rows.set id { r with capturedAt := some now })
    else none
  | none => none

/-- `delete_scheduled_job(id)`: `none` = DBEntityNotFoundError -/
def del (rows : List Row) (id : Nat) : Option (List Row) :=
  match rows[id]? with
  | some r => if r.vis = .committed then some (rows.set id { r with vis := .deleted }) else none
  | none => none

def endTx (tx : Nat) (outcome : Vis) (rows : List Row) : List Row :=
  rows.map fun r => if r.vis = .uncommitted tx then { r with vis := outcome } else r

/-- WHERE clause of `get_scheduled_jobs_to_start` -/
def eligible (cfg : Cfg) (clock : Nat) (r : Row) : Bool :=
  decide (r.vis = .committed) && decide (r.executeAt + cfg.pickup < clock) &&
    (match r.capturedAt with
     | none => true
     | some c => decide (c + cfg.timeout ≤ clock))

/-- stable insertion by execute_at (ORDER BY execute_at; ties in row order) -/
def insertCand (c : Nat × Nat × Option Nat) : List (Nat × Nat × Option Nat) → List (Nat × Nat × Option Nat)
  | [] => [c]
  | h :: t => if c.1 < h.1 then c :: h :: t else h :: insertCand c t

def sortCands (l : List (Nat × Nat × Option Nat)) : List (Nat × Nat × Option Nat) :=
  l.foldr (fun c acc => insertCand c acc) []

def eligibleRows (cfg : Cfg) (clock : Nat) (rows : List Row) : List (Nat × Nat × Option Nat) :=
  rows.zipIdx.filterMap fun (r, j) =>
    if eligible cfg clock r then some (r.executeAt, j, r.capturedAt) else none

def selectCands (cfg : Cfg) (clock : Nat) (rows : List Row) : List (Nat × Option Nat) :=
  let sorted := sortCands (eligibleRows cfg clock rows)
  let lim := match cfg.batch with
    | none => sorted
    | some b => sorted.take b
  lim.map fun c => (c.2.1, c.2.2)

/-- the capture loop of the poll transaction: returns the new rows and the captured ids in order -/
def captureAll (now : Nat) : List (Nat × Option Nat) → List Row → List Row × List Nat
  | [], rows => (rows, [])
  | (j, seen) :: cs, rows =>
    match cas rows j seen now with
    | some rows' => ((captureAll now cs rows').1, j :: (captureAll now cs rows').2)
    | none => captureAll now cs rows

/-! ### heap -/

def heapLt (a b : HeapEntry) : Bool :=
  decide (a.executeAt < b.executeAt) || (decide (a.executeAt = b.executeAt) && decide (a.seq < b.seq))

def heapInsert (e : HeapEntry) : List HeapEntry → List HeapEntry
  | [] => [e]
  | h :: t => if heapLt e h then e :: h :: t else h :: heapInsert e t

/-! ### instance helpers -/

def setInst (s : State) (i : Nat) (inst : Inst) : State :=
  { s with insts := s.insts.set i inst }

/-- run `f` for the live instance `i`; steps of a dead / unknown instance do nothing -/
def onInst (s : State) (i : Nat) (f : Inst → State) : State :=
  match s.insts[i]? with
  | some inst => if inst.alive then f inst else s
  | none => s

def forget (j : Nat) (l : List MemJob) : List MemJob := l.filter fun m => m.id != j

def markCaptured (j now : Nat) (l : List MemJob) : List MemJob :=
  l.map fun m => if m.id = j then { m with capturedAt := some now } else m

/-- the finished `_process_memory_job(j)` call disappears (the first task of that id) -/
def dropTask (j : Nat) : List Task → List Task
  | [] => []
  | t :: ts => if t.id = j then ts else t :: dropTask j ts

/-- the running `_process_memory_job(j)` call (the first task of that id) reaches stage `st` -/
def setStage (j : Nat) (st : Stage) : List Task → List Task
  | [] => []
  | t :: ts => if t.id = j then { t with stage := st } :: ts else t :: setStage j st ts

/-! ### steps -/

def stepSchedule (s : State) (i ra key tx : Nat) : State :=
  onInst s i fun inst =>
    let id := s.rows.length
    let ea := s.clock + ra
    { s with
      rows := s.rows ++ [{ executeAt := ea, capturedAt := none, key := key, vis := .uncommitted tx }]
      insts := s.insts.set i { inst with
        seq := inst.seq + 1
        heap := heapInsert { executeAt := ea, seq := inst.seq + 1, id := id } inst.heap
        inMem := inst.inMem ++ [{ id := id, capturedAt := none, key := key }] } }

/-- one `_dispatcher` iteration: pop the heap head when `execute_at - now <= 0`.  The popped
    object's `captured_at` is still None (nothing writes it before the capture), so the CAS of
    the task will expect NULL. -/
def stepPop (s : State) (i : Nat) : State :=
  onInst s i fun inst =>
    match inst.heap with
    | h :: rest =>
      if h.executeAt ≤ s.clock then
        setInst s i { inst with heap := rest, tasks := inst.tasks ++ [{ id := h.id, stage := .popped }] }
      else s
    | [] => s

def stepTask (cfg : Cfg) (s : State) (i j : Nat) : State :=
  onInst s i fun inst =>
    match inst.tasks.find? (fun t => t.id == j) with
    | some t =>
      match t.stage with
      | .popped =>
        match cas s.rows j none s.clock with
        | some rows' =>
          { s with
            rows := rows'
            trace := .captured j s.clock i :: s.trace
            insts := s.insts.set i { inst with
              tasks := setStage j .captured inst.tasks
              inMem := markCaptured j s.clock inst.inMem } }
        | none =>
          setInst s i { inst with tasks := dropTask j inst.tasks, inMem := forget j inst.inMem }
      | .captured =>
        -- `_prepare_and_invoke_job`: a job that cannot be prepared is logged and not invoked;
        -- either way the call returns and the delete follows
        if cfg.bad.contains j then
          setInst s i { inst with tasks := setStage j .invoked inst.tasks }
        else
        { s with
          trace := .invoked j s.clock i :: s.trace
          insts := s.insts.set i { inst with tasks := setStage j .invoked inst.tasks } }
      | .invoked =>
        match del s.rows j with
        | some rows' =>
          { s with
            rows := rows'
            trace := .deleted j s.clock i :: s.trace
            insts := s.insts.set i { inst with tasks := dropTask j inst.tasks, inMem := forget j inst.inMem } }
        | none =>
          setInst s i { inst with tasks := dropTask j inst.tasks, inMem := forget j inst.inMem }
    | none => s

def stepPollSelect (cfg : Cfg) (s : State) (i : Nat) : State :=
  onInst s i fun inst =>
    match inst.poll with
    | .idle => setInst s i { inst with poll := .selected (selectCands cfg s.clock s.rows) }
    | _ => s

def stepPollCapture (s : State) (i : Nat) : State :=
  onInst s i fun inst =>
    match inst.poll with
    | .selected cands =>
      { s with
        rows := (captureAll s.clock cands s.rows).1
        trace := ((captureAll s.clock cands s.rows).2.map fun j => Ev.captured j s.clock i).reverse ++ s.trace
        insts := s.insts.set i { inst with
          poll := if (captureAll s.clock cands s.rows).2 = [] then .idle
                  else .running (captureAll s.clock cands s.rows).2 false } }
    | _ => s

def stepPollNext (cfg : Cfg) (s : State) (i : Nat) : State :=
  onInst s i fun inst =>
    match inst.poll with
    | .running (j :: q) false =>
      if cfg.bad.contains j then
        setInst s i { inst with poll := .running (j :: q) true }
      else
      { s with
        trace := .invoked j s.clock i :: s.trace
        insts := s.insts.set i { inst with poll := .running (j :: q) true } }
    | .running (j :: q) true =>
      match del s.rows j with
      | some rows' =>
        { s with
          rows := rows'
          trace := .deleted j s.clock i :: s.trace
          insts := s.insts.set i { inst with poll := if q = [] then .idle else .running q false } }
      | none => setInst s i { inst with poll := .idle }
    | _ => s

def stepCrash (s : State) (i : Nat) : State :=
  match s.insts[i]? with
  | some inst =>
    setInst s i { inst with alive := false, heap := [], inMem := [], tasks := [], poll := .idle }
  | none => s

def step (cfg : Cfg) (s : State) : Step → State
  | .schedule i ra key tx => stepSchedule s i ra key tx
  | .scheduleBad _ => s
  | .commit tx => { s with rows := endTx tx .committed s.rows }
  | .rollback tx => { s with rows := endTx tx .rolledBack s.rows }
  | .tick n => { s with clock := s.clock + n }
  | .pop i => stepPop s i
  | .task i j => stepTask cfg s i j
  | .pollSelect i => stepPollSelect cfg s i
  | .pollCapture i => stepPollCapture s i
  | .pollNext i => stepPollNext cfg s i
  | .crash i => stepCrash s i

def run (cfg : Cfg) (s : State) : List Step → State
  | [] => s
  | e :: es => run cfg (step cfg s e) es

/-! ### has_scheduled_jobs -/

def keyMatch (key : Option Nat) (k : Nat) : Bool :=
  match key with
  | none => true
  | some x => x == k

/-- the in-memory loop of `has_scheduled_jobs`: skip when the key differs, skip when
    `filters['processing'] is (j.captured_at is None)` -/
def memMatch (key : Option Nat) (proc : Option Bool) (m : MemJob) : Bool :=
  keyMatch key m.key &&
    (match proc with
     | none => true
     | some p => p != m.capturedAt.isNone)

/-- `get_scheduled_jobs_count(key=…, captured_at={'eq'|'neq': None})` over visible rows -/
def rowMatch (key : Option Nat) (proc : Option Bool) (r : Row) : Bool :=
  decide (r.vis = .committed) && keyMatch key r.key &&
    (match proc with
     | none => true
     | some true => r.capturedAt.isSome
     | some false => r.capturedAt.isNone)

def hasJobs (s : State) (i : Nat) (key : Option Nat) (proc : Option Bool) : Bool :=
  (match s.insts[i]? with
   | some inst => inst.inMem.any (memMatch key proc)
   | none => false) || s.rows.any (rowMatch key proc)

/-- what the property asks `has_scheduled_jobs(key=k, processing=False)` to be: there is a
    job with that key in the store that is not yet being processed -/
def pendingTruth (s : State) (k : Nat) : Bool :=
  s.rows.any fun r => decide (r.vis = .committed) && (r.key == k) && r.capturedAt.isNone

/-! ### trace queries -/

def isInvoke (j : Nat) : Ev → Bool
  | .invoked id _ _ => id == j
  | _ => false

def isCapture (j : Nat) : Ev → Bool
  | .captured id _ _ => id == j
  | _ => false

def invokeCount (s : State) (j : Nat) : Nat := (s.trace.filter (isInvoke j)).length
def captureCount (s : State) (j : Nat) : Nat := (s.trace.filter (isCapture j)).length

/-- "the scheduler that picked it up finishes it within the capture timeout": every capture
    whose timeout has expired on the clock was followed by the capturer's delete strictly
    before the expiry.  A decidable predicate on the (state reached by the) schedule. -/
def timelyB (cfg : Cfg) (s : State) : Bool :=
  s.trace.all fun e =>
    match e with
    | .captured j t i =>
      decide (s.clock < t + cfg.timeout) ||
        s.trace.any fun d =>
          match d with
          | .deleted j' td i' => decide (j' = j) && decide (i' = i) && decide (td < t + cfg.timeout)
          | _ => false
    | _ => true

end Mistral.Sched
