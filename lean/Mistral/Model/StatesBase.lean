/- L0: the state names of mistral/workflow/states.py.  The *tables* over them
   (valid transitions, completed/running/terminal sets) are regenerated from the
   source into Mistral/Gen/States.lean on every run (Tie A). -/
namespace Mistral

inductive St where
  | IDLE | WAITING | RUNNING | DELAYED | PAUSED | SUCCESS | CANCELLED | ERROR | SKIPPED
  deriving Repr, DecidableEq, Inhabited

def St.toString : St → String
  | .IDLE => "IDLE" | .WAITING => "WAITING" | .RUNNING => "RUNNING" | .DELAYED => "DELAYED"
  | .PAUSED => "PAUSED" | .SUCCESS => "SUCCESS" | .CANCELLED => "CANCELLED" | .ERROR => "ERROR"
  | .SKIPPED => "SKIPPED"

def St.ofString? : String → Option St
  | "IDLE" => some .IDLE | "WAITING" => some .WAITING | "RUNNING" => some .RUNNING
  | "DELAYED" => some .DELAYED | "PAUSED" => some .PAUSED | "SUCCESS" => some .SUCCESS
  | "CANCELLED" => some .CANCELLED | "ERROR" => some .ERROR | "SKIPPED" => some .SKIPPED
  | _ => none

def St.all : List St :=
  [.IDLE, .WAITING, .RUNNING, .DELAYED, .PAUSED, .SUCCESS, .CANCELLED, .ERROR, .SKIPPED]

end Mistral
