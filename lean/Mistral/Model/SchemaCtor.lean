/- C14, constructor level: what `__init__` + `validate_schema` (the part after the JSON schema) +
   `validate_semantics` of the specification classes of mistral/lang/v2 do with a value, as total Lean
   functions over `JVal` (Model/Schema.lean) and the GENERATED schemas (Gen/LangSchemas.lean).

   Every projection the python performs is written with the exception it can raise:
     data['k']            -> `getItem`   (KeyError)
     data.get / .items()  -> `asDict`    (AttributeError on a non-dict)
     len(x)               -> `pyLen`     (TypeError)
     for x in v           -> `pyIter`    (TypeError on a non-iterable)
     ' ' in cmd_str, re   -> `parseCmd`  (TypeError on a non-string)
     task['type'] = …     -> item assignment on a non-dict (TypeError)
     list(d.items())[0]   -> IndexError on an empty dict
   These are `Res.stuck` (an exception that is NOT a definition error: HTTP 500); what the code raises
   itself (InvalidModelException, DSLParsingException, grammar errors of expressions) is
   `Res.defErr`.  The model may call a projection `stuck` more often than python would (e.g. `' ' in
   [..]` works on a list): the theorems (Props/C14Ctor.lean) show that no `stuck` is reachable at all.

   Not modelled, given as an ORACLE (the theorems hold for every oracle): the regular expressions
   CMD_PTRN / PARAMS_PTRN / WITH_ITEMS_PTRN with `json.loads` (`Oracle.cmd`, `Oracle.withItems`), the
   expression grammars (`Oracle.exprOk`), `is_uuid_like`.  Graph semantics of a workflow
   (`validate_semantics` of Direct/ReverseWorkflowSpec beyond the name check) is Model/Lang.lean. -/
import Mistral.Gen.LangSchemas
open Mistral.Schema Mistral.Gen.LangSchemas
namespace Mistral.SchemaCtor

inductive Res (α : Type) where
  | ok (a : α)
  | defErr (why : String)     -- a definition error (HTTP 400 class)
  | stuck (why : String)      -- KeyError / TypeError / AttributeError / IndexError: an internal error
deriving Repr

namespace Res
def bind {α β : Type} (r : Res α) (f : α → Res β) : Res β :=
  match r with
  | .ok a => f a
  | .defErr w => .defErr w
  | .stuck w => .stuck w
instance : Monad Res where
  pure := .ok
  bind := Res.bind
/-- not an internal error. -/
def fine {α : Type} : Res α → Bool
  | .stuck _ => false
  | _ => true
end Res

def mapRes {α β : Type} (f : α → Res β) : List α → Res (List β)
  | [] => .ok []
  | x :: xs => (f x).bind (fun y => (mapRes f xs).bind (fun ys => .ok (y :: ys)))

structure Oracle where
  /-- `_parse_cmd_and_input` on a string containing a blank: (command, inline parameters); `none` =
      InvalidModelException (CMD_PTRN does not match). -/
  cmd : String → Option (String × List (Key × JVal))
  /-- one `with-items` entry: WITH_ITEMS_PTRN, validation of the expression, `json.loads` of a literal
      list: (variable, array); `none` = one of the three definition errors. -/
  withItems : String → Option (String × JVal)
  /-- `expr.validate(s)` raises no grammar error -/
  exprOk : String → Bool
  uuidLike : JVal → Bool

/-! ## python primitives -/

def truthy : JVal → Bool
  | .null => false
  | .bool b => b
  | .int i => i != 0
  | .flt (.fin n _) => n != 0
  | .flt _ => true
  | .str s => s.length != 0
  | .arr xs => !xs.isEmpty
  | .obj kvs => !kvs.isEmpty
  | .other _ => true

def getD (kvs : List (Key × JVal)) (k : String) (d : JVal) : JVal := (lookup k kvs).getD d

def getItem (kvs : List (Key × JVal)) (k : String) : Res JVal :=
  match lookup k kvs with
  | some v => .ok v
  | none => .stuck ("KeyError: " ++ k)

def asDict (what : String) : JVal → Res (List (Key × JVal))
  | .obj kvs => .ok kvs
  | _ => .stuck ("AttributeError: " ++ what)

def pyLen : JVal → Res Nat
  | .str s => .ok s.length
  | .arr xs => .ok xs.length
  | .obj kvs => .ok kvs.length
  | _ => .stuck "TypeError: len()"

def keyVal : Key → JVal
  | .s k => .str k
  | .ns r => .other r

def pyIter : JVal → Res (List JVal)
  | .arr xs => .ok xs
  | .obj kvs => .ok (kvs.map (fun kv => keyVal kv.1))
  | .str s => .ok (s.toList.map (fun c => JVal.str c.toString))
  | _ => .stuck "TypeError: not iterable"

/-- python `d[k] = v` -/
def setKey (k : Key) (v : JVal) : List (Key × JVal) → List (Key × JVal)
  | [] => [(k, v)]
  | (k', v') :: r => if k' = k then (k, v) :: r else (k', v') :: setKey k v r

/-- `BaseSpec._parse_cmd_and_input(cmd_str)` -/
def parseCmd (O : Oracle) : JVal → Res (String × List (Key × JVal))
  | .str s =>
    if s.toList.contains ' ' then
      match O.cmd s with
      | some r => .ok r
      | none => .defErr "Invalid action/workflow task property"
    else .ok (s, [])
  | _ => .stuck "TypeError: cmd_str is not a string"

/-- `BaseSpec.validate_expr(dsl_part)` -/
def exprsOk (O : Oracle) : JVal → Bool
  | .str s => O.exprOk s
  | .arr xs => xs.all (fun x => match x with | .str s => O.exprOk s | _ => true)
  | .obj kvs => kvs.all (fun kv => match kv.2 with | .str s => O.exprOk s | _ => true)
  | _ => true

def checkExpr (O : Oracle) (j : JVal) : Res Unit :=
  if exprsOk O j then .ok () else .defErr "expression grammar"

def guardDef (c : Bool) (why : String) : Res Unit := if c then .ok () else .defErr why

/-- `BaseSpec._group_spec`: `if prop_val: data[prop_name] = prop_val` -/
def groupSpec (kvs : List (Key × JVal)) (names : List String) : List (Key × JVal) :=
  names.filterMap (fun n => match lookup n kvs with
    | some v => if truthy v then some (Key.s n, v) else none
    | none => none)

def policyNames : List String :=
  ["retry", "wait-before", "wait-after", "timeout", "pause-before", "concurrency", "fail-on"]

def obj (fields : List (String × JVal)) : JVal := .obj (fields.map (fun p => (Key.s p.1, p.2)))

/-! ## RetrySpec -/

def retryBody (O : Oracle) (kvs : List (Key × JVal)) : Res JVal :=
  (checkExpr O (getD kvs "count" .null)).bind fun _ =>
  (checkExpr O (getD kvs "delay" .null)).bind fun _ =>
  (checkExpr O (getD kvs "break-on" .null)).bind fun _ =>
  (checkExpr O (getD kvs "continue-on" .null)).bind fun _ =>
  (getItem kvs "delay").bind fun delay =>            -- self._delay = data['delay']
  .ok (obj [("count", getD kvs "count" .null), ("delay", delay), ("break-on", getD kvs "break-on" .null),
            ("continue-on", getD kvs "continue-on" .null)])

/-- `RetrySpec(data, validate=True)`: `_transform_retry_one_line`, schema, expressions, getters. -/
def ctorRetry (O : Oracle) (j : JVal) : Res JVal :=
  (match j with
    | .str _ => (parseCmd O j).bind (fun r => .ok (JVal.obj r.2))
    | _ => .ok j).bind fun data =>
  if accepts RetrySpec data then (asDict "get" data).bind (retryBody O) else .defErr "schema"

/-! ## PoliciesSpec -/

def specProperty (kvs : List (Key × JVal)) (k : String) (ctor : JVal → Res JVal) : Res JVal :=
  match lookup k kvs with
  | none => .ok .null
  | some .null => .ok .null
  | some v => ctor v

def policiesBody (O : Oracle) (kvs : List (Key × JVal)) : Res JVal :=
  (checkExpr O (getD kvs "wait-before" (.int 0))).bind fun _ =>
  (checkExpr O (getD kvs "wait-after" (.int 0))).bind fun _ =>
  (checkExpr O (getD kvs "timeout" (.int 0))).bind fun _ =>
  (checkExpr O (getD kvs "pause-before" (.bool false))).bind fun _ =>
  (checkExpr O (getD kvs "concurrency" (.int 0))).bind fun _ =>
  (checkExpr O (getD kvs "fail-on" (.bool false))).bind fun _ =>
  (specProperty kvs "retry" (ctorRetry O)).bind fun retry =>
  .ok (obj [("retry", retry), ("wait-before", getD kvs "wait-before" (.int 0)),
            ("wait-after", getD kvs "wait-after" (.int 0)), ("timeout", getD kvs "timeout" (.int 0)),
            ("pause-before", getD kvs "pause-before" (.bool false)), ("concurrency", getD kvs "concurrency" (.int 0)),
            ("fail-on", getD kvs "fail-on" (.bool false))])

def ctorPolicies (O : Oracle) (j : JVal) : Res JVal :=
  if accepts PoliciesSpec j then (asDict "get" j).bind (policiesBody O) else .defErr "schema"

/-! ## PublishSpec -/

def publishBody (O : Oracle) (kvs : List (Key × JVal)) : Res JVal :=
  let b := getD kvs "branch" .null
  let g := getD kvs "global" .null
  let a := getD kvs "atomic" .null
  (guardDef (truthy b || truthy g || truthy a) "Either 'branch', 'global' or 'atomic' must be specified").bind fun _ =>
  (checkExpr O b).bind fun _ => (checkExpr O g).bind fun _ => (checkExpr O a).bind fun _ =>
  .ok (obj [("branch", b), ("global", g), ("atomic", a)])

def ctorPublish (O : Oracle) (j : JVal) : Res JVal :=
  if accepts PublishSpec j then (asDict "get" j).bind (publishBody O) else .defErr "schema"

/-! ## OnClauseSpec -/

/-- `_as_tuple` -/
def asTuple : JVal → Res (JVal × JVal)
  | .obj [] => .stuck "IndexError: list(val.items())[0]"
  | .obj ((k, c) :: _) => .ok (keyVal k, c)
  | v => .ok (v, .str "")

/-- `_as_list_of_tuples` -/
def asListOfTuples (v : JVal) : Res (List (JVal × JVal)) :=
  if truthy v then
    match v with
    | .str _ => (asTuple v).bind (fun t => .ok [t])
    | .obj _ => (asTuple v).bind (fun t => .ok [t])
    | _ => (pyIter v).bind (mapRes asTuple)
  else .ok []

/-- `prepare_next_clause`: [(task name, guard, inline parameters)] -/
def prepareNext (O : Oracle) (v : JVal) : Res (List JVal) :=
  (asListOfTuples v).bind (mapRes (fun t => (parseCmd O t.1).bind (fun r => .ok (JVal.arr [.str r.1, t.2, .obj r.2]))))

def isAdvanced : JVal → Bool
  | .obj kvs => hasKey "next" kvs || hasKey "publish" kvs
  | _ => false

/-- `OnClauseSpec(data, validate=True)` -> {"publish": …, "next": […]} -/
def ctorOnClause (O : Oracle) (j : JVal) : Res JVal :=
  if accepts OnClauseSpec j then
    if isAdvanced j then
      (asDict "get" j).bind fun kvs =>
      (specProperty kvs "publish" (ctorPublish O)).bind fun pub =>
      (prepareNext O (getD kvs "next" .null)).bind fun nx =>
      .ok (obj [("publish", pub), ("next", .arr nx)])
    else
      (prepareNext O j).bind fun nx => .ok (obj [("publish", .null), ("next", .arr nx)])
  else .defErr "schema"

def clauseNames : List String := ["on-complete", "on-success", "on-error", "on-skip"]

/-- the four on-clauses of a task / of task-defaults, then `_validate_transitions` of each. -/
def onClauses (O : Oracle) (kvs : List (Key × JVal)) : Res (List (Key × JVal)) :=
  (mapRes (fun c => (specProperty kvs c (ctorOnClause O)).bind (fun r => .ok (Key.s c, r))) clauseNames).bind fun cs =>
  -- validate_semantics: `[self.validate_expr(t) for t in val]`, t = (name, guard, params)
  (guardDef (cs.all (fun kc => match kc.2 with
      | .obj fields => match lookup "next" fields with
        | some (.arr ts) => ts.all (fun t => match t with
          | .arr (n :: c :: _) => exprsOk O (.arr [n, c])
          | _ => true)
        | _ => true
      | _ => true)) "expression grammar in a transition").bind fun _ => .ok cs

/-! ## TaskDefaultsSpec -/

def taskDefaultsBody (O : Oracle) (kvs : List (Key × JVal)) : Res JVal :=
  (checkExpr O (getD kvs "safe-rerun" (.obj []))).bind fun _ =>
  (ctorPolicies O (.obj (groupSpec kvs policyNames))).bind fun pol =>
  (onClauses O kvs).bind fun cs =>
  .ok (obj [("policies", pol), ("on", .obj cs), ("safe-rerun", getD kvs "safe-rerun" .null),
            ("requires", getD kvs "requires" (.arr []))])

def ctorTaskDefaults (O : Oracle) (j : JVal) : Res JVal :=
  if accepts TaskDefaultsSpec j then (asDict "get" j).bind (taskDefaultsBody O) else .defErr "schema"

/-! ## TaskSpec, DirectWorkflowTaskSpec, ReverseWorkflowTaskSpec -/

/-- `instantiate_spec` on a hierarchy with `_polymorphic_key = ('type', 'direct')`: true = direct. -/
def polymorphic (kvs : List (Key × JVal)) : Res Bool :=
  match lookup "type" kvs with
  | none => .ok true
  | some (.str t) => if t = "direct" then .ok true else if t = "reverse" then .ok false
                     else .defErr "Failed to find a specification class to instantiate"
  | some _ => .defErr "Failed to find a specification class to instantiate"

/-- `TaskSpec._get_with_items_as_dict` -/
def withItemsOf (O : Oracle) (kvs : List (Key × JVal)) : Res (List (Key × JVal)) :=
  let raw := getD kvs "with-items" (.arr [])
  let raw := match raw with | .str _ => JVal.arr [raw] | r => r
  (pyIter raw).bind (mapRes (fun item => match item with
    | .str s => match O.withItems s with
      | some r => .ok (Key.s r.1, r.2)
      | none => .defErr "Wrong format of 'with-items'"
    | _ => .defErr "'with-items' elements should be strings"))

/-- `merge_dicts(self._input, params)`: inline parameter values are never dicts (PARAMS_PTRN). -/
def mergeParams (input params : List (Key × JVal)) : List (Key × JVal) :=
  params.foldl (fun acc kv => setKey kv.1 kv.2 acc) input

/-- `TaskSpec._process_action_and_workflow` -> (action, workflow, input) -/
def processAW (O : Oracle) (kvs : List (Key × JVal)) : Res (JVal × JVal × JVal) :=
  let action := getD kvs "action" .null
  let workflow := getD kvs "workflow" .null
  let input := getD kvs "input" (.obj [])
  (if truthy action then (parseCmd O action).bind (fun r => .ok (JVal.str r.1, workflow, r.2))
   else if truthy workflow then (parseCmd O workflow).bind (fun r => .ok (action, JVal.str r.1, r.2))
   else .ok (JVal.str "std.noop", workflow, [])).bind fun awp =>
  match input with
  | .obj ikvs => .ok (awp.1, awp.2.1, .obj (mergeParams ikvs awp.2.2))
  | _ => if awp.2.2.isEmpty then .ok (awp.1, awp.2.1, input)
         else .defErr "inline parameters can't be combined with an expression 'input'"

def taskBody (O : Oracle) (direct : Bool) (kvs : List (Key × JVal)) : Res JVal :=
  -- TaskSpec.validate_schema after the schema: _validate_name, expressions
  (pyLen (getD kvs "name" .null)).bind fun n =>
  (guardDef (n ≤ 255) "task name too long").bind fun _ =>
  let action := getD kvs "action" .null
  let workflow := getD kvs "workflow" .null
  (if truthy action || truthy workflow then
     (parseCmd O (if truthy action then action else workflow)).bind (fun r => checkExpr O (.obj r.2))
   else .ok ()).bind fun _ =>
  (checkExpr O (getD kvs "input" (.obj []))).bind fun _ =>
  (checkExpr O (getD kvs "publish" (.obj []))).bind fun _ =>
  (checkExpr O (getD kvs "publish-on-error" (.obj []))).bind fun _ =>
  (checkExpr O (getD kvs "publish-on-skip" (.obj []))).bind fun _ =>
  (checkExpr O (getD kvs "keep-result" (.obj []))).bind fun _ =>
  (checkExpr O (getD kvs "safe-rerun" (.obj []))).bind fun _ =>
  -- TaskSpec.__init__
  (getItem kvs "name").bind fun name =>
  (withItemsOf O kvs).bind fun wi =>
  (ctorPolicies O (.obj (groupSpec kvs policyNames))).bind fun pol =>
  (processAW O kvs).bind fun awi =>
  let common : List (String × JVal) :=
    [("name", name), ("action", if truthy awi.1 then awi.1 else .null), ("workflow", awi.2.1), ("input", awi.2.2),
     ("with-items", .obj wi), ("policies", pol), ("target", getD kvs "target" .null),
     ("keep-result", getD kvs "keep-result" (.bool true)), ("safe-rerun", getD kvs "safe-rerun" .null)]
  if direct then
    -- DirectWorkflowTaskSpec.__init__, validate_semantics
    (onClauses O kvs).bind fun cs =>
    let join := getD kvs "join" .null
    (if truthy join then (pyLen name).bind (fun n => guardDef (n ≤ 208) "join task name too long") else .ok ()).bind fun _ =>
    .ok (obj (common ++ [("join", join), ("on", .obj cs)]))
  else
    .ok (obj (common ++ [("requires", match getD kvs "requires" (.arr []) with | .str s => .arr [.str s] | r => r)]))

/-- `instantiate_spec(TaskSpec, data, validate=True)` -/
def ctorTask (O : Oracle) (j : JVal) : Res JVal :=
  match j with
  | .obj kvs =>
    (polymorphic kvs).bind fun direct =>
    if accepts (if direct then DirectWorkflowTaskSpec else ReverseWorkflowTaskSpec) j then taskBody O direct kvs
    else .defErr "schema"
  | _ => .defErr "A specification with polymorphic key must be backed by a dictionary"

/-! ## WorkflowSpec (Direct / Reverse), without the graph semantics -/

/-- `utils.get_dict_from_entries` -/
def dictFromEntries (v : JVal) : Res (List (Key × JVal)) :=
  (pyIter v).bind fun es =>
  (mapRes (fun e => match e with
    | .obj kvs => .ok kvs
    | .arr _ => .stuck "TypeError: unhashable type: 'list'"
    | .str s => .ok [(Key.s s, JVal.other "NotDefined")]
    | x => .ok [(Key.ns "scalar", x)]) es).bind fun ds => .ok ds.flatten

/-- `for task in self._data.get('tasks').values(): task['type'] = self._type`, then `TaskSpecList`:
    name / version injection and `instantiate_spec(TaskSpec, …)` for every member. -/
def tasksOf (O : Oracle) (typ : JVal) (tasks : JVal) : Res (List (Key × JVal)) :=
  (asDict "values" tasks).bind fun tkvs =>
  (mapRes (fun kv => match kv.2 with
    | .obj t => .ok (kv.1, JVal.obj (setKey (.s "type") typ t))
    | _ => .stuck "TypeError: object does not support item assignment") tkvs).bind fun typed =>
  mapRes (fun kv => match kv.2 with
    | .obj t => (ctorTask O (.obj (setKey (.s "version") (.str "2.0") (setKey (.s "name") (keyVal kv.1) t)))).bind
        (fun r => .ok (kv.1, r))
    | v => (ctorTask O v).bind (fun r => .ok (kv.1, r))) (specListMembers typed)

def workflowBody (O : Oracle) (kvs : List (Key × JVal)) : Res JVal :=
  -- WorkflowSpec.validate_schema after the schema
  (guardDef (truthy (getD kvs "tasks" .null)) "Workflow doesn't have any tasks").bind fun _ =>
  (guardDef (match getD kvs "tasks" .null with | .obj tkvs => tasksNameCheck tkvs | _ => true)
    "A task can't be named 'version'").bind fun _ =>
  (checkExpr O (getD kvs "output" (.obj []))).bind fun _ =>
  (checkExpr O (getD kvs "vars" (.obj []))).bind fun _ =>
  -- WorkflowSpec.__init__
  (getItem kvs "name").bind fun name =>
  let typ := getD kvs "type" (.str "direct")
  (dictFromEntries (getD kvs "input" (.arr []))).bind fun input =>
  (specProperty kvs "task-defaults" (ctorTaskDefaults O)).bind fun td =>
  (tasksOf O typ (getD kvs "tasks" .null)).bind fun tasks =>
  -- WorkflowSpec.validate_semantics (the graph checks of the subclasses: Model/Lang.lean)
  (guardDef (!O.uuidLike name) "Workflow name cannot be in the format of UUID").bind fun _ =>
  .ok (obj [("name", name), ("type", typ), ("input", .obj input), ("task-defaults", td), ("tasks", .obj tasks)])

/-- `instantiate_spec(WorkflowSpec, data, validate=True)` up to the graph checks. -/
def ctorWorkflow (O : Oracle) (j : JVal) : Res JVal :=
  match j with
  | .obj kvs =>
    (polymorphic kvs).bind fun direct =>
    if accepts (if direct then DirectWorkflowSpec else ReverseWorkflowSpec) j then workflowBody O kvs
    else .defErr "schema"
  | _ => .defErr "A specification with polymorphic key must be backed by a dictionary"

/-- `WorkflowListSpec(data, validate=True)` (`BaseListSpec`): schema, the explicit checks, then
    `v['name'] = k`, `_inject_version([k])`, `instantiate_spec(WorkflowSpec, v)` for every member. -/
def ctorWorkflowList (O : Oracle) (j : JVal) : Res JVal :=
  if accepts WorkflowListSpec j then
    (asDict "keys" j).bind fun kvs =>
    (guardDef (kvs.all (fun kv => match kv.1 with | .s _ => true | .ns _ => false)) "Name must be a string").bind fun _ =>
    (guardDef (2 ≤ kvs.length) "At least one item must be in the list").bind fun _ =>
    (mapRes (fun kv => match kv.2 with
      | .obj m => (ctorWorkflow O (.obj (setKey (.s "version") (.str "2.0") (setKey (.s "name") (keyVal kv.1) m)))).bind
          (fun r => .ok (kv.1, r))
      | _ => .stuck "TypeError: object does not support item assignment") (listSpecMembers kvs)).bind fun ws =>
    .ok (.obj ws)
  else .defErr "schema"

/-! ## ActionSpec, ActionListSpec (ad-hoc actions) -/

def actionBody (O : Oracle) (kvs : List (Key × JVal)) : Res JVal :=
  -- ActionSpec.validate_schema after the schema
  (parseCmd O (getD kvs "base" .null)).bind fun r0 =>
  (checkExpr O (.obj r0.2)).bind fun _ =>
  (checkExpr O (getD kvs "base-input" (.obj []))).bind fun _ =>
  (match getD kvs "output" .null with
    | .str s => checkExpr O (.str s)
    | _ => Res.ok ()).bind fun _ =>
  -- ActionSpec.__init__
  (getItem kvs "name").bind fun name =>
  (getItem kvs "base").bind fun base =>
  (dictFromEntries (getD kvs "input" (.arr []))).bind fun input =>
  (parseCmd O base).bind fun r =>
  (match getD kvs "base-input" (.obj []) with
    | .obj bi => Res.ok (JVal.obj (mergeParams bi r.2))
    | other => if r.2.isEmpty then Res.ok other else Res.stuck "TypeError: merge_dicts on a non-dict").bind fun bi =>
  .ok (obj [("name", name), ("base", .str r.1), ("base-input", bi), ("input", .obj input),
            ("output", getD kvs "output" .null)])

/-- `instantiate_spec(ActionSpec, data, validate=True)` (no polymorphic key) -/
def ctorAction (O : Oracle) (j : JVal) : Res JVal :=
  if accepts ActionSpec j then (asDict "get" j).bind (actionBody O) else .defErr "schema"

/-- `ActionListSpec(data, validate=True)` (`BaseListSpec`) -/
def ctorActionList (O : Oracle) (j : JVal) : Res JVal :=
  if accepts ActionListSpec j then
    (asDict "keys" j).bind fun kvs =>
    (guardDef (kvs.all (fun kv => match kv.1 with | .s _ => true | .ns _ => false)) "Name must be a string").bind fun _ =>
    (guardDef (2 ≤ kvs.length) "At least one item must be in the list").bind fun _ =>
    (mapRes (fun kv => match kv.2 with
      | .obj m => (ctorAction O (.obj (setKey (.s "version") (.str "2.0") (setKey (.s "name") (keyVal kv.1) m)))).bind
          (fun r => .ok (kv.1, r))
      | _ => .stuck "TypeError: object does not support item assignment") (listSpecMembers kvs)).bind fun as =>
    .ok (.obj as)
  else .defErr "schema"

/-! ## WorkbookSpec -/

/-- `BaseSpec._inject_version([k])`: `if isinstance(prop_data, dict): prop_data['version'] = '2.0'` -/
def injectVersion (v : JVal) : JVal :=
  match v with
  | .obj m => .obj (setKey (.s "version") (.str "2.0") m)
  | other => other

/-- `_spec_property(section, ActionSpecList / WorkflowSpecList)`: `BaseSpecList.__init__` -/
def specList (ctor : JVal → Res JVal) (sect : JVal) : Res JVal :=
  (asDict "items" sect).bind fun skvs =>
  (mapRes (fun kv => match kv.2 with
    | .obj m => (ctor (.obj (setKey (.s "version") (.str "2.0") (setKey (.s "name") (keyVal kv.1) m)))).bind
        (fun r => .ok (kv.1, r))
    | v => (ctor v).bind (fun r => .ok (kv.1, r))) (specListMembers skvs)).bind fun ms => .ok (.obj ms)

def workbookBody (O : Oracle) (kvs : List (Key × JVal)) : Res JVal :=
  let actions := (lookup "actions" kvs).map injectVersion
  let workflows := (lookup "workflows" kvs).map injectVersion
  (getItem kvs "name").bind fun name =>
  (match actions with
    | none => Res.ok JVal.null
    | some .null => Res.ok JVal.null
    | some v => specList (ctorAction O) v).bind fun acts =>
  (match workflows with
    | none => Res.ok JVal.null
    | some .null => Res.ok JVal.null
    | some v => specList (ctorWorkflow O) v).bind fun wfs =>
  .ok (obj [("name", name), ("actions", acts), ("workflows", wfs)])

/-- `instantiate_spec(WorkbookSpec, data, validate=True)` (workflows up to their graph checks) -/
def ctorWorkbook (O : Oracle) (j : JVal) : Res JVal :=
  if accepts WorkbookSpec j then (asDict "get" j).bind (workbookBody O) else .defErr "schema"

end Mistral.SchemaCtor
