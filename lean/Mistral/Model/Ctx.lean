/-
L2: data-flow contexts with per-variable versions
(mistral/workflow/context_versioning.py, data_flow.evaluate_task_outbound_context,
 data_flow.evaluate_upstream_context, ContextView lookup).
Version keys are dotted leaf paths (md5 hashing of the key, when enabled, is modelled as
the identity: collision-freeness is in the trusted base).
-/
import Mistral.Model.Val
namespace Mistral.Ctx
open Mistral

abbrev Vers := List (String × Nat)

def ver (vs : Vers) (k : String) : Nat := (Dict.get? vs k).getD 0

/-- `_version_key_part`: a '.' (and the escape character) inside a name is escaped, so that it does not read
    as the separator of two parts of a path -/
def escChar (c : Char) : List Char :=
  if c = '\\' then ['\\', '\\'] else if c = '.' then ['\\', '.'] else [c]

def esc (k : String) : String := String.ofList (k.toList.flatMap escChar)

def path (pre : Option String) (k : String) : String :=
  match pre with
  | none => esc k
  | some p => p ++ "." ++ esc k

mutual
/-- `_get_published_keys_recursively`: leaf paths of a published dict. -/
def leafKeysKv (pre : Option String) : List (String × Val) → List String
  | [] => []
  | (k, v) :: rest => leafKeysVal (path pre k) v ++ leafKeysKv pre rest
def leafKeysVal (p : String) : Val → List String
  | .obj kv => leafKeysKv (some p) kv
  | _ => [p]
end

/-- bump the version of every updated leaf key by one (`setdefault(k, 0); += 1`) -/
def bump (vs : Vers) (keys : List String) : Vers :=
  keys.foldl (fun acc k => Dict.set acc k (ver acc k + 1)) vs

/-- A context: data plus the `__versions` map. -/
structure Ctx where
  data : Dict
  vers : Vers
  deriving Repr

/-- `evaluate_task_outbound_context` (merge strategy `replace`): copy of the inbound context
    with the versions of the published leaf keys bumped, updated with `published`. -/
def outbound (inCtx : Ctx) (published : Dict) : Ctx :=
  { data := Dict.update inCtx.data published,
    vers := bump inCtx.vers (leafKeysKv none published) }

mutual
/-- `_merge_ctx`: the right value wins only with a strictly higher version; two dicts are
    merged key by key. -/
def mergeKv (lv rv : Vers) (pre : Option String) (left : List (String × Val)) :
    List (String × Val) → List (String × Val)
  | [] => left
  | (k, v) :: rest =>
    let left' := match Dict.get? left k with
      | none => left ++ [(k, v)]
      | some lval => Dict.set left k (mergeVal lv rv (path pre k) lval v)
    mergeKv lv rv pre left' rest
def mergeVal (lv rv : Vers) (p : String) (lval : Val) : Val → Val
  | .obj rkv =>
    match lval with
    | .obj lkv => .obj (mergeKv lv rv (some p) lkv rkv)
    | _ => if ver rv p > ver lv p then .obj rkv else lval
  | v => if ver rv p > ver lv p then v else lval
end

/-- `_merge_versions`: pointwise maximum. -/
def mergeVers (l r : Vers) : Vers :=
  r.foldl (fun acc (k, n) => Dict.set acc k (max (ver acc k) n)) l

def stripInternal (d : Dict) : Dict := Dict.erase d "__task_execution"

/-- `merge_context_by_version` -/
def mergeByVersion (l r : Ctx) : Ctx :=
  { data := mergeKv l.vers r.vers none (stripInternal l.data) (stripInternal r.data),
    vers := mergeVers l.vers r.vers }

/-- `evaluate_upstream_context`: pop the LAST outbound context, then fold the others into it
    in list order. -/
def upstream (outs : List Ctx) : Ctx :=
  match outs.getLast? with
  | none => { data := [], vers := [] }
  | some last => outs.dropLast.foldl mergeByVersion last

/-- `evaluate_upstream_context(batch, additive_context=ctx)` as used for the workflow's
    final context: a non-empty accumulated context is the left operand. -/
def upstreamAdditive (acc : Option Ctx) (outs : List Ctx) : Ctx :=
  if outs.isEmpty then { data := [], vers := [] } else
  match acc with
  | some c => outs.foldl mergeByVersion c
  | none => upstream outs

/-- ContextView lookup: first dictionary (in priority order) that has the key. -/
def viewLookup (layers : List Dict) (k : String) : Option Val :=
  match layers with
  | [] => none
  | d :: rest => match Dict.get? d k with
    | some v => some v
    | none => viewLookup rest k

end Mistral.Ctx
