/-
L5: the engine core as a transition system over committed rows and pending deliveries.

One `Event` = one committed transaction of one entry point / one post-commit operation / one
scheduler job / one operator command (the atomicity the code has inside one process: every
transaction holds `tx_lock`).  Modelled handlers (mistral/engine):
  default_engine.start_workflow / start_task / on_action_complete / pause / resume / stop,
  task_handler.run_task, _on_action_complete, _check_affected_tasks, _refresh_task_state,
  continue_task, complete_task, _schedule_refresh_task_state_if_needed,
  tasks.Task.complete / defer / RegularTask._run_new,
  dispatcher.dispatch_workflow_commands / backlog,
  workflows.Workflow.resume / _continue_workflow / check_and_complete / stop,
  workflow_handler.check_and_complete,
  direct_workflow: _find_next_commands, find_indirectly_affected_task_executions,
                   join logic (Mistral.Join).
Data flow, expressions, policies, with-items and sub-workflows are outside this layer: routing
decisions (which on-clause targets fire after guard evaluation) are part of the `Spec`, action
results are part of the event.
-/
import Mistral.Model.Join
import Mistral.Model.Lifecycle
namespace Mistral.Engine
open Mistral Mistral.Join

/-- which targets fire for a completed task (guards already evaluated) -/
structure Live where
  name : String
  onSuccess : List String
  onError : List String
  onComplete : List String
  deriving Repr

/-- an on-clause entry with the (statically known) value of its guard -/
structure RouteF where
  target : String
  fires : Bool
  deriving Repr

structure TaskF where
  name : String
  onSuccess : List RouteF
  onError : List RouteF
  onComplete : List RouteF
  deriving Repr

/-- `get_on_X_clause` followed by guard evaluation: the task's own clause if it has one
    (even if no guard fires), else the task-defaults clause without the task itself. -/
def liveClause (own : List RouteF) (dflt : Option (List RouteF)) (tname : String) : List String :=
  let cl := if !own.isEmpty then own else match dflt with
    | some d => d.filter (·.target != tname)
    | none => []
  (cl.filter (·.fires)).map (·.target)

def liveFrom (tasks : List TaskF) (defaults : Option TaskF) : List Live :=
  tasks.map fun t =>
    { name := t.name,
      onSuccess := liveClause t.onSuccess (defaults.map (·.onSuccess)) t.name,
      onError := liveClause t.onError (defaults.map (·.onError)) t.name,
      onComplete := liveClause t.onComplete (defaults.map (·.onComplete)) t.name }

structure Spec where
  graph : Graph            -- all transitions, as the validator / join logic see them
  live : List Live         -- transitions that fire (subset of the graph's, in clause order)
  deriving Repr

/-- a task execution is identified by its name and the number of earlier executions of the
    same task (a task can be activated more than once) -/
abbrev Tid := String × Nat

structure TaskRow where
  name : String
  occ : Nat
  state : St
  processed : Bool
  nextTasks : List (String × String)
  hasNext : Bool
  errorHandled : Bool
  trig : List (Tid × String)      -- runtime_context.triggered_by: (task execution, event)
  keyed : Bool := true            -- has its unique key (false: a join created from a command restored from the
                                  -- backlog, `wait` / `unique_key` are lost: Model/EngineX.lean)
  deriving Repr

/-- a command of the workflow controller: run task `target`, triggered by `src` -/
structure Cmd where
  target : String
  src : Option (Tid × String)
  existing : Option Tid := none     -- RunExistingTask (resume of an IDLE task): Model/EngineX.lean
  deriving Repr

/-- something handed to another thread / process / point in time -/
inductive Item where
  | postStartTask (t : Tid) (firstRun : Bool)   -- post-commit op: send RPC start_task
  | postRunAction (t : Tid)       -- post-commit op: hand the action to an executor
  | postCheck                        -- post-commit op (own tx): workflow completion check
  | postSchedRefresh (t : Tid)    -- post-commit op (own tx): schedule join refresh if needed
  | rpcStartTask (t : Tid) (firstRun : Bool)
  | runAction (t : Tid)           -- at the executor
  | rpcResult (t : Tid) (ok : Bool)
  | jobRefresh (t : Tid)          -- scheduler job _refresh_task_state
  deriving Repr, DecidableEq

structure World where
  wf : St
  tasks : List TaskRow
  pending : List Item
  backlog : List Cmd                -- commands saved while paused
  crashed : Bool                    -- an undeclared error escaped (RecursionError …)
  deriving Repr

inductive Event where
  | start
  | deliver (it : Item)
  | pause
  | resume
  | stop (target : St)
  | execute (t : Tid) (ok : Bool)   -- the executor runs the action of task t and reports
  deriving Repr

def findTask (w : World) (t : Tid) : Option TaskRow :=
  w.tasks.find? fun r => r.name == t.1 && r.occ == t.2

/-- the execution a lookup by name / unique key finds: the latest one -/
def findByName (w : World) (n : String) : Option TaskRow :=
  (w.tasks.filter (·.name == n)).getLast?

def countName (w : World) (n : String) : Nat := (w.tasks.filter (·.name == n)).length

def setTask (ts : List TaskRow) (r : TaskRow) : List TaskRow :=
  ts.map fun t => if t.name == r.name && t.occ == r.occ then r else t

def rowsOf (w : World) : List Row := w.tasks.map fun t => ⟨t.name, t.state, t.nextTasks⟩

def liveOf (sp : Spec) (n : String) : Live :=
  (sp.live.find? (·.name == n)).getD ⟨n, [], [], []⟩

def isJoin (sp : Spec) (n : String) : Option JoinKind :=
  match sp.graph.tasks.find? (·.name == n) with
  | some t => t.join
  | none => none

/-- `_find_next_tasks`: (target, event) list for a completed task -/
def nextOf (sp : Spec) (n : String) (s : St) : List (String × String) :=
  let l := liveOf sp n
  (if s == .ERROR then l.onError.map (·, "on-error") else []) ++
  (if s == .SUCCESS then l.onSuccess.map (·, "on-success") else []) ++
  (if isCompleted s && !(isCancelled s || isSkipped s) then l.onComplete.map (·, "on-complete") else [])

def removeFirst (l : List Item) (it : Item) : List Item :=
  match l with
  | [] => []
  | x :: xs => if x == it then xs else x :: removeFirst xs it

/-- `find_indirectly_affected_task_executions`: joins with a row reachable from `t` through
    outbound transitions; the walk stops at such a join and passes through everything else. -/
def affected (sp : Spec) (w : World) (start : String) : List String :=
  let outs (n : String) : List String :=
    match sp.graph.tasks.find? (·.name == n) with
    | some t => outNames sp.graph t
    | none => []
  let rec go (fuel : Nat) (frontier : List String) (visited : List String) (res : List String) : List String :=
    match fuel with
    | 0 => res
    | fuel + 1 =>
      match frontier with
      | [] => res
      | n :: rest =>
        if visited.contains n then go fuel rest visited res
        else if (sp.graph.tasks.find? (·.name == n)).isNone then go fuel rest (n :: visited) res
        else if (isJoin sp n).isSome && (findByName w n).isSome then
          go fuel rest (n :: visited) (if res.contains n then res else res ++ [n])
        else go fuel (rest ++ outs n) (n :: visited) res
  go ((sp.graph.tasks.length + 1) * (sp.graph.tasks.length + 1) + 8) (outs start) [start] []

/-- dispatcher: create the tasks of the commands (joins through `defer`) and register their
    start; while PAUSED the commands go to the backlog; nothing once the workflow is completed. -/
def newRow (w : World) (c : Cmd) (s : St) : TaskRow :=
  { name := c.target, occ := countName w c.target, state := s, processed := false, nextTasks := [],
    hasNext := false, errorHandled := false, trig := c.src.toList }

/-- one command of the dispatcher -/
def dispatchOne (sp : Spec) (w : World) (c : Cmd) : World :=
  let n := c.target
  if isCompleted w.wf then w
  else if w.wf == .PAUSED then { w with backlog := w.backlog ++ [c] }
  else
    match isJoin sp n with
    | some _ =>
      -- Task.defer: one execution per join (unique key); an existing one is put back to WAITING
      -- and, being re-opened, loses the "processed" flag of its previous completion
      match findByName w n with
      | none =>
        { w with tasks := w.tasks ++ [newRow w c .WAITING],
                 pending := w.pending ++ [Item.postStartTask (n, 0) true] }
      | some r =>
        let w' : World :=
          if r.state != .WAITING then { w with tasks := setTask w.tasks { r with state := .WAITING, processed := false } } else w
        { w' with pending := w'.pending ++ [Item.postStartTask (r.name, r.occ) true] }
    | none =>
      { w with tasks := w.tasks ++ [newRow w c .IDLE],
               pending := w.pending ++ [Item.postStartTask (n, countName w n) true] }

def dispatch (sp : Spec) (w : World) (cmds : List Cmd) : World :=
  cmds.foldl (dispatchOne sp) w

/-- `Workflow.check_and_complete` (verdict without output evaluation) -/
def checkAndComplete (w : World) : World :=
  if isPausedOrCompleted w.wf then w
  else if w.tasks.any (fun t => !isCompleted t.state) then w
  else if w.tasks.any (fun t => t.state == .CANCELLED) then { w with wf := .CANCELLED }
  else if w.tasks.all (fun t => t.state != .ERROR || t.errorHandled) then { w with wf := .SUCCESS }
  else { w with wf := .ERROR }

/-- the task has an action execution that has not completed: the action is registered for an
    executor, at an executor, or its result is on its way -/
def hasLiveAction (w : World) (t : Tid) : Bool :=
  w.pending.any fun i => match i with
    | .postRunAction t' => t' == t
    | .runAction t' => t' == t
    | .rpcResult t' _ => t' == t
    | _ => false

/-- `_check_affected_tasks(task)`: for a completed task of a workflow that is not completed,
    register a refresh (if needed) of every existing join it can indirectly affect -/
def checkAffected (sp : Spec) (w : World) (t : Tid) : World :=
  match findTask w t with
  | none => w
  | some r =>
    if !isCompleted r.state then w
    else if isCompleted w.wf then w
    else { w with pending := w.pending ++ (affected sp w r.name).filterMap fun n =>
            (findByName w n).map fun j => Item.postSchedRefresh (j.name, j.occ) }

/-- `Task.complete(state)` followed by `_check_affected_tasks` -/
def completeTask (sp : Spec) (w : World) (r : TaskRow) (s : St) : World :=
  -- Task.complete ignores a completed task; the caller still runs _check_affected_tasks
  if isCompleted r.state then checkAffected sp w (r.name, r.occ) else
  -- WorkflowController.continue_workflow returns no commands for a completed workflow
  let nt := if isCompleted w.wf then [] else nextOf sp r.name s
  let r1 : TaskRow := { r with state := s, nextTasks := nt, hasNext := !nt.isEmpty,
                                errorHandled := if s == .ERROR then nt.any (·.2 == "on-error") else r.errorHandled }
  let w1 := { w with tasks := setTask w.tasks r1 }
  let w2 :=
    if isPaused w1.wf then w1
    else
      let w1' := { w1 with tasks := setTask w1.tasks { r1 with processed := true } }
      let w1'' := if nt.isEmpty then { w1' with pending := w1'.pending ++ [.postCheck] } else w1'
      dispatch sp w1'' (nt.map fun (n, e) => { target := n, src := some ((r.name, r.occ), e) })
  checkAffected sp w2 (r.name, r.occ)

def fuelFor (_sp : Spec) : Nat := 200

def step (sp : Spec) (w : World) : Event → World
  | .start =>
    if w.wf != .IDLE then w else
    -- Workflow.start: IDLE → RUNNING, start tasks are the tasks without inbound transitions
    let starts := (sp.graph.tasks.filter fun t => (inbound sp.graph t.name).isEmpty).map (·.name)
    dispatch sp { w with wf := .RUNNING } (starts.map fun n => { target := n, src := none })
  | .pause => { w with wf := (Lifecycle.wfApply w.wf .pause).1 }
  | .stop t => { w with wf := (Lifecycle.wfApply w.wf (.stop t)).1 }
  | .resume =>
    if !isPausedOrIdle w.wf then w else
    let w1 := { w with wf := (Lifecycle.wfApply w.wf .resume).1 }
    if isCompleted w1.wf then w1 else
    -- continue_workflow(): IDLE tasks are run again, unprocessed completed tasks are continued
    let idle : List Tid := (w1.tasks.filter fun t => t.state == .IDLE).map fun t => (t.name, t.occ)
    let unproc := w1.tasks.filter fun t => isCompleted t.state && !t.processed
    let cmds : List Cmd := unproc.flatMap fun t =>
      (nextOf sp t.name t.state).map fun (n, e) => { target := n, src := some ((t.name, t.occ), e) }
    -- Workflow._is_consumed_join_trigger: a join that already started upon this very trigger
    -- (while the workflow was paused) is not re-opened
    let cmds := cmds.filter fun c =>
      !(match isJoin sp c.target, findByName w1 c.target, c.src with
        | some _, some j, some s => j.state != .WAITING && j.trig.contains s
        | _, _, _ => false)
    let w2 := { w1 with tasks := w1.tasks.map fun t =>
                  if isCompleted t.state && !t.processed then { t with processed := true } else t }
    if idle.isEmpty && cmds.isEmpty && w2.backlog.isEmpty then checkAndComplete w2
    else
      let bl := w2.backlog
      let w3 := dispatch sp { w2 with backlog := [] } bl
      let w4 := { w3 with pending := w3.pending ++ idle.map fun n => .postStartTask n false }
      dispatch sp w4 cmds
  | .execute t ok =>
    if !w.pending.contains (.runAction t) then w else
    { w with pending := removeFirst w.pending (.runAction t) ++ [.rpcResult t ok] }
  | .deliver it =>
    if !w.pending.contains it then w else
    let w := { w with pending := removeFirst w.pending it }
    match it with
    | .postStartTask t f => { w with pending := w.pending ++ [.rpcStartTask t f] }
    | .postRunAction t => { w with pending := w.pending ++ [.runAction t] }
    | .runAction _ => w     -- executors answer through `execute`
    | .postCheck => checkAndComplete w
    | .postSchedRefresh t =>
      if w.pending.contains (.jobRefresh t) then w else { w with pending := w.pending ++ [.jobRefresh t] }
    | .rpcStartTask t firstRun =>
      match findTask w t with
      | none => w
      | some r =>
        if firstRun then
          if r.state == .IDLE then
            { w with tasks := setTask w.tasks { r with state := .RUNNING },
                     pending := w.pending ++ [.postRunAction t] }
          else if r.state == .WAITING then
            -- run_task: a join found WAITING gets its preconditions checked
            if w.pending.contains (.jobRefresh t) then w else { w with pending := w.pending ++ [.jobRefresh t] }
          else checkAffected sp w t
        else
          -- RunExistingTask: _run_existing refuses a succeeded task with a MistralError
          -- (not a MistralException: it escapes run_task and the transaction rolls back)
          if r.state == .SUCCESS then w
          -- … ignores the request (it is not a rerun: `resume` queued it for a task that was still
          -- IDLE) if the task has completed in the meantime: the original start request has run it;
          -- `run_task` still ends with `_check_affected_tasks` (the joins the completed task can reach get
          -- one more refresh if none is scheduled)
          else if isCompleted r.state then checkAffected sp w t
          -- … and ignores the request if the task is already running its action
          else if r.state == .RUNNING && hasLiveAction w t then w
          else { w with tasks := setTask w.tasks { r with state := .RUNNING, processed := false },
                        pending := w.pending ++ [.postRunAction t] }
    | .rpcResult t ok =>
      match findTask w t with
      | none => w
      | some r => completeTask sp w r (if ok then .SUCCESS else .ERROR)
    | .jobRefresh t =>
      match findTask w t with
      | none => w
      | some r =>
        if isCompleted r.state || r.state == .RUNNING then w
        else if isCompleted w.wf then w
        else match isJoin sp t.1 with
          | none => w
          | some k =>
            match joinLogicalState sp.graph (rowsOf w) (fuelFor sp) t.1 k with
            | none => { w with crashed := true }
            | some L =>
              -- "triggered_by" is rewritten with the verdict's inducing task executions
              let trig : List (Tid × String) := L.triggeredBy.filterMap fun (n, e) =>
                (findByName w n).map fun x => ((x.name, x.occ), e.getD "")
              let r := { r with trig := trig }
              let w := { w with tasks := setTask w.tasks r }
              if L.state == .RUNNING then
                -- continue_task: RUNNING, then _run_existing (which does not start a second
                -- action while one is still in progress)
                if hasLiveAction w t then { w with tasks := setTask w.tasks { r with state := .RUNNING } }
                else
                { w with tasks := setTask w.tasks { r with state := .RUNNING },
                         pending := w.pending ++ [.postRunAction t] }
              else if L.state == .ERROR then completeTask sp w r .ERROR
              else w

def init : World := { wf := .IDLE, tasks := [], pending := [], backlog := [], crashed := false }

def run (sp : Spec) (evs : List Event) : World := evs.foldl (step sp) init

end Mistral.Engine
