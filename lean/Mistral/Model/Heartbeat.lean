/-
Model of the action-heartbeat checker and of the execution integrity check (C20).
Core Lean only.

Code modelled (one `Event` = one committed transaction / one clock tick):
  * mistral/services/action_heartbeat_checker.py  `start`, `_loop`, `handle_expired_actions`
  * mistral/db/v2/sqlalchemy/api.py               `get_running_expired_sync_action_executions`,
                                                  `update_action_execution_heartbeat`
  * mistral/db/v2/sqlalchemy/models.py            `ActionExecution.last_heartbeat` default
  * mistral/engine/default_engine.py              `process_action_heartbeats`, `on_action_complete`
  * mistral/engine/action_handler.py              `on_action_complete`, `_build_action`
  * mistral/engine/actions.py                     `RegularAction.complete` (rejects a completed action)
  * mistral/engine/task_handler.py                `schedule_on_action_complete`, `_on_action_complete`,
                                                  `_scheduled_on_action_complete`
  * mistral/engine/tasks.py                       `Task.complete` guard, `RegularTask.on_action_complete`,
                                                  `WithItemsTask.on_action_complete` (no concurrency)
  * mistral/engine/workflow_handler.py            `_check_and_fix_integrity`, `_schedule_check_and_fix_integrity`

The structural facts (comparison operators, filters, whether the limit is applied, which exceptions
are caught per action, scheduling delays) are *parameters* regenerated from the source into
`Mistral.Gen.HeartbeatDefaults` on every run; the state predicates come from `Mistral.Gen.States`.
Times are whole seconds (`utc_now_sec`), as `Int` offsets from an arbitrary origin.
`accepts` / `handled` are ghost counters (not stored by the implementation): how many results the
action accepted / how many times the completion handling of the task took effect.
-/
import Mistral.Model.States
import Mistral.Gen.HeartbeatDefaults
namespace Mistral.Heartbeat
open Mistral Mistral.Gen.HeartbeatDefaults

/-- `[action_heartbeat]` and the two `[engine] execution_integrity_check_*` options. -/
structure Config where
  maxMissed : Nat
  checkInterval : Nat
  firstTimeout : Nat
  batchSize : Nat
  integrityDelay : Int
  integrityBatch : Nat
  deriving Repr, DecidableEq

def defaultConfig : Config :=
  { maxMissed := maxMissedDefault, checkInterval := checkIntervalDefault,
    firstTimeout := firstTimeoutDefault, batchSize := batchSizeDefault,
    integrityDelay := integrityDelayDefault, integrityBatch := integrityBatchDefault }

/-- A result as `RegularAction.complete` classifies it. -/
inductive Res where
  | success | error | cancel
  deriving Repr, DecidableEq

def resState : Res → St
  | .success => .SUCCESS
  | .error => .ERROR
  | .cancel => .CANCELLED

/-- A child execution of a task: an action execution row, or (`isWf`) a sub-workflow execution. -/
structure Action where
  state : St
  isSync : Bool
  isWf : Bool := false
  lastHeartbeat : Int
  /-- `get_task_execution(action.task_execution_id)` and the workflow lookup succeed -/
  hasParent : Bool
  /-- `_build_action` finds the action definition -/
  defKnown : Bool := true
  accepted : Bool := false
  task : Option Nat
  updatedAt : Int
  accepts : Nat := 0
  deriving Repr, DecidableEq

structure Task where
  state : St
  withItems : Bool := false
  /-- belongs to the workflow execution the integrity job is for -/
  inWf : Bool := true
  updatedAt : Int
  /-- a `_scheduled_on_action_complete` job for this task is scheduled -/
  pendingJob : Bool := false
  handled : Nat := 0
  deriving Repr, DecidableEq

structure World where
  now : Int
  actions : List Action
  tasks : List Task
  /-- the workflow execution of the integrity job is completed (or gone) -/
  wfCompleted : Bool := false
  /-- due time of the next `_check_and_fix_integrity` job scheduled by the check itself -/
  nextIntegrity : Option Int := none
  deriving Repr, DecidableEq

/-- A fresh action execution row created at `now` (`_create_action_execution`): RUNNING, and the
    column default gives the first deadline. -/
def spawn (cfg : Config) (now : Int) (isSync : Bool) (task : Option Nat) : Action :=
  { state := .RUNNING, isSync := isSync,
    lastHeartbeat := if firstDeadlineAddsTimeout then now + cfg.firstTimeout else now,
    hasParent := task.isSome, task := task, updatedAt := now }

/-! ### expiry decision -/

/-- `exp_date = utc_now_sec() - timedelta(seconds=max_missed * interval)` -/
def threshold (cfg : Config) (now : Int) : Int := now - ((cfg.maxMissed * cfg.checkInterval : Nat) : Int)

def olderThan (lb exp : Int) : Bool :=
  if expiryCmpStrict then decide (lb < exp) else decide (lb ≤ exp)

/-- the row is returned by `get_running_expired_sync_action_executions(exp_date, …)`
    (sub-workflow executions live in another table and are never returned) -/
def expired (cfg : Config) (now : Int) (a : Action) : Bool :=
  !a.isWf && olderThan a.lastHeartbeat (threshold cfg now) &&
  (a.isSync || !queryFiltersSync) && (a.state == .RUNNING || !queryFiltersRunning)

/-- `start()`: `enabled = interval and max_missed` -/
def enabled (cfg : Config) : Bool := cfg.checkInterval != 0 && cfg.maxMissed != 0

/-- delay before the first run of the loop: `interval * max_missed` -/
def firstRunDelay (cfg : Config) : Nat := cfg.checkInterval * cfg.maxMissed

/-- number of elements satisfying `p` strictly before position `i` -/
def rankBefore {α : Type} (p : α → Bool) (l : List α) (i : Nat) : Nat := ((l.take i).filter p).length

/-- the row at position `i` is in the batch the pass works on (the limit is applied only if the
    source keeps the result of `query.limit`, and only when `batch_size` is not 0) -/
def selected (cfg : Config) (w : World) (i : Nat) (a : Action) : Bool :=
  expired cfg w.now a &&
  (!queryLimitApplied || cfg.batchSize == 0 || decide (rankBefore (expired cfg w.now) w.actions i < cfg.batchSize))

/-- processing this selected action lets an exception escape `handle_expired_actions`
    (the transaction of the whole pass is rolled back) -/
def poison (a : Action) : Bool :=
  (!a.hasParent && !checkerSkipsMissingParent) ||
  (a.hasParent && !a.defKnown && !checkerCatchesCompleteErrors)

/-- the selected action is completed with the heartbeat error -/
def processable (a : Action) : Bool := a.hasParent && a.defKnown

def passAborts (cfg : Config) (w : World) : Bool :=
  (w.actions.zipIdx.any fun (a, i) => selected cfg w i a && poison a)

/-! ### completion of actions and tasks -/

/-- `RegularAction.complete(result)` on a not yet completed action -/
def accept (now : Int) (a : Action) (r : Res) : Action :=
  { a with state := resState r, accepted := true, updatedAt := now, accepts := a.accepts + 1 }

def childrenOf (acts : List Action) (t : Nat) : List Action := acts.filter (·.task == some t)

/-- `WithItemsTask.is_with_items_completed` / `_get_final_state` without concurrency, all item
    actions already created: a cancelled accepted item finishes the task at once; otherwise every
    child must be accepted -/
def withItemsFinal (ch : List Action) : Option St :=
  if ch.any (fun c => c.accepted && c.state == .CANCELLED) then some .CANCELLED
  else if ch.all (·.accepted) then
    (if ch.any (fun c => c.accepted && c.state == .ERROR) then some .ERROR else some .SUCCESS)
  else none

/-- the state the completion handling gives the task (`none`: the task stays as it is) -/
def finalState (tk : Task) (trigger : St) (ch : List Action) : Option St :=
  if tk.withItems then withItemsFinal ch else some trigger

/-- `task_handler._on_action_complete`: `Task.complete` ignores a completed task -/
def handleTask (now : Int) (acts : List Action) (t : Nat) (tk : Task) (trigger : St) : Task :=
  if isCompleted tk.state then tk
  else match finalState tk trigger (childrenOf acts t) with
    | none => tk
    | some s => { tk with state := s, updatedAt := now, handled := tk.handled + 1 }

/-- `task_handler.schedule_on_action_complete`: inline for a plain task, a keyed scheduler job
    for a with-items task -/
def scheduleHandling (now : Int) (acts : List Action) (t : Nat) (tk : Task) (trigger : St) : Task :=
  if tk.withItems then { tk with pendingJob := true } else handleTask now acts t tk trigger

/-! ### events -/

inductive Event where
  | tick (dt : Nat)
  /-- `engine.process_action_heartbeats(ids)` -/
  | heartbeat (ids : List Nat)
  /-- one iteration of the checker service: `start()` … `_loop` (runs only when enabled) -/
  | checkerLoop
  /-- `handle_expired_actions()` -/
  | checkerPass
  /-- `engine.on_action_complete(id, result)` from an executor -/
  | result (i : Nat) (r : Res)
  /-- `engine.on_action_complete(id, None, wf_action=True)` sent by a finished sub-workflow -/
  | wfResult (i : Nat)
  /-- the row's state is changed behind the engine's back (db_api.update_action_execution), or a
      sub-workflow finishes on its own: no task-level handling -/
  | dbComplete (i : Nat) (r : Res)
  /-- delivery of the keyed `_scheduled_on_action_complete` job of a with-items task -/
  | taskJob (t : Nat)
  /-- that job is lost -/
  | dropJob (t : Nat)
  /-- the `_check_and_fix_integrity` job -/
  | integrity
  deriving Repr, DecidableEq

def heartbeatStep (w : World) (ids : List Nat) : World :=
  { w with actions := w.actions.mapIdx fun i a =>
      if ids.contains i && !a.isWf then { a with lastHeartbeat := w.now } else a }

/-- one pass of `handle_expired_actions` -/
def checkerPass (cfg : Config) (w : World) : World :=
  if passAborts cfg w then w
  else
    let hit (i : Nat) (a : Action) : Bool := selected cfg w i a && processable a
    let acts := w.actions.mapIdx fun i a => if hit i a then accept w.now a .error else a
    { w with
      actions := acts,
      tasks := w.tasks.mapIdx fun t tk =>
        if w.actions.zipIdx.any (fun (a, i) => hit i a && a.task == some t)
        then scheduleHandling w.now acts t tk .ERROR else tk }

/-- why `engine.on_action_complete` does not take effect -/
inductive Reject where
  | notFound | unknownDefinition | alreadyCompleted | notFinished
  deriving Repr, DecidableEq

def resultReject (w : World) (i : Nat) : Option Reject :=
  match w.actions[i]? with
  | none => some .notFound
  | some a =>
    if a.isWf then some .notFound
    else if !a.defKnown then some .unknownDefinition
    else if isCompleted a.state then some .alreadyCompleted
    else none

def resultStep (w : World) (i : Nat) (r : Res) : World :=
  match w.actions[i]? with
  | none => w
  | some a =>
    if (resultReject w i).isSome then w
    else
      let a' := accept w.now a r
      let acts := w.actions.set i a'
      { w with
        actions := acts,
        tasks := match a.task with
          | none => w.tasks
          | some t => w.tasks.mapIdx fun t' tk =>
              if t' == t then scheduleHandling w.now acts t tk a'.state else tk }

def wfResultStep (w : World) (i : Nat) : World :=
  match w.actions[i]? with
  | none => w
  | some a =>
    if !a.isWf || !isCompleted a.state then w
    else match a.task with
      | none => w
      | some t => { w with tasks := w.tasks.mapIdx fun t' tk =>
          if t' == t then scheduleHandling w.now w.actions t tk a.state else tk }

def dbCompleteStep (w : World) (i : Nat) (r : Res) : World :=
  { w with actions := w.actions.mapIdx fun j a =>
      if j == i then { a with state := resState r, updatedAt := w.now } else a }

def taskJobStep (w : World) (t : Nat) : World :=
  { w with tasks := w.tasks.mapIdx fun t' tk =>
      if t' == t && tk.pendingJob then handleTask w.now w.actions t { tk with pendingJob := false } .ERROR
      else tk }

def dropJobStep (w : World) (t : Nat) : World :=
  { w with tasks := w.tasks.mapIdx fun t' tk => if t' == t then { tk with pendingJob := false } else tk }

/-! ### integrity check -/

def maxUpdated : List Action → Int
  | [] => 0
  | [a] => a.updatedAt
  | a :: l => max a.updatedAt (maxUpdated l)

def taskOldEnough (cfg : Config) (now : Int) (tk : Task) : Bool :=
  if integrityTaskCmpLt then !decide (now - tk.updatedAt < cfg.integrityDelay)
  else !decide (now - tk.updatedAt ≤ cfg.integrityDelay)

def childrenOldEnough (cfg : Config) (now : Int) (ch : List Action) : Bool :=
  if integrityChildCmpGt then decide (now - maxUpdated ch > cfg.integrityDelay)
  else decide (now - maxUpdated ch ≥ cfg.integrityDelay)

def runningInWf (tk : Task) : Bool := tk.inWf && tk.state == .RUNNING

/-- the RUNNING task at position `t` is among the first `integrityBatch` RUNNING tasks of the
    workflow in id order (`get_task_executions(state=RUNNING, limit=batch_size)`; the harness
    lists tasks in id order) -/
def examined (cfg : Config) (w : World) (t : Nat) (tk : Task) : Bool :=
  runningInWf tk && decide (rankBefore runningInWf w.tasks t < cfg.integrityBatch)

/-- "a task left RUNNING although all its actions or sub-workflows have finished", for longer than
    the delay -/
def stuck (cfg : Config) (w : World) (t : Nat) (tk : Task) : Bool :=
  runningInWf tk && taskOldEnough cfg w.now tk &&
  (let ch := childrenOf w.actions t
   !ch.isEmpty && ch.all (fun c => isCompleted c.state) && childrenOldEnough cfg w.now ch)

def lastState (ch : List Action) : St :=
  match ch.getLast? with
  | some c => c.state
  | none => .ERROR

def integrityRuns (cfg : Config) (w : World) : Bool :=
  !decide (cfg.integrityDelay < 0) && !w.wfCompleted

def integrityStep (cfg : Config) (w : World) : World :=
  if !integrityRuns cfg w then w
  else
    { w with
      nextIntegrity := some (w.now + integrityReschedule),
      tasks := w.tasks.mapIdx fun t tk =>
        if examined cfg w t tk && stuck cfg w t tk
        then scheduleHandling w.now w.actions t tk (lastState (childrenOf w.actions t)) else tk }

/-! ### the transition function -/

def step (cfg : Config) (w : World) : Event → World
  | .tick dt => { w with now := w.now + dt }
  | .heartbeat ids => heartbeatStep w ids
  | .checkerLoop => if enabled cfg then checkerPass cfg w else w
  | .checkerPass => checkerPass cfg w
  | .result i r => resultStep w i r
  | .wfResult i => wfResultStep w i
  | .dbComplete i r => dbCompleteStep w i r
  | .taskJob t => taskJobStep w t
  | .dropJob t => dropJobStep w t
  | .integrity => integrityStep cfg w

/-- does an exception escape the entry point? (the transaction is rolled back) -/
def raises (cfg : Config) (w : World) : Event → Bool
  | .checkerPass => passAborts cfg w
  | .result i _ => (resultReject w i).isSome
  | _ => false

def run (cfg : Config) (w : World) (evs : List Event) : World := evs.foldl (step cfg) w

end Mistral.Heartbeat
