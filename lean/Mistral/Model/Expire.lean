/-
Model of the execution expiration policy (C18).  Core Lean only.

Code modelled (pinned /repo):
* mistral/services/expiration_policy.py
    `ExecutionExpirationPolicy.__init__` (enabling condition)      -> `enabled`
    `run_execution_expiration_policy`                              -> `evaluate`
    `_delete_executions` / `_delete_until_depleted` / `_delete`    -> `loop`, `deleteBatch`
* mistral/db/v2/sqlalchemy/api.py
    `_get_completed_root_executions_query`                         -> `eligible`
    `get_expired_executions`                                       -> `expiredIds`
    `get_superfluous_executions`                                   -> `superfluousIds`
    `delete_workflow_execution` (bulk DELETE by id)                -> `deleteExec`
* mistral/db/v2/sqlalchemy/models.py: the three `ondelete='CASCADE'` foreign keys
    workflow_execution.task_execution_id -> task, task.workflow_execution_id -> workflow,
    action_execution.task_execution_id -> task                     -> `cascade`
  (`root_execution_id` is `SET NULL` and is not a row-removing link.)

A population is the flat list of rows of the three execution tables; every row
has a globally unique `id` (the harness numbers (table, uuid) pairs) and an
optional `parent` id (the foreign key above).  The list order stands for "the
order in which the database lists rows that the query does not order": the
un-ordered `expired` query with LIMIT takes the first rows in list order and
the `ORDER BY updated_at DESC` of the `superfluous` query is a *stable* sort of
the list.  All theorems hold for every list order.

Time is in whole seconds (`Int`); `older_than` is in minutes as in the code.
-/
import Mistral.Gen.ExpireDefaults

namespace Mistral.Expire
open Mistral.Gen.ExpireDefaults

inductive Kind where
  | wf | task | action
  deriving DecidableEq, Repr

structure Node where
  id : Nat
  kind : Kind
  /-- wf: `task_execution_id`; task: `workflow_execution_id`; action: `task_execution_id` -/
  parent : Option Nat
  state : String
  updatedAt : Int
  project : Nat
  deriving DecidableEq, Repr

abbrev Pop := List Node

structure Config where
  /-- `evaluation_interval` only matters for `enabled` -/
  evaluationInterval : Option Int := none
  olderThan : Option Int
  maxFinished : Option Nat
  batchSize : Nat
  ignoredStates : List String
  deriving Repr

/-- The configuration the generated defaults give. -/
def defaultConfig : Config :=
  { evaluationInterval := evaluationIntervalDefault, olderThan := olderThanDefault,
    maxFinished := maxFinishedDefault, batchSize := batchSizeDefault,
    ignoredStates := ignoredStatesDefault }

/-- python truthiness of an optional int, `x and x >= 1` -/
def atLeastOne : Option Int → Bool
  | some x => x != 0 && decide (1 ≤ x)
  | none => false

/-- `if interval and ((ot and ot >= 1) or (mfe and mfe >= 1))` in `__init__`: is the
    periodic task registered at all.  (`spacing = interval * 60`; oslo.service's
    `_add_periodic_task` skips a task whose spacing is negative, so a negative interval
    registers nothing.) -/
def enabled (cfg : Config) : Bool :=
  (match cfg.evaluationInterval with | some i => decide (0 < i) | none => false) &&
  (atLeastOne cfg.olderThan || atLeastOne (cfg.maxFinished.map Int.ofNat))

/-- `states.TERMINAL_STATES - set(ignored_states)` -/
def desired (cfg : Config) : List String :=
  terminalStates.filter (fun s => !cfg.ignoredStates.contains s)

/-- `task_execution_id IS NULL` on the workflow-execution table -/
def isRoot (n : Node) : Bool := n.kind == .wf && n.parent.isNone

/-- row of `_get_completed_root_executions_query` -/
def eligible (cfg : Config) (n : Node) : Bool := isRoot n && (desired cfg).contains n.state

/-- `if limit: query = query.limit(limit)` -/
def limit {α : Type} (b : Nat) (l : List α) : List α := if b == 0 then l else l.take b

/-- `get_expired_executions(expiration_time, batch_size)`: strict `<`, no ordering. -/
def expiredRows (cfg : Config) (exp : Int) (pop : Pop) : List Node :=
  limit cfg.batchSize (pop.filter (fun n => eligible cfg n && decide (n.updatedAt < exp)))

def expiredIds (cfg : Config) (exp : Int) (pop : Pop) : List Nat :=
  (expiredRows cfg exp pop).map (·.id)

/-- stable insertion for `ORDER BY updated_at DESC`: `x` goes before the first
    element that is not newer than it. -/
def insertDesc (x : Node) : List Node → List Node
  | [] => [x]
  | y :: ys => if y.updatedAt ≤ x.updatedAt then x :: y :: ys else y :: insertDesc x ys

def sortDesc (l : List Node) : List Node := l.foldr insertDesc []

/-- `get_superfluous_executions(max_finished_executions, batch_size)`:
    `if not max: return []`, then ORDER BY updated_at DESC OFFSET max [LIMIT batch]. -/
def superfluousRows (cfg : Config) (pop : Pop) : List Node :=
  match cfg.maxFinished with
  | none => []
  | some 0 => []
  | some m => limit cfg.batchSize ((sortDesc (pop.filter (eligible cfg))).drop m)

def superfluousIds (cfg : Config) (pop : Pop) : List Nat :=
  (superfluousRows cfg pop).map (·.id)

/-- rows of `pop` not yet in `D` whose foreign key points into `D` -/
def children (pop : Pop) (D : List Nat) : List Node :=
  pop.filter (fun n => !D.contains n.id &&
    (match n.parent with | some p => D.contains p | none => false))

/-- ON DELETE CASCADE: least set of ids containing `D` and closed under "my parent is in it".
    The fuel is `pop.length` (`cascade_closed` shows that is enough). -/
def cascade (pop : Pop) : Nat → List Nat → List Nat
  | 0, D => D
  | f + 1, D =>
    match children pop D with
    | [] => D
    | c :: cs => cascade pop f (D ++ (c :: cs).map (·.id))

/-- `DELETE FROM workflow_executions_v2 WHERE id = r` with foreign keys enforced. -/
def deleteExec (pop : Pop) (r : Nat) : Pop :=
  pop.filter (fun n => !(cascade pop pop.length [r]).contains n.id)

inductive Err where
  /-- `delete_workflow_execution` raised (row vanished / DB error); the `except` handler's
      `traceback.format_exc(e)` then raises TypeError, which leaves `_delete`, rolls the
      batch's transaction back and aborts the evaluation. -/
  | deleteFailed (id : Nat)
  deriving DecidableEq, Repr

/-- The environment: ids for which `delete_workflow_execution` raises. -/
structure Env where
  failing : List Nat
  deriving Repr

/-- `_delete(executions)` inside one transaction. -/
def deleteBatch (env : Env) (pop : Pop) : List Nat → Except Err Pop
  | [] => .ok pop
  | r :: rs => if env.failing.contains r then .error (.deleteFailed r)
               else deleteBatch env (deleteExec pop r) rs

inductive Outcome where
  | ok (pop : Pop)
  /-- an exception left the evaluation; `pop` is what is committed -/
  | crashed (e : Err) (pop : Pop)
  /-- the `while True` loop did not stop within the fuel -/
  | outOfFuel (pop : Pop)
  deriving DecidableEq, Repr

def Outcome.pop : Outcome → Pop
  | .ok p => p
  | .crashed _ p => p
  | .outOfFuel p => p

/-- `_delete_until_depleted(fetch_func)`: `while True: with transaction(): execs = fetch();
    if not execs: break; _delete(execs)`. -/
def loop (fetch : Pop → List Nat) (env : Env) : Nat → Pop → Outcome
  | 0, pop => .outOfFuel pop
  | f + 1, pop =>
    match fetch pop with
    | [] => .ok pop
    | r :: rs =>
      match deleteBatch env pop (r :: rs) with
      | .error e => .crashed e pop
      | .ok pop' => loop fetch env f pop'

/-- `run_execution_expiration_policy` + `_delete_executions`; `now` = `timeutils.utcnow()` in
    seconds.  `older_than` unset: `exp_time = None` and the age pass is skipped (since /repo
    commit 2457b86b; before it `timedelta(minutes=None)` raised TypeError). -/
def evaluate (cfg : Config) (env : Env) (now : Int) (fuel : Nat) (pop : Pop) : Outcome :=
  match cfg.olderThan with
  | none => loop (superfluousIds cfg) env fuel pop
  | some ot =>
    match loop (expiredIds cfg (now - ot * 60)) env fuel pop with
    | .ok p1 => loop (superfluousIds cfg) env fuel p1
    | o => o

/-- What `_delete` would be if its `except` handler logged and continued (the evident
    intent of the code): a failing delete is skipped.  Used only to show why the
    hypothesis "delete removes the row" is needed for termination. -/
def deleteBatchLenient (env : Env) (pop : Pop) : List Nat → Pop
  | [] => pop
  | r :: rs => if env.failing.contains r then deleteBatchLenient env pop rs
               else deleteBatchLenient env (deleteExec pop r) rs

def loopLenient (fetch : Pop → List Nat) (env : Env) : Nat → Pop → Outcome
  | 0, pop => .outOfFuel pop
  | f + 1, pop =>
    match fetch pop with
    | [] => .ok pop
    | r :: rs => loopLenient fetch env f (deleteBatchLenient env pop (r :: rs))

end Mistral.Expire
