/- L3: one task's life under the task policies of mistral/engine/policies.py, as a state machine
   with a virtual clock and scheduled jobs that carry their due time.

   What is modelled (file : function):
     engine/policies.py : get_policy_factories order (GENERATED, Gen/PolicyOrder), WaitBeforePolicy,
       WaitAfterPolicy, RetryPolicy, TimeoutPolicy, PauseBeforePolicy, ConcurrencyPolicy (type check
       only), FailOnPolicy, _continue_task, _complete_task, _fail_task_if_incomplete
     engine/base.py : TaskPolicy.before_task_start / after_task_complete (evaluate + `_validate`)
     engine/tasks.py : Task.complete (DELAYED is skipped, paused workflow, dispatch), Task.set_state
       (bare CAS), RegularTask._run_new / _run_existing / _reset_actions / _get_timeout,
       Task.invalidate_result
     engine/task_handler.py : run_task, continue_task, complete_task, force_fail_task,
       _on_action_complete
     engine/workflows.py : Workflow.pause / resume / _continue_workflow (IDLE tasks are re-run,
       completed unprocessed tasks get their follow-ups), _fail_workflow (returns on PAUSED)

   The model says what the code DOES (as of /repo 831643dc + 258aaaae + 3cd97083: stale continue /
   complete jobs are dropped unless the task is DELAYED — for whatever reason it is DELAYED).  -/
import Mistral.Model.PolicyBase
import Mistral.Gen.PolicyOrder

namespace Mistral.Policy

/-- Task states that occur in a policy-bearing task's life. -/
inductive TSt where
  | idle | running | delayed | success | error
  deriving Repr, DecidableEq, Inhabited

/-- Workflow state as far as the task's life depends on it. -/
inductive WfSt where
  | running | paused | done
  deriving Repr, DecidableEq, Inhabited

/-- Class of the task's `state_info`. -/
inductive Msg where
  | none | actionErr | timeout | failOn | waitBefore | waitAfter | retry | pauseBefore | forced
  deriving Repr, DecidableEq, Inhabited

inductive Outcome where
  | success | error
  deriving Repr, DecidableEq, Inhabited

def Outcome.st : Outcome → TSt
  | .success => .success
  | .error => .error

/-- An *evaluated* numeric policy parameter. -/
inductive PVal where
  | int (i : Int)   -- an integer (may be negative)
  | num             -- a non-integral number or a boolean: fails the type check, `> 0` is defined
  | other           -- string / null / list: fails the type check, `> 0` raises TypeError
  deriving Repr, DecidableEq, Inhabited

/-- An *evaluated* boolean policy parameter (`other`: not a boolean; only its truthiness is left). -/
inductive PBool where
  | bool (b : Bool)
  | other (truthy : Bool)
  deriving Repr, DecidableEq, Inhabited

def PBool.truthy : PBool → Bool
  | .bool b => b
  | .other t => t

/-- `jsonschema.validate(v, {"type": "integer", "minimum": 0})`. -/
def PVal.valid : PVal → Bool
  | .int i => decide (0 ≤ i)
  | _ => false

def PVal.nat : PVal → Nat
  | .int i => i.toNat
  | _ => 0

structure Retry where
  count : PVal
  delay : PVal
  hasContinueOn : Bool
  hasBreakOn : Bool
  deriving Repr, DecidableEq, Inhabited

/-- Which clause of the task leads to the follow-up task. -/
inductive Follow where
  | none | onSuccess | onError | onComplete
  deriving Repr, DecidableEq, Inhabited

/-- The policies in force for the task (task level, else task-defaults), with their parameters
    already evaluated.  An absent numeric policy is `.int 0`, an absent boolean one `.bool false`
    (no policy object is the same as a policy whose parameter evaluates to 0 / false). -/
structure Params where
  pauseBefore : PBool := .bool false
  waitBefore : PVal := .int 0
  waitAfter : PVal := .int 0
  failOn : PBool := .bool false
  retry : Option Retry := none
  timeout : PVal := .int 0
  concurrency : PVal := .int 0
  /-- `RegularTask._get_timeout`: the *task-level* `timeout` evaluates to something `> 0` raises on -/
  execTimeoutRaises : Bool := false
  follow : Follow := .none
  deriving Repr, DecidableEq, Inhabited

inductive JobKind where
  | cont                                  -- policies._continue_task
  | complete (st : TSt) (msg : Msg)       -- policies._complete_task(state, state_info)
  | timeout                               -- policies._fail_task_if_incomplete
  deriving Repr, DecidableEq, Inhabited

structure Job where
  kind : JobKind
  dueAt : Nat
  deriving Repr, DecidableEq, Inhabited

/-- An action execution of the task: its result (outcome, continue-on value, break-on value as the
    expressions evaluate on that result) once delivered, and the `accepted` flag. -/
structure Act where
  res : Option (Outcome × Bool × Bool) := none
  accepted : Bool := false
  deriving Repr, DecidableEq, Inhabited

structure S where
  now : Nat := 0
  st : TSt := .idle
  msg : Msg := .none
  wf : WfSt := .running
  retryNo : Nat := 0
  wbSkip : Bool := false
  waSkip : Bool := false
  acts : List Act := []
  jobs : List Job := []
  processed : Bool := false
  followUps : Nat := 0
  pendingNew : Bool := true          -- rpc start_task(first_run=True) in flight
  pendingExisting : Bool := false    -- rpc start_task(first_run=False) in flight (after resume)
  crashes : Nat := 0                 -- undeclared exceptions that escaped an entry point
  deriving Repr, DecidableEq, Inhabited

def init : S := {}

inductive Ev where
  | startNew
  | startExisting
  | result (i : Nat) (o : Outcome) (c b : Bool)
  | fire (idx : Nat)
  | tick (dt : Nat)
  | resume
  | wfDone
  deriving Repr, DecidableEq, Inhabited

def isCompleted : TSt → Bool
  | .success | .error => true
  | _ => false

/-- A hook either returns or raises `InvalidModelException`; what it did before raising stays
    (the handlers catch the exception inside the transaction). -/
inductive R where
  | ok (s : S)
  | raise (s : S)
  deriving Repr

def R.bind (r : R) (f : S → R) : R :=
  match r with
  | .ok s => f s
  | .raise s => .raise s

/-- `Workflow.pause`. -/
def pauseWf : WfSt → WfSt
  | .running => .paused
  | w => w

def schedule (s : S) (k : JobKind) (delay : Nat) : S :=
  { s with jobs := s.jobs ++ [{ kind := k, dueAt := s.now + delay }] }

/-- The base hook of a policy with one integer field: evaluate + `_validate`. -/
def check (v : PVal) (s : S) : R := if v.valid then .ok s else .raise s

def checkRetry (p : Params) (s : S) : R :=
  match p.retry with
  | none => .ok s
  | some r => if r.count.valid && r.delay.valid then .ok s else .raise s

def checkPause (p : Params) (s : S) : R :=
  match p.pauseBefore with
  | .other _ => .raise s
  | .bool _ => .ok s

/-- `before_task_start` of one policy. -/
def beforeOne (p : Params) (k : PolicyKind) (s : S) : R :=
  match k with
  | .pauseBefore =>
    (checkPause p s).bind fun s =>
      if p.pauseBefore.truthy then
        .ok { s with st := .idle, msg := .pauseBefore, wf := pauseWf s.wf }
      else .ok s
  | .waitBefore =>
    (check p.waitBefore s).bind fun s =>
      let d := p.waitBefore.nat
      if d = 0 then .ok s
      else if s.wbSkip then .ok { s with st := .running, msg := .none }
      else if s.st ≠ .idle then
        .ok (schedule { s with wbSkip := true, st := .delayed, msg := .waitBefore } .cont d)
      else .ok s
  | .waitAfter => check p.waitAfter s
  | .failOn => .ok s                       -- `def before_task_start(self, task): pass`
  | .retry => checkRetry p s
  | .timeout =>
    (check p.timeout s).bind fun s =>
      let d := p.timeout.nat
      if d = 0 then .ok s else .ok (schedule s .timeout d)
  | .concurrency => check p.concurrency s

/-- What the retry / continue-on / break-on expressions see: `task().result` is the result of
    the accepted action executions — one value iff exactly one is accepted. -/
def evalFlags (acts : List Act) : Bool × Bool :=
  match acts.filter (·.accepted) with
  | [a] => match a.res with
    | some (_, c, b) => (c, b)
    | none => (false, false)
  | _ => (false, false)

/-- `Task.invalidate_result`. -/
def invalidate (acts : List Act) : List Act := acts.map fun a => { a with accepted := false }

/-- The decision of `RetryPolicy.after_task_complete` once the state is SUCCESS or ERROR. -/
def retryApplies (r : Retry) (retryNo : Nat) (st : TSt) (c b : Bool) : Bool :=
  let retriesRemain := decide (retryNo < r.count.nat)
  let stop := (st == .success && !r.hasContinueOn) || (r.hasContinueOn && !c)
  let brk := st == .error && r.hasBreakOn && b
  retriesRemain && !brk && !stop

/-- `after_task_complete` of one policy. -/
def afterOne (p : Params) (k : PolicyKind) (s : S) : R :=
  match k with
  | .pauseBefore => checkPause p s
  | .waitBefore => check p.waitBefore s
  | .waitAfter =>
    (check p.waitAfter s).bind fun s =>
      let d := p.waitAfter.nat
      if d = 0 then .ok s
      else if s.waSkip then .ok s
      else .ok (schedule { s with waSkip := true, st := .delayed, msg := .waitAfter }
                 (.complete s.st s.msg) d)
  | .failOn =>
    if s.st = .success ∧ p.failOn.truthy then .ok { s with st := .error, msg := .failOn }
    else .ok s
  | .retry =>
    (checkRetry p s).bind fun s =>
      match p.retry with
      | none => .ok s
      | some r =>
        if r.count.nat = 0 then .ok s
        else if !isCompleted s.st then .ok s
        else
          let cb := evalFlags s.acts
          if retryApplies r s.retryNo s.st cb.1 cb.2 then
            .ok (schedule { s with acts := invalidate s.acts, retryNo := s.retryNo + 1,
                                   st := .delayed, msg := .retry } .cont r.delay.nat)
          else .ok s
  | .timeout => check p.timeout s
  | .concurrency => check p.concurrency s

def runHooks (f : PolicyKind → S → R) : List PolicyKind → S → R
  | [], s => .ok s
  | k :: ks, s => (f k s).bind (runHooks f ks)

def beforeAll (p : Params) (s : S) : R := runHooks (beforeOne p) Gen.PolicyOrder.order s
def afterAll (p : Params) (s : S) : R := runHooks (afterOne p) Gen.PolicyOrder.order s

/-- `task_handler.force_fail_task`: ERROR unconditionally; the workflow fails unless it is
    finished (`Workflow._fail_workflow`; since 3cd97083 a PAUSED workflow is failed too). -/
def forceFail (s : S) : S :=
  { s with st := .error, msg := .forced, wf := .done }

def follows (p : Params) (st : TSt) : Nat :=
  match p.follow with
  | .none => 0
  | .onSuccess => if st = .success then 1 else 0
  | .onError => if st = .error then 1 else 0
  | .onComplete => 1

/-- `Task.complete(state, state_info)`. -/
def completeTask (p : Params) (s : S) (st : TSt) (m : Msg) : S :=
  if isCompleted s.st then s
  else
    match afterAll p { s with st := st, msg := m } with
    | .raise s2 => forceFail s2
    | .ok s2 =>
      if s2.st = .delayed then s2          -- "Ignore DELAYED state."
      else if s2.wf = .paused then s2      -- next_tasks stored, nothing dispatched, not processed
      else
        let s3 := { s2 with processed := true }
        if s2.wf = .running then { s3 with followUps := s3.followUps + follows p s2.st } else s3

/-- `RegularTask._reset_actions` (no reset flag). -/
def resetActions (acts : List Act) : List Act :=
  acts.map fun a =>
    match a.res with
    | some (.error, _, _) => if a.accepted then { a with accepted := false } else a
    | _ => a

/-- `_schedule_actions`; `none` = `_get_timeout` raised TypeError (escapes the handler). -/
def scheduleAction (p : Params) (s : S) : Option S :=
  if p.execTimeoutRaises then none else some { s with acts := s.acts ++ [{}] }

/-- An undeclared exception escaped: the transaction is rolled back, the message / job is gone. -/
def crash (s : S) : S := { s with crashes := s.crashes + 1 }

/-- `_run_new` on an IDLE task: RUNNING, the `before_task_start` hooks, then the action unless a
    hook changed the state.  `InvalidModelException` from a hook → `force_fail_task`. -/
def launch (p : Params) (s0 : S) : S :=
  match beforeAll p { s0 with st := .running } with
  | .raise s2 => forceFail s2
  | .ok s2 =>
    if s2.st = .running then
      match scheduleAction p s2 with
      | some s3 => s3
      | none => crash s0
    else s2

/-- rpc `start_task(first_run=True)` → `run_task` → `_run_new`. -/
def startNew (p : Params) (s : S) : S :=
  if s.pendingNew then
    let s0 := { s with pendingNew := false }
    if s0.st = .idle then launch p s0 else s0
  else s

/-- `Task.set_state(RUNNING, None, processed=False)` inside `_run_existing`. -/
def setRunningExisting (s : S) : S :=
  if s.st = .running ∧ s.msg = .none then s
  else { s with st := .running, msg := .none, processed := false }

/-- an action execution of the task has not completed -/
def hasOutstanding (acts : List Act) : Bool := acts.any fun a => a.res.isNone

/-- rpc `start_task(first_run=False)` (RunExistingTask after resume) → `_run_existing`. -/
def startExisting (p : Params) (s : S) : S :=
  if !s.pendingExisting then s
  else
    let s0 := { s with pendingExisting := false }
    if s0.st = .success then s0            -- MistralError escapes run_task: rolled back
    -- repo_patches/20: the request is not a rerun (resume queued it for an IDLE task); a task that
    -- has completed in the meantime (failed by its timeout / by the other start request) is left alone
    else if isCompleted s0.st then s0
    else if s0.st = .running ∧ hasOutstanding s0.acts then s0   -- 258aaaae: already running its action
    else
      let s1 := setRunningExisting s0
      match scheduleAction p { s1 with acts := resetActions s1.acts } with
      | some s2 => s2
      | none => crash s0

/-- `task_handler.continue_task`: RUNNING, then `_run_existing` — which (258aaaae) starts nothing
    when an action execution of the task is still outstanding (the attempt the timer failed). -/
def continueTask (p : Params) (s : S) : S :=
  let s1 := { s with st := .running, msg := .none }
  if hasOutstanding s1.acts then s1
  else
    match scheduleAction p { s1 with acts := resetActions s1.acts } with
    | some s2 => s2
    | none => crash s

/-- The executor's answer for action `i` arrives: `Action.complete` then `Task.complete`. -/
def result (p : Params) (s : S) (i : Nat) (o : Outcome) (c b : Bool) : S :=
  match s.acts[i]? with
  | none => s
  | some a =>
    if a.res.isSome then s       -- "already completed" (ValueError): rolled back
    else
      let s1 := { s with acts := s.acts.set i { res := some (o, c, b), accepted := true } }
      completeTask p s1 o.st (match o with | .success => .none | .error => .actionErr)

/-- A due scheduler job is delivered (and removed whatever happens). -/
def fire (p : Params) (s : S) (idx : Nat) : S :=
  match s.jobs[idx]? with
  | none => s
  | some j =>
    if s.now < j.dueAt then s
    else
      let s0 := { s with jobs := s.jobs.eraseIdx idx }
      match j.kind with
      -- 831643dc: `_continue_task` / `_complete_task` return unless the task is (still) DELAYED
      | .cont => if s0.st = .delayed then continueTask p s0 else s0
      | .complete st m => if s0.st = .delayed then completeTask p s0 st m else s0
      | .timeout => if isCompleted s0.st then s0 else completeTask p s0 .error .timeout

/-- `resume_workflow`: IDLE tasks are run again, completed unprocessed ones get their follow-ups. -/
def resume (p : Params) (s : S) : S :=
  if s.wf ≠ .paused then s
  else
    let s1 := { s with wf := .running }
    let s2 := if s1.st = .idle then { s1 with pendingExisting := true } else s1
    if isCompleted s2.st ∧ ¬ s2.processed then
      { s2 with processed := true, followUps := s2.followUps + follows p s2.st }
    else s2

def step (p : Params) (s : S) : Ev → S
  | .startNew => startNew p s
  | .startExisting => startExisting p s
  | .result i o c b => result p s i o c b
  | .fire idx => fire p s idx
  | .tick dt => { s with now := s.now + dt }
  | .resume => resume p s
  | .wfDone => if s.wf = .running then { s with wf := .done } else s

def run (p : Params) (s : S) (evs : List Ev) : S := evs.foldl (step p) s

/-- All intermediate states (for the correspondence check). -/
def trace (p : Params) : S → List Ev → List S
  | _, [] => []
  | s, e :: es => let s' := step p s e; s' :: trace p s' es

end Mistral.Policy
