/-
Model of mistral's *legacy* scheduler (mistral/services/legacy_scheduler.py + the delayed-call
functions of mistral/db/v2/sqlalchemy/api.py) at DB-call granularity.  It is the scheduler
selected by the default `scheduler_type = legacy`.

Core Lean only (linked into the compiled driver); total, structurally recursive.

Rows of `delayed_calls_v2` have a boolean `processing` flag instead of `captured_at`: there is
no capture timeout and therefore no recapture.  One `_process_delayed_calls` iteration of an
instance is split into the pieces between which another process can act:

* `schedule ra key tx`  `LegacyScheduler.schedule(job)` = `_schedule_call` = `create_delayed_call`
                        in the caller's transaction `tx` (execution_time = utc_now_sec()+run_after,
                        processing = False).  Nothing is kept in memory.
* `commit tx`/`rollback tx`  end of the caller's transaction.
* `tick n`              the whole-second clock advances.
* `select i`            `get_delayed_calls_to_start(now + 1s, batch_size)` inside the
                        `_capture_calls` transaction: `execution_time < now+1`, `processing = False`,
                        ORDER BY execution_time, LIMIT batch_size.
* `scheduleBad ra key tx`  the same for a call whose target (or serializer) cannot be imported.
* `capture i`           the loop of `update_delayed_call(id, {processing: True},
                        query_filter={processing: False})` CASes of that transaction (+ commit);
                        only rows whose CAS matched are kept; nothing captured → iteration over.
                        `_prepare_calls` follows without DB access: a captured call that cannot be
                        prepared is logged and skipped; `todo` = the preparable ones.
* `invoke i`            the next call of the `_invoke_calls` loop (exceptions of the target are
                        swallowed there; `_prepare_calls` does no DB access and is not a step).
* `delete i`            `delete_calls`: `delete_delayed_calls(id in captured ids)`, iteration over.
* `crash i`             the process of instance `i` dies: its iteration is abandoned; the rows it
                        captured keep `processing = True`.
* `lHasJobs`            `has_scheduled_jobs(key=…, processing=…)` = `get_delayed_calls_count(...) > 0`
                        (always answered from the store).
-/
import Mistral.Model.Sched

namespace Mistral.Sched

structure LRow where
  executeAt : Nat
  processing : Bool
  key : Nat
  vis : Vis
  bad : Bool := false      -- the call's target / serializer cannot be imported: `_prepare_calls` raises
deriving DecidableEq, Repr

inductive LPhase where
  | idle
  | selected (cands : List Nat)          -- ids returned by the select, in order
  | busy (ids todo : List Nat)           -- captured ids; `todo` = the prepared ones still to invoke, in order
deriving DecidableEq, Repr

structure LState where
  clock : Nat
  rows : List LRow
  insts : List (Bool × LPhase)     -- (alive, phase)
  log : List (Nat × Nat × Nat)     -- invocations (job, time, instance), newest first
  caps : List (Nat × Nat × Nat)    -- successful captures (job, time, instance), newest first
deriving DecidableEq, Repr

inductive LStep where
  | schedule (runAfter key tx : Nat)
  | scheduleBad (runAfter key tx : Nat)
  | commit (tx : Nat)
  | rollback (tx : Nat)
  | tick (n : Nat)
  | select (i : Nat)
  | capture (i : Nat)
  | invoke (i : Nat)
  | delete (i : Nat)
  | crash (i : Nat)
deriving DecidableEq, Repr

def lInit (n : Nat) : LState :=
  { clock := 0, rows := [], insts := List.replicate n (true, .idle), log := [], caps := [] }

/-- WHERE clause of `get_delayed_calls_to_start(now + 1)`: `execution_time < now + 1` and
    `processing = False`, over rows visible to the caller -/
def lEligible (clock : Nat) (r : LRow) : Bool :=
  decide (r.vis = .committed) && decide (r.executeAt < clock + 1) && !r.processing

def lEligibleRows (clock : Nat) (rows : List LRow) : List (Nat × Nat × Option Nat) :=
  rows.zipIdx.filterMap fun (r, j) => if lEligible clock r then some (r.executeAt, j, none) else none

/-- ORDER BY execution_time LIMIT batch_size.  Ties are left unspecified by the database; the model
    resolves them as `sortCands` does (the correspondence harness continues with the model's order
    when the real answer differs only among equal execution_time). -/
def lSelect (batch : Option Nat) (clock : Nat) (rows : List LRow) : List Nat :=
  let sorted := sortCands (lEligibleRows clock rows)
  let lim := match batch with
    | none => sorted
    | some b => sorted.take b
  lim.map fun c => c.2.1

/-- `update_delayed_call(id, {processing: True}, query_filter={processing: False})`:
    compare-and-swap of the flag on a row visible to the caller; `none` = no row matched -/
def lCas (rows : List LRow) (id : Nat) : Option (List LRow) :=
  match rows[id]? with
  | some r =>
    if r.vis = .committed ∧ r.processing = false then
      some (rows.set id { r with processing := true })
    else none
  | none => none

/-- the CAS loop of `_capture_calls`: new rows and the ids whose CAS matched, in order -/
def lCaptureAll : List Nat → List LRow → List LRow × List Nat
  | [], rows => (rows, [])
  | j :: cs, rows =>
    match lCas rows j with
    | some rows' => ((lCaptureAll cs rows').1, j :: (lCaptureAll cs rows').2)
    | none => lCaptureAll cs rows

/-- `delete_delayed_calls(id={'in': ids})`: rows that are gone already are not an error -/
def lDelete (ids : List Nat) (rows : List LRow) : List LRow :=
  rows.zipIdx.map fun (r, j) =>
    if ids.contains j && decide (r.vis = .committed) then { r with vis := .deleted } else r

def lEndTx (tx : Nat) (outcome : Vis) (rows : List LRow) : List LRow :=
  rows.map fun r => if r.vis = .uncommitted tx then { r with vis := outcome } else r

def lIsBad (rows : List LRow) (j : Nat) : Bool :=
  match rows[j]? with
  | some r => r.bad
  | none => false

/-- `_prepare_calls`: the captured calls that can be prepared, in order; a call that cannot is
    logged and skipped (it is deleted with the rest of the batch by `delete_calls`) -/
def lGood (rows : List LRow) (ids : List Nat) : List Nat := ids.filter fun j => !lIsBad rows j

def lAnyBad (rows : List LRow) (ids : List Nat) : Bool := ids.any (lIsBad rows)

def lStep (batch : Option Nat) (s : LState) : LStep → LState
  | .schedule ra key tx =>
    { s with rows := s.rows ++ [{ executeAt := s.clock + ra, processing := false, key := key, vis := .uncommitted tx }] }
  | .scheduleBad ra key tx =>
    { s with rows := s.rows ++ [{ executeAt := s.clock + ra, processing := false, key := key, vis := .uncommitted tx,
                                  bad := true }] }
  | .commit tx => { s with rows := lEndTx tx .committed s.rows }
  | .rollback tx => { s with rows := lEndTx tx .rolledBack s.rows }
  | .tick n => { s with clock := s.clock + n }
  | .select i =>
    match s.insts[i]? with
    | some (true, .idle) => { s with insts := s.insts.set i (true, .selected (lSelect batch s.clock s.rows)) }
    | _ => s
  | .capture i =>
    match s.insts[i]? with
    | some (true, .selected cands) =>
      { s with
        rows := (lCaptureAll cands s.rows).1
        caps := ((lCaptureAll cands s.rows).2.map fun j => (j, s.clock, i)).reverse ++ s.caps
        insts := s.insts.set i (true,
          if (lCaptureAll cands s.rows).2 = [] then .idle
          else .busy (lCaptureAll cands s.rows).2 (lGood s.rows (lCaptureAll cands s.rows).2)) }
    | _ => s
  | .invoke i =>
    match s.insts[i]? with
    | some (true, .busy ids (j :: todo)) =>
      { s with log := (j, s.clock, i) :: s.log, insts := s.insts.set i (true, .busy ids todo) }
    | _ => s
  | .delete i =>
    match s.insts[i]? with
    | some (true, .busy ids []) =>
      { s with rows := lDelete ids s.rows, insts := s.insts.set i (true, .idle) }
    | _ => s
  | .crash i =>
    match s.insts[i]? with
    | some _ => { s with insts := s.insts.set i (false, .idle) }
    | none => s

def lRun (batch : Option Nat) (s : LState) : List LStep → LState
  | [] => s
  | e :: es => lRun batch (lStep batch s e) es

/-! ### has_scheduled_jobs (always answered from the store) -/

def lRowMatch (key : Option Nat) (proc : Option Bool) (r : LRow) : Bool :=
  decide (r.vis = .committed) && keyMatch key r.key &&
    (match proc with
     | none => true
     | some p => r.processing == p)

def lHasJobs (s : LState) (key : Option Nat) (proc : Option Bool) : Bool :=
  s.rows.any (lRowMatch key proc)

/-- what the property asks `has_scheduled_jobs(key=k, processing=False)` to be -/
def lPendingTruth (s : LState) (k : Nat) : Bool :=
  s.rows.any fun r => decide (r.vis = .committed) && (r.key == k) && !r.processing

/-! ### log queries -/

def lInvCount (s : LState) (j : Nat) : Nat := (s.log.filter fun e => e.1 == j).length
def lCapCount (s : LState) (j : Nat) : Nat := (s.caps.filter fun e => e.1 == j).length

end Mistral.Sched
