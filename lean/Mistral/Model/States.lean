/- L0: predicates of mistral/workflow/states.py over the regenerated tables. -/
import Mistral.Model.StatesBase
import Mistral.Gen.States
namespace Mistral
open Mistral.Gen.States

def isCompleted (s : St) : Bool := completedStates.contains s
def isRunning (s : St) : Bool := runningStates.contains s
def isPaused (s : St) : Bool := pausedStates.contains s
def isIdle (s : St) : Bool := idleStates.contains s
def isWaiting (s : St) : Bool := waitingStates.contains s
def isCancelled (s : St) : Bool := cancelledStates.contains s
def isSkipped (s : St) : Bool := skippedStates.contains s
def isPausedOrCompleted (s : St) : Bool := isPaused s || isCompleted s
def isPausedOrIdle (s : St) : Bool := isPaused s || isIdle s

/-- `_VALID_TRANSITIONS[from]`; `none` is the KeyError python raises for a state
    that has no entry. -/
def successors (s : St) : Option (List St) := (validTransitions.find? (·.1 == s)).map (·.2)

/-- `is_valid_transition`; `none` = KeyError (undeclared error). -/
def isValidTransition (a b : St) : Option Bool :=
  if a == b then some true else (successors a).map (·.contains b)

end Mistral
