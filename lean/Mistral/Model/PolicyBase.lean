/- L3 base: the names the generated table Mistral/Gen/PolicyOrder.lean is written in
   (policy kinds of mistral/engine/policies.py, hook shapes, schema field types). -/
namespace Mistral.Policy

/-- One kind per factory of `get_policy_factories()`. -/
inductive PolicyKind where
  | pauseBefore | waitBefore | waitAfter | failOn | retry | timeout | concurrency
  deriving Repr, DecidableEq, Inhabited

/-- How a policy class provides `before_task_start` / `after_task_complete`:
    inherited from `TaskPolicy` (= evaluate the public fields + schema type check) or its own
    definition, which does or does not call the base one. -/
inductive Hook where
  | inherited
  | own (callsBase : Bool)
  deriving Repr, DecidableEq

/-- `{"type": "integer", "minimum": 0}` / `{"type": "boolean"}`. -/
inductive FieldType where
  | natural | boolean
  deriving Repr, DecidableEq

end Mistral.Policy
