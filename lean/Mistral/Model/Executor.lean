/-
Decision table of `DefaultExecutor._do_run_action`
(mistral/executors/default_executor.py), as a total function.

Inputs  : the `redelivered` flag, the task's `safe_rerun` flag, what the action does when
          its `run` is called, `action.is_sync()`, whether an action execution id was given,
          and what the engine client does on the first / second `on_action_complete` call.
Outputs : was `action.run` called, the list of ATTEMPTED engine-client calls (kind of the result
          they carry + what the client did), and the class of what `_do_run_action` returns
          (or of the exception that escapes it).

Python structure modelled (line numbers of default_executor.py):
  91  if redelivered and not safe_rerun: return send_error_back(msg)          -- action.run NOT called
  101 try: run the action in a thread; join(timeout); alive -> join(); raise Exception("Timeout")
           result not a Result -> Result(data=result)
  148 except BaseException: return send_error_back(msg)
  157 try: if action_ex_id and (action.is_sync() or result.is_error()):
               client.on_action_complete(id, result, async_=True)
  165 except MistralException: return send_error_back(msg)     -- a SECOND client call
  180 except Exception: (log only)
  191 return result
  send_error_back: if action_ex_id: client.on_action_complete(id, Result(error=msg)); return None
                   else: return Result(error=msg)
An exception raised by the client inside send_error_back is inside no `try` (or inside an
`except` handler) and escapes `_do_run_action`.
-/
namespace Mistral.Executor

/-- what `action.run` does once called -/
inductive Behaviour where
  | okResult        -- returns Result(data=..)
  | errResult       -- returns Result(error=..)
  | cancelResult    -- returns Result(error=.., cancel=True)
  | plainValue      -- returns something that is not a Result
  | raises          -- raises
  | timesOut        -- still running when the timeout expires, finishes later normally
  | timesOutRaises  -- still running when the timeout expires, raises later
  deriving DecidableEq, Repr

/-- what the engine client does when `on_action_complete` is called -/
inductive ClientOutcome where
  | ok          -- returns normally (message handed to the transport)
  | mistralExc  -- raises MistralException
  | otherExc    -- raises any other Exception
  deriving DecidableEq, Repr

/-- class of a result carried by a message / returned -/
inductive Kind where
  | ok | error | cancel
  deriving DecidableEq, Repr

/-- one attempted `engine_client.on_action_complete` call -/
structure Call where
  kind : Kind
  outcome : ClientOutcome
  deriving DecidableEq, Repr

/-- what `_do_run_action` hands back to its caller -/
inductive Returned where
  | none                 -- returns None
  | result (k : Kind)    -- returns a Result of that class
  | raisedMistral        -- a MistralException escapes
  | raisedOther          -- another exception escapes
  deriving DecidableEq, Repr

structure Input where
  redelivered : Bool
  safeRerun : Bool
  beh : Behaviour
  isSync : Bool
  idPresent : Bool
  c1 : ClientOutcome     -- outcome of the first client call, if one is made
  c2 : ClientOutcome     -- outcome of the second client call, if one is made
  deriving DecidableEq, Repr

structure Output where
  ran : Bool
  calls : List Call
  ret : Returned
  deriving DecidableEq, Repr

/-- the Result the "run action" block ends with; `none` = the block left through
    `except BaseException` -/
def resultOf : Behaviour → Option Kind
  | .okResult => some .ok
  | .errResult => some .error
  | .cancelResult => some .cancel
  | .plainValue => some .ok
  | .raises => none
  | .timesOut => none
  | .timesOutRaises => none

def raisedBy : ClientOutcome → Returned
  | .ok => .none
  | .mistralExc => .raisedMistral
  | .otherExc => .raisedOther

/-- `send_error_back` -/
def sendErrorBack (idPresent : Bool) (c : ClientOutcome) : List Call × Returned :=
  if idPresent then ([⟨.error, c⟩], raisedBy c) else ([], .result .error)

/-- `_do_run_action` -/
def doRunAction (i : Input) : Output :=
  if i.redelivered && !i.safeRerun then
    let r := sendErrorBack i.idPresent i.c1
    { ran := false, calls := r.1, ret := r.2 }
  else
    match resultOf i.beh with
    | none =>
      let r := sendErrorBack i.idPresent i.c1
      { ran := true, calls := r.1, ret := r.2 }
    | some k =>
      if i.idPresent && (i.isSync || k == .error) then
        match i.c1 with
        | .ok => { ran := true, calls := [⟨k, .ok⟩], ret := .result k }
        | .otherExc => { ran := true, calls := [⟨k, .otherExc⟩], ret := .result k }
        | .mistralExc =>
          let r := sendErrorBack true i.c2
          { ran := true, calls := ⟨k, .mistralExc⟩ :: r.1, ret := r.2 }
      else
        { ran := true, calls := [], ret := .result k }

/-- the calls the client accepted (returned normally) -/
def delivered (o : Output) : List Call := o.calls.filter (fun c => c.outcome == .ok)

/-- What the caller of `run_action` learns as the action's result: the message(s) the client
    accepted when an action execution id was given, else the returned Result. -/
def reports (i : Input) (o : Output) : List Kind :=
  if i.idPresent then (delivered o).map (·.kind)
  else match o.ret with
    | .result k => [k]
    | _ => []

/-- `ExecutorServer.run_action`: `redelivered = rpc_ctx.redelivered or False`, where
    `rpc_ctx.redelivered` is `None`, `False` or `True` -/
def serverRedelivered : Option Bool → Bool
  | some b => b
  | none => false

def allBehaviours : List Behaviour :=
  [.okResult, .errResult, .cancelResult, .plainValue, .raises, .timesOut, .timesOutRaises]
def allOutcomes : List ClientOutcome := [.ok, .mistralExc, .otherExc]

end Mistral.Executor
