/-
Model of Mistral's tenancy layer (mistral/db/v2/sqlalchemy/api.py, db/utils.py
check_db_obj_access, db/sqlalchemy/model_base.py _set_project_id, the resource-member
functions and MembersController.post).

The per-function behaviour is NOT written per function: `exec` is one semantics
parameterised by the flags that translate/db_access.py extracts for each db-api function
(`FnInfo`: lookup mode, key, mutation, owner check ...) and by the translated clause
flags of `_secure_query`, `check_db_obj_access`, `_set_project_id` (`SecureSpec`,
`OwnerSpec`, `ForcingSpec`).  Core Lean only.
-/
namespace Mistral.Access

inductive Scope | priv | pub
  deriving DecidableEq, Repr

inductive Status | pending | accepted | rejected
  deriving DecidableEq, Repr

/-- a row of a tenant table (`MistralSecureModelBase` subclass) -/
structure Resource where
  rtype : String        -- model class name
  id : Nat
  name : String
  project : Nat         -- project_id (owner)
  scope : Scope
  isSystem : Bool
  data : Nat            -- stands for every other column
  deriving DecidableEq, Repr

/-- a row of resource_members_v2 -/
structure Member where
  resId : Nat
  resType : String      -- 'workflow' | 'workbook'
  owner : Nat           -- project_id column: the project that created the share
  member : Nat          -- member_id
  status : Status
  deriving DecidableEq, Repr

structure Actor where
  project : Nat
  isAdmin : Bool
  deriving DecidableEq, Repr

structure Db where
  resources : List Resource
  members : List Member
  deriving DecidableEq, Repr

/-! ## translated flags -/

inductive Kind | get | load | list | count | create | update | delete | deleteAll
  | createOrUpdate | other | infra
  deriving DecidableEq, Repr

inductive Key | id | name | ident | filters | none | member | special
  deriving DecidableEq, Repr

/-- how rows are looked up: `_secure_query`; the same with the admin override
    (`insecure = ctx().is_admin or insecure`); with a caller-supplied `insecure`; plain
    `model_query` -/
inductive ReadMode | secure | admin | adminOrParam | param | insecure | none
  deriving DecidableEq, Repr

inductive Mut | none | create | update | delete | cas
  deriving DecidableEq, Repr

structure FnInfo where
  name : String
  model : String
  kind : Kind
  key : Key
  read : ReadMode
  mutn : Mut
  bulk : Bool          -- the mutation is a query-level delete()/update() on every matching row
  ownerCheck : Bool    -- check_db_obj_access / check_db_obj_owner dominates the first mutation
  sysCheck : Bool      -- ... and it is check_db_obj_access (also protects is_system rows)
  notFound : Bool      -- raises DBEntityNotFoundError when nothing matches
  reachable : Bool     -- used from mistral/api, mistral/services, std_functions, rest_utils
  known : Bool         -- false: the translator could not classify it
  deriving DecidableEq, Repr

structure SecureSpec where
  ownProject : Bool
  publicScope : Bool
  sharedIds : Bool
  accType : Bool
  accStatus : Bool
  accMember : Bool
  shareTypes : List (String × String)
  secureModels : List String
  deriving Repr

structure OwnerSpec where
  adminExempt : Bool
  projectMismatch : Bool
  onlyIfNotPublic : Bool
  sysAdminExempt : Bool
  sysFlag : Bool
  systemModels : List String
  deriving Repr

structure ForcingSpec where
  setForced : Bool
  defaultCaller : Bool
  hooksRegistered : Bool
  unhooked : List String   -- secure models defined after register_secure_model_hooks() ran
  deriving Repr

/-! ## the statement's notion of visibility (independent of the code) -/

/-- resource types that can be shared through a membership, with the type tag used in
    resource_members_v2 -/
def shareTag (rtype : String) : Option String :=
  if rtype = "WorkflowDefinition" then some "workflow"
  else if rtype = "Workbook" then some "workbook"
  else none

def Grants (p : Nat) (tag : String) (r : Resource) (m : Member) : Prop :=
  m.resId = r.id ∧ m.resType = tag ∧ m.member = p ∧ m.status = .accepted

def SharedWith (db : Db) (p : Nat) (r : Resource) : Prop :=
  ∃ tag, shareTag r.rtype = some tag ∧ ∃ m ∈ db.members, Grants p tag r m

/-- "own, public, or shared through an accepted membership" -/
def Visible (db : Db) (a : Actor) (r : Resource) : Prop :=
  r.project = a.project ∨ r.scope = .pub ∨ SharedWith db a.project r

/-! ## `_secure_query` as translated -/

def memberGrants (s : SecureSpec) (a : Actor) (tag : String) (r : Resource) (m : Member) : Bool :=
  m.resId == r.id && (!s.accType || m.resType == tag) &&
  (!s.accStatus || m.status == .accepted) && (!s.accMember || m.member == a.project)

def secureVisible (s : SecureSpec) (db : Db) (a : Actor) (r : Resource) : Bool :=
  if s.secureModels.contains r.rtype then
    (s.ownProject && r.project == a.project) || (s.publicScope && r.scope == .pub) ||
    (s.sharedIds && match s.shareTypes.lookup r.rtype with
      | some tag => db.members.any (memberGrants s a tag r)
      | none => false)
  else true

/-- does the function's query let the row through -/
def allowed (s : SecureSpec) (fn : FnInfo) (db : Db) (a : Actor) (insecureArg : Bool)
    (r : Resource) : Bool :=
  match fn.read with
  | .secure => secureVisible s db a r
  | .admin => a.isAdmin || secureVisible s db a r
  | .adminOrParam => a.isAdmin || insecureArg || secureVisible s db a r
  | .param => insecureArg || secureVisible s db a r
  | .insecure => true
  | .none => false

inductive KeyArg
  | byId (n : Nat)
  | byName (s : String)
  | filters (project : Option Nat) (scope : Option Scope) (name : Option String)
  deriving DecidableEq, Repr

def optMatch {α} [BEq α] (o : Option α) (v : α) : Bool :=
  match o with
  | none => true
  | some x => x == v

def matchesKey (k : Key) (ka : KeyArg) (r : Resource) : Bool :=
  match k, ka with
  | .id, .byId n => r.id == n
  | .name, .byName s => r.name == s
  | .ident, .byId n => r.id == n
  | .ident, .byName s => r.name == s
  | .filters, .filters p s n => optMatch p r.project && optMatch s r.scope && optMatch n r.name
  | .none, .filters p s n => optMatch p r.project && optMatch s r.scope && optMatch n r.name
  | _, _ => false

structure Args where
  key : KeyArg
  insecure : Bool := false
  pick : Nat := 0                    -- which candidate `.first()` returned (impl's choice)
  newData : Nat := 0
  newScope : Option Scope := none
  givenProject : Option Nat := none  -- `project_id` in the values dict
  newId : Nat := 0
  newName : String := ""
  deriving Repr

inductive Outcome
  | rows (ids : List Nat)   -- list result, or the candidates `.first()` chooses from
  | count (n : Nat)
  | nothing                 -- load_* found nothing
  | notFound
  | notAllowed
  | systemProtected
  | done
  | created (id : Nat) (project : Nat)
  | unsupported
  deriving DecidableEq, Repr

/-- rows the function's lookup yields -/
def cands (s : SecureSpec) (fn : FnInfo) (db : Db) (a : Actor) (args : Args) : List Resource :=
  db.resources.filter fun r =>
    r.rtype == fn.model && matchesKey fn.key args.key r && allowed s fn db a args.insecure r

def target (cs : List Resource) (pick : Nat) : Option Resource :=
  match cs.find? (fun r => r.id == pick) with
  | some r => some r
  | none => cs.head?

/-- `check_db_obj_access` as translated -/
def ownerGuard (o : OwnerSpec) (sys : Bool) (a : Actor) (t : Resource) : Option Outcome :=
  if o.projectMismatch && !(o.adminExempt && a.isAdmin) && t.project != a.project
      && !(o.onlyIfNotPublic && t.scope == .pub) then some .notAllowed
  else if sys && o.sysFlag && !(o.sysAdminExempt && a.isAdmin) && o.systemModels.contains t.rtype
      && t.isSystem then some .systemProtected
  else none

/-- project of a row whose `project_id` attribute is (not) set by the caller -/
def projectOnSet (f : ForcingSpec) (rtype : String) (a : Actor) (given : Nat) : Nat :=
  if f.setForced && f.hooksRegistered && !f.unhooked.contains rtype then a.project else given

def updated (f : ForcingSpec) (a : Actor) (args : Args) (t : Resource) : Resource :=
  { t with data := args.newData,
           name := if args.newName = "" then t.name else args.newName,
           scope := args.newScope.getD t.scope,
           project := match args.givenProject with
             | some p => projectOnSet f t.rtype a p
             | none => t.project }

def createdProject (f : ForcingSpec) (rtype : String) (a : Actor) (args : Args) : Nat :=
  match args.givenProject with
  | some p => projectOnSet f rtype a p
  | none => if f.defaultCaller then a.project else 0

def missing (fn : FnInfo) : Outcome := if fn.notFound then .notFound else .nothing

def doCreate (f : ForcingSpec) (fn : FnInfo) (db : Db) (a : Actor) (args : Args) : Outcome × Db :=
  let p := createdProject f fn.model a args
  let row : Resource :=
    { rtype := fn.model, id := args.newId, name := args.newName, project := p,
      scope := args.newScope.getD .priv, isSystem := false, data := args.newData }
  (.created args.newId p, { db with resources := db.resources ++ [row] })

def doUpdate (s : SecureSpec) (o : OwnerSpec) (f : ForcingSpec) (fn : FnInfo) (db : Db) (a : Actor)
    (args : Args) : Outcome × Db :=
  let cs := cands s fn db a args
  if fn.bulk then
    if cs.isEmpty && fn.notFound then (.notFound, db)
    else (.done, { db with resources := db.resources.map fun r => if cs.contains r then updated f a args r else r })
  else match target cs args.pick with
    | none => (missing fn, db)
    | some t =>
      match (if fn.ownerCheck then ownerGuard o fn.sysCheck a t else none) with
      | some e => (e, db)
      | none => (.done, { db with resources := db.resources.map fun r => if r == t then updated f a args r else r })

def doDelete (s : SecureSpec) (o : OwnerSpec) (fn : FnInfo) (db : Db) (a : Actor) (args : Args) :
    Outcome × Db :=
  let cs := cands s fn db a args
  if fn.bulk then
    if cs.isEmpty && fn.notFound then (.notFound, db)
    else (.done, { db with resources := db.resources.filter fun r => !cs.contains r })
  else match target cs args.pick with
    | none => (missing fn, db)
    | some t =>
      match (if fn.ownerCheck then ownerGuard o fn.sysCheck a t else none) with
      | some e => (e, db)
      | none => (.done, { db with resources := db.resources.filter fun r => !(r == t) })

/-- one db-api call -/
def exec (s : SecureSpec) (o : OwnerSpec) (f : ForcingSpec) (fn : FnInfo) (db : Db) (a : Actor)
    (args : Args) : Outcome × Db :=
  match fn.kind with
  | .get | .load =>
    let cs := cands s fn db a args
    (if cs.isEmpty then missing fn else .rows (cs.map (·.id)), db)
  | .list => (.rows ((cands s fn db a args).map (·.id)), db)
  | .count => (.count (cands s fn db a args).length, db)
  | .create => doCreate f fn db a args
  | .update => doUpdate s o f fn db a args
  | .delete | .deleteAll => doDelete s o fn db a args
  | .createOrUpdate =>
    if (cands s fn db a args).isEmpty then doCreate f fn db a args else doUpdate s o f fn db a args
  | .other | .infra => (.unsupported, db)

def resultIds : Outcome → List Nat
  | .rows ids => ids
  | _ => []

/-! ## resource members (hand-modelled: `_get_criterion`, `*_resource_member`,
    MembersController.post; the code's AST hash is pinned in Props) -/

/-- MembersController.post: look the workflow up with get_workflow_definition (by id),
    check_db_obj_access (owner or admin only), refuse a non-private one, insert a pending member row
    owned by the caller -/
def share (s : SecureSpec) (o : OwnerSpec) (getWf : FnInfo) (db : Db) (a : Actor)
    (resId member : Nat) : Outcome × Db :=
  match (cands s getWf db a { key := .byId resId }).head? with
  | none => (.notFound, db)
  | some r =>
    match ownerGuard o true a r with
    | some e => (e, db)
    | none =>
    if r.scope != .priv then (.unsupported, db)
    else
      let row : Member :=
        { resId := resId, resType := "workflow", owner := a.project, member := member, status := .pending }
      (.done, { db with members := db.members ++ [row] })

/-- update_resource_member(resource_id, res_type, member_id, {status}) -/
def memberUpdate (db : Db) (a : Actor) (resId : Nat) (resType : String) (member : Nat)
    (st : Status) : Outcome × Db :=
  if member != a.project then (.notFound, db)
  else
    let hit := fun (m : Member) => m.resType == resType && m.member == a.project && m.resId == resId
    match db.members.find? hit with
    | none => (.notFound, db)
    | some t => (.done, { db with members := db.members.map fun m => if m == t then { m with status := st } else m })

/-- delete_resource_member(resource_id, res_type, member_id) -/
def memberDelete (db : Db) (a : Actor) (resId : Nat) (resType : String) (member : Nat) :
    Outcome × Db :=
  let hit := fun (m : Member) =>
    m.resType == resType && m.owner == a.project && m.resId == resId && m.member == member
  if db.members.any hit then (.done, { db with members := db.members.filter fun m => !hit m })
  else (.notFound, db)

/-- get_resource_members(resource_id, res_type): rows the caller created or is the member of -/
def memberList (db : Db) (a : Actor) (resId : Nat) (resType : String) : List Member :=
  db.members.filter fun m =>
    m.resType == resType && m.resId == resId && (m.owner == a.project || m.member == a.project)

/-- get_resource_member(resource_id, res_type, member_id) -/
def memberGet (db : Db) (a : Actor) (resId : Nat) (resType : String) (member : Nat) : List Member :=
  db.members.filter fun m =>
    m.resType == resType && m.resId == resId &&
    ((m.owner == a.project && m.member == member) ||
     ((member == a.project) && m.member == a.project))

end Mistral.Access
