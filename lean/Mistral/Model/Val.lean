/- JSON-like values and association-list dictionaries (python dicts: unique keys; the order
   of keys is irrelevant to the implementation's observable behaviour and is canonicalised
   by the harness before comparing). Core Lean only. -/
namespace Mistral

inductive Val where
  | null
  | bool (b : Bool)
  | num (n : Int)
  | str (s : String)
  | list (l : List Val)
  | obj (kv : List (String × Val))
  deriving Repr, Inhabited

abbrev Dict := List (String × Val)

namespace Dict
def get? (d : List (String × α)) (k : String) : Option α :=
  match d with
  | [] => none
  | (k', v) :: rest => if k' == k then some v else get? rest k

def has (d : List (String × α)) (k : String) : Bool := (get? d k).isSome

/-- python `d[k] = v`: replace in place, else append. -/
def set (d : List (String × α)) (k : String) (v : α) : List (String × α) :=
  match d with
  | [] => [(k, v)]
  | (k', v') :: rest => if k' == k then (k, v) :: rest else (k', v') :: set rest k v

def erase (d : List (String × α)) (k : String) : List (String × α) := d.filter (·.1 != k)

/-- python `left.update(right)` -/
def update (l r : List (String × α)) : List (String × α) := r.foldl (fun acc (k, v) => set acc k v) l
end Dict

def Val.isObj : Val → Bool
  | .obj _ => true
  | _ => false

end Mistral
