/- L5 fragment "sub-workflows" (property C09).  Core Lean only.

   What is modelled, function by function (mistral @ /repo):
   * engine/utils.py        resolve_workflow_definition   -> rstripChars / wbNameOf / candidates / lookupDef / resolve
   * engine/actions.py      WorkflowAction.schedule       -> rootOf / baseParams / splitInput / schedule
   * rpc/clients.py + engine/default_engine.py + engine/workflow_handler.py  start_workflow  -> startParams
   * engine/workflows.py    _create_execution, _get_environment -> getEnvironment / createExecution
   * engine/workflows.py    _send_result_to_parent_workflow     -> sendResult
   * engine/default_engine.py on_action_complete(wf_action=True) -> engineResult
   * engine/tasks.py        RegularTask.on_action_complete + Task.complete guard -> taskOnChildComplete
   * engine/tasks.py        WithItemsTask._get_final_state  -> withItemsFinalState
   * workflow/data_flow.py  get_task_execution_result, get_workflow_environment_dict -> taskResult / envDict
   * a small event model of an execution tree (World / step) for the hand-off protocol. -/
import Mistral.Model.Val
import Mistral.Model.States
namespace Mistral.SubWf
open Mistral

/-! ## (c) name resolution -/

/-- python `s.rstrip(chars)`: `chars` is a SET of characters, stripped from the right end. -/
def rstripChars (s chars : List Char) : List Char :=
  (s.reverse.dropWhile (fun c => chars.contains c)).reverse

/-- the workbook name of the parent (fix 52ef6286): when the execution name ends with "." ++ spec name it
    is cut as a suffix (`parent_wf_name[:-len(spec) - 1]`); otherwise the old expression
    `parent_wf_name.rstrip(parent_wf_spec_name)[:-1]` (python `''[:-1] == ''`). -/
def wbNameOf (parentWfName parentSpecName : List Char) : List Char :=
  if ('.' :: parentSpecName).isSuffixOf parentWfName
  then parentWfName.take (parentWfName.length - parentSpecName.length - 1)
  else (rstripChars parentWfName parentSpecName).dropLast

/-- `"%s.%s" % (wb_name, wf_spec_name)` -/
def fullName (wb spec : List Char) : List Char := wb ++ '.' :: spec

/-- the names looked up, in order: workbook-relative (only when the parent's execution name differs
    from its spec name, i.e. the parent lives in a workbook) then global. -/
def candidates (parentWfName parentSpecName wfSpecName : List Char) : List (List Char) :=
  (if parentWfName != parentSpecName
   then [fullName (wbNameOf parentWfName parentSpecName) wfSpecName] else [])
  ++ [wfSpecName]

/-- `db_api.load_workflow_definition(name, namespace)`: name match, namespace in `[ns, '']`,
    non-default namespace preferred.  A definition is `(name, namespace)`. -/
def lookupDef (defs : List (List Char × String)) (name : List Char) (ns : String) :
    Option (List Char × String) :=
  if defs.contains (name, ns) then some (name, ns)
  else if defs.contains (name, "") then some (name, "")
  else none

/-- first candidate that is found; `none` = WorkflowException "Failed to find workflow". -/
def resolveIn (defs : List (List Char × String)) (ns : String) :
    List (List Char) → Option (List Char × String)
  | [] => none
  | c :: cs => match lookupDef defs c ns with
    | some d => some d
    | none => resolveIn defs ns cs

def resolve (defs : List (List Char × String)) (parentWfName parentSpecName : List Char)
    (ns : String) (wfSpecName : List Char) : Option (List Char × String) :=
  resolveIn defs ns (candidates parentWfName parentSpecName wfSpecName)

/-- what the code is meant to compute: the parent is `wb ++ "." ++ spec`, the first candidate is
    `wb ++ "." ++ child`. -/
def intendedCandidates (wb wfSpecName : List Char) : List (List Char) :=
  [fullName wb wfSpecName, wfSpecName]

/-! ## (d) root id -/

/-- python truthiness of the values that occur here -/
def falsy : Val → Bool
  | .null => true
  | .bool b => !b
  | .num n => n == 0
  | .str s => s.isEmpty
  | .list l => l.isEmpty
  | .obj kv => kv.isEmpty

/-- `parent_wf_ex.root_execution_id or parent_wf_ex.id` -/
def rootOf (parentRoot : Option String) (parentId : String) : String :=
  match parentRoot with
  | some r => if r.isEmpty then parentId else r
  | none => parentId

/-! ## (b) input splitting -/

inductive Err where
  | keyError        -- parent params has no 'namespace' (python KeyError, undeclared)
  | typeError       -- keyword clash in the rpc call (python TypeError, undeclared)
  | inputError      -- InputException (declared)
  | envByName       -- env given by name: database lookup, not modelled
  deriving Repr, DecidableEq

/-- keys of the `wf_params = {...}` literal (tied to the source by Gen.SubWfFacts.scheduleBaseKeys) -/
def baseKeys : List String := ["root_execution_id", "task_execution_id", "index", "namespace"]

/-- the reserved parameters WorkflowAction.schedule sets BEFORE it moves undeclared input keys -/
def baseParams (parentParams : Dict) (rootId taskId : String) (index : Nat) : Except Err Dict :=
  match Dict.get? parentParams "namespace" with
  | none => .error .keyError
  | some ns =>
    let p : Dict := [("root_execution_id", .str rootId), ("task_execution_id", .str taskId),
                     ("index", .num index), ("namespace", ns)]
    match Dict.get? parentParams "notify" with
    | some n => .ok (Dict.set p "notify" n)
    | none => .ok p

/-- one iteration of `for k, v in list(input_dict.items()): if k not in wf_spec.get_input(): ...` -/
def splitStep (declared : List String) (acc : Dict × Dict) (kv : String × Val) : Dict × Dict :=
  if declared.contains kv.1 then acc
  else (Dict.erase acc.1 kv.1, Dict.set acc.2 kv.1 kv.2)

/-- the loop without the reserved-name check: (child input, child params); `base` = the reserved params
    already assigned (an undeclared key of the same name would overwrite them). -/
def moveUndeclared (declared : List String) (input : Dict) (base : Dict) : Dict × Dict :=
  input.foldl (splitStep declared) (input, base)

/-- names an undeclared input key must not have (fix f99833f3; tied to the source by
    Gen.SubWfFacts.reservedInputKeys): the parameters that link the child to its parent -/
def reservedKeys : List String := ["root_execution_id", "task_execution_id", "index", "namespace"]

/-- some undeclared input key has a reserved name -/
def collides (declared : List String) (input : Dict) : Bool :=
  input.any (fun kv => !declared.contains kv.1 && reservedKeys.contains kv.1)

/-- the loop of WorkflowAction.schedule: InputException (declared; the task fails) when an undeclared
    key has a reserved name, else the undeclared keys are moved to the params. -/
def splitInput (declared : List String) (input : Dict) (base : Dict) : Except Err (Dict × Dict) :=
  if collides declared input then .error .inputError else .ok (moveUndeclared declared input base)

/-- keyword parameters of `EngineClient.start_workflow`: a param of the same name makes the call
    `start_workflow(id, ns, None, input, desc, async_=True, **wf_params)` a TypeError. -/
def rpcKeywords : List String :=
  ["wf_identifier", "wf_namespace", "wf_ex_id", "wf_input", "description", "async_"]

/-- params as `Workflow.start` receives them: via rpc `DefaultEngine.start_workflow` overrides
    `namespace` with the definition's namespace when that is non-empty; in-process
    `wf_handler.start_workflow` only fills a missing one. -/
def startParams (viaRpc : Bool) (defNs : String) (params : Dict) : Except Err Dict :=
  if viaRpc then
    if params.any (fun kv => rpcKeywords.contains kv.1) then .error .typeError
    else
      let p := if defNs.isEmpty then params else Dict.set params "namespace" (.str defNs)
      .ok (if Dict.has p "namespace" then p else Dict.set p "namespace" (.str defNs))
  else
    .ok (if Dict.has params "namespace" then params else Dict.set params "namespace" (.str defNs))

/-- `_get_environment` for literal environments (no expression strings inside) -/
def getEnvironment (params : Dict) : Except Err Val :=
  match Dict.get? params "env" with
  | none => .ok (.obj [])
  | some e =>
    if falsy e then .ok (.obj [])
    else match e with
      | .obj kv => .ok (.obj kv)
      | .str _ => .error .envByName
      | _ => .error .inputError

/-- the columns `_create_execution` fills from params -/
structure ExecRec where
  input : Dict
  params : Dict
  taskExecId : Val     -- params.get('task_execution_id')
  rootExecId : Val     -- params.get('root_execution_id')
  index : Val          -- params.get('index', 0)
  deriving Repr

def createExecution (input params : Dict) : Except Err ExecRec := do
  let env ← getEnvironment params
  pure { input := input, params := Dict.set params "env" env,
         taskExecId := (Dict.get? params "task_execution_id").getD .null,
         rootExecId := (Dict.get? params "root_execution_id").getD .null,
         index := (Dict.get? params "index").getD (.num 0) }

/-- WorkflowAction.schedule up to the created child row (input defaults / validation excluded). -/
def schedule (parentParams : Dict) (parentRoot : Option String) (parentId taskId : String)
    (index : Nat) (declared : List String) (input : Dict) (viaRpc : Bool) (defNs : String) :
    Except Err ExecRec := do
  let base ← baseParams parentParams (rootOf parentRoot parentId) taskId index
  let (inp, par) ← splitInput declared input base
  let par ← startParams viaRpc defNs par
  createExecution inp par

/-! ## (a) child final state -> parent task -/

/-- mistral_lib `Result` as far as the engine reads it -/
structure Result where
  data : Val := .null
  error : Option String := none
  cancel : Bool := false
  deriving Repr

def Result.isCancel (r : Result) : Bool := r.cancel
def Result.isError (r : Result) : Bool := r.error.isSome && !r.isCancel
def Result.isSuccess (r : Result) : Bool := !r.isError && !r.isCancel

/-- state a result stands for (`Action.complete` of a regular action) -/
def resultState (r : Result) : St :=
  if r.isSuccess then .SUCCESS else if r.isCancel then .CANCELLED else .ERROR

/-- `_send_result_to_parent_workflow`: payload of the message (`none` payload = "load the output
    from the row"); outer `none` = RuntimeError (not a final state). -/
def sendResult (s : St) (stateInfo : Option String) (defaultMsg : String) : Option (Option Result) :=
  let msg := match stateInfo with
    | some m => if m.isEmpty then defaultMsg else m
    | none => defaultMsg
  match s with
  | .SUCCESS => some none
  | .ERROR => some (some { error := some msg })
  | .CANCELLED => some (some { error := some msg, cancel := true })
  | _ => none

/-- `DefaultEngine.on_action_complete(wf_action=True)`: `if result is None: Result(data=output)` -/
def engineResult (payload : Option Result) (childOutput : Val) : Result :=
  match payload with
  | some r => r
  | none => { data := childOutput }

/-- `RegularTask.on_action_complete` for a workflow child: the new task state is the CHILD ROW's
    state; `Task.complete` ignores the call when the task is already completed.  Returns
    (new task state, did the completion logic run). -/
def taskOnChildComplete (taskState childState : St) : St × Bool :=
  if isCompleted taskState then (taskState, false) else (childState, true)

/-- the parent task state prescribed for a finished child (identity on final states) -/
def parentState (child : St) : Option St :=
  match child with
  | .SUCCESS => some .SUCCESS
  | .ERROR => some .ERROR
  | .CANCELLED => some .CANCELLED
  | _ => none

/-- a child row as `get_task_execution_result` / with-items bookkeeping read it -/
structure ChildRow where
  index : Nat
  state : St
  accepted : Bool
  output : Val
  deriving Repr

/-- stable insertion by index (python `list.sort(key=index)` is stable) -/
def insertByIndex (c : ChildRow) : List ChildRow → List ChildRow
  | [] => [c]
  | d :: ds => if c.index < d.index then c :: d :: ds else d :: insertByIndex c ds

def sortByIndex (l : List ChildRow) : List ChildRow := l.foldr insertByIndex []

/-- `data_flow.get_task_execution_result` for a task whose executions are workflow executions -/
def taskResult (withItems : Bool) (children : List ChildRow) : Val :=
  let rs := ((sortByIndex children).filter (·.accepted)).map (·.output)
  if withItems then .list rs
  else match rs with
    | [r] => r
    | _ => .list rs

/-- `WithItemsTask._get_final_state` -/
def withItemsFinalState (children : List ChildRow) : St :=
  if children.any (fun c => c.accepted && c.state == .CANCELLED) then .CANCELLED
  else if children.any (fun c => c.accepted && c.state == .ERROR) then .ERROR
  else .SUCCESS

/-! ## (e) execution tree and the hand-off protocol -/

structure Exec where
  parentTask : Option Nat      -- index into World.tasks
  root : Option Nat            -- index into World.execs (root_execution_id)
  ns : String                  -- params['namespace']
  env : Dict                   -- params['env'] of THIS execution
  state : St
  output : Val
  accepted : Bool
  deriving Repr

structure PTask where
  wf : Nat                     -- owning execution
  state : St
  child : Option Nat           -- the sub-workflow execution it started (plain task)
  continued : Nat              -- how many times the completion logic (continue_workflow) ran
  result : Val
  deriving Repr

/-- `sent` = log of every registration of `_send_result` (child index), never shrinks: deliveries
    may happen any number of times and in any order (duplicates, redelivery). -/
structure World where
  execs : List Exec
  tasks : List PTask
  sent : List Nat
  deriving Repr

inductive Ev where
  | newTask (wf : Nat)                                -- a RUNNING execution creates a sub-workflow task
  | spawn (task : Nat) (env : Dict)                   -- WorkflowAction.schedule (env = child's own 'env' param)
  | finish (child : Nat) (s : St) (out : Val)         -- child reaches a final state (set_state CAS)
  | deliver (child : Nat)                             -- on_action_complete(child, wf_action=True)
  deriving Repr

def init (ns : String) (env : Dict) : World :=
  { execs := [{ parentTask := none, root := none, ns := ns, env := env, state := .RUNNING,
                output := .null, accepted := false }],
    tasks := [], sent := [] }

def isFinal (s : St) : Bool := s == .SUCCESS || s == .ERROR || s == .CANCELLED

/-- `root_execution_id or id` on indices -/
def rootIdx (e : Exec) (i : Nat) : Nat := e.root.getD i

def doNewTask (w : World) (wf : Nat) : World :=
  { w with tasks := w.tasks ++ [{ wf := wf, state := .RUNNING, child := none, continued := 0,
                                  result := .null }] }

def doSpawn (w : World) (t : Nat) (tk : PTask) (p : Exec) (env : Dict) : World :=
  { w with
    execs := w.execs ++ [{ parentTask := some t, root := some (rootIdx p tk.wf), ns := p.ns,
                           env := env, state := .RUNNING, output := .null, accepted := false }],
    tasks := w.tasks.set t { tk with child := some w.execs.length } }

def doFinish (w : World) (c : Nat) (e : Exec) (s : St) (out : Val) : World :=
  { w with
    execs := w.execs.set c { e with state := s, output := out, accepted := true },
    sent := if e.parentTask.isSome then w.sent ++ [c] else w.sent }

def doDeliver (w : World) (t : Nat) (tk : PTask) (e : Exec) : World :=
  { w with tasks := w.tasks.set t { tk with state := e.state, continued := tk.continued + 1,
                                            result := e.output } }

def step (w : World) : Ev → World
  | .newTask wf =>
    match w.execs[wf]? with
    | some e => if e.state == .RUNNING then doNewTask w wf else w
    | none => w
  | .spawn t env =>
    match w.tasks[t]? with
    | some tk =>
      match tk.child, w.execs[tk.wf]? with
      | none, some p => if tk.state == .RUNNING then doSpawn w t tk p env else w
      | _, _ => w
    | none => w
  | .finish c s out =>
    match w.execs[c]? with
    | some e =>
      -- set_state: valid transition + CAS on the current state; the root (no parent task)
      -- registers nothing
      if e.state == .RUNNING && isFinal s then doFinish w c e s out else w
    | none => w
  | .deliver c =>
    if w.sent.contains c then
      match w.execs[c]? with
      | some e =>
        match e.parentTask with
        | some t =>
          match w.tasks[t]? with
          | some tk =>
            -- RegularTask.on_action_complete -> Task.complete: ignored when already completed
            if (taskOnChildComplete tk.state e.state).2 then doDeliver w t tk e else w
          | none => w
        | none => w
      | none => w
    else w

def run (w : World) (evs : List Ev) : World := evs.foldl step w

/-- `get_workflow_environment_dict`: recursion through `root_execution`; fuel = python recursion. -/
def envDict (w : World) : Nat → Nat → Option Dict
  | 0, _ => none
  | fuel + 1, i =>
    match w.execs[i]? with
    | none => some []                       -- `if not wf_ex: return {}`
    | some e =>
      match e.root with
      | some r => envDict w fuel r
      | none => some e.env

/-! ## (f) the inner rerun: `Workflow.rerun` of a task inside a failed / cancelled sub-workflow

`_recursive_rerun()`: `set_state(RUNNING)` on the execution — which writes
`accepted = is_completed(RUNNING) = False` — then, through `wf_ex.task_execution_id`, the same on the
parent execution and `mark_task_running` on the parent task, up to the root. -/

/-- the events of `step` plus the inner rerun of (a task of) execution `c` -/
inductive EvR where
  | base (ev : Ev)
  | rerun (c : Nat)
  deriving Repr

/-- `_recursive_rerun` from execution `c` upwards (fuel = the python recursion through the parents) -/
def reopen : Nat → World → Nat → World
  | 0, w, _ => w
  | fuel + 1, w, c =>
    match w.execs[c]? with
    | none => w
    | some e =>
      -- Workflow.set_state(RUNNING): state + `accepted = is_completed(state)`
      let w1 := { w with execs := w.execs.set c { e with state := .RUNNING, accepted := false } }
      match e.parentTask with
      | none => w1
      | some t =>
        match w1.tasks[t]? with
        | none => w1
        | some tk =>
          -- parent_wf._recursive_rerun(), then mark_task_running(parent_task_ex)
          let w2 := reopen fuel w1 tk.wf
          { w2 with tasks := w2.tasks.set t { tk with state := .RUNNING } }

def stepR (w : World) : EvR → World
  | .base ev => step w ev
  | .rerun c =>
    match w.execs[c]? with
    | some e =>
      -- only a failed or cancelled execution has a task to rerun
      if e.state == .ERROR || e.state == .CANCELLED then reopen (w.execs.length + 1) w c else w
    | none => w

def runR (w : World) (evs : List EvR) : World := evs.foldl stepR w

end Mistral.SubWf
