/-
Model of the cron-trigger protocol (C17).  Core Lean only.

Code modelled:
* mistral/services/periodic.py  `process_cron_triggers_v2`, `advance_cron_trigger`
* mistral/services/triggers.py  `get_next_cron_triggers`, `get_next_execution_time`,
  `validate_cron_trigger_input`, `create_cron_trigger`, `delete_cron_trigger`
* mistral/db/v2/sqlalchemy/api.py `get_next_cron_triggers`,
  `update_cron_trigger(query_filter=…)`, `delete_cron_trigger`

Granularity: one step = one database transaction of one processor (the read of
the due triggers; one `advance_cron_trigger`, whose only database access is one
transaction: the conditional UPDATE or the DELETE), the RPC `start_workflow`, a
processor crash, a clock tick.  Any number of processors (`procs : Nat → Proc`).

Time is `Nat` (whole seconds).  A cron pattern is abstract: `nxt p t` is what
`croniter(p, t).get_next()` returns; the theorems assume `∀ p t, t < nxt p t`
(asserted on every croniter value the correspondence check uses).
-/
namespace Mistral.Cron

/-- What a workflow start takes from the trigger (opaque ids; the harness maps
    them to project id / workflow_input / workflow_params / workflow name). -/
structure Payload where
  project : Nat
  input : Nat
  params : Nat
  wf : Nat
  deriving DecidableEq, Repr

/-- A row of `cron_triggers_v2` (and the detached copy a processor holds). -/
structure Trigger where
  name : Nat                 -- identifies (name, project); unique in the table
  nextTime : Nat             -- next_execution_time
  remaining : Option Nat     -- remaining_executions (NULL = unlimited)
  pat : Option Nat           -- pattern (none: first_execution_time only)
  pay : Payload
  deriving DecidableEq, Repr

/-- One periodic processor (an engine/API process running the periodic task). -/
structure Proc where
  queue : List Trigger := []          -- triggers read and not yet processed (head = next)
  pending : Option Trigger := none    -- advance won, `start_workflow` not yet sent
  crashed : Bool := false
  deriving Repr

structure State where
  now : Nat
  db : List Trigger
  procs : Nat → Proc
  log : List Trigger      -- `start_workflow` calls received (newest first): the copy that was read
  wins : List Trigger     -- ghost: every successful advance (newest first): the copy that was read
  lost : List Trigger     -- ghost: wins whose processor crashed before `start_workflow`

inductive Step where
  | read (i : Nat)
  | advance (i : Nat)
  | start (i : Nat)
  | crash (i : Nat)
  | tick (d : Nat)
  deriving DecidableEq, Repr

def upd (f : Nat → Proc) (i : Nat) (p : Proc) : Nat → Proc :=
  fun j => if j = i then p else f j

/-- `t.remaining_executions -= 1` when it is not None and > 0 (on the local copy). -/
def decr : Option Nat → Option Nat
  | some (k + 1) => some k
  | r => r

/-- seconds of look-ahead in `triggers.get_next_cron_triggers` (checked against the source by
    `Gen.CronLimits.lookaheadSeconds`, Tie A) -/
def lookahead : Nat := 2

/-- minimum distance of first_execution_time from now (Tie A: `firstTimeMarginSeconds`) -/
def firstMargin : Nat := 60

/-- stable insertion sort by next_execution_time (structural, so the kernel can evaluate it) -/
def insertByNext (t : Trigger) : List Trigger → List Trigger
  | [] => [t]
  | x :: xs => if t.nextTime ≤ x.nextTime then t :: x :: xs else x :: insertByNext t xs

def sortByNext : List Trigger → List Trigger
  | [] => []
  | x :: xs => insertByNext x (sortByNext xs)

/-- `get_next_cron_triggers`: `next_execution_time < utcnow() + 2 s`, ordered by it
    (ties in table order). -/
def dueList (now : Nat) (db : List Trigger) : List Trigger :=
  sortByNext (db.filter fun t => t.nextTime < now + lookahead)

/-- `get_cron_trigger(name)` inside update/delete. -/
def findRow (db : List Trigger) (n : Nat) : Option Trigger :=
  db.find? fun r => r.name = n

/-- The database effect of `advance_cron_trigger(t)` on the local copy `t`, and
    whether this processor modified the row (`modified_count > 0`). -/
def advanceDb (nxt : Nat → Nat → Nat) (now : Nat) (db : List Trigger) (t : Trigger) :
    List Trigger × Bool :=
  if decr t.remaining = some 0 then
    -- last execution: triggers.delete_cron_trigger(t.name): lookup (NotFound ⇒ 0), DELETE by id
    match findRow db t.name with
    | some _ => (db.filter (fun r => r.name ≠ t.name), true)
    | none => (db, false)
  else
    match t.pat with
    | none => (db, false)   -- croniter(None, …) raises; the loop's `except Exception` moves on
    | some p =>
      match findRow db t.name with
      | none => (db, false)  -- DBEntityNotFoundError caught in advance_cron_trigger
      | some r =>
        -- UPDATE … WHERE id = r.id AND next_execution_time = t.next_execution_time
        if r.nextTime = t.nextTime then
          (db.map (fun x => if x.name = t.name then
              { x with nextTime := nxt p (max now t.nextTime), remaining := decr t.remaining }
            else x), true)
        else (db, false)

def step (nxt : Nat → Nat → Nat) (s : State) : Step → State
  | .tick d => { s with now := s.now + d }
  | .read i =>
    let p := s.procs i
    if p.crashed = true ∨ p.queue ≠ [] ∨ p.pending ≠ none then s
    else { s with procs := upd s.procs i { p with queue := dueList s.now s.db } }
  | .advance i =>
    let p := s.procs i
    if p.crashed = true ∨ p.pending ≠ none then s
    else match p.queue with
      | [] => s
      | t :: rest =>
        let r := advanceDb nxt s.now s.db t
        if r.2 = true then
          { s with db := r.1, wins := t :: s.wins,
                   procs := upd s.procs i { p with queue := rest, pending := some t } }
        else { s with procs := upd s.procs i { p with queue := rest } }
  | .start i =>
    let p := s.procs i
    if p.crashed = true then s
    else match p.pending with
      | none => s
      | some t => { s with log := t :: s.log, procs := upd s.procs i { p with pending := none } }
  | .crash i =>
    let p := s.procs i
    if p.crashed = true then s
    else { s with lost := p.pending.toList ++ s.lost,
                  procs := upd s.procs i { queue := [], pending := none, crashed := true } }

def run (nxt : Nat → Nat → Nat) (s : State) : List Step → State
  | [] => s
  | e :: es => run nxt (step nxt s e) es

/-- Initial state over a trigger table: nothing read, nothing started. -/
def init (now : Nat) (db : List Trigger) : State :=
  { now := now, db := db, procs := fun _ => {}, log := [], wins := [], lost := [] }

/-- What processor `i` does next (the label the harness sees on the parked thread). -/
inductive Label where
  | read | advance (name : Nat) | start (name : Nat) | dead
  deriving DecidableEq, Repr

def label (s : State) (i : Nat) : Label :=
  let p := s.procs i
  if p.crashed then .dead
  else match p.pending with
    | some t => .start t.name
    | none => match p.queue with
      | t :: _ => .advance t.name
      | [] => .read

/-- Is the step the one the processor is parked at? -/
def enabled (s : State) : Step → Bool
  | .tick _ => true
  | .read i => label s i == .read
  | .advance i => match label s i with | .advance _ => true | _ => false
  | .start i => match label s i with | .start _ => true | _ => false
  | .crash i => label s i != .dead

/-- The `(pattern, base)` pair `advance i` hands to croniter, if it gets there. -/
def advanceBase (s : State) (i : Nat) : Option (Nat × Nat) :=
  let p := s.procs i
  if p.crashed = true ∨ p.pending ≠ none then none
  else match p.queue with
    | [] => none
    | t :: _ =>
      if decr t.remaining = some 0 then none
      else match t.pat with
        | none => none
        | some q => some (q, max s.now t.nextTime)

/-! ### Creation (`validate_cron_trigger_input` + `create_cron_trigger`) -/

inductive CreateErr where
  | nothingGiven      -- 'Pattern or first_execution_time must be specified.'
  | tooSoon           -- 'first_execution_time must be at least 1 minute in the future.'
  | needPattern       -- 'Pattern must be provided if count is superior to 1.'
  | badPattern        -- 'The specified pattern is not valid'
  deriving DecidableEq, Repr

structure CreateReq where
  hasPat : Bool            -- `bool(pattern)`
  patValid : Bool          -- croniter accepts the pattern
  first : Option Nat       -- first_execution_time
  count : Option Nat
  now : Nat                -- utcnow() at validation
  patNext : Nat            -- croniter(pattern, start_time).get_next()
  deriving Repr

/-- python truthiness of `count` -/
def truthy : Option Nat → Bool
  | some (_ + 1) => true
  | _ => false

/-- `(next_execution_time, remaining_executions)` of the created row, or the rejection. -/
def create (q : CreateReq) : Except CreateErr (Nat × Option Nat) :=
  if q.first.isNone && !q.hasPat then .error .nothingGiven
  else
    let chk1 : Option CreateErr := match q.first with
      | some f =>
        if q.now + firstMargin > f then some .tooSoon
        else if !q.hasPat && (match q.count with | some c => decide (c > 1) | none => false)
          then some .needPattern else none
      | none => none
    match chk1 with
    | some e => .error e
    | none =>
      if q.hasPat && !q.patValid then .error .badPattern
      else match q.first with
        | some f => .ok (f, if !(q.hasPat || truthy q.count) then some 1 else q.count)
        | none => .ok (q.patNext, q.count)

end Mistral.Cron
