/-
Declarative semantics of a data-free direct workflow (the fragment `Mistral.Engine` models):
which tasks run, with which final state and which `next_tasks`, and the final state of the
workflow - as a function of the definition (`Spec`) and of the results of the actions (`orc`)
ONLY.  No schedule, no rows, no pending deliveries appear here.

  * a task without inbound transitions runs (start task);
  * a completed task routes to `nextOf sp name state` (`_find_next_tasks`: on-error /
    on-success / on-complete targets whose guard fired);
  * a task that is not a join runs when some task that runs routes to it;
  * a join runs when some task routes to it; it executes its action (final state = result of the
    action) when the required number of inbound tasks (`join: all` = all of them, `join: N` = N)
    completed and routed to it, and is ERROR ("impossible route" / "not triggered") when that
    number can no longer be reached;
  * the workflow is SUCCESS iff every ERROR task is handled (an on-error route fired), else ERROR
    (`Workflow.check_and_complete` / `all_errors_handled`).

Least fixed point, computed by recursion along the inbound transitions with a fuel (the graph is
acyclic for the definitions the theorems are about: `SpecOK.rank`, `SpecOK.fuel`).
Core Lean only.
-/
import Mistral.Model.Engine
namespace Mistral.Sem
open Mistral Mistral.Join Mistral.Engine

/-- final state of a task whose action was executed -/
def res (orc : String → Bool) (n : String) : St := if orc n then .SUCCESS else .ERROR

def knownTask (sp : Spec) (n : String) : Bool := (sp.graph.tasks.find? (·.name == n)).isSome

/-- number of inbound tasks that have to complete and route to a join -/
def need (k : JoinKind) (total : Nat) : Nat :=
  match k with
  | .all => total
  | .count n => n

/-- task `p`, whose semantic state is `o`, routes to `n` -/
def routesB (sp : Spec) (o : Option St) (p n : String) : Bool :=
  match o with
  | some s => (nextOf sp p s).any (·.1 == n)
  | none => false

/-- one unfolding of the fixed point: the state of `n` from the states `σ` of its inbound tasks -/
def semBody (sp : Spec) (orc : String → Bool) (σ : String → Option St) (n : String) : Option St :=
  let ins := inbound sp.graph n
  if ins.isEmpty then (if knownTask sp n then some (res orc n) else none)
  else
    let routers := ins.filter fun p => routesB sp (σ p.name) p.name n
    if routers.isEmpty then none
    else match isJoin sp n with
      | none => some (res orc n)
      | some k => if need k ins.length ≤ routers.length then some (res orc n) else some .ERROR

/-- `semF sp orc fuel n = some s`: task `n` runs and ends in state `s`; `none`: it never runs -/
def semF (sp : Spec) (orc : String → Bool) : Nat → String → Option St
  | 0 => fun _ => none
  | f + 1 => semBody sp orc (semF sp orc f)

/-- the semantics of a task (the budget is that of the engine's own recursion, `fuelFor`) -/
def sem (sp : Spec) (orc : String → Bool) (n : String) : Option St := semF sp orc (fuelFor sp) n

/-- a row of the semantic outcome: (task name, final state, next_tasks) -/
abbrev SRow := String × St × List (String × String)

/-- the semantic set of task rows, in definition order -/
def semRows (sp : Spec) (orc : String → Bool) : List SRow :=
  sp.graph.tasks.filterMap fun t => (sem sp orc t.name).map fun s => (t.name, s, nextOf sp t.name s)

/-- an ERROR row is handled iff an on-error route fired -/
def handled (x : SRow) : Bool := x.2.1 != .ERROR || x.2.2.any (·.2 == "on-error")

/-- the verdict of `check_and_complete` over the semantic set -/
def semVerdict (sp : Spec) (orc : String → Bool) : St :=
  if (semRows sp orc).all handled then .SUCCESS else .ERROR

/-- the observable outcome of an engine world: workflow state and the rows as triples -/
def rowTriple (r : TaskRow) : SRow := (r.name, r.state, r.nextTasks)

/-! ### the single-activation class (multiset reading of the outcome) -/

/-- routers of `n` in the semantics -/
def routersOf (sp : Spec) (orc : String → Bool) (n : String) : List TaskG :=
  (inbound sp.graph n).filter fun p => routesB sp (sem sp orc p.name) p.name n

def nodupB (l : List String) : Bool := l.all fun x => (l.filter (· == x)).length == 1

/-- the single-activation class: (A) a task never routes twice to the same target, (B) a task that
    is not a join has at most one router, (C) a join has at most as many routers as it needs;
    `strict`: (C'') moreover a join has at most one router or ALL its inbound tasks are routers - so
    that it can not fail structurally ("not triggered" / "impossible route") while another router is
    still to come (a join that failed early is re-opened by the late branch: known finding) -/
def singleActGen (strict : Bool) (sp : Spec) (orc : String → Bool) : Bool :=
  sp.graph.tasks.all fun t =>
    let n := t.name
    (match sem sp orc n with
     | some s => nodupB ((nextOf sp n s).map (·.1))
     | none => true) &&
    (match isJoin sp n with
     | none => (routersOf sp orc n).length ≤ 1
     | some k =>
       let r := (routersOf sp orc n).length
       let i := (inbound sp.graph n).length
       r ≤ need k i && (!strict || r ≤ 1 || (r == i && need k i == i)))

def singleActB (sp : Spec) (orc : String → Bool) : Bool := singleActGen true sp orc
def singleActWideB (sp : Spec) (orc : String → Bool) : Bool := singleActGen false sp orc

/-! ### the histories the refinement theorem quantifies over -/

/-- a plain event: not a `stop`, not the loss of an action at its executor (C20), and an executor
    result that is the oracle's -/
def plainB (orc : String → Bool) : Event → Bool
  | .stop _ => false
  | .deliver (.runAction _) => false
  | .execute t ok => ok == orc t.1
  | _ => true

/-- the event is a STALE START REQUEST: the delivery of a pending `start_task(first_run=False)` request
    (queued by `resume` for a task that was still IDLE) to a task that has meanwhile FAILED.  Before the
    fix of `RegularTask._run_existing` (repo_patches/20) the failed task was run again; now the request
    is ignored.  Kept as a coverage predicate of the `sem` stream (the fixed path is exercised). -/
def staleB (w : World) : Event → Bool
  | .deliver (.rpcStartTask t false) =>
    w.pending.contains (.rpcStartTask t false) &&
      (match findTask w t with
       | some r => r.state == .ERROR
       | none => false)
  | _ => false

end Mistral.Sem
