/-
Reverse workflows (mistral/workflow/reverse_workflow.py + the engine parts they share with direct
workflows), as an executable model.

Modelled code:
  lang/v2/workflows.py   ReverseWorkflowSpec.get_task_requires (task `requires` ∪ task-defaults
                         `requires`, minus the task itself)
  workflow/reverse_workflow.py
                         _build_graph / _get_dependency_tasks (edges only between task specs that exist),
                         traversal.dfs_postorder_nodes(graph.reverse(), target)   → `needed`
                         _get_target_task_specification (WorkflowException on an unknown target)
                         _is_satisfied_task, _find_task_specs_with_satisfied_dependencies,
                         _find_next_commands (incl. the base class part: RunExistingTask for IDLE rows
                         when no task execution is given), all_errors_handled, is_error_handled_for
  workflow/base.py       continue_workflow (nothing for a completed workflow)
  engine                 Workflow.start + the inline check_and_complete of DefaultEngine.start_workflow,
                         dispatcher (RunTask → row IDLE + post-commit start), run_task (first run),
                         RegularTask._run_new, executor, on_action_complete → Task.complete
                         (next_tasks / has_next_tasks / error_handled / processed, completion check
                         registered for every completed task: base `may_complete_workflow`),
                         Workflow.check_and_complete.
Operator commands pause / resume / stop follow the direct engine model (Mistral.Engine): Lifecycle.wfApply
for the state, Workflow.resume → continue_workflow() → _continue_workflow.
Not modelled here: data flow (inbound context), policies (retries …), rerun,
with-items, sub-workflows.  One `Event` = one committed transaction / post-commit operation / executor
run, as in Mistral.Engine.  The order of the commands (a DFS post-order in the code, whose tie-breaking
depends on hash order of spec objects) is not part of the model: lists denote sets.
-/
import Mistral.Model.States
import Mistral.Model.Lifecycle
namespace Mistral.Reverse
open Mistral

structure Task where
  name : String
  requires : List String          -- the task's own `requires`
  deriving Repr

structure Spec where
  tasks : List Task               -- the `tasks` mapping (names are keys: pairwise different)
  defaultRequires : List String   -- `task-defaults: requires`
  target : String                 -- params['task_name']
  deriving Repr

def findTaskSpec (sp : Spec) (n : String) : Option Task := sp.tasks.find? (·.name == n)

def isTask (sp : Spec) (n : String) : Bool := sp.tasks.any (·.name == n)

/-- `ReverseWorkflowSpec.get_task_requires`: a set in the code, a list denoting that set here -/
def requiresOf (sp : Spec) (t : Task) : List String :=
  (t.requires ++ sp.defaultRequires).filter (· != t.name)

/-- requirements of the task with that name (nothing for an unknown name) -/
def reqsN (sp : Spec) (n : String) : List String :=
  match findTaskSpec sp n with
  | some t => requiresOf sp t
  | none => []

/-- an edge of the reversed `_build_graph` leaving the set found so far: a task specification of the
    pool, not found yet, that a found task requires (`_get_dependency_tasks` only links specs that exist) -/
def frontier? (sp : Spec) (pool : List Task) (acc : List String) : Option Task :=
  pool.find? fun t => !acc.contains t.name && acc.any fun a => (reqsN sp a).contains t.name

/-- graph search from the found set; every round moves one task from the pool to the found set, so
    `pool.length` rounds always suffice (`grow_closed`) -/
def grow (sp : Spec) : Nat → List Task → List String → List String
  | 0, _, acc => acc
  | f + 1, pool, acc =>
    match frontier? sp pool acc with
    | none => acc
    | some t => grow sp f (pool.filter (·.name != t.name)) (acc ++ [t.name])

/-- the nodes `dfs_postorder_nodes(graph.reverse(), target)` visits: the target and everything it
    transitively requires.  `none` = `_get_target_task_specification` raises WorkflowException. -/
def needed (sp : Spec) : Option (List String) :=
  if isTask sp sp.target then some (grow sp sp.tasks.length sp.tasks [sp.target]) else none

/-! ### definition-time validation: `ReverseWorkflowSpec._check_workflow_integrity` -/

/-- every task the named task requires is resolved -/
def readyN (sp : Spec) (done : List String) (n : String) : Bool := (reqsN sp n).all done.contains

/-- `_check_requires_cycles`: the task names are resolved layer by layer (a task is resolved once
    everything it requires is); `false` = a round in which nothing can be resolved while names remain
    (InvalidModelException "cyclic 'requires'").  One round per remaining name always suffices
    (`peel_fuel`), the python loop has no bound. -/
def peel (sp : Spec) : Nat → List String → List String → Bool
  | _, [], _ => true
  | 0, _ :: _, _ => false
  | f + 1, rem, done =>
    let ready := rem.filter (readyN sp done)
    if ready.isEmpty then false
    else peel sp f (rem.filter fun n => !(done ++ ready).contains n) (done ++ ready)

def requiresAcyclic (sp : Spec) : Bool := peel sp sp.tasks.length (sp.tasks.map (·.name)) []

inductive IntegrityErr where
  | taskNotFound      -- InvalidModelException "Task '…' not found."
  | requiresCycle     -- InvalidModelException "… (cyclic 'requires') …"
  deriving Repr, DecidableEq

/-- `_check_workflow_integrity`: first every required name must be a task, then no cycle -/
def checkIntegrity (sp : Spec) : Option IntegrityErr :=
  if !(sp.tasks.all fun t => (requiresOf sp t).all (isTask sp)) then some .taskNotFound
  else if !requiresAcyclic sp then some .requiresCycle
  else none

structure TaskRow where
  name : String
  state : St
  processed : Bool
  hasNext : Bool
  nextTasks : List String
  errorHandled : Bool
  deriving Repr

def hasRow (rows : List TaskRow) (n : String) : Bool := rows.any (·.name == n)

def hasSuccess (rows : List TaskRow) (n : String) : Bool :=
  rows.any fun r => r.name == n && r.state == .SUCCESS

/-- `_is_satisfied_task`: no execution of the task yet, and every required name is the name of an
    execution in SUCCESS -/
def isSatisfied (sp : Spec) (rows : List TaskRow) (t : Task) : Bool :=
  !hasRow rows t.name && (requiresOf sp t).all (hasSuccess rows)

def satisfiedName (sp : Spec) (rows : List TaskRow) (n : String) : Bool :=
  match findTaskSpec sp n with
  | some t => isSatisfied sp rows t
  | none => false

/-- `_find_task_specs_with_satisfied_dependencies` (names) -/
def satisfiedTasks (sp : Spec) (rows : List TaskRow) : Option (List String) :=
  (needed sp).map fun ns => ns.filter (satisfiedName sp rows)

inductive Cmd where
  | runExisting (n : String)
  | runTask (n : String)
  deriving Repr, DecidableEq

/-- `_find_next_commands(task_ex)`; `viaTask` = a task execution was passed -/
def findNextCommands (sp : Spec) (rows : List TaskRow) (viaTask : Bool) : Option (List Cmd) :=
  let base : List Cmd :=
    if viaTask then [] else (rows.filter (·.state == .IDLE)).map fun r => Cmd.runExisting r.name
  (satisfiedTasks sp rows).map fun ns => base ++ ns.map Cmd.runTask

/-- `WorkflowController.continue_workflow` -/
def continueWorkflow (sp : Spec) (wf : St) (rows : List TaskRow) (viaTask : Bool) : Option (List Cmd) :=
  if isCompleted wf then some [] else findNextCommands sp rows viaTask

def runTaskNames (cs : List Cmd) : List String :=
  cs.filterMap fun c => match c with
    | .runTask n => some n
    | .runExisting _ => none

/-- `all_errors_handled` -/
def allErrorsHandled (rows : List TaskRow) : Bool := !rows.any (·.state == .ERROR)

/-! ### the run model -/

inductive Item where
  | postStartTask (t : String)    -- post-commit op: send RPC start_task (first_run=True)
  | rpcStartTask (t : String)
  | postRunAction (t : String)    -- post-commit op: hand the action to an executor
  | runAction (t : String)        -- at the executor
  | rpcResult (t : String) (ok : Bool)
  | postCheck                     -- post-commit op (own tx): workflow completion check
  | postStartExisting (t : String)   -- post-commit op: send RPC start_task (first_run=False): resume
  | rpcStartExisting (t : String)
  deriving Repr, DecidableEq

structure World where
  wf : St
  tasks : List TaskRow
  pending : List Item
  deriving Repr

inductive Event where
  | start
  | deliver (it : Item)
  | execute (t : String) (ok : Bool)   -- the executor runs the action of task t and reports
  | pause                              -- operator commands (DefaultEngine.pause_workflow / …)
  | resume
  | stop (target : St)
  deriving Repr

def newRow (n : String) : TaskRow :=
  { name := n, state := .IDLE, processed := false, hasNext := false, nextTasks := [], errorHandled := false }

/-- dispatcher `_process_commands` for RunTask commands: nothing once the workflow is completed,
    else one IDLE row and one post-commit `_start_task` per command.  (The backlog branch of the
    dispatcher — commands saved while PAUSED — is never entered by a reverse run: `Task.complete`
    returns before dispatching when the workflow is paused, and start / resume dispatch after the
    workflow was set RUNNING; reverse workflows have no `pause` engine command.  The streams check
    that the real backlog stays empty.) -/
def dispatch (w : World) (ns : List String) : World :=
  if isCompleted w.wf then w
  else { w with tasks := w.tasks ++ ns.map newRow, pending := w.pending ++ ns.map Item.postStartTask }

/-- `Workflow.check_and_complete` with the reverse controller's `all_errors_handled` -/
def checkAndComplete (w : World) : World :=
  if isPausedOrCompleted w.wf then w
  else if w.tasks.any (fun t => !isCompleted t.state) then w
  else if w.tasks.any (fun t => t.state == .CANCELLED) then { w with wf := .CANCELLED }
  else if allErrorsHandled w.tasks then { w with wf := .SUCCESS }
  else { w with wf := .ERROR }

def removeFirst (l : List Item) (it : Item) : List Item :=
  match l with
  | [] => []
  | x :: xs => if x == it then xs else x :: removeFirst xs it

/-- update of the execution a lookup by name finds (the first row with that name) -/
def updRow : List TaskRow → String → (TaskRow → TaskRow) → List TaskRow
  | [], _, _ => []
  | x :: xs, n, f => if x.name == n then f x :: xs else x :: updRow xs n f

def findRow (w : World) (n : String) : Option TaskRow := w.tasks.find? (·.name == n)

/-- names of the tasks the controller wants started (`continue_workflow`, RunTask commands) -/
def nextNames (sp : Spec) (wf : St) (rows : List TaskRow) (viaTask : Bool) : Option (List String) :=
  (continueWorkflow sp wf rows viaTask).map runTaskNames

/-- `Task.complete(state)` of a task that is not completed -/
def completeTask (sp : Spec) (w : World) (t : String) (s : St) : World :=
  -- set_state, then the controller reads the rows
  match nextNames sp w.wf (updRow w.tasks t fun r => { r with state := s }) true with
  | none =>
    -- WorkflowException out of the controller: `force_fail_task` (unreachable once a run has started:
    -- the target was valid at the start and neither spec nor params change)
    { w with tasks := updRow w.tasks t fun r => { r with state := .ERROR },
             wf := if isCompleted w.wf then w.wf else .ERROR }
  | some ns =>
    if isPaused w.wf then
      -- a paused workflow: the next tasks are stored, nothing is dispatched, the task stays unprocessed
      { w with tasks := updRow w.tasks t fun r =>
          { r with state := s, nextTasks := ns, hasNext := !ns.isEmpty,
                   errorHandled := if s == .ERROR then false else r.errorHandled } }
    else
    let rows := updRow w.tasks t fun r =>
      { r with state := s, nextTasks := ns, hasNext := !ns.isEmpty,
               errorHandled := if s == .ERROR then false else r.errorHandled, processed := true }
    -- the completion check is registered for every completed task, then the commands are dispatched
    dispatch { w with tasks := rows, pending := w.pending ++ [.postCheck] } ns

/-- the task has an action execution that has not completed -/
def hasLiveAction (w : World) (t : String) : Bool :=
  w.pending.any fun i => match i with
    | .postRunAction t' => t' == t
    | .runAction t' => t' == t
    | .rpcResult t' _ => t' == t
    | _ => false

def step (sp : Spec) (w : World) : Event → World
  | .start =>
    -- one execution: a second start is another execution (another World)
    if w.wf != .IDLE || !w.tasks.isEmpty then w else
    match nextNames sp .RUNNING w.tasks false with
    | none => w        -- 'Invalid task name': the start transaction is rolled back
    | some ns => checkAndComplete (dispatch { w with wf := .RUNNING } ns)
  | .execute t ok =>
    if !w.pending.contains (.runAction t) then w else
    { w with pending := removeFirst w.pending (.runAction t) ++ [.rpcResult t ok] }
  | .pause => { w with wf := (Lifecycle.wfApply w.wf .pause).1 }
  | .stop t => { w with wf := (Lifecycle.wfApply w.wf (.stop t)).1 }
  | .resume =>
    -- no execution yet (IDLE here) cannot be resumed; anything but PAUSED is left alone
    if !isPaused w.wf then w else
    let wf1 := (Lifecycle.wfApply w.wf .resume).1
    -- continue_workflow(): RunExistingTask for IDLE rows + RunTask for the satisfied tasks
    match continueWorkflow sp wf1 w.tasks false with
    | none => w
    | some cmds =>
      let existing := cmds.filterMap fun c => match c with
        | .runExisting n => some n
        | .runTask _ => none
      let ns := runTaskNames cmds
      -- _continue_workflow: completed tasks not yet processed are marked processed
      let rows := w.tasks.map fun r => if isCompleted r.state && !r.processed then { r with processed := true } else r
      let w1 := { w with wf := wf1, tasks := rows }
      if cmds.isEmpty then checkAndComplete w1
      else dispatch { w1 with pending := w1.pending ++ existing.map Item.postStartExisting } ns
  | .deliver (.runAction _) => w     -- executors answer through `execute`
  | .deliver it =>
    if !w.pending.contains it then w else
    let w := { w with pending := removeFirst w.pending it }
    match it with
    | .postStartTask t => { w with pending := w.pending ++ [.rpcStartTask t] }
    | .postRunAction t => { w with pending := w.pending ++ [.runAction t] }
    | .runAction _ => w
    | .postStartExisting t => { w with pending := w.pending ++ [.rpcStartExisting t] }
    | .rpcStartExisting t =>
      match findRow w t with
      | none => w
      | some r =>
        -- _run_existing: a succeeded task refuses (MistralError, the transaction is rolled back); a
        -- completed task ignores the (non-rerun) request; a task already running its action ignores it;
        -- else the task is started
        if r.state == .SUCCESS then w
        -- … a request that is not a rerun is stale once the task has completed (repo fix 17f326b9)
        else if isCompleted r.state then w
        else if r.state == .RUNNING && hasLiveAction w t then w
        else { w with tasks := updRow w.tasks t fun x => { x with state := .RUNNING, processed := false },
                      pending := w.pending ++ [.postRunAction t] }
    | .postCheck => checkAndComplete w
    | .rpcStartTask t =>
      match findRow w t with
      | none => w
      | some r =>
        if r.state == .IDLE then
          { w with tasks := updRow w.tasks t fun x => { x with state := .RUNNING },
                   pending := w.pending ++ [.postRunAction t] }
        else w
    | .rpcResult t ok =>
      match findRow w t with
      | none => w
      | some r =>
        -- Task.complete ignores a completed task
        if isCompleted r.state then w
        else completeTask sp w t (if ok then .SUCCESS else .ERROR)

def init : World := { wf := .IDLE, tasks := [], pending := [] }

def run (sp : Spec) (evs : List Event) : World := evs.foldl (step sp) init

end Mistral.Reverse
