/-
Model of the REST layer of mistral for C16 (core Lean only).

* `program` / `run`: a controller method as the generated table describes it -- the
  calls evaluated before each `acl.enforce`, the (possibly conditional) enforce, and the
  method body after the last enforce -- executed against an abstract database: a call may
  have an arbitrary effect unless it is on the list of harmless calls; a denied enforce
  that applies stops the method with 403.  (`acl.enforce` raises `NotAllowedException`,
  http_code 403; the `wrap_*_controller_exception` decorators turn it into the response.)
* `handle`: the same decision on the enforce list alone (enforce first ⇒ 403, unchanged
  database, body not run).
* the state/field guards of `execution.py put/delete`, `task.py put`,
  `action_execution.py put/delete`, hand-modelled statement by statement.

Tied to the implementation by the `rest` / `guards` correspondence streams of props/C16.py.
-/
import Mistral.Gen.Endpoints
import Mistral.Gen.RestTables

deriving instance DecidableEq for Except

namespace Mistral.Rest
open Mistral.Gen.Endpoints Mistral.Gen.RestTables

/-! ## authorisation -/

/-- What the guards of conditional enforces read from the request. -/
structure Req where
  allProjects : Bool
  projectId : Bool
  scopePublic : Bool
  deriving DecidableEq, Repr

def guardHolds : Guard → Req → Bool
  | .always, _ => true
  | .allProjects, r => r.allProjects
  | .allProjectsOrProjectId, r => r.allProjects || r.projectId
  | .scopePublic, r => r.scopePublic
  | .other _, _ => false

/-- First enforce (in program order) that applies to the request and is denied. -/
def firstDenied (allowed : String → Bool) (r : Req) : List Enforce → Option String
  | [] => none
  | e :: rest =>
    if guardHolds e.guard r && !allowed e.rule then some e.rule
    else firstDenied allowed r rest

/-- Response of the authorisation stage: `some 403` (database untouched, body not run) or
    `none` (the method body runs). -/
def handle {α : Type} (e : Endpoint) (allowed : String → Bool) (r : Req)
    (body : α → Nat × α) (db : α) : Nat × α :=
  match firstDenied allowed r e.enforces with
  | some _ => (403, db)
  | none => body db

/-- One step of a controller method as the generated table records it. -/
inductive Step where
  | call (name : String)
  | enforce (rule : String) (g : Guard)
  | body
  deriving Repr

def stepsOf (es : List Enforce) : List Step :=
  match es with
  | [] => []
  | e :: rest => e.before.map Step.call ++ (Step.enforce e.rule e.guard :: stepsOf rest)

def program (e : Endpoint) : List Step := stepsOf e.enforces ++ [Step.body]

/-- Execution of a method: a call that is not `harmless` may change the database in an
    arbitrary way (`eff`); the body may do anything (`body`); a denied applicable enforce
    answers 403 with the database as it is at that point. -/
def run {α : Type} (harmless : String → Bool) (eff : String → α → α) (body : α → Nat × α)
    (allowed : String → Bool) (r : Req) : List Step → α → Nat × α
  | [], db => (500, db)
  | .call n :: rest, db => run harmless eff body allowed r rest (if harmless n then db else eff n db)
  | .enforce rule g :: rest, db =>
    if guardHolds g r && !allowed rule then (403, db) else run harmless eff body allowed r rest db
  | .body :: _, db => body db

/-! ## PUT /v2/executions/{id}  (execution.py `put`) -/

inductive ExecPutErr where
  | notFound              -- 404  get_workflow_execution
  | nothingToUpdate       -- 400  'The property state, description, or env is not provided'
  | descWithState         -- 400  'description must be updated separately from state'
  | envWithState          -- 400  'env can only be updated when ... not running or on resume'
  | envNotAllowed         -- 403  update_workflow_execution_env (transaction rolled back)
  | badState              -- 400  'Cannot change state to ...'
  deriving DecidableEq, Repr

inductive EngineCall where
  | pause
  | resume (withEnv : Bool)
  | stop (state : String)
  deriving DecidableEq, Repr

structure ExecPutOk where
  setDescription : Bool
  updateEnv : Bool
  engine : Option EngineCall
  deriving DecidableEq, Repr

/-- `state = ""` stands for "not provided" (python truthiness of `wf_ex.state`); `desc`, `env`
    say whether a non-empty description / `params.env` was sent. -/
def execPut (exists_ : Bool) (cur : String) (state : String) (desc env : Bool) :
    Except ExecPutErr ExecPutOk :=
  let hasState := state != ""
  if !exists_ then .error .notFound
  else if !hasState && !desc && !env then .error .nothingToUpdate
  else if desc && hasState then .error .descWithState
  else if env && hasState && state != RUNNING then .error .envWithState
  else
    let envUpd := !hasState && env
    if envUpd && !envUpdatableStates.contains cur then .error .envNotAllowed
    else if !hasState then .ok { setDescription := desc, updateEnv := envUpd, engine := none }
    else if pausedStates.contains state then
      .ok { setDescription := desc, updateEnv := envUpd, engine := some .pause }
    else if state == RUNNING then
      .ok { setDescription := desc, updateEnv := envUpd, engine := some (.resume env) }
    else if completedStates.contains state then
      .ok { setDescription := desc, updateEnv := envUpd, engine := some (.stop state) }
    else .error .badState

/-! ## DELETE /v2/executions/{id}?force=  (execution.py `delete`) -/

inductive DeleteRes where
  | deleted
  | notFound          -- 404
  | notAllowed        -- 403
  deriving DecidableEq, Repr

def execDelete (exists_ : Bool) (cur : String) (force : Bool) : DeleteRes :=
  if !force then
    if !exists_ then .notFound
    else if !completedStates.contains cur then .notAllowed
    else .deleted
  else if !exists_ then .notFound else .deleted

/-! ## PUT /v2/tasks/{id}  (task.py `put`) -/

inductive TaskPutErr where
  | notFound          -- 404
  | nameMismatch      -- 400
  | wfNameMismatch    -- 400
  | invalidState      -- 400 'Only updating task to RUNNING or SKIPPED is supported'
  | notInError        -- 400 'The current task execution must be in ERROR'
  | resetMandatory    -- 400
  | resetRequired     -- 400 'Only with-items task has the option to not reset'
  deriving DecidableEq, Repr

structure Rerun where
  reset : Bool
  skip : Bool
  withEnv : Bool
  deriving DecidableEq, Repr

/-- `nameOk` / `wfNameOk`: the name sent is empty or equals the stored one; `reset`: `none` =
    field not sent (wsme `Unset`). -/
def taskPut (exists_ : Bool) (nameOk wfNameOk : Bool) (cur req : String) (reset : Option Bool)
    (withItems env : Bool) : Except TaskPutErr Rerun :=
  if !exists_ then .error .notFound
  else if !nameOk then .error .nameMismatch
  else if !wfNameOk then .error .wfNameMismatch
  else if req != RUNNING && req != SKIPPED then .error .invalidState
  else if cur != ERROR then .error .notInError
  else if req == RUNNING && reset == none then .error .resetMandatory
  else if req == RUNNING && !withItems && reset != some true then .error .resetRequired
  else .ok { reset := reset == some true, skip := req == SKIPPED, withEnv := env }

/-! ## PUT / DELETE /v2/action_executions/{id}  (action_execution.py) -/

inductive ActionCall where
  | completeData
  | completeError (defaultMessage : Bool)
  | completeCancel
  | update (state : String)
  deriving DecidableEq, Repr

inductive ActionPutRes where
  | unsupported                       -- 400 InvalidResultException
  | crash                             -- unbound local (would be a 500)
  | calls (cs : List ActionCall)
  deriving DecidableEq, Repr

def actionPut (state : String) (hasOutput : Bool) : ActionPutRes :=
  if !supportedTransitionStates.contains state then .unsupported
  else
    let c1 : Option (List ActionCall) :=
      if completedStates.contains state then
        if state == SUCCESS then some [.completeData]
        else if state == ERROR then some [.completeError (!hasOutput)]
        else if state == CANCELLED then some [.completeCancel]
        else none
      else some []
    match c1 with
    | none => .crash
    | some cs =>
      let cs2 := if state == PAUSED || state == RUNNING then cs ++ [.update state] else cs
      if cs2.isEmpty then .crash else .calls cs2

def actionDelete (allowed exists_ hasTask : Bool) (cur : String) : DeleteRes :=
  if !allowed then .notAllowed
  else if !exists_ then .notFound
  else if hasTask then .notAllowed
  else if !completedStates.contains cur then .notAllowed
  else .deleted

end Mistral.Rest
