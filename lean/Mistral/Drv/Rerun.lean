import Lean.Data.Json
import Mistral.Model.Rerun
open Lean Mistral Mistral.Rerun
namespace Mistral.Drv.Rerun

def stOf (j : Json) (k : String) : Except String St := do
  let s ← j.getObjValAs? String k
  match St.ofString? s with
  | some st => pure st
  | none => throw s!"bad state {s}"

def optNat (j : Json) (k : String) : Except String (Option Nat) :=
  match j.getObjVal? k with
  | .ok Json.null => pure none
  | .error _ => pure none
  | .ok v => do
    let n ← (fromJson? v : Except String Nat)
    pure (some n)

def optStr (j : Json) (k : String) : Except String (Option String) :=
  match j.getObjVal? k with
  | .ok Json.null => pure none
  | .error _ => pure none
  | .ok v => do
    let n ← (fromJson? v : Except String String)
    pure (some n)

def pairs (j : Json) (k : String) : Except String (List (String × String)) := do
  let a ← j.getObjValAs? (Array (Array String)) k
  a.toList.mapM fun p =>
    if p.size == 2 then pure (p[0]!, p[1]!) else throw "bad pair"

def strs (j : Json) (k : String) : Except String (List String) := do
  let a ← j.getObjValAs? (Array String) k
  pure a.toList

def specOf (j : Json) : Except String Spec := do
  pure { items := ← optNat j "items", concurrency := ← optNat j "concurrency",
         publish := ← pairs j "publish", publishOnError := ← pairs j "publishOnError",
         publishOnSkip := ← pairs j "publishOnSkip",
         onSuccess := ← strs j "onSuccess", onError := ← strs j "onError",
         onComplete := ← strs j "onComplete", onSkip := ← strs j "onSkip",
         join := ← j.getObjValAs? Bool "join" }

def actOf (j : Json) : Except String Act := do
  pure { idx := ← j.getObjValAs? Nat "idx", state := ← stOf j "state",
         accepted := ← j.getObjValAs? Bool "accepted" }

def taskOf (j : Json) : Except String Task := do
  let acts ← j.getObjValAs? (Array Json) "acts"
  pure { name := ← j.getObjValAs? String "name", wf := ← j.getObjValAs? Nat "wf",
         state := ← stOf j "state", processed := ← j.getObjValAs? Bool "processed",
         rt := ← strs j "rt", acts := ← acts.toList.mapM actOf,
         published := ← pairs j "published", nextTasks := ← pairs j "nextTasks",
         spec := ← specOf (← j.getObjVal? "spec") }

def wfOf (j : Json) : Except String Wf := do
  pure { state := ← stOf j "state", parent := ← optNat j "parent" }

def worldOf (j : Json) : Except String World := do
  let wfs ← j.getObjValAs? (Array Json) "wfs"
  let tasks ← j.getObjValAs? (Array Json) "tasks"
  pure { wfs := ← wfs.toList.mapM wfOf, tasks := ← tasks.toList.mapM taskOf }

def pairsJ (l : List (String × String)) : Json :=
  Json.arr (l.map fun (a, b) => Json.arr #[Json.str a, Json.str b]).toArray

def worldJ (w : World) : Json :=
  Json.mkObj [
    ("wfs", Json.arr (w.wfs.map fun wf => Json.str wf.state.toString).toArray),
    ("tasks", Json.arr (w.tasks.map fun t => Json.mkObj [
        ("state", Json.str t.state.toString), ("processed", Json.bool t.processed),
        ("rt", Json.arr (t.rt.map Json.str).toArray),
        ("acts", Json.arr (t.acts.map fun a => Json.mkObj [
            ("idx", Json.num a.idx), ("state", Json.str a.state.toString),
            ("accepted", Json.bool a.accepted)]).toArray),
        ("published", pairsJ t.published), ("nextTasks", pairsJ t.nextTasks)]).toArray),
    ("starts", Json.arr (w.starts.map fun s =>
        Json.mkObj [("task", Json.num s.task), ("reset", Json.bool s.reset)]).toArray),
    ("integrity", Json.arr (w.integrity.map fun (n : Nat) => Json.num n).toArray),
    ("created", Json.arr (w.created.map fun (wf, n, e) =>
        Json.arr #[Json.num wf, Json.str n, Json.str e]).toArray)]

def errJ : Err → Json
  | .noTask => Json.mkObj [("error", Json.str "noTask")]
  | .invalidWfTransition k => Json.mkObj [("error", Json.str "invalidWfTransition"), ("wf", Json.num k)]
  | .succeeded => Json.mkObj [("error", Json.str "succeeded")]

def resJ : Except Err World → Json
  | .ok w => Json.mkObj [("ok", worldJ w)]
  | .error e => errJ e

def handle (fn : String) (a : Json) : Option (Except String Json) :=
  match fn with
  | "rerun.op" => some do
      let w ← worldOf (← a.getObjVal? "world")
      let t ← a.getObjValAs? Nat "task"
      let reset ← a.getObjValAs? Bool "reset"
      let skip ← a.getObjValAs? Bool "skip"
      pure (resJ (rerunOp w t reset skip))
  | "rerun.start" => some do
      let w ← worldOf (← a.getObjVal? "world")
      let t ← a.getObjValAs? Nat "task"
      let reset ← a.getObjValAs? Bool "reset"
      pure (resJ (startTask { w with starts := [⟨t, reset⟩] } ⟨t, reset⟩))
  | "rerun.chain" => some do
      let w ← worldOf (← a.getObjVal? "world")
      let i ← a.getObjValAs? Nat "wf"
      let c := chain w w.wfs.length i
      pure (Json.mkObj [("wfs", Json.arr ((chainWfs c).map fun (n : Nat) => Json.num n).toArray),
                        ("tasks", Json.arr ((chainTasks c).map fun (n : Nat) => Json.num n).toArray)])
  | "rerun.restGuard" => some do
      let tn ← a.getObjValAs? String "taskName"
      let wn ← a.getObjValAs? String "wfName"
      let st ← stOf a "taskState"
      let wi ← a.getObjValAs? Bool "withItems"
      let r ← a.getObjVal? "req"
      let req : PutReq := { name := ← optStr r "name", wfName := ← optStr r "wfName",
                            state := ← stOf r "state",
                            resetGiven := ← r.getObjValAs? Bool "resetGiven",
                            reset := ← r.getObjValAs? Bool "reset" }
      match restGuard tn wn st wi req with
      | .ok (reset, skip) => pure (Json.mkObj [("ok", Json.arr #[Json.bool reset, Json.bool skip])])
      | .error e => pure (Json.mkObj [("error", Json.str e.toString)])
  | "rerun.routes" => some do
      let s ← specOf (← a.getObjVal? "spec")
      let st ← stOf a "state"
      pure (pairsJ (routes s st))
  | _ => none

end Mistral.Drv.Rerun
