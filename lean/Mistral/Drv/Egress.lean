import Lean.Data.Json
import Mistral.Model.Egress
open Lean Mistral.Egress
namespace Mistral.Drv.Egress

def addrOfJson (j : Json) : Except String Addr := do
  let fam ← j.getObjValAs? Nat "fam"
  let v ← j.getObjValAs? String "v"
  match v.toNat? with
  | some n => if fam == 6 then pure (.v6 n) else pure (.v4 n)
  | none => throw "bad addr"

def netOfJson (j : Json) : Except String Net := do
  let fam ← j.getObjValAs? Nat "fam"
  let b ← j.getObjValAs? String "base"
  let p ← j.getObjValAs? Nat "plen"
  match b.toNat? with
  | some n => pure { is6 := fam == 6, base := n, plen := p }
  | none => throw "bad net"

def verdictStr : Verdict → String
  | .ok => "ok" | .portError => "portError" | .badScheme => "badScheme" | .noHost => "noHost"
  | .hostNotAllowed => "hostNotAllowed" | .blocked => "blocked"

def handle (fn : String) (a : Json) : Option (Except String Json) :=
  match fn with
  | "egress.validate" => some do
      let scheme ← a.getObjValAs? String "scheme"
      let host ← a.getObjValAs? String "host"
      let allowed ← a.getObjValAs? (Array String) "allowed"
      let deniedJ ← a.getObjValAs? (Array Json) "denied"
      let denied ← deniedJ.toList.mapM netOfJson
      let addrs : Resolved ← match a.getObjVal? "addrs" with
        | .ok (Json.arr xs) => do let l ← xs.toList.mapM addrOfJson; pure (Resolved.addrs l)
        | .ok (Json.str "badPort") => pure Resolved.badPort
        | .ok (Json.str "unresolvable") => pure Resolved.unresolvable
        | _ => throw "bad addrs"
      pure (Json.str (verdictStr (validate { allowedHosts := allowed.toList, denied := denied } scheme host addrs)))
  | "egress.parseHost" => some do
      let s ← a.getObjValAs? String "host"
      match parseHost s with
      | some (.v4 n) => pure (Json.mkObj [("fam", 4), ("v", toString n)])
      | some (.v6 n) => pure (Json.mkObj [("fam", 6), ("v", toString n)])
      | none => pure Json.null
  | _ => none

end Mistral.Drv.Egress
