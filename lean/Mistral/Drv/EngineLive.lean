/-
Support tooling for the liveness clause of C01 (not the verdict): exhaustive exploration of the
reachable worlds of `Mistral.Engine` for one `Spec` (breadth first over the ENABLED events, worlds
identified up to the order of `pending`), evaluating the executable forms of the candidate
invariants of `Mistral.Lemmas.EngineLive` on every reachable world.  Every event that is not
enabled is a no-op of `step`, so the worlds found are the worlds of ALL event lists.
  enginelive.explore  {spec, ops, loss, clean, dfs, failing, maxPauses, maxStates}
    → {states, truncated, violations: [{inv, events, world}]}
-/
import Lean.Data.Json
import Std.Data.HashMap
import Mistral.Drv.Engine
import Mistral.Lemmas.EngineLive
open Lean Mistral Mistral.Engine
namespace Mistral.Drv.EngineLive

def tidJson (t : Tid) : List (String × Json) := [("t", Json.str t.1), ("occ", Json.num t.2)]

def itemJson : Item → Json
  | .postStartTask t f => Json.mkObj ([("k", Json.str "postStartTask"), ("firstRun", Json.bool f)] ++ tidJson t)
  | .postRunAction t => Json.mkObj ([("k", Json.str "postRunAction")] ++ tidJson t)
  | .postCheck => Json.mkObj [("k", Json.str "postCheck")]
  | .postSchedRefresh t => Json.mkObj ([("k", Json.str "postSchedRefresh")] ++ tidJson t)
  | .rpcStartTask t f => Json.mkObj ([("k", Json.str "rpcStartTask"), ("firstRun", Json.bool f)] ++ tidJson t)
  | .runAction t => Json.mkObj ([("k", Json.str "runAction")] ++ tidJson t)
  | .rpcResult t ok => Json.mkObj ([("k", Json.str "rpcResult"), ("ok", Json.bool ok)] ++ tidJson t)
  | .jobRefresh t => Json.mkObj ([("k", Json.str "jobRefresh")] ++ tidJson t)

def eventJson : Event → Json
  | .start => Json.mkObj [("ev", Json.str "start")]
  | .pause => Json.mkObj [("ev", Json.str "pause")]
  | .resume => Json.mkObj [("ev", Json.str "resume")]
  | .stop s => Json.mkObj [("ev", Json.str "stop"), ("state", Json.str s.toString)]
  | .execute t ok => Json.mkObj ([("ev", Json.str "execute"), ("ok", Json.bool ok)] ++ tidJson t)
  | .deliver it => Json.mkObj [("ev", Json.str "deliver"), ("item", itemJson it)]

def insertSorted (s : String) : List String → List String
  | [] => [s]
  | x :: xs => if s ≤ x then s :: x :: xs else x :: insertSorted s xs

def sortStrs (l : List String) : List String := l.foldl (fun acc s => insertSorted s acc) []

/-- identity of a world up to the order of the pending deliveries -/
def key (w : World) : String :=
  let rows := w.tasks.map fun t =>
    s!"{t.name}#{t.occ}:{t.state.toString}:{t.processed}:{t.hasNext}:{t.errorHandled}:{t.nextTasks}:{t.trig}"
  let pend := sortStrs (w.pending.map Mistral.Drv.Engine.itemStr)
  s!"{w.wf.toString}|{rows}|{pend}|{w.backlog.map fun c => (c.target, c.src)}|{w.crashed}"

/-- the events that are not no-ops; `loss` adds the loss of an action at its executor
    (`deliver (runAction t)`), `ops` the operator commands -/
def enabled (w : World) (ops loss : Bool) (mayPause : Bool) : List Event :=
  let items := w.pending.eraseDups
  let dl : List Event := items.flatMap fun it =>
    match it with
    | .runAction t => [.execute t true, .execute t false] ++ (if loss then [.deliver it] else [])
    | it => [.deliver it]
  (if w.wf == .IDLE then [Event.start] else []) ++ dl ++
  (if ops then
     (if mayPause && w.wf == .RUNNING then [Event.pause] else []) ++
     (if isPausedOrIdle w.wf then [Event.resume] else []) ++
     [Event.stop .ERROR, Event.stop .SUCCESS, Event.stop .CANCELLED] else [])

structure Node where
  w : World
  parent : Nat
  ev : Option Event
  pauses : Nat            -- pause commands on the path (bounded: every pause/resume round may add deliveries)

instance : Inhabited Node := ⟨⟨init, 0, none, 0⟩⟩

def pathTo (nodes : Array Node) (i : Nat) : List Event :=
  let rec go (fuel : Nat) (i : Nat) (acc : List Event) : List Event :=
    match fuel with
    | 0 => acc
    | fuel + 1 =>
      match nodes[i]? with
      | none => acc
      | some n => match n.ev with
        | none => acc
        | some e => go fuel n.parent (e :: acc)
  go (nodes.size + 1) i []

structure Result where
  states : Nat
  truncated : Bool
  viol : List (String × Nat)      -- invariant name, node index (first violation of each)

def explore (sp : Spec) (ops loss clean dfs : Bool) (failing : Option (List String)) (maxPauses maxStates : Nat)
    (invs : List (String × (Spec → World → Bool))) : Array Node × Result × Nat := Id.run do
  let mut nodes : Array Node := #[⟨init, 0, none, 0⟩]
  let mut seen : Std.HashMap String Nat := (Std.HashMap.emptyWithCapacity 1024).insert (key init ++ "|0") 0
  let mut viol : List (String × Nat) := []
  let mut todo : Array Nat := #[0]
  let mut head := 0
  let mut truncated := false
  let mut excluded := 0
  while head < todo.size do
    let i : Nat := if dfs then todo.back! else todo[head]!
    if dfs then todo := todo.pop else head := head + 1
    let n : Node := nodes[i]!
    -- worlds outside the class the theorem is stated for are neither checked nor expanded
    if clean && !Mistral.Engine.Live.pausedCleanB n.w then
      excluded := excluded + 1
    else
      for (nm, f) in invs do
        if !(viol.any (·.1 == nm)) && !f sp n.w then viol := viol ++ [(nm, i)]
      -- a finished execution is frozen (C03): nothing to explore beyond it
      if !isCompleted n.w.wf then
        for e in enabled n.w ops loss (n.pauses < maxPauses) do
          let allowed := match e, failing with
            | .execute t false, some fs => fs.contains t.1
            | _, _ => true
          if allowed then
            let w' := step sp n.w e
            let np := match e with | .pause => n.pauses + 1 | _ => n.pauses
            let k := key w' ++ s!"|{np}"
            if !seen.contains k then
              if nodes.size ≥ maxStates then truncated := true
              else
                seen := seen.insert k nodes.size
                todo := todo.push nodes.size
                nodes := nodes.push ⟨w', i, some e, np⟩
  return (nodes, ⟨nodes.size, truncated, viol⟩, excluded)

/-- deep random walks (the breadth-first search is exhaustive but shallow on the larger specs) -/
def walks (sp : Spec) (ops loss clean : Bool) (maxPauses nWalks maxLen seed : Nat)
    (invs : List (String × (Spec → World → Bool))) : Nat × List (String × List Event × World) := Id.run do
  let mut rng := seed * 2862933555777941757 + 3037000493
  let mut viol : List (String × List Event × World) := []
  let mut visited := 0
  for _ in [0:nWalks] do
    let mut w := init
    let mut path : Array Event := #[]
    let mut pauses := 0
    let mut fin := false
    for _ in [0:maxLen] do
      if !fin then
        if isCompleted w.wf || (clean && !Mistral.Engine.Live.pausedCleanB w) then fin := true
        else
          let en := enabled w ops loss (pauses < maxPauses)
          -- operator commands are rare, deliveries frequent
          let dl := en.filter fun e => match e with | .pause => false | .resume => false | .stop _ => false | _ => true
          rng := (rng * 6364136223846793005 + 1442695040888963407) % 18446744073709551616
          let r := rng / 65536
          let pool := if dl.isEmpty || r % 12 == 0 then en else dl
          if pool.isEmpty then fin := true
          else
            let e := pool.getD ((r / 16) % pool.length) Event.start
            match e with | .pause => pauses := pauses + 1 | _ => pure ()
            w := step sp w e
            path := path.push e
            visited := visited + 1
            if !(clean && !Mistral.Engine.Live.pausedCleanB w) then
              for (nm, f) in invs do
                if !(viol.any (·.1 == nm)) && !f sp w then viol := viol ++ [(nm, path.toList, w)]
  return (visited, viol)

def handle (fn : String) (a : Json) : Option (Except String Json) :=
  match fn with
  | "enginelive.explore" => some do
      let sp ← Mistral.Drv.Engine.specOfJson (← a.getObjVal? "spec")
      let ops := (a.getObjValAs? Bool "ops").toOption.getD true
      let loss := (a.getObjValAs? Bool "loss").toOption.getD false
      let maxStates := (a.getObjValAs? Nat "maxStates").toOption.getD 200000
      let maxPauses := (a.getObjValAs? Nat "maxPauses").toOption.getD 2
      let clean := (a.getObjValAs? Bool "clean").toOption.getD false
      let dfs := (a.getObjValAs? Bool "dfs").toOption.getD false
      let failing := (a.getObjValAs? (List String) "failing").toOption
      let (nodes, r, excluded) := explore sp ops loss clean dfs failing maxPauses maxStates Mistral.Engine.Live.checks
      pure (Json.mkObj [
        ("states", Json.num r.states), ("truncated", Json.bool r.truncated), ("excluded", Json.num excluded),
        ("violations", Json.arr (r.viol.map fun (nm, i) =>
          Json.mkObj [("inv", Json.str nm),
                      ("events", Json.arr ((pathTo nodes i).map eventJson).toArray),
                      ("world", match nodes[i]? with
                                | some n => Mistral.Drv.Engine.obs n.w
                                | none => Json.null)]).toArray)])
  | "enginelive.walk" => some do
      let sp ← Mistral.Drv.Engine.specOfJson (← a.getObjVal? "spec")
      let ops := (a.getObjValAs? Bool "ops").toOption.getD true
      let loss := (a.getObjValAs? Bool "loss").toOption.getD false
      let clean := (a.getObjValAs? Bool "clean").toOption.getD false
      let maxPauses := (a.getObjValAs? Nat "maxPauses").toOption.getD 2
      let nWalks := (a.getObjValAs? Nat "walks").toOption.getD 200
      let maxLen := (a.getObjValAs? Nat "maxLen").toOption.getD 200
      let seed := (a.getObjValAs? Nat "seed").toOption.getD 0
      let (visited, viol) := walks sp ops loss clean maxPauses nWalks maxLen seed Mistral.Engine.Live.checks
      pure (Json.mkObj [
        ("states", Json.num visited), ("truncated", Json.bool false), ("excluded", Json.num 0),
        ("violations", Json.arr (viol.map fun (nm, evs, w) =>
          Json.mkObj [("inv", Json.str nm), ("events", Json.arr (evs.map eventJson).toArray),
                      ("world", Mistral.Drv.Engine.obs w)]).toArray)])
  | "enginelive.check" => some do
      -- the invariants that fail after each event of one event list
      let sp ← Mistral.Drv.Engine.specOfJson (← a.getObjVal? "spec")
      let evsJ ← a.getObjValAs? (Array Json) "events"
      let evs ← evsJ.toList.mapM Mistral.Drv.Engine.eventOfJson
      let (_, out) := evs.foldl (fun (p : World × Array Json) e =>
        let w' := step sp p.1 e
        let bad := Mistral.Engine.Live.checks.filterMap fun (nm, f) => if f sp w' then none else some (Json.str nm)
        (w', p.2.push (Json.mkObj [("failed", Json.arr bad.toArray),
                                   ("pausedClean", Json.bool (Mistral.Engine.Live.pausedCleanB w'))]))) (init, #[])
      pure (Json.arr out)
  | _ => none

end Mistral.Drv.EngineLive
