import Lean.Data.Json
import Mistral.Model.Engine
import Mistral.Model.EngineX
import Mistral.Drv.Join
open Lean Mistral Mistral.Engine
namespace Mistral.Drv.Engine

def routesOfJson (j : Json) (k : String) : Except String (List RouteF) := do
  let a ← j.getObjValAs? (Array Json) k
  a.toList.mapM fun r => do
    pure { target := ← r.getObjValAs? String "to", fires := ← r.getObjValAs? Bool "fires" }

def taskFOfJson (j : Json) : Except String TaskF := do
  pure { name := (j.getObjValAs? String "name").toOption.getD "",
         onSuccess := ← routesOfJson j "onSuccess", onError := ← routesOfJson j "onError",
         onComplete := ← routesOfJson j "onComplete" }

def specOfJson (j : Json) : Except String Spec := do
  let g ← Mistral.Drv.Join.graphOfJson (← j.getObjVal? "graph")
  let ts ← j.getObjValAs? (Array Json) "routes"
  let tasks ← ts.toList.mapM taskFOfJson
  let d ← match j.getObjVal? "routeDefaults" with
    | .ok Json.null => pure none
    | .error _ => pure none
    | .ok dj => do pure (some (← taskFOfJson dj))
  pure { graph := g, live := liveFrom tasks d }

def itemOfJson (j : Json) : Except String Item := do
  let k ← j.getObjValAs? String "k"
  let t : Tid := ((j.getObjValAs? String "t").toOption.getD "", (j.getObjValAs? Nat "occ").toOption.getD 0)
  match k with
  | "postStartTask" => pure (.postStartTask t (← j.getObjValAs? Bool "firstRun"))
  | "postRunAction" => pure (.postRunAction t)
  | "postCheck" => pure .postCheck
  | "postSchedRefresh" => pure (.postSchedRefresh t)
  | "rpcStartTask" => pure (.rpcStartTask t (← j.getObjValAs? Bool "firstRun"))
  | "runAction" => pure (.runAction t)
  | "rpcResult" => pure (.rpcResult t (← j.getObjValAs? Bool "ok"))
  | "jobRefresh" => pure (.jobRefresh t)
  | _ => throw s!"bad item {k}"

def itemStr : Item → String
  | .postStartTask t f => s!"postStartTask:{t.1}#{t.2}:{f}"
  | .postRunAction t => s!"postRunAction:{t.1}#{t.2}"
  | .postCheck => "postCheck"
  | .postSchedRefresh t => s!"postSchedRefresh:{t.1}#{t.2}"
  | .rpcStartTask t f => s!"rpcStartTask:{t.1}#{t.2}:{f}"
  | .runAction t => s!"runAction:{t.1}#{t.2}"
  | .rpcResult t ok => s!"rpcResult:{t.1}#{t.2}:{ok}"
  | .jobRefresh t => s!"jobRefresh:{t.1}#{t.2}"

def eventOfJson (j : Json) : Except String Event := do
  let k ← j.getObjValAs? String "ev"
  match k with
  | "start" => pure .start
  | "pause" => pure .pause
  | "resume" => pure .resume
  | "stop" =>
    match St.ofString? (← j.getObjValAs? String "state") with
    | some s => pure (.stop s)
    | none => throw "bad state"
  | "execute" => pure (.execute (← j.getObjValAs? String "t", (j.getObjValAs? Nat "occ").toOption.getD 0) (← j.getObjValAs? Bool "ok"))
  | "deliver" => do pure (.deliver (← itemOfJson (← j.getObjVal? "item")))
  | _ => throw s!"bad event {k}"

def obs (w : World) : Json :=
  Json.mkObj [
    ("wf", Json.str w.wf.toString),
    ("tasks", Json.arr (w.tasks.map fun t => Json.arr #[Json.str s!"{t.name}#{t.occ}", Json.str t.state.toString,
        Json.bool t.processed, Json.bool t.hasNext, Json.bool t.errorHandled,
        Json.arr (t.nextTasks.map fun (a, b) => Json.arr #[Json.str a, Json.str b]).toArray]).toArray),
    ("pending", Json.arr (w.pending.map fun i => Json.str (itemStr i)).toArray),
    ("backlog", Json.arr (w.backlog.map fun c => Json.str c.target).toArray),
    ("crashed", Json.bool w.crashed)]

def insSorted (s : String) : List String → List String
  | [] => [s]
  | x :: xs => if s ≤ x then s :: x :: xs else x :: insSorted s xs

def sortS (l : List String) : List String := l.foldl (fun acc s => insSorted s acc) []

/-- a world up to the order of its rows and of its pending deliveries -/
def canon (w : World) : String :=
  let rows := sortS (w.tasks.map fun t =>
    s!"{t.name}#{t.occ}:{t.state.toString}:{t.processed}:{t.hasNext}:{t.errorHandled}:{t.nextTasks}")
  s!"{w.wf.toString}|{rows}|{sortS (w.pending.map itemStr)}|{w.backlog.length}|{w.crashed}"

/-- the definition has no engine command among its (firing) on-clause targets and task names -/
def cmdFreeB (sp : Spec) : Bool :=
  (sp.live.all fun l => (l.onSuccess ++ l.onError ++ l.onComplete).all fun x => cmdKind x == .task) &&
  (sp.graph.tasks.all fun t => cmdKind t.name == .task)

/-- stateless: the whole event list is replayed (runs are short).  The model is `stepX` (engine commands);
    on a definition WITHOUT engine commands the task-only core `step` (the object of the liveness / refinement
    theorems) is run alongside and must give the same world up to the order of rows and deliveries
    (`stepAgrees`; the orders differ by the dispatcher's sort, which `step` does not model). -/
def handle (fn : String) (a : Json) : Option (Except String Json) :=
  match fn with
  | "engine.run" => some do
      let sp ← specOfJson (← a.getObjVal? "spec")
      let evsJ ← a.getObjValAs? (Array Json) "events"
      let evs ← evsJ.toList.mapM eventOfJson
      let cf := cmdFreeB sp
      -- observation after every event
      let (_, _, out) := evs.foldl (fun (p : World × World × Array Json) e =>
        let w' := stepX sp p.1 e
        let v' := if cf then step sp p.2.1 e else p.2.1
        let agrees := !cf || canon w' == canon v'
        (w', v', p.2.2.push ((obs w').setObjVal! "stepAgrees" (Json.bool agrees)))) (init, init, #[])
      pure (Json.arr out)
  | _ => none

end Mistral.Drv.Engine
