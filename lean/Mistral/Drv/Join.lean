import Lean.Data.Json
import Mistral.Model.Join
open Lean Mistral Mistral.Join
namespace Mistral.Drv.Join

def strList (j : Json) (k : String) : Except String (List String) := do
  let a ← j.getObjValAs? (Array String) k
  pure a.toList

def joinOfJson (j : Json) : Except String (Option JoinKind) :=
  match j.getObjVal? "join" with
  | .ok (Json.str "all") => pure (some .all)
  | .ok (Json.str "one") => pure (some (.count 1))
  | .ok (Json.num n) => if n.exponent == 0 && n.mantissa ≥ 0 then pure (some (.count n.mantissa.toNat)) else throw "bad join"
  | .ok Json.null => pure none
  | .error _ => pure none
  | _ => throw "bad join"

def taskOfJson (j : Json) : Except String TaskG := do
  pure { name := ← j.getObjValAs? String "name", join := ← joinOfJson j,
         onSuccess := ← strList j "onSuccess", onError := ← strList j "onError",
         onComplete := ← strList j "onComplete", onSkip := ← strList j "onSkip" }

def graphOfJson (j : Json) : Except String Graph := do
  let ts ← j.getObjValAs? (Array Json) "tasks"
  let tasks ← ts.toList.mapM taskOfJson
  let defaults ← match j.getObjVal? "defaults" with
    | .ok Json.null => pure none
    | .error _ => pure none
    | .ok d => do
      pure (some { onSuccess := ← strList d "onSuccess", onError := ← strList d "onError",
                   onComplete := ← strList d "onComplete", onSkip := ← strList d "onSkip" : Defaults })
  pure { tasks := tasks, defaults := defaults }

def rowOfJson (j : Json) : Except String Row := do
  let st ← j.getObjValAs? String "state"
  let nt ← j.getObjValAs? (Array (Array String)) "nextTasks"
  match St.ofString? st with
  | none => throw "bad state"
  | some s => pure { name := ← j.getObjValAs? String "name", state := s,
                     nextTasks := nt.toList.map fun a => (a[0]!, a[1]!) }

def optStr : Option String → Json
  | some s => Json.str s
  | none => Json.null

def handle (fn : String) (a : Json) : Option (Except String Json) :=
  match fn with
  | "join.logicalState" => some do
      let g ← graphOfJson (← a.getObjVal? "graph")
      let rowsJ ← a.getObjValAs? (Array Json) "rows"
      let rows ← rowsJ.toList.mapM rowOfJson
      let fuel ← a.getObjValAs? Nat "fuel"
      let name ← a.getObjValAs? String "join"
      let kind ← joinOfJson (Json.mkObj [("join", ← a.getObjVal? "kind")])
      match kind with
      | none => throw "kind required"
      | some k =>
        match joinLogicalState g rows fuel name k with
        | none => pure (Json.str "recursion")
        | some L => pure (Json.mkObj [
            ("state", Json.str L.state.toString), ("cardinality", Json.num L.cardinality),
            ("triggeredBy", Json.arr (L.triggeredBy.map fun (n, e) => Json.arr #[Json.str n, optStr e]).toArray),
            ("blockedBy", Json.arr (L.blockedBy.map Json.str).toArray),
            ("failedBy", Json.arr (L.failedBy.map Json.str).toArray)])
  | "join.inbound" => some do
      let g ← graphOfJson (← a.getObjVal? "graph")
      let name ← a.getObjValAs? String "name"
      pure (Json.arr ((inbound g name).map fun t => Json.str t.name).toArray)
  | "join.outNames" => some do
      let g ← graphOfJson (← a.getObjVal? "graph")
      let name ← a.getObjValAs? String "name"
      match g.tasks.find? (·.name == name) with
      | some t => pure (Json.arr ((outNames g t).map Json.str).toArray)
      | none => throw "no such task"
  | _ => none

end Mistral.Drv.Join
