import Lean.Data.Json
import Mistral.Model.Rest
import Mistral.Gen.Endpoints
import Mistral.Gen.Policies
open Lean Mistral.Rest Mistral.Gen.Endpoints
namespace Mistral.Drv.Rest

def guardStr : Guard → String
  | .always => "always" | .allProjects => "allProjects"
  | .allProjectsOrProjectId => "allProjectsOrProjectId" | .scopePublic => "scopePublic"
  | .other t => "other:" ++ t

def execErrStr : ExecPutErr → String
  | .notFound => "notFound" | .nothingToUpdate => "nothingToUpdate" | .descWithState => "descWithState"
  | .envWithState => "envWithState" | .envNotAllowed => "envNotAllowed" | .badState => "badState"

def engineJson : Option EngineCall → Json
  | none => Json.null
  | some .pause => Json.arr #["pause_workflow"]
  | some (.resume b) => Json.arr #["resume_workflow", Json.bool b]
  | some (.stop s) => Json.arr #["stop_workflow", Json.str s]

def delStr : DeleteRes → String
  | .deleted => "deleted" | .notFound => "notFound" | .notAllowed => "notAllowed"

def taskErrStr : TaskPutErr → String
  | .notFound => "notFound" | .nameMismatch => "nameMismatch" | .wfNameMismatch => "wfNameMismatch"
  | .invalidState => "invalidState" | .notInError => "notInError" | .resetMandatory => "resetMandatory"
  | .resetRequired => "resetRequired"

def actionCallJson : ActionCall → Json
  | .completeData => Json.arr #["on_action_complete", "data"]
  | .completeError d => Json.arr #["on_action_complete", "error", Json.bool d]
  | .completeCancel => Json.arr #["on_action_complete", "cancel"]
  | .update s => Json.arr #["on_action_update", Json.str s]

def handle (fn : String) (a : Json) : Option (Except String Json) :=
  match fn with
  | "rest.endpoints" => some do
      pure (Json.arr (endpoints.toArray.map (fun e => Json.mkObj [
        ("cls", e.cls), ("method", e.method), ("http", e.http), ("path", e.path),
        ("acceptsAllProjects", e.acceptsAllProjects), ("acceptsScope", e.acceptsScope),
        ("enforces", Json.arr (e.enforces.toArray.map (fun x =>
          Json.mkObj [("rule", x.rule), ("guard", guardStr x.guard)])))])))
  | "rest.handle" => some do
      let idx ← a.getObjValAs? Nat "idx"
      let denied ← a.getObjValAs? (Array String) "denied"
      let ap ← a.getObjValAs? Bool "allProjects"
      let pid ← a.getObjValAs? Bool "projectId"
      let sp ← a.getObjValAs? Bool "scopePublic"
      match endpoints[idx]? with
      | none => throw "no such endpoint"
      | some e =>
        -- the decision of `Mistral.Rest.handle` on a unit database: 403 or the body's marker 0
        let r := Mistral.Rest.handle e (fun rule => !denied.contains rule)
          { allProjects := ap, projectId := pid, scopePublic := sp } (fun (u : Unit) => (0, u)) ()
        pure (Json.mkObj [("cls", e.cls), ("method", e.method),
          ("status", if r.1 == 403 then Json.str "403" else Json.str "pass"),
          ("rule", match firstDenied (fun rule => !denied.contains rule)
              { allProjects := ap, projectId := pid, scopePublic := sp } e.enforces with
            | some r => Json.str r | none => Json.null)])
  | "rest.policy" => some do
      let rule ← a.getObjValAs? String "rule"
      pure (match Mistral.Gen.Policies.lookup rule with | some c => Json.str c | none => Json.null)
  | "rest.execPut" => some do
      let ex ← a.getObjValAs? Bool "exists"
      let cur ← a.getObjValAs? String "cur"
      let st ← a.getObjValAs? String "state"
      let d ← a.getObjValAs? Bool "desc"
      let en ← a.getObjValAs? Bool "env"
      pure (match execPut ex cur st d en with
        | .error e => Json.mkObj [("err", execErrStr e)]
        | .ok o => Json.mkObj [("setDescription", o.setDescription), ("updateEnv", o.updateEnv),
                               ("engine", engineJson o.engine)])
  | "rest.execDelete" => some do
      let ex ← a.getObjValAs? Bool "exists"
      let cur ← a.getObjValAs? String "cur"
      let f ← a.getObjValAs? Bool "force"
      pure (Json.str (delStr (execDelete ex cur f)))
  | "rest.taskPut" => some do
      let ex ← a.getObjValAs? Bool "exists"
      let n ← a.getObjValAs? Bool "nameOk"
      let w ← a.getObjValAs? Bool "wfNameOk"
      let cur ← a.getObjValAs? String "cur"
      let req ← a.getObjValAs? String "req"
      let reset : Option Bool ← match a.getObjVal? "reset" with
        | .ok (Json.bool b) => pure (some b)
        | .ok Json.null => pure none
        | _ => throw "bad reset"
      let wi ← a.getObjValAs? Bool "withItems"
      let en ← a.getObjValAs? Bool "env"
      pure (match taskPut ex n w cur req reset wi en with
        | .error e => Json.mkObj [("err", taskErrStr e)]
        | .ok r => Json.mkObj [("rerun", Json.arr #[Json.bool r.reset, Json.bool r.skip, Json.bool r.withEnv])])
  | "rest.actionPut" => some do
      let st ← a.getObjValAs? String "state"
      let o ← a.getObjValAs? Bool "hasOutput"
      pure (match actionPut st o with
        | .unsupported => Json.mkObj [("err", "unsupported")]
        | .crash => Json.mkObj [("err", "crash")]
        | .calls cs => Json.mkObj [("calls", Json.arr (cs.toArray.map actionCallJson))])
  | "rest.actionDelete" => some do
      let al ← a.getObjValAs? Bool "allowed"
      let ex ← a.getObjValAs? Bool "exists"
      let ht ← a.getObjValAs? Bool "hasTask"
      let cur ← a.getObjValAs? String "cur"
      pure (Json.str (delStr (actionDelete al ex ht cur)))
  | _ => none

end Mistral.Drv.Rest
