/-
Driver functions of the declarative semantics `Mistral.Sem` (C02 / C10):
  sem.rows     {spec, failing}                         → {rows, verdict}   (the semantics itself)
  sem.check    {spec, failing, events}                 → the refinement claim evaluated along ONE event
                                                         list of the engine model (class predicates,
                                                         soundness on every prefix, completeness at the end)
  sem.explore  {spec, failing, maxPauses, maxStates, stale, clean}
                                                       → exhaustive enumeration of the reachable worlds
                                                         of `Mistral.Engine` under oracle-consistent,
                                                         lossless, stop-free histories; the refinement
                                                         claim evaluated on every world (support tooling,
                                                         "test before you prove")
  sem.walk     {spec, failing, maxPauses, walks, maxLen, seed, stale, clean}   deep random walks
The oracle is given as the list of the tasks whose action fails.
-/
import Lean.Data.Json
import Std.Data.HashMap
import Mistral.Drv.Engine
import Mistral.Model.Sem
open Lean Mistral Mistral.Engine Mistral.Sem
namespace Mistral.Drv.Sem

def orcOf (failing : List String) : String → Bool := fun n => !failing.contains n

def srowJson (x : SRow) : Json :=
  Json.arr #[Json.str x.1, Json.str x.2.1.toString,
             Json.arr (x.2.2.map fun (a, b) => Json.arr #[Json.str a, Json.str b]).toArray]

def tidJson (t : Tid) : List (String × Json) := [("t", Json.str t.1), ("occ", Json.num t.2)]

def itemJson : Item → Json
  | .postStartTask t f => Json.mkObj ([("k", Json.str "postStartTask"), ("firstRun", Json.bool f)] ++ tidJson t)
  | .postRunAction t => Json.mkObj ([("k", Json.str "postRunAction")] ++ tidJson t)
  | .postCheck => Json.mkObj [("k", Json.str "postCheck")]
  | .postSchedRefresh t => Json.mkObj ([("k", Json.str "postSchedRefresh")] ++ tidJson t)
  | .rpcStartTask t f => Json.mkObj ([("k", Json.str "rpcStartTask"), ("firstRun", Json.bool f)] ++ tidJson t)
  | .runAction t => Json.mkObj ([("k", Json.str "runAction")] ++ tidJson t)
  | .rpcResult t ok => Json.mkObj ([("k", Json.str "rpcResult"), ("ok", Json.bool ok)] ++ tidJson t)
  | .jobRefresh t => Json.mkObj ([("k", Json.str "jobRefresh")] ++ tidJson t)

def eventJson : Event → Json
  | .start => Json.mkObj [("ev", Json.str "start")]
  | .pause => Json.mkObj [("ev", Json.str "pause")]
  | .resume => Json.mkObj [("ev", Json.str "resume")]
  | .stop s => Json.mkObj [("ev", Json.str "stop"), ("state", Json.str s.toString)]
  | .execute t ok => Json.mkObj ([("ev", Json.str "execute"), ("ok", Json.bool ok)] ++ tidJson t)
  | .deliver it => Json.mkObj [("ev", Json.str "deliver"), ("item", itemJson it)]

/-! ### the refinement claim, executable -/

/-- soundness: every row is a task of the semantic set; a completed row has the state and the
    next_tasks the semantics prescribes -/
def soundB (sp : Spec) (orc : String → Bool) (w : World) : Bool :=
  w.tasks.all fun r =>
    match sem sp orc r.name with
    | none => false
    | some s => !isCompleted r.state || (r.state == s && r.nextTasks == nextOf sp r.name s)

def subsetB (a b : List SRow) : Bool := a.all fun x => b.contains x

def quiescentB (w : World) : Bool := w.pending.isEmpty && w.wf != .PAUSED && w.wf != .IDLE

/-- completeness at quiescence: rows = semantic set (as sets of triples), wf = semantic verdict -/
def completeB (sp : Spec) (orc : String → Bool) (w : World) : Bool :=
  !quiescentB w ||
    (w.wf == semVerdict sp orc && subsetB (w.tasks.map rowTriple) (semRows sp orc) &&
      subsetB (semRows sp orc) (w.tasks.map rowTriple))

/-- one row per task (the narrow "single activation" reading) -/
def onceB (w : World) : Bool :=
  w.tasks.all fun r => (w.tasks.filter (·.name == r.name)).length == 1

/-- the class of worlds of WP-A's liveness theorem -/
def pausedCleanB (w : World) : Bool :=
  w.wf != .PAUSED || w.tasks.all fun r => isCompleted r.state || !r.processed

def checks (sp : Spec) (orc : String → Bool) : List (String × (World → Bool)) :=
  [("sound", soundB sp orc), ("complete", completeB sp orc)]

/-! ### exploration -/

def insertSorted (s : String) : List String → List String
  | [] => [s]
  | x :: xs => if s ≤ x then s :: x :: xs else x :: insertSorted s xs

def sortStrs (l : List String) : List String := l.foldl (fun acc s => insertSorted s acc) []

def key (w : World) : String :=
  let rows := w.tasks.map fun t =>
    s!"{t.name}#{t.occ}:{t.state.toString}:{t.processed}:{t.hasNext}:{t.errorHandled}:{t.nextTasks}:{t.trig}"
  let pend := sortStrs (w.pending.map Mistral.Drv.Engine.itemStr)
  s!"{w.wf.toString}|{rows}|{pend}|{w.backlog.map fun c => (c.target, c.src)}|{w.crashed}"

/-- the events that are not no-ops: deliveries, the oracle's result of every action at an
    executor, pause / resume; no stop, no loss of an action -/
def enabled (orc : String → Bool) (w : World) (mayPause : Bool) : List Event :=
  let items := w.pending.eraseDups
  let dl : List Event := items.map fun it =>
    match it with
    | .runAction t => .execute t (orc t.1)
    | it => .deliver it
  (if w.wf == .IDLE then [Event.start] else []) ++ dl ++
    (if mayPause && w.wf == .RUNNING then [Event.pause] else []) ++
    (if w.wf == .PAUSED then [Event.resume] else [])

structure Node where
  w : World
  parent : Nat
  ev : Option Event
  pauses : Nat

instance : Inhabited Node := ⟨⟨init, 0, none, 0⟩⟩

def pathTo (nodes : Array Node) (i : Nat) : List Event :=
  let rec go (fuel : Nat) (i : Nat) (acc : List Event) : List Event :=
    match fuel with
    | 0 => acc
    | fuel + 1 =>
      match nodes[i]? with
      | none => acc
      | some n => match n.ev with
        | none => acc
        | some e => go fuel n.parent (e :: acc)
  go (nodes.size + 1) i []

structure Result where
  states : Nat
  quiescent : Nat
  staleSkipped : Nat
  uncleanSkipped : Nat
  truncated : Bool
  viol : List (String × Nat)

def explore (sp : Spec) (orc : String → Bool) (stale clean : Bool) (maxPauses maxStates : Nat)
    (invs : List (String × (World → Bool))) : Array Node × Result := Id.run do
  let mut nodes : Array Node := #[⟨init, 0, none, 0⟩]
  let mut seen : Std.HashMap String Nat := (Std.HashMap.emptyWithCapacity 1024).insert (key init ++ "|0") 0
  let mut viol : List (String × Nat) := []
  let mut head := 0
  let mut truncated := false
  let mut quiescent := 0
  let mut staleSkipped := 0
  let mut uncleanSkipped := 0
  while head < nodes.size do
    let i := head
    head := head + 1
    let n : Node := nodes[i]!
    if clean && !pausedCleanB n.w then
      uncleanSkipped := uncleanSkipped + 1
    else
      if quiescentB n.w then quiescent := quiescent + 1
      for (nm, f) in invs do
        if !(viol.any (·.1 == nm)) && !f n.w then viol := viol ++ [(nm, i)]
      for e in enabled orc n.w (n.pauses < maxPauses) do
        if !stale && staleB n.w e then
          staleSkipped := staleSkipped + 1
        else
          let w' := step sp n.w e
          let np := match e with | .pause => n.pauses + 1 | _ => n.pauses
          let k := key w' ++ s!"|{np}"
          if !seen.contains k then
            if nodes.size ≥ maxStates then truncated := true
            else
              seen := seen.insert k nodes.size
              nodes := nodes.push ⟨w', i, some e, np⟩
  return (nodes, ⟨nodes.size, quiescent, staleSkipped, uncleanSkipped, truncated, viol⟩)

def walks (sp : Spec) (orc : String → Bool) (stale clean : Bool) (maxPauses nWalks maxLen seed : Nat)
    (invs : List (String × (World → Bool))) : Nat × Nat × List (String × List Event × World) := Id.run do
  let mut rng := seed * 2862933555777941757 + 3037000493
  let mut viol : List (String × List Event × World) := []
  let mut visited := 0
  let mut quiescent := 0
  for _ in [0:nWalks] do
    let mut w := init
    let mut path : Array Event := #[]
    let mut pauses := 0
    let mut fin := false
    for _ in [0:maxLen] do
      if !fin then
        if clean && !pausedCleanB w then fin := true
        else
          let en := (enabled orc w (pauses < maxPauses)).filter fun e => stale || !staleB w e
          let dl := en.filter fun e => match e with | .pause => false | _ => true
          rng := (rng * 6364136223846793005 + 1442695040888963407) % 18446744073709551616
          let r := rng / 65536
          let pool := if dl.isEmpty || r % 10 == 0 then en else dl
          if pool.isEmpty then
            fin := true
            if quiescentB w then quiescent := quiescent + 1
          else
            let e := pool.getD ((r / 16) % pool.length) Event.start
            match e with | .pause => pauses := pauses + 1 | _ => pure ()
            w := step sp w e
            path := path.push e
            visited := visited + 1
            if !(clean && !pausedCleanB w) then
              for (nm, f) in invs do
                if !(viol.any (·.1 == nm)) && !f w then viol := viol ++ [(nm, path.toList, w)]
  return (visited, quiescent, viol)

def semJson (sp : Spec) (orc : String → Bool) : Json :=
  Json.mkObj [("rows", Json.arr ((semRows sp orc).map srowJson).toArray),
              ("verdict", Json.str (semVerdict sp orc).toString)]

def handle (fn : String) (a : Json) : Option (Except String Json) :=
  match fn with
  | "sem.rows" => some do
      let sp ← Mistral.Drv.Engine.specOfJson (← a.getObjVal? "spec")
      let failing ← a.getObjValAs? (List String) "failing"
      pure (semJson sp (orcOf failing))
  | "sem.check" => some do
      let sp ← Mistral.Drv.Engine.specOfJson (← a.getObjVal? "spec")
      let failing ← a.getObjValAs? (List String) "failing"
      let orc := orcOf failing
      let evsJ ← a.getObjValAs? (Array Json) "events"
      let evs ← evsJ.toList.mapM Mistral.Drv.Engine.eventOfJson
      -- along the event list: first stale re-start, first world outside PausedClean, first stop /
      -- lost action / result that contradicts the oracle, first unsound prefix
      let (w, _, stale, unclean, foreign, unsound) :=
        evs.foldl (fun (p : World × Nat × Option Nat × Option Nat × Option Nat × Option Nat) e =>
          let (w, k, stale, unclean, foreign, unsound) := p
          let stale := if stale.isNone && staleB w e then some k else stale
          let foreign := if foreign.isSome then foreign else (if plainB orc e then none else some k)
          let w' := step sp w e
          let unclean := if unclean.isNone && !pausedCleanB w' then some k else unclean
          let unsound := if unsound.isNone && !soundB sp orc w' then some k else unsound
          (w', k + 1, stale, unclean, foreign, unsound)) (init, 0, none, none, none, none)
      let optJ (o : Option Nat) : Json := match o with | some k => Json.num k | none => Json.null
      pure (Json.mkObj [
        ("stale", optJ stale), ("unclean", optJ unclean), ("foreign", optJ foreign), ("unsound", optJ unsound),
        ("quiescent", Json.bool (quiescentB w)), ("complete", Json.bool (completeB sp orc w)),
        ("once", Json.bool (onceB w)), ("singleAct", Json.bool (singleActB sp orc)),
        ("singleActWide", Json.bool (singleActWideB sp orc)),
        ("final", Mistral.Drv.Engine.obs w), ("sem", semJson sp orc)])
  | "sem.explore" => some do
      let sp ← Mistral.Drv.Engine.specOfJson (← a.getObjVal? "spec")
      let failing ← a.getObjValAs? (List String) "failing"
      let orc := orcOf failing
      let maxStates := (a.getObjValAs? Nat "maxStates").toOption.getD 200000
      let maxPauses := (a.getObjValAs? Nat "maxPauses").toOption.getD 1
      let stale := (a.getObjValAs? Bool "stale").toOption.getD true
      let clean := (a.getObjValAs? Bool "clean").toOption.getD false
      let once := (a.getObjValAs? Bool "once").toOption.getD false
      let invs := checks sp orc ++ (if once && singleActB sp orc then [("once", onceB)] else [])
      let (nodes, r) := explore sp orc stale clean maxPauses maxStates invs
      pure (Json.mkObj [
        ("states", Json.num r.states), ("quiescent", Json.num r.quiescent), ("truncated", Json.bool r.truncated),
        ("staleSkipped", Json.num r.staleSkipped), ("uncleanSkipped", Json.num r.uncleanSkipped),
        ("sem", semJson sp orc), ("singleAct", Json.bool (singleActB sp orc)),
        ("violations", Json.arr (r.viol.map fun (nm, i) =>
          Json.mkObj [("inv", Json.str nm),
                      ("events", Json.arr ((pathTo nodes i).map eventJson).toArray),
                      ("world", match nodes[i]? with
                                | some n => Mistral.Drv.Engine.obs n.w
                                | none => Json.null)]).toArray)])
  | "sem.walk" => some do
      let sp ← Mistral.Drv.Engine.specOfJson (← a.getObjVal? "spec")
      let failing ← a.getObjValAs? (List String) "failing"
      let orc := orcOf failing
      let maxPauses := (a.getObjValAs? Nat "maxPauses").toOption.getD 2
      let nWalks := (a.getObjValAs? Nat "walks").toOption.getD 200
      let maxLen := (a.getObjValAs? Nat "maxLen").toOption.getD 300
      let seed := (a.getObjValAs? Nat "seed").toOption.getD 0
      let stale := (a.getObjValAs? Bool "stale").toOption.getD true
      let clean := (a.getObjValAs? Bool "clean").toOption.getD false
      let once := (a.getObjValAs? Bool "once").toOption.getD false
      let invs := checks sp orc ++ (if once && singleActB sp orc then [("once", onceB)] else [])
      let (visited, quiescent, viol) := walks sp orc stale clean maxPauses nWalks maxLen seed invs
      pure (Json.mkObj [
        ("states", Json.num visited), ("quiescent", Json.num quiescent), ("truncated", Json.bool false),
        ("staleSkipped", Json.num 0), ("uncleanSkipped", Json.num 0),
        ("sem", semJson sp orc),
        ("violations", Json.arr (viol.map fun (nm, evs, w) =>
          Json.mkObj [("inv", Json.str nm), ("events", Json.arr (evs.map eventJson).toArray),
                      ("world", Mistral.Drv.Engine.obs w)]).toArray)])
  | _ => none

end Mistral.Drv.Sem
