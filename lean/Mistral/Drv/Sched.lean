import Lean.Data.Json
import Mistral.Model.Sched
import Mistral.Model.SchedLegacy
open Lean Mistral.Sched
namespace Mistral.Drv.Sched

def optNat : Option Nat → Json
  | none => Json.null
  | some n => toJson n

def natsOf (j : Json) : Except String (List Nat) := do
  let a ← j.getArr?
  a.toList.mapM fun x => x.getNat?

def stepOfJson (j : Json) : Except String Step := do
  let a ← j.getArr?
  match a.toList with
  | k :: rest =>
    let kind ← k.getStr?
    let ns ← rest.mapM fun x => x.getNat?
    match kind, ns with
    | "schedule", [i, ra, key, tx] => pure (.schedule i ra key tx)
    | "scheduleBad", [i] => pure (.scheduleBad i)
    | "commit", [tx] => pure (.commit tx)
    | "rollback", [tx] => pure (.rollback tx)
    | "tick", [n] => pure (.tick n)
    | "pop", [i] => pure (.pop i)
    | "task", [i, j] => pure (.task i j)
    | "pollSelect", [i] => pure (.pollSelect i)
    | "pollCapture", [i] => pure (.pollCapture i)
    | "pollNext", [i] => pure (.pollNext i)
    | "crash", [i] => pure (.crash i)
    | _, _ => throw s!"bad step {kind}"
  | [] => throw "empty step"

def cfgOfJson (j : Json) : Except String Cfg := do
  let p ← j.getObjValAs? Nat "pickup"
  let t ← j.getObjValAs? Nat "timeout"
  let b : Option Nat ← match j.getObjVal? "batch" with
    | .ok Json.null => pure none
    | .ok x => do let n ← x.getNat?; pure (some n)
    | .error _ => pure none
  let bad : List Nat ← match j.getObjVal? "bad" with
    | .ok Json.null => pure []
    | .ok x => natsOf x
    | .error _ => pure []
  pure { pickup := p, timeout := t, batch := b, bad := bad }

def visStr : Vis → String
  | .uncommitted tx => s!"uncommitted:{tx}"
  | .committed => "committed"
  | .rolledBack => "rolledBack"
  | .deleted => "deleted"

def stageStr : Stage → String
  | .popped => "popped" | .captured => "captured" | .invoked => "invoked"

def pollJson : Poll → Json
  | .idle => Json.arr #[Json.str "idle"]
  | .selected cs => Json.arr #[Json.str "selected",
      Json.arr (cs.map fun c => Json.arr #[toJson c.1, optNat c.2]).toArray]
  | .running q h => Json.arr #[Json.str "running", toJson q, toJson h]

def evJson : Ev → Json
  | .captured j t i => Json.arr #[Json.str "captured", toJson j, toJson t, toJson i]
  | .invoked j t i => Json.arr #[Json.str "invoked", toJson j, toJson t, toJson i]
  | .deleted j t i => Json.arr #[Json.str "deleted", toJson j, toJson t, toJson i]

def instJson (x : Inst) : Json :=
  Json.mkObj [
    ("alive", toJson x.alive),
    ("heap", Json.arr (x.heap.map fun h => Json.arr #[toJson h.executeAt, toJson h.id]).toArray),
    ("mem", Json.arr (x.inMem.map fun m => Json.arr #[toJson m.id, optNat m.capturedAt]).toArray),
    ("tasks", Json.arr (x.tasks.map fun t => Json.arr #[toJson t.id, Json.str (stageStr t.stage)]).toArray),
    ("poll", pollJson x.poll)]

def procs : List (Option Bool) := [none, some false, some true]

def procJson : Option Bool → Json
  | none => Json.null
  | some b => toJson b

def hasJson (s : State) (keys : List Nat) : Json :=
  let ks : List (Option Nat) := none :: keys.map some
  Json.arr ((List.range s.insts.length).flatMap fun i =>
    match s.insts[i]? with
    | some inst =>
      if inst.alive then
        ks.flatMap fun k => procs.map fun p =>
          Json.arr #[toJson i, optNat k, procJson p, toJson (hasJobs s i k p)]
      else []
    | none => []).toArray

def stateJson (cfg : Cfg) (s : State) (keys : List Nat) : Json :=
  Json.mkObj [
    ("clock", toJson s.clock),
    ("rows", Json.arr (s.rows.map fun r =>
      Json.arr #[toJson r.executeAt, optNat r.capturedAt, toJson r.key, Json.str (visStr r.vis)]).toArray),
    ("insts", Json.arr (s.insts.map instJson).toArray),
    ("trace", Json.arr (s.trace.reverse.map evJson).toArray),
    ("has", hasJson s keys),
    ("pending", Json.arr (keys.map fun k => Json.arr #[toJson k, toJson (pendingTruth s k)]).toArray),
    ("timely", toJson (timelyB cfg s)),
    ("eligible", Json.arr ((sortCands (eligibleRows cfg s.clock s.rows)).map fun c =>
      Json.arr #[toJson c.1, toJson c.2.1]).toArray)]

def runAll (cfg : Cfg) (keys : List Nat) : State → List Step → List Json
  | _, [] => []
  | s, e :: es => let s' := step cfg s e; stateJson cfg s' keys :: runAll cfg keys s' es

def lstepOfJson (j : Json) : Except String LStep := do
  let a ← j.getArr?
  match a.toList with
  | k :: rest =>
    let kind ← k.getStr?
    let ns ← rest.mapM fun x => x.getNat?
    match kind, ns with
    | "schedule", [ra, key, tx] => pure (.schedule ra key tx)
    | "scheduleBad", [ra, key, tx] => pure (.scheduleBad ra key tx)
    | "commit", [tx] => pure (.commit tx)
    | "rollback", [tx] => pure (.rollback tx)
    | "tick", [n] => pure (.tick n)
    | "select", [i] => pure (.select i)
    | "capture", [i] => pure (.capture i)
    | "invoke", [i] => pure (.invoke i)
    | "delete", [i] => pure (.delete i)
    | "crash", [i] => pure (.crash i)
    | _, _ => throw s!"bad lstep {kind}"
  | [] => throw "empty step"

def lphaseJson : LPhase → Json
  | .idle => Json.arr #[Json.str "idle"]
  | .selected cands => Json.arr #[Json.str "selected", toJson cands]
  | .busy ids todo => Json.arr #[Json.str "busy", toJson ids, toJson todo]

def tripleJson (e : Nat × Nat × Nat) : Json := Json.arr #[toJson e.1, toJson e.2.1, toJson e.2.2]

def lhasJson (s : LState) (keys : List Nat) : Json :=
  let ks : List (Option Nat) := none :: keys.map some
  Json.arr (ks.flatMap fun k => procs.map fun p =>
    Json.arr #[optNat k, procJson p, toJson (lHasJobs s k p)]).toArray

def lstateJson (batch : Option Nat) (s : LState) (keys : List Nat) : Json :=
  Json.mkObj [
    ("clock", toJson s.clock),
    ("rows", Json.arr (s.rows.map fun r =>
      Json.arr #[toJson r.executeAt, toJson r.processing, toJson r.key, toJson r.bad, Json.str (visStr r.vis)]).toArray),
    ("insts", Json.arr (s.insts.map fun x => Json.arr #[toJson x.1, lphaseJson x.2]).toArray),
    ("log", Json.arr (s.log.reverse.map tripleJson).toArray),
    ("caps", Json.arr (s.caps.reverse.map tripleJson).toArray),
    ("has", lhasJson s keys),
    ("pending", Json.arr (keys.map fun k => Json.arr #[toJson k, toJson (lPendingTruth s k)]).toArray),
    ("eligible", Json.arr ((sortCands (lEligibleRows s.clock s.rows)).map fun c =>
      Json.arr #[toJson c.1, toJson c.2.1]).toArray),
    ("would_select", toJson (lSelect batch s.clock s.rows))]

def lrunAll (batch : Option Nat) (keys : List Nat) : LState → List LStep → List Json
  | _, [] => []
  | s, e :: es => let s' := lStep batch s e; lstateJson batch s' keys :: lrunAll batch keys s' es

def optBatch (a : Json) : Except String (Option Nat) :=
  match a.getObjVal? "batch" with
  | .ok Json.null => pure none
  | .ok x => do let n ← x.getNat?; pure (some n)
  | .error _ => pure none

def handle (fn : String) (a : Json) : Option (Except String Json) :=
  match fn with
  | "sched.run" => some do
      let cfg ← cfgOfJson (← a.getObjVal? "cfg")
      let n ← a.getObjValAs? Nat "n"
      let stepsJ ← a.getObjValAs? (Array Json) "steps"
      let steps ← stepsJ.toList.mapM stepOfJson
      let keys ← natsOf (← a.getObjVal? "keys")
      let all ← a.getObjValAs? Bool "all"
      if all then
        pure (Json.arr (runAll cfg keys (init n) steps).toArray)
      else
        pure (stateJson cfg (run cfg (init n) steps) keys)
  | "sched.lrun" => some do
      let n ← a.getObjValAs? Nat "n"
      let batch ← optBatch a
      let stepsJ ← a.getObjValAs? (Array Json) "steps"
      let steps ← stepsJ.toList.mapM lstepOfJson
      let keys ← natsOf (← a.getObjVal? "keys")
      let all ← a.getObjValAs? Bool "all"
      if all then
        pure (Json.arr (lrunAll batch keys (lInit n) steps).toArray)
      else
        pure (lstateJson batch (lRun batch (lInit n) steps) keys)
  | _ => none

end Mistral.Drv.Sched
