import Lean.Data.Json
import Mistral.Model.Heartbeat
open Lean Mistral Mistral.Heartbeat
namespace Mistral.Drv.Heartbeat

def stOfJson (j : Json) : Except String St := do
  let s ← j.getStr?
  match St.ofString? s with
  | some x => pure x
  | none => throw s!"unknown state {s}"

def resOfJson (j : Json) : Except String Res := do
  match (← j.getStr?) with
  | "success" => pure .success
  | "error" => pure .error
  | "cancel" => pure .cancel
  | s => throw s!"unknown result {s}"

def cfgOfJson (j : Json) : Except String Config := do
  pure { maxMissed := (← j.getObjValAs? Nat "maxMissed"),
         checkInterval := (← j.getObjValAs? Nat "checkInterval"),
         firstTimeout := (← j.getObjValAs? Nat "firstTimeout"),
         batchSize := (← j.getObjValAs? Nat "batchSize"),
         integrityDelay := (← j.getObjValAs? Int "integrityDelay"),
         integrityBatch := (← j.getObjValAs? Nat "integrityBatch") }

def optNat (j : Json) (k : String) : Except String (Option Nat) :=
  match j.getObjVal? k with
  | .ok .null => pure none
  | .ok v => do let n ← v.getNat?; pure (some n)
  | .error _ => pure none

def optInt (j : Json) (k : String) : Except String (Option Int) :=
  match j.getObjVal? k with
  | .ok .null => pure none
  | .ok v => do let n ← v.getInt?; pure (some n)
  | .error _ => pure none

def actionOfJson (j : Json) : Except String Action := do
  pure { state := (← stOfJson (← j.getObjVal? "state")),
         isSync := (← j.getObjValAs? Bool "isSync"),
         isWf := (← j.getObjValAs? Bool "isWf"),
         lastHeartbeat := (← j.getObjValAs? Int "lastHeartbeat"),
         hasParent := (← j.getObjValAs? Bool "hasParent"),
         defKnown := (← j.getObjValAs? Bool "defKnown"),
         accepted := (← j.getObjValAs? Bool "accepted"),
         task := (← optNat j "task"),
         updatedAt := (← j.getObjValAs? Int "updatedAt"),
         accepts := 0 }

def taskOfJson (j : Json) : Except String Task := do
  pure { state := (← stOfJson (← j.getObjVal? "state")),
         withItems := (← j.getObjValAs? Bool "withItems"),
         inWf := (← j.getObjValAs? Bool "inWf"),
         updatedAt := (← j.getObjValAs? Int "updatedAt"),
         pendingJob := (← j.getObjValAs? Bool "pendingJob"),
         handled := 0 }

def worldOfJson (j : Json) : Except String World := do
  let acts ← (← j.getObjValAs? (Array Json) "actions").toList.mapM actionOfJson
  let tasks ← (← j.getObjValAs? (Array Json) "tasks").toList.mapM taskOfJson
  pure { now := (← j.getObjValAs? Int "now"), actions := acts, tasks := tasks,
         wfCompleted := (← j.getObjValAs? Bool "wfCompleted"),
         nextIntegrity := (← optInt j "nextIntegrity") }

def natList (j : Json) (k : String) : Except String (List Nat) := do
  let a ← j.getObjValAs? (Array Nat) k
  pure a.toList

def eventOfJson (j : Json) : Except String Event := do
  match (← j.getObjValAs? String "kind") with
  | "tick" => pure (.tick (← j.getObjValAs? Nat "dt"))
  | "heartbeat" => pure (.heartbeat (← natList j "ids"))
  | "checkerLoop" => pure .checkerLoop
  | "checkerPass" => pure .checkerPass
  | "result" => pure (.result (← j.getObjValAs? Nat "i") (← resOfJson (← j.getObjVal? "r")))
  | "wfResult" => pure (.wfResult (← j.getObjValAs? Nat "i"))
  | "dbComplete" => pure (.dbComplete (← j.getObjValAs? Nat "i") (← resOfJson (← j.getObjVal? "r")))
  | "taskJob" => pure (.taskJob (← j.getObjValAs? Nat "t"))
  | "dropJob" => pure (.dropJob (← j.getObjValAs? Nat "t"))
  | "integrity" => pure .integrity
  | s => throw s!"unknown event {s}"

def jsonOfInt (n : Int) : Json := Json.num (JsonNumber.fromInt n)

def jsonOfAction (a : Action) : Json :=
  Json.mkObj [("state", a.state.toString), ("accepted", a.accepted), ("lastHeartbeat", jsonOfInt a.lastHeartbeat),
              ("updatedAt", jsonOfInt a.updatedAt), ("accepts", a.accepts)]

def jsonOfTask (t : Task) : Json :=
  Json.mkObj [("state", t.state.toString), ("pendingJob", t.pendingJob), ("handled", t.handled),
              ("updatedAt", jsonOfInt t.updatedAt)]

def jsonOfWorld (w : World) : Json :=
  Json.mkObj [("now", jsonOfInt w.now),
              ("actions", Json.arr (w.actions.map jsonOfAction).toArray),
              ("tasks", Json.arr (w.tasks.map jsonOfTask).toArray),
              ("nextIntegrity", match w.nextIntegrity with | some n => jsonOfInt n | none => Json.null)]

def handle (fn : String) (a : Json) : Option (Except String Json) :=
  match fn with
  | "heartbeat.step" => some do
      let cfg ← cfgOfJson (← a.getObjVal? "cfg")
      let w ← worldOfJson (← a.getObjVal? "world")
      let ev ← eventOfJson (← a.getObjVal? "event")
      pure (Json.mkObj [("world", jsonOfWorld (step cfg w ev)), ("raised", raises cfg w ev)])
  | "heartbeat.run" => some do
      let cfg ← cfgOfJson (← a.getObjVal? "cfg")
      let w ← worldOfJson (← a.getObjVal? "world")
      let evs ← (← a.getObjValAs? (Array Json) "events").toList.mapM eventOfJson
      pure (jsonOfWorld (run cfg w evs))
  | "heartbeat.expired" => some do
      let cfg ← cfgOfJson (← a.getObjVal? "cfg")
      let now ← a.getObjValAs? Int "now"
      let act ← actionOfJson (← a.getObjVal? "action")
      pure (Json.bool (expired cfg now act))
  | "heartbeat.spawn" => some do
      let cfg ← cfgOfJson (← a.getObjVal? "cfg")
      let now ← a.getObjValAs? Int "now"
      let sync ← a.getObjValAs? Bool "isSync"
      let x := spawn cfg now sync (some 0)
      pure (Json.mkObj [("lastHeartbeat", jsonOfInt x.lastHeartbeat), ("state", x.state.toString)])
  | "heartbeat.service" => some do
      let cfg ← cfgOfJson (← a.getObjVal? "cfg")
      pure (Json.mkObj [("enabled", enabled cfg), ("firstRunDelay", firstRunDelay cfg)])
  | "heartbeat.defaults" => some do
      let c := defaultConfig
      pure (Json.mkObj [("maxMissed", c.maxMissed), ("checkInterval", c.checkInterval),
                        ("firstTimeout", c.firstTimeout), ("batchSize", c.batchSize),
                        ("integrityDelay", jsonOfInt c.integrityDelay), ("integrityBatch", c.integrityBatch)])
  | _ => none

end Mistral.Drv.Heartbeat
