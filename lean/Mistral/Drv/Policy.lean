import Lean.Data.Json
import Mistral.Model.Policy
open Lean Mistral.Policy
namespace Mistral.Drv.Policy

/-- `["int", i]` | `"num"` | `"other"` -/
def pvalOfJson (j : Json) : Except String PVal :=
  match j with
  | Json.str "num" => pure .num
  | Json.str "other" => pure .other
  | Json.arr #[Json.str "int", Json.num n] =>
    if n.exponent == 0 then pure (.int n.mantissa) else throw "bad int"
  | _ => throw "bad pval"

/-- `["bool", b]` | `["other", truthy]` -/
def pboolOfJson (j : Json) : Except String PBool :=
  match j with
  | Json.arr #[Json.str "bool", Json.bool b] => pure (.bool b)
  | Json.arr #[Json.str "other", Json.bool b] => pure (.other b)
  | _ => throw "bad pbool"

def followOfJson (j : Json) : Except String Follow :=
  match j with
  | Json.str "none" => pure .none
  | Json.str "onSuccess" => pure .onSuccess
  | Json.str "onError" => pure .onError
  | Json.str "onComplete" => pure .onComplete
  | _ => throw "bad follow"

def paramsOfJson (j : Json) : Except String Params := do
  let retry : Option Retry ← match j.getObjVal? "retry" with
    | .ok Json.null => pure none
    | .ok r => do
      pure (some { count := ← pvalOfJson (← r.getObjVal? "count"),
                   delay := ← pvalOfJson (← r.getObjVal? "delay"),
                   hasContinueOn := ← r.getObjValAs? Bool "hasContinueOn",
                   hasBreakOn := ← r.getObjValAs? Bool "hasBreakOn" })
    | .error e => throw e
  pure { pauseBefore := ← pboolOfJson (← j.getObjVal? "pauseBefore"),
         waitBefore := ← pvalOfJson (← j.getObjVal? "waitBefore"),
         waitAfter := ← pvalOfJson (← j.getObjVal? "waitAfter"),
         failOn := ← pboolOfJson (← j.getObjVal? "failOn"),
         retry := retry,
         timeout := ← pvalOfJson (← j.getObjVal? "timeout"),
         concurrency := ← pvalOfJson (← j.getObjVal? "concurrency"),
         execTimeoutRaises := ← j.getObjValAs? Bool "execTimeoutRaises",
         follow := ← followOfJson (← j.getObjVal? "follow") }

def outcomeOfJson (j : Json) : Except String Outcome :=
  match j with
  | Json.str "success" => pure .success
  | Json.str "error" => pure .error
  | _ => throw "bad outcome"

def evOfJson (j : Json) : Except String Ev := do
  let a ← match j with
    | Json.arr a => pure a
    | _ => throw "bad event"
  match a[0]? with
  | some (Json.str "startNew") => pure .startNew
  | some (Json.str "startExisting") => pure .startExisting
  | some (Json.str "resume") => pure .resume
  | some (Json.str "wfDone") => pure .wfDone
  | some (Json.str "tick") =>
    match a[1]? with
    | some n => do pure (.tick (← fromJson? n))
    | none => throw "bad tick"
  | some (Json.str "fire") =>
    match a[1]? with
    | some n => do pure (.fire (← fromJson? n))
    | none => throw "bad fire"
  | some (Json.str "result") =>
    match a[1]?, a[2]?, a[3]?, a[4]? with
    | some i, some o, some c, some b => do
      pure (.result (← fromJson? i) (← outcomeOfJson o) (← fromJson? c) (← fromJson? b))
    | _, _, _, _ => throw "bad result"
  | _ => throw "bad event kind"

def tstStr : TSt → String
  | .idle => "IDLE" | .running => "RUNNING" | .delayed => "DELAYED" | .success => "SUCCESS" | .error => "ERROR"

def wfStr : WfSt → String
  | .running => "running" | .paused => "paused" | .done => "done"

def msgStr : Msg → String
  | .none => "none" | .actionErr => "actionErr" | .timeout => "timeout" | .failOn => "failOn"
  | .waitBefore => "waitBefore" | .waitAfter => "waitAfter" | .retry => "retry"
  | .pauseBefore => "pauseBefore" | .forced => "forced"

def jobJson (j : Job) : Json :=
  match j.kind with
  | .cont => Json.arr #[Json.str "continue", Json.num j.dueAt]
  | .complete st m => Json.arr #[Json.str "complete", Json.num j.dueAt, Json.str (tstStr st), Json.str (msgStr m)]
  | .timeout => Json.arr #[Json.str "timeout", Json.num j.dueAt]

def actJson (a : Act) : Json :=
  Json.arr #[match a.res with
             | none => Json.null
             | some (.success, _, _) => Json.str "success"
             | some (.error, _, _) => Json.str "error",
             Json.bool a.accepted]

def obs (s : S) : Json :=
  Json.mkObj [("now", Json.num s.now), ("st", Json.str (tstStr s.st)), ("msg", Json.str (msgStr s.msg)),
              ("wf", Json.str (wfStr s.wf)), ("retryNo", Json.num s.retryNo),
              ("wbSkip", Json.bool s.wbSkip), ("waSkip", Json.bool s.waSkip),
              ("acts", Json.arr (s.acts.map actJson).toArray),
              ("jobs", Json.arr (s.jobs.map jobJson).toArray),
              ("processed", Json.bool s.processed), ("followUps", Json.num s.followUps),
              ("crashes", Json.num s.crashes)]

def handle (fn : String) (a : Json) : Option (Except String Json) :=
  match fn with
  | "policy.trace" => some do
      let p ← paramsOfJson (← a.getObjVal? "params")
      let evsJ ← a.getObjValAs? (Array Json) "events"
      let evs ← evsJ.toList.mapM evOfJson
      pure (Json.arr ((trace p init evs).map obs).toArray)
  | "policy.order" => some do
      pure (Json.arr ((Gen.PolicyOrder.order.map fun k => Json.str (reprStr k)).toArray))
  | _ => none

end Mistral.Drv.Policy
