import Lean.Data.Json
import Mistral.Model.Lifecycle
open Lean Mistral Mistral.Lifecycle
namespace Mistral.Drv.Lifecycle

def resStr : Res → String
  | .changed => "changed" | .noop => "noop" | .declaredError => "declaredError"
  | .undeclaredError => "undeclaredError"

def stOf (j : Json) (k : String) : Except String St := do
  let s ← j.getObjValAs? String k
  match St.ofString? s with
  | some st => pure st
  | none => throw s!"bad state {s}"

def handle (fn : String) (a : Json) : Option (Except String Json) :=
  match fn with
  | "lifecycle.wfApply" => some do
      let s ← stOf a "state"
      let kind ← a.getObjValAs? String "op"
      let op : WfOp ← match kind with
        | "start" => pure WfOp.start
        | "pause" => pure WfOp.pause
        | "resume" => pure WfOp.resume
        | "rerun" => pure WfOp.rerun
        | "stop" => do pure (WfOp.stop (← stOf a "arg"))
        | "complete" => do pure (WfOp.complete (← stOf a "arg"))
        | _ => throw "bad op"
      let (s', r) := wfApply s op
      pure (Json.mkObj [("state", Json.str s'.toString), ("res", Json.str (resStr r))])
  | "lifecycle.taskApply" => some do
      let s ← stOf a "state"
      let kind ← a.getObjValAs? String "op"
      let op : TaskOp ← match kind with
        | "complete" => do pure (TaskOp.complete (← stOf a "arg"))
        | "update" => do pure (TaskOp.update (← stOf a "arg"))
        | "setState" => do pure (TaskOp.setState (← stOf a "arg"))
        | "defer" => pure TaskOp.defer
        | "forceFail" => pure TaskOp.forceFail
        | _ => throw "bad op"
      let (s', r) := taskApply s op
      pure (Json.mkObj [("state", Json.str s'.toString), ("res", Json.str (resStr r))])
  | "lifecycle.actionComplete" => some do
      let s ← stOf a "state"
      let acc ← a.getObjValAs? Bool "accepted"
      let rk ← a.getObjValAs? String "result"
      let r : ResultKind ← match rk with
        | "success" => pure ResultKind.success | "error" => pure ResultKind.error
        | "cancel" => pure ResultKind.cancel | _ => throw "bad result"
      let (a', res) := actionComplete { state := s, accepted := acc } r
      pure (Json.mkObj [("state", Json.str a'.state.toString), ("accepted", Json.bool a'.accepted),
                        ("res", Json.str (resStr res))])
  | "lifecycle.actionUpdate" => some do
      let s ← stOf a "state"
      let acc ← a.getObjValAs? Bool "accepted"
      let t ← stOf a "arg"
      let (a', res) := actionUpdate { state := s, accepted := acc } t
      pure (Json.mkObj [("state", Json.str a'.state.toString), ("accepted", Json.bool a'.accepted),
                        ("res", Json.str (resStr res))])
  | _ => none

end Mistral.Drv.Lifecycle
