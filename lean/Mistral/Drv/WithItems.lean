import Lean.Data.Json
import Mistral.Model.WithItems
open Lean Mistral.WithItems
namespace Mistral.Drv.WithItems

def optNat (j : Json) (k : String) : Except String (Option Nat) :=
  match j.getObjVal? k with
  | .ok Json.null => pure none
  | .error _ => pure none
  | .ok v => match v.getNat? with
    | .ok n => pure (some n)
    | .error e => throw e

def outcomeOf (s : String) : Except String Outcome :=
  match s with
  | "SUCCESS" => pure .success
  | "ERROR" => pure .error
  | "CANCELLED" => pure .cancelled
  | _ => throw "bad outcome"

def opOfJson (j : Json) : Except String Op := do
  let k ← j.getObjValAs? String "op"
  match k with
  | "start" => pure .start
  | "handled" => pure .handled
  | "continue" => pure .continue
  | "rerun" => pure (.rerun (← j.getObjValAs? Bool "reset"))
  | "result" => pure (.result (← j.getObjValAs? Nat "pos") (← outcomeOf (← j.getObjValAs? String "outcome")))
  | _ => throw "bad op"

def istStr : ISt → String
  | .running => "RUNNING" | .success => "SUCCESS" | .error => "ERROR" | .cancelled => "CANCELLED"

def tstStr : TSt → String
  | .idle => "IDLE" | .running => "RUNNING" | .delayed => "DELAYED" | .success => "SUCCESS"
  | .error => "ERROR" | .cancelled => "CANCELLED"

def optJ : Option Nat → Json
  | some n => Json.num n
  | none => Json.null

def natsJ (l : List Nat) : Json := Json.arr (l.map fun (n : Nat) => Json.num (n : JsonNumber)).toArray

def stateJson (s : WI) : Json :=
  Json.mkObj [
    ("prepared", Json.bool s.prepared), ("count", Json.num s.count), ("capacity", optJ s.capacity),
    ("concurrency", optJ s.concurrency),
    ("items", Json.arr (s.items.map fun it =>
        Json.arr #[Json.num it.index, Json.str (istStr it.state), Json.bool it.accepted]).toArray),
    ("unhandled", Json.num s.unhandled), ("tstate", Json.str (tstStr s.tstate)),
    ("retryNo", Json.num s.retryNo),
    ("running", Json.num (running s)),
    ("isCompleted", Json.bool (isCompleted s)), ("finalState", Json.str (tstStr (finalState s))),
    ("nextIndexes", natsJ (nextIndexes s)),
    ("result", Json.arr ((resultList s).map fun p => Json.arr #[Json.num p.1, Json.num p.2]).toArray)]

def traceE (e : EvalSpec) (s : WI) : List Op → List WI
  | [] => []
  | o :: os => let s' := stepE e s o; s' :: traceE e s' os

def boolOr (j : Json) (k : String) (d : Bool) : Bool :=
  match j.getObjValAs? Bool k with
  | .ok b => b
  | .error _ => d

def evalOfJson (a : Json) : Except String EvalSpec :=
  match a.getObjVal? "eval" with
  | .ok Json.null => pure {}
  | .error _ => pure {}
  | .ok e => do
    let bad ← match e.getObjVal? "bad" with
      | .ok (Json.arr xs) => xs.toList.mapM fun x => x.getNat?
      | _ => pure []
    pure { itemsOk := boolOr e "itemsOk" true, concOk := boolOr e "concOk" true, badInputs := bad }

/-- all states along a run: after each op -/
def trace (s : WI) : List Op → List WI
  | [] => []
  | o :: os => let s' := step s o; s' :: trace s' os

def handle (fn : String) (a : Json) : Option (Except String Json) :=
  match fn with
  | "withitems.run" => some do
      let n ← a.getObjValAs? Nat "n"
      let c ← optNat a "conc"
      let r ← a.getObjValAs? Nat "retries"
      let opsJ ← a.getObjValAs? (Array Json) "ops"
      let ops ← opsJ.toList.mapM opOfJson
      let e ← evalOfJson a
      pure (Json.arr ((traceE e (init n c r) ops).map stateJson).toArray)
  | _ => none

end Mistral.Drv.WithItems
