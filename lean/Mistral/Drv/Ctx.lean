import Lean.Data.Json
import Mistral.Model.Ctx
import Mistral.Lemmas.HistDel
open Lean Mistral Mistral.Ctx Mistral.Hist
namespace Mistral.Drv.Ctx

partial def valOfJson : Json → Val
  | .null => .null
  | .bool b => .bool b
  | .num n => if n.exponent == 0 then .num n.mantissa else .str ("float:" ++ toString n)
  | .str s => .str s
  | .arr a => .list (a.toList.map valOfJson)
  | .obj kv => .obj (kv.toList.map fun (k, v) => (k, valOfJson v))

partial def jsonOfVal : Val → Json
  | .null => .null
  | .bool b => .bool b
  | .num n => .num (JsonNumber.fromInt n)
  | .str s => .str s
  | .list l => .arr (l.map jsonOfVal).toArray
  | .obj kv => Json.mkObj (kv.map fun (k, v) => (k, jsonOfVal v))

def dictOfJson (j : Json) : Except String Dict :=
  match valOfJson j with
  | .obj kv => pure kv
  | .null => pure []
  | _ => throw "dict expected"

def versOfJson (j : Json) : Except String Vers :=
  match j with
  | .obj kv => kv.toList.mapM fun (k, v) => match v with
    | .num n => pure (k, n.mantissa.toNat)
    | _ => throw "version must be a number"
  | .null => pure []
  | _ => throw "versions dict expected"

def ctxOfJson (j : Json) : Except String Ctx := do
  let d ← dictOfJson (← j.getObjVal? "data")
  let v ← versOfJson (← j.getObjVal? "vers")
  pure { data := d, vers := v }

def jsonOfCtx (c : Ctx) : Json :=
  Json.mkObj [("data", jsonOfVal (.obj c.data)),
              ("vers", Json.mkObj (c.vers.map fun (k, n) => (k, Json.num n)))]

def taskOfJson (j : Json) : Except String Task := do
  let ps ← j.getObjValAs? (Array Nat) "parents"
  let pub ← dictOfJson (← j.getObjVal? "published")
  pure { parents := ps.toList, pub := pub }

def handle (fn : String) (a : Json) : Option (Except String Json) :=
  match fn with
  | "ctx.run" => some do
      -- a whole publish history (Model/Hist.lean): per task the inbound and outbound context and the
      -- strict causal ancestors
      let tsJ ← a.getObjValAs? (Array Json) "tasks"
      let ts ← tsJ.toList.mapM taskOfJson
      pure (Json.arr ((runRows ts).map fun r =>
        Json.mkObj [("in", jsonOfCtx r.inb), ("out", jsonOfCtx r.out),
                    ("anc", Json.arr (r.anc.map fun (n : Nat) => Json.num (JsonNumber.fromNat n)).toArray)]).toArray)
  | "ctx.stable" => some do
      -- the decidable hypothesis of the causal theorems: is every publication of the history shape-stable
      -- at the leaf path var :: rest ?
      let tsJ ← a.getObjValAs? (Array Json) "tasks"
      let ts ← tsJ.toList.mapM taskOfJson
      let k0 ← a.getObjValAs? String "var"
      let rest ← a.getObjValAs? (Array String) "rest"
      pure (Json.bool (decide (∀ t ∈ ts, StablePub k0 rest.toList t.pub)))
  | "ctx.final" => some do
      -- evaluate_workflow_final_context over the outbound contexts of the end tasks (database order) for a batch size
      let outsJ ← a.getObjValAs? (Array Json) "outs"
      let outs ← outsJ.toList.mapM ctxOfJson
      let size ← a.getObjValAs? Nat "batch"
      pure (jsonOfCtx (finalContext size outs))
  | "ctx.output" => some do
      -- evaluate_workflow_output for an `output:` clause of plain variable references
      let specJ ← a.getObjValAs? (Array (Array String)) "spec"
      let spec := specJ.toList.filterMap fun p => match p.toList with | [o, v] => some (o, v) | _ => none
      let final ← ctxOfJson (← a.getObjVal? "final")
      let layersJ ← a.getObjValAs? (Array Json) "layers"
      let layers ← layersJ.toList.mapM dictOfJson
      match workflowOutput spec final layers with
      | some d => pure (jsonOfVal (.obj d))
      | none => pure (Json.str "error")
  | "ctx.stable2" => some do
      -- the decidable hypotheses of the weaker causal theorems (Props/C05Drop): spine-stable republication
      -- (the leaf may be dropped) and DropsLow (a dropping task has seen at most one generation of the leaf)
      let tsJ ← a.getObjValAs? (Array Json) "tasks"
      let ts ← tsJ.toList.mapM taskOfJson
      let k0 ← a.getObjValAs? String "var"
      let rest ← a.getObjValAs? (Array String) "rest"
      pure (Json.mkObj [("spine", Json.bool (decide (∀ t ∈ ts, StablePub2 k0 rest.toList t.pub))),
                        ("dropsLow", Json.bool (decide (DropsLow k0 rest.toList ts)))])
  | "ctx.outbound" => some do
      let c ← ctxOfJson (← a.getObjVal? "in")
      let p ← dictOfJson (← a.getObjVal? "published")
      pure (jsonOfCtx (outbound c p))
  | "ctx.upstream" => some do
      let outsJ ← a.getObjValAs? (Array Json) "outs"
      let outs ← outsJ.toList.mapM ctxOfJson
      pure (jsonOfCtx (upstream outs))
  | "ctx.merge" => some do
      let l ← ctxOfJson (← a.getObjVal? "left")
      let r ← ctxOfJson (← a.getObjVal? "right")
      pure (jsonOfCtx (mergeByVersion l r))
  | "ctx.lookup" => some do
      let layersJ ← a.getObjValAs? (Array Json) "layers"
      let layers ← layersJ.toList.mapM dictOfJson
      let k ← a.getObjValAs? String "key"
      match viewLookup layers k with
      | some v => pure (Json.mkObj [("found", jsonOfVal v)])
      | none => pure (Json.str "KeyError")
  | _ => none

end Mistral.Drv.Ctx
