import Lean.Data.Json
import Mistral.Model.SchemaCtor
import Mistral.Drv.Schema
open Lean Mistral.Schema Mistral.SchemaCtor
namespace Mistral.Drv.SchemaCtor

partial def valJson : JVal → Json
  | .null => .null
  | .bool b => .bool b
  | .int i => Json.mkObj [("i", .str (toString i))]
  | .flt (.fin n d) => Json.mkObj [("f", .arr #[.str (toString n), .str (toString d)])]
  | .flt .inf => Json.mkObj [("f", .str "inf")]
  | .flt .ninf => Json.mkObj [("f", .str "-inf")]
  | .flt .nan => Json.mkObj [("f", .str "nan")]
  | .str s => .str s
  | .arr xs => .arr (xs.map valJson).toArray
  | .obj kvs => Json.mkObj [("o", .arr (kvs.map (fun kv => Json.arr #[(match kv.1 with
      | .s k => Json.str k
      | .ns r => Json.mkObj [("ns", .str r)]), valJson kv.2])).toArray)]
  | .other t => Json.mkObj [("x", .str t)]

/-- oracle tables: {"cmd": [[s, null | [name, params]]], "wi": [[s, null | [var, arr]]], "expr": [[s, bool]],
    "uuid": [strings that are uuid-like]} -/
def oracleOf (a : Json) : Except String Oracle := do
  let pairs (k : String) : Except String (List (String × Json)) := match a.getObjVal? k with
    | .ok (.arr ps) => ps.toList.mapM (fun p => match p with
      | .arr #[.str s, v] => pure (s, v)
      | _ => throw "bad oracle pair")
    | _ => pure []
  let cmd ← (← pairs "cmd").mapM (fun (s, v) => match v with
    | .null => pure (s, (none : Option (String × List (Key × JVal))))
    | .arr #[.str n, ps] => do
      match (← Mistral.Drv.Schema.valOf ps) with
      | .obj kvs => pure (s, some (n, kvs))
      | _ => throw "bad params"
    | _ => throw "bad cmd oracle")
  let wi ← (← pairs "wi").mapM (fun (s, v) => match v with
    | .null => pure (s, (none : Option (String × JVal)))
    | .arr #[.str n, arr] => do pure (s, some (n, ← Mistral.Drv.Schema.valOf arr))
    | _ => throw "bad with-items oracle")
  let ex ← (← pairs "expr").mapM (fun (s, v) => match v with
    | .bool b => pure (s, b)
    | _ => throw "bad expr oracle")
  let uu : List String := match a.getObjVal? "uuid" with
    | .ok (.arr xs) => xs.toList.filterMap (fun j => j.getStr?.toOption)
    | _ => []
  pure { cmd := fun s => ((cmd.find? (·.1 == s)).map (·.2)).getD none,
         withItems := fun s => ((wi.find? (·.1 == s)).map (·.2)).getD none,
         exprOk := fun s => ((ex.find? (·.1 == s)).map (·.2)).getD true,
         uuidLike := fun j => match j with | .str s => uu.contains s | _ => false }

def resJson : Res JVal → Json
  | .ok v => Json.mkObj [("ok", valJson v)]
  | .defErr w => Json.mkObj [("def", .str w)]
  | .stuck w => Json.mkObj [("stuck", .str w)]

def handle (fn : String) (a : Json) : Option (Except String Json) :=
  match fn with
  | "ctor.run" => some do
    -- {"cls": spec class, "doc": value, "oracle": tables} -> {"ok": observation} | {"def": why} | {"stuck": why}
    let cls ← a.getObjValAs? String "cls"
    let doc ← Mistral.Drv.Schema.valOf (← a.getObjVal? "doc")
    let O ← oracleOf (← a.getObjVal? "oracle")
    match cls with
    | "RetrySpec" => pure (resJson (ctorRetry O doc))
    | "PoliciesSpec" => pure (resJson (ctorPolicies O doc))
    | "PublishSpec" => pure (resJson (ctorPublish O doc))
    | "OnClauseSpec" => pure (resJson (ctorOnClause O doc))
    | "TaskDefaultsSpec" => pure (resJson (ctorTaskDefaults O doc))
    | "TaskSpec" => pure (resJson (ctorTask O doc))
    | "WorkflowSpec" => pure (resJson (ctorWorkflow O doc))
    | "WorkflowListSpec" => pure (resJson (ctorWorkflowList O doc))
    | "ActionSpec" => pure (resJson (ctorAction O doc))
    | "ActionListSpec" => pure (resJson (ctorActionList O doc))
    | "WorkbookSpec" => pure (resJson (ctorWorkbook O doc))
    | _ => throw s!"no constructor model for {cls}"
  | _ => none

end Mistral.Drv.SchemaCtor
