import Lean.Data.Json
import Mistral.Model.Access
import Mistral.Gen.DbAccess
open Lean Mistral.Access
namespace Mistral.Drv.Access

def scopeOfJson (j : Json) : Except String Scope := do
  match j with
  | .str "private" => pure .priv
  | .str "public" => pure .pub
  | _ => throw "bad scope"

def scopeStr : Scope → String
  | .priv => "private" | .pub => "public"

def statusOfStr : String → Except String Status
  | "pending" => pure .pending | "accepted" => pure .accepted | "rejected" => pure .rejected
  | _ => throw "bad status"

def statusStr : Status → String
  | .pending => "pending" | .accepted => "accepted" | .rejected => "rejected"

def resOfJson (j : Json) : Except String Resource := do
  pure { rtype := ← j.getObjValAs? String "t", id := ← j.getObjValAs? Nat "id",
         name := ← j.getObjValAs? String "n", project := ← j.getObjValAs? Nat "p",
         scope := ← scopeOfJson (← j.getObjVal? "s"), isSystem := ← j.getObjValAs? Bool "sys",
         data := ← j.getObjValAs? Nat "d" }

def resToJson (r : Resource) : Json :=
  Json.mkObj [("t", r.rtype), ("id", r.id), ("n", r.name), ("p", r.project),
              ("s", scopeStr r.scope), ("sys", r.isSystem), ("d", r.data)]

def memOfJson (j : Json) : Except String Member := do
  pure { resId := ← j.getObjValAs? Nat "res", resType := ← j.getObjValAs? String "rt",
         owner := ← j.getObjValAs? Nat "owner", member := ← j.getObjValAs? Nat "member",
         status := ← statusOfStr (← j.getObjValAs? String "status") }

def memToJson (m : Member) : Json :=
  Json.mkObj [("res", m.resId), ("rt", m.resType), ("owner", m.owner), ("member", m.member),
              ("status", statusStr m.status)]

def dbOfJson (j : Json) : Except String Db := do
  let rs ← j.getObjValAs? (Array Json) "resources"
  let ms ← j.getObjValAs? (Array Json) "members"
  pure { resources := ← rs.toList.mapM resOfJson, members := ← ms.toList.mapM memOfJson }

def dbToJson (db : Db) : Json :=
  Json.mkObj [("resources", Json.arr (db.resources.map resToJson).toArray),
              ("members", Json.arr (db.members.map memToJson).toArray)]

def actorOfJson (j : Json) : Except String Actor := do
  pure { project := ← j.getObjValAs? Nat "project", isAdmin := ← j.getObjValAs? Bool "admin" }

def optNat (j : Json) (k : String) : Except String (Option Nat) :=
  match j.getObjVal? k with
  | .ok .null => pure none
  | .ok v => do let n ← v.getNat?; pure (some n)
  | .error _ => pure none

def optStr (j : Json) (k : String) : Except String (Option String) :=
  match j.getObjVal? k with
  | .ok .null => pure none
  | .ok v => do let n ← v.getStr?; pure (some n)
  | .error _ => pure none

def optScope (j : Json) (k : String) : Except String (Option Scope) :=
  match j.getObjVal? k with
  | .ok .null => pure none
  | .ok v => do let s ← scopeOfJson v; pure (some s)
  | .error _ => pure none

def keyOfJson (j : Json) : Except String KeyArg := do
  match ← j.getObjValAs? String "k" with
  | "id" => pure (.byId (← j.getObjValAs? Nat "v"))
  | "name" => pure (.byName (← j.getObjValAs? String "v"))
  | "filters" => pure (.filters (← optNat j "project") (← optScope j "scope") (← optStr j "name"))
  | _ => throw "bad key"

def argsOfJson (j : Json) : Except String Args := do
  pure { key := ← keyOfJson (← j.getObjVal? "key"),
         insecure := (j.getObjValAs? Bool "insecure").toOption.getD false,
         pick := (j.getObjValAs? Nat "pick").toOption.getD 0,
         newData := (j.getObjValAs? Nat "newData").toOption.getD 0,
         newScope := ← optScope j "newScope",
         givenProject := ← optNat j "givenProject",
         newId := (j.getObjValAs? Nat "newId").toOption.getD 0,
         newName := (j.getObjValAs? String "newName").toOption.getD "" }

def outcomeToJson : Outcome → Json
  | .rows ids => Json.mkObj [("k", "rows"), ("ids", Json.arr (ids.map (fun (n : Nat) => (n : Json))).toArray)]
  | .count n => Json.mkObj [("k", "count"), ("n", n)]
  | .nothing => Json.mkObj [("k", "nothing")]
  | .notFound => Json.mkObj [("k", "notFound")]
  | .notAllowed => Json.mkObj [("k", "notAllowed")]
  | .systemProtected => Json.mkObj [("k", "systemProtected")]
  | .done => Json.mkObj [("k", "done")]
  | .created id p => Json.mkObj [("k", "created"), ("id", id), ("project", p)]
  | .unsupported => Json.mkObj [("k", "unsupported")]

def findFn (name : String) : Except String FnInfo :=
  match Mistral.Gen.DbAccess.fns.find? (fun f => f.name == name) with
  | some f => pure f
  | none => throw ("no such db-api function in Gen.DbAccess: " ++ name)

def result (r : Outcome × Db) : Json :=
  Json.mkObj [("outcome", outcomeToJson r.1), ("db", dbToJson r.2)]

open Mistral.Gen.DbAccess in
def handle (fn : String) (a : Json) : Option (Except String Json) :=
  match fn with
  | "access.exec" => some do
      let f ← findFn (← a.getObjValAs? String "fn")
      let db ← dbOfJson (← a.getObjVal? "db")
      let actor ← actorOfJson (← a.getObjVal? "actor")
      let args ← argsOfJson (← a.getObjVal? "args")
      pure (result (exec secureSpec ownerSpec forcingSpec f db actor args))
  | "access.share" => some do
      let f ← findFn "get_workflow_definition"
      let db ← dbOfJson (← a.getObjVal? "db")
      let actor ← actorOfJson (← a.getObjVal? "actor")
      pure (result (share secureSpec ownerSpec f db actor (← a.getObjValAs? Nat "res") (← a.getObjValAs? Nat "member")))
  | "access.memberUpdate" => some do
      let db ← dbOfJson (← a.getObjVal? "db")
      let actor ← actorOfJson (← a.getObjVal? "actor")
      pure (result (memberUpdate db actor (← a.getObjValAs? Nat "res") (← a.getObjValAs? String "rt")
        (← a.getObjValAs? Nat "member") (← statusOfStr (← a.getObjValAs? String "status"))))
  | "access.memberDelete" => some do
      let db ← dbOfJson (← a.getObjVal? "db")
      let actor ← actorOfJson (← a.getObjVal? "actor")
      pure (result (memberDelete db actor (← a.getObjValAs? Nat "res") (← a.getObjValAs? String "rt")
        (← a.getObjValAs? Nat "member")))
  | "access.memberList" => some do
      let db ← dbOfJson (← a.getObjVal? "db")
      let actor ← actorOfJson (← a.getObjVal? "actor")
      pure (Json.arr ((memberList db actor (← a.getObjValAs? Nat "res") (← a.getObjValAs? String "rt")).map memToJson).toArray)
  | "access.memberGet" => some do
      let db ← dbOfJson (← a.getObjVal? "db")
      let actor ← actorOfJson (← a.getObjVal? "actor")
      pure (Json.arr ((memberGet db actor (← a.getObjValAs? Nat "res") (← a.getObjValAs? String "rt")
        (← a.getObjValAs? Nat "member")).map memToJson).toArray)
  | "access.fns" => some do
      pure (Json.arr (Mistral.Gen.DbAccess.fns.map (fun f => Json.mkObj [
        ("name", f.name), ("model", f.model), ("kind", toString (repr f.kind)), ("key", toString (repr f.key)),
        ("read", toString (repr f.read)), ("mut", toString (repr f.mutn)), ("bulk", f.bulk),
        ("ownerCheck", f.ownerCheck), ("sysCheck", f.sysCheck), ("notFound", f.notFound), ("reachable", f.reachable),
        ("known", f.known)])).toArray)
  | _ => none

end Mistral.Drv.Access
