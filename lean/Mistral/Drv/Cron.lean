import Lean.Data.Json
import Mistral.Model.Cron
open Lean Mistral.Cron
namespace Mistral.Drv.Cron

def optNat (j : Json) (k : String) : Except String (Option Nat) :=
  match j.getObjVal? k with
  | .ok Json.null => pure none
  | .ok v => match v.getNat? with
    | .ok n => pure (some n)
    | .error e => throw e
  | .error _ => pure none

def trigOfJson (j : Json) : Except String Trigger := do
  let name ← j.getObjValAs? Nat "name"
  let next ← j.getObjValAs? Nat "next"
  let rem ← optNat j "rem"
  let pat ← optNat j "pat"
  let pay ← j.getObjValAs? (Array Nat) "pay"
  if pay.size ≠ 4 then throw "bad pay"
  pure { name := name, nextTime := next, remaining := rem, pat := pat,
         pay := { project := pay[0]!, input := pay[1]!, params := pay[2]!, wf := pay[3]! } }

def optJ : Option Nat → Json
  | some n => toJson n
  | none => Json.null

def trigToJson (t : Trigger) : Json :=
  Json.mkObj [("name", toJson t.name), ("next", toJson t.nextTime), ("rem", optJ t.remaining),
    ("pat", optJ t.pat),
    ("pay", toJson #[t.pay.project, t.pay.input, t.pay.params, t.pay.wf])]

def stepOfJson (j : Json) : Except String Step := do
  match j with
  | Json.arr #[Json.str k, n] =>
    let n ← n.getNat?
    match k with
    | "read" => pure (.read n)
    | "advance" => pure (.advance n)
    | "start" => pure (.start n)
    | "crash" => pure (.crash n)
    | "tick" => pure (.tick n)
    | _ => throw "bad step kind"
  | _ => throw "bad step"

def labelToJson : Label → Json
  | .read => Json.arr #["read"]
  | .advance n => Json.arr #["advance", toJson n]
  | .start n => Json.arr #["start", toJson n]
  | .dead => Json.arr #["dead"]

/-- croniter values recorded on the implementation side: (pattern, base, value). -/
abbrev Table := List (Nat × Nat × Nat)

def lookup (tb : Table) (p t : Nat) : Option Nat :=
  (tb.find? fun e => e.1 = p ∧ e.2.1 = t).map (·.2.2)

/-- total, strictly increasing whatever the table holds; a missing or non-increasing entry is
    reported separately (`missing`) and is a disagreement, never silently used. -/
def nxtOf (tb : Table) (p t : Nat) : Nat :=
  match lookup tb p t with
  | some v => if t < v then v else t + 1
  | none => t + 1

def obs (s : State) (k : Nat) (en missing : Bool) : Json :=
  Json.mkObj [
    ("now", toJson s.now),
    ("db", Json.arr (s.db.map trigToJson).toArray),
    ("log", Json.arr (s.log.reverse.map trigToJson).toArray),
    ("labels", Json.arr ((List.range k).map fun i => labelToJson (label s i)).toArray),
    ("enabled", toJson en), ("missing", toJson missing)]

def runObs (tb : Table) (k : Nat) : State → List Step → List Json
  | _, [] => []
  | s, e :: es =>
    let en := enabled s e
    let missing := match e with
      | .advance i => match advanceBase s i with
        | some (p, b) => match lookup tb p b with
          | some v => !(decide (b < v))
          | none => true
        | none => false
      | _ => false
    let s' := step (nxtOf tb) s e
    obs s' k en missing :: runObs tb k s' es

def handle (fn : String) (a : Json) : Option (Except String Json) :=
  match fn with
  | "cron.run" => some do
      let now ← a.getObjValAs? Nat "now"
      let dbJ ← a.getObjValAs? (Array Json) "db"
      let db ← dbJ.toList.mapM trigOfJson
      let k ← a.getObjValAs? Nat "nprocs"
      let tbJ ← a.getObjValAs? (Array (Array Nat)) "nxt"
      let tb ← tbJ.toList.mapM fun r =>
        if r.size = 3 then pure (r[0]!, r[1]!, r[2]!) else throw "bad nxt row"
      let stJ ← a.getObjValAs? (Array Json) "steps"
      let steps ← stJ.toList.mapM stepOfJson
      pure (Json.arr (runObs tb k (init now db) steps).toArray)
  | "cron.create" => some do
      let hasPat ← a.getObjValAs? Bool "hasPat"
      let patValid ← a.getObjValAs? Bool "patValid"
      let first ← optNat a "first"
      let count ← optNat a "count"
      let now ← a.getObjValAs? Nat "now"
      let patNext ← a.getObjValAs? Nat "patNext"
      match create { hasPat := hasPat, patValid := patValid, first := first, count := count,
                     now := now, patNext := patNext } with
      | .ok (n, r) => pure (Json.mkObj [("next", toJson n), ("rem", optJ r)])
      | .error .nothingGiven => pure (Json.str "nothingGiven")
      | .error .tooSoon => pure (Json.str "tooSoon")
      | .error .needPattern => pure (Json.str "needPattern")
      | .error .badPattern => pure (Json.str "badPattern")
  | _ => none

end Mistral.Drv.Cron
