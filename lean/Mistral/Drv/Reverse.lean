import Lean.Data.Json
import Mistral.Model.Reverse
open Lean Mistral Mistral.Reverse
namespace Mistral.Drv.Reverse

def strList (j : Json) (k : String) : Except String (List String) := do
  let a ← j.getObjValAs? (Array String) k
  pure a.toList

def specOfJson (j : Json) : Except String Spec := do
  let ts ← j.getObjValAs? (Array Json) "tasks"
  let tasks ← ts.toList.mapM fun t => do
    pure ({ name := ← t.getObjValAs? String "name", requires := ← strList t "requires" } : Task)
  -- a missing / null target is a name no task has (task names are non-empty)
  let target := (j.getObjValAs? String "target").toOption.getD ""
  pure { tasks := tasks, defaultRequires := ← strList j "defaultRequires", target := target }

def rowOfJson (j : Json) : Except String TaskRow := do
  match St.ofString? (← j.getObjValAs? String "state") with
  | none => throw "bad state"
  | some s => pure { name := ← j.getObjValAs? String "name", state := s, processed := false,
                     hasNext := false, nextTasks := [], errorHandled := false }

def itemOfJson (j : Json) : Except String Item := do
  let k ← j.getObjValAs? String "k"
  let t := (j.getObjValAs? String "t").toOption.getD ""
  match k with
  | "postStartTask" => pure (.postStartTask t)
  | "rpcStartTask" => pure (.rpcStartTask t)
  | "postRunAction" => pure (.postRunAction t)
  | "runAction" => pure (.runAction t)
  | "rpcResult" => pure (.rpcResult t (← j.getObjValAs? Bool "ok"))
  | "postCheck" => pure .postCheck
  | "postStartExisting" => pure (.postStartExisting t)
  | "rpcStartExisting" => pure (.rpcStartExisting t)
  | _ => throw s!"bad item {k}"

def itemStr : Item → String
  | .postStartTask t => s!"postStartTask:{t}"
  | .rpcStartTask t => s!"rpcStartTask:{t}"
  | .postRunAction t => s!"postRunAction:{t}"
  | .runAction t => s!"runAction:{t}"
  | .rpcResult t ok => s!"rpcResult:{t}:{ok}"
  | .postCheck => "postCheck"
  | .postStartExisting t => s!"postStartTask:{t}:existing"
  | .rpcStartExisting t => s!"rpcStartTask:{t}:existing"

def eventOfJson (j : Json) : Except String Event := do
  let k ← j.getObjValAs? String "ev"
  match k with
  | "start" => pure .start
  | "pause" => pure .pause
  | "resume" => pure .resume
  | "stop" =>
    match St.ofString? (← j.getObjValAs? String "state") with
    | some s => pure (.stop s)
    | none => throw "bad state"
  | "execute" => pure (.execute (← j.getObjValAs? String "t") (← j.getObjValAs? Bool "ok"))
  | "deliver" => do pure (.deliver (← itemOfJson (← j.getObjVal? "item")))
  | _ => throw s!"bad event {k}"

def strs (l : List String) : Json := Json.arr (l.map Json.str).toArray

def obs (w : World) : Json :=
  Json.mkObj [
    ("wf", Json.str w.wf.toString),
    ("tasks", Json.arr (w.tasks.map fun t => Json.arr #[Json.str t.name, Json.str t.state.toString,
        Json.bool t.processed, Json.bool t.hasNext, Json.bool t.errorHandled, strs t.nextTasks]).toArray),
    ("pending", strs (w.pending.map itemStr))]

def cmdJson : Cmd → Json
  | .runExisting n => Json.arr #[Json.str "runExisting", Json.str n]
  | .runTask n => Json.arr #[Json.str "runTask", Json.str n]

def optJson (f : α → Json) : Option α → Json
  | none => Json.str "invalid-target"
  | some x => f x

def handle (fn : String) (a : Json) : Option (Except String Json) :=
  match fn with
  | "reverse.requires" => some do
      let sp ← specOfJson (← a.getObjVal? "spec")
      pure (Json.arr (sp.tasks.map fun t => Json.arr #[Json.str t.name, strs (requiresOf sp t)]).toArray)
  | "reverse.integrity" => some do
      let sp ← specOfJson (← a.getObjVal? "spec")
      pure (match checkIntegrity sp with
        | none => Json.str "ok"
        | some .taskNotFound => Json.str "task-not-found"
        | some .requiresCycle => Json.str "requires-cycle")
  | "reverse.needed" => some do
      let sp ← specOfJson (← a.getObjVal? "spec")
      pure (optJson strs (needed sp))
  | "reverse.nextCommands" => some do
      let sp ← specOfJson (← a.getObjVal? "spec")
      let rowsJ ← a.getObjValAs? (Array Json) "rows"
      let rows ← rowsJ.toList.mapM rowOfJson
      let via ← a.getObjValAs? Bool "viaTask"
      let wf ← match St.ofString? (← a.getObjValAs? String "wf") with
        | some s => pure s
        | none => throw "bad state"
      pure (Json.mkObj [
        ("cmds", optJson (fun cs => Json.arr (cs.map cmdJson).toArray) (continueWorkflow sp wf rows via)),
        ("satisfied", optJson strs (satisfiedTasks sp rows)),
        ("allErrorsHandled", Json.bool (allErrorsHandled rows))])
  | "reverse.run" => some do
      let sp ← specOfJson (← a.getObjVal? "spec")
      let evsJ ← a.getObjValAs? (Array Json) "events"
      let evs ← evsJ.toList.mapM eventOfJson
      let (_, out) := evs.foldl (fun (p : World × Array Json) e =>
        let w' := step sp p.1 e
        (w', p.2.push (obs w'))) (init, #[])
      pure (Json.arr out)
  | _ => none

end Mistral.Drv.Reverse
