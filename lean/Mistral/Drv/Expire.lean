import Lean.Data.Json
import Mistral.Model.Expire
open Lean Mistral.Expire
namespace Mistral.Drv.Expire

def optInt (j : Json) (k : String) : Except String (Option Int) :=
  match j.getObjVal? k with
  | .ok Json.null => pure none
  | .ok v => do let i ← (fromJson? v : Except String Int); pure (some i)
  | .error _ => throw s!"missing {k}"

def optNat (j : Json) (k : String) : Except String (Option Nat) :=
  match j.getObjVal? k with
  | .ok Json.null => pure none
  | .ok v => do let i ← (fromJson? v : Except String Nat); pure (some i)
  | .error _ => throw s!"missing {k}"

def kindOf : String → Except String Kind
  | "wf" => pure .wf | "task" => pure .task | "action" => pure .action
  | s => throw s!"bad kind {s}"

def nodeOfJson (j : Json) : Except String Node := do
  let id ← j.getObjValAs? Nat "id"
  let k ← j.getObjValAs? String "kind"
  let kind ← kindOf k
  let parent ← optNat j "parent"
  let state ← j.getObjValAs? String "state"
  let upd ← j.getObjValAs? Int "updatedAt"
  let project ← j.getObjValAs? Nat "project"
  pure { id := id, kind := kind, parent := parent, state := state, updatedAt := upd, project := project }

def cfgOfJson (j : Json) : Except String Config := do
  let ei ← optInt j "evaluationInterval"
  let ot ← optInt j "olderThan"
  let mf ← optNat j "maxFinished"
  let bs ← j.getObjValAs? Nat "batchSize"
  let ig ← j.getObjValAs? (Array String) "ignoredStates"
  pure { evaluationInterval := ei, olderThan := ot, maxFinished := mf, batchSize := bs, ignoredStates := ig.toList }

def errStr : Err → String
  | .deleteFailed _ => "deleteFailed"

def outcomeJson (o : Outcome) : Json :=
  let ids (p : Pop) : Json := Json.arr (p.map (fun n => (n.id : Json))).toArray
  match o with
  | .ok p => Json.mkObj [("outcome", "ok"), ("remaining", ids p)]
  | .crashed e p => Json.mkObj [("outcome", Json.str ("crashed:" ++ errStr e)), ("remaining", ids p)]
  | .outOfFuel p => Json.mkObj [("outcome", "outOfFuel"), ("remaining", ids p)]

def handle (fn : String) (a : Json) : Option (Except String Json) :=
  match fn with
  | "expire.evaluate" => some do
      let popJ ← a.getObjValAs? (Array Json) "pop"
      let pop ← popJ.toList.mapM nodeOfJson
      let cfg ← cfgOfJson (← a.getObjVal? "cfg")
      let now ← a.getObjValAs? Int "now"
      let failing ← a.getObjValAs? (Array Nat) "failing"
      -- the code's `while True` has no bound; `terminates` shows length+1 suffices
      let fuel := pop.length + 1
      pure (outcomeJson (evaluate cfg { failing := failing.toList } now fuel pop))
  | "expire.enabled" => some do
      let cfg ← cfgOfJson a
      pure (Json.bool (enabled cfg))
  | "expire.defaults" => some do
      let oi : Option Int → Json := fun o => match o with | some i => (i : Json) | none => Json.null
      let on : Option Nat → Json := fun o => match o with | some i => (i : Json) | none => Json.null
      pure (Json.mkObj [("evaluationInterval", oi defaultConfig.evaluationInterval),
        ("olderThan", oi defaultConfig.olderThan), ("maxFinished", on defaultConfig.maxFinished),
        ("batchSize", (defaultConfig.batchSize : Json)),
        ("ignoredStates", Json.arr (defaultConfig.ignoredStates.map Json.str).toArray),
        ("terminalStates", Json.arr (Mistral.Gen.ExpireDefaults.terminalStates.map Json.str).toArray)])
  | _ => none

end Mistral.Drv.Expire
