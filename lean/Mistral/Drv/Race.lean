import Lean.Data.Json
import Mistral.Model.Race
import Mistral.Gen.RaceScripts
open Lean Mistral.Race
namespace Mistral.Drv.Race

def valOfJson : Json → Except String Val
  | Json.null => pure .null
  | Json.bool b => pure (.bool b)
  | Json.str s => pure (.str s)
  | j => match j.getNat? with
    | .ok n => pure (.nat n)
    | .error _ => throw "bad value"

def valToJson : Val → Json
  | .null => Json.null
  | .bool b => Json.bool b
  | .nat n => toJson n
  | .str s => Json.str s

def fieldsOfJson (j : Json) : Except String (Fields × Nat) := do
  let a ← j.getArr?
  let vs ← a.toList.mapM valOfJson
  pure (fun k => vs.getD k .null, vs.length)

def rowOfJson (j : Json) : Except String (Row × Nat) := do
  let alive ← j.getObjValAs? Bool "alive"
  let (f, n) ← fieldsOfJson (← j.getObjVal? "f")
  pure ({ alive := alive, f := f }, n)

def rowToJson (n : Nat) (r : Row) : Json :=
  Json.mkObj [("alive", Json.bool r.alive), ("f", Json.arr ((List.range n).map fun k => valToJson (r.f k)).toArray)]

def evToJson : Ev → Json
  | .select => "select"
  | .flush => "flush"
  | .flushMiss => "flush-miss"
  | .cas ok => Json.str (if ok then "cas:1" else "cas:0")
  | .delete ok => Json.str (if ok then "delete:1" else "delete:0")
  | .ormDelete ok => Json.str (if ok then "orm-delete:1" else "orm-delete:0")

def statusToJson : Status → Json
  | .running => "running" | .returned => "returned" | .aborted => "aborted" | .raised => "raised"

def scriptOf (j : Json) : Except String Script := do
  let name ← j.getStr?
  match Mistral.Gen.RaceScripts.scriptNamed name with
  | some s => pure s
  | none => throw s!"unknown script {name}"

/-- an interferer: the atomic run of a generated script, or a raw assignment of fields /
    a deletion -/
def intfOfJson (j : Json) : Except String Intf := do
  match j.getObjVal? "script" with
  | .ok s =>
    let sc ← scriptOf s
    let (vars, _) ← fieldsOfJson (← j.getObjVal? "vars")
    pure (atomicOf sc vars)
  | .error _ =>
    match j.getObjVal? "delete" with
    | .ok _ => pure fun r => { r with alive := false }
    | .error _ =>
      let a ← (← j.getObjVal? "set").getArr?
      let ps ← a.toList.mapM fun p => do
        let k ← (← p.getArrVal? 0).getNat?
        let v ← valOfJson (← p.getArrVal? 1)
        pure (k, v)
      let guard ← match j.getObjVal? "ifState" with
        | .ok g => do
          let vs ← (← g.getArr?).toList.mapM valOfJson
          pure (some vs)
        | .error _ => pure none
      pure fun r =>
        if r.alive && (match guard with | some vs => vs.contains (r.f 0) | none => true)
        then { r with f := r.f.setMany ps } else r

def schedOfJson (j : Json) : Except String (Nat → Intf) := do
  let a ← j.getArr?
  let gaps ← a.toList.mapM fun e => do
    let k ← (← e.getArrVal? 0).getNat?
    let is ← (← (← e.getArrVal? 1).getArr?).toList.mapM intfOfJson
    pure (k, is)
  pure fun k r => (gaps.filter (·.1 == k)).foldl (fun r g => g.2.foldl (fun r i => i r) r) r

def localToJson (l : Local) : List (String × Json) :=
  [("won", Json.bool (l.flags 0)), ("status", statusToJson l.status),
   ("emitted", toJson l.emitted), ("trace", Json.arr (l.trace.map evToJson).toArray)]

def run (a : Json) : Except String Json := do
  let sc ← scriptOf (← a.getObjVal? "script")
  let (vars, _) ← fieldsOfJson (← a.getObjVal? "vars")
  let (row, n) ← rowOfJson (← a.getObjVal? "row")
  let sched ← schedOfJson (← a.getObjVal? "sched")
  let x := runWith sc sched vars row
  pure (Json.mkObj ([("db", rowToJson n x.sh.db), ("len", toJson sc.length)] ++ localToJson x.l))

def many (a : Json) : Except String Json := do
  let (row, n) ← rowOfJson (← a.getObjVal? "row")
  let ps ← (← (← a.getObjVal? "procs").getArr?).toList.mapM fun p => do
    let sc ← scriptOf (← p.getObjVal? "script")
    let (vars, _) ← fieldsOfJson (← p.getObjVal? "vars")
    pure (sc, vars)
  let steps ← (← (← a.getObjVal? "sched").getArr?).toList.mapM fun s => do
    match s.getNat? with
    | .ok i => pure (Step.proc i)
    | .error _ => pure (Step.ext (← intfOfJson s))
  let w := runMany (World.init row ps) steps
  pure (Json.mkObj [("db", rowToJson n w.db), ("eff", rowToJson n w.eff),
    ("locked", Json.bool w.owner.isSome),
    ("procs", Json.arr (w.procs.map fun p =>
      Json.mkObj ([("pc", toJson p.pc), ("done", Json.bool (p.pc > p.script.length))] ++ localToJson p.l)).toArray)])

def handle (fn : String) (a : Json) : Option (Except String Json) :=
  match fn with
  | "race.run" => some (run a)
  | "race.many" => some (many a)
  | _ => none

end Mistral.Drv.Race
