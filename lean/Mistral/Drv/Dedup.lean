import Lean.Data.Json
import Mistral.Model.Dedup
open Lean Mistral.Dedup
namespace Mistral.Drv.Dedup

def kindOfString : String → Except String Kind
  | "ok" => pure .ok | "error" => pure .error | "cancel" => pure .cancel
  | s => throw s!"bad kind {s}"

def tstateOfString : String → Except String TState
  | "IDLE" => pure .idle | "WAITING" => pure .waiting | "RUNNING" => pure .running
  | "DELAYED" => pure .delayed | "PAUSED" => pure .paused | "SUCCESS" => pure .success
  | "ERROR" => pure .error | "CANCELLED" => pure .cancelled | "SKIPPED" => pure .skipped
  | s => throw s!"bad task state {s}"

def tstateStr : TState → String
  | .idle => "IDLE" | .waiting => "WAITING" | .running => "RUNNING" | .delayed => "DELAYED"
  | .paused => "PAUSED" | .success => "SUCCESS" | .error => "ERROR" | .cancelled => "CANCELLED"
  | .skipped => "SKIPPED"

def astateStr : AState → String
  | .running => "RUNNING" | .success => "SUCCESS" | .error => "ERROR" | .cancelled => "CANCELLED"

def verdictStr : Verdict → String
  | .accepted => "accepted" | .rejected => "rejected" | .notFound => "notFound" | .noop => "noop"
  | .refused => "refused"

def deliveryOfJson (j : Json) : Except String Delivery := do
  let op ← j.getObjValAs? String "op"
  match op with
  | "result" => pure (.result (← j.getObjValAs? Nat "a") (← kindOfString (← j.getObjValAs? String "kind"))
                        (← j.getObjValAs? Nat "tag"))
  | "wfResult" => pure (.wfResult (← kindOfString (← j.getObjValAs? String "kind")))
  | "expiry" => pure .expiry
  | "startTask" => pure (.startTask (← j.getObjValAs? Bool "firstRun") (← j.getObjValAs? Bool "rerun")
                           (← j.getObjValAs? Bool "reset"))
  | s => throw s!"bad delivery {s}"

def taskJson (t : Task) : Json :=
  Json.mkObj [
    ("state", Json.str (tstateStr t.state)),
    ("actions", Json.arr (t.actions.map fun r => Json.mkObj [
        ("state", Json.str (astateStr r.state)), ("accepted", Json.bool r.accepted),
        ("out", Json.num r.out), ("acceptCount", Json.num r.acceptCount)]).toArray),
    ("dispatched", Json.num t.dispatched),
    ("completions", Json.num t.completions)]

/-- runs the deliveries from a fresh task; answers the task after every step with the verdict -/
def trace (t : Task) : List Delivery → List Json
  | [] => []
  | d :: ds =>
    let v := verdict t d
    let t' := step t d
    Json.mkObj [("verdict", Json.str (verdictStr v)), ("task", taskJson t')] :: trace t' ds

def handle (fn : String) (a : Json) : Option (Except String Json) :=
  match fn with
  | "dedup.trace" => some do
      let dsJ ← a.getObjValAs? (Array Json) "deliveries"
      let ds ← dsJ.toList.mapM deliveryOfJson
      pure (Json.arr (trace fresh ds).toArray)
  | "dedup.startAll" => some do
      let ids ← a.getObjValAs? (Array Nat) "ids"
      -- per request: (returned id, created?) ; then the final table
      let rec go (tb : WfTable) : List Nat → List Json
        | [] => []
        | i :: is =>
          let r := startWorkflow tb i
          Json.arr #[Json.num (r.2.1 : Nat), Json.bool r.2.2] :: go r.1 is
      pure (Json.mkObj [("answers", Json.arr (go [] ids.toList).toArray),
                        ("table", Json.arr ((startAll [] ids.toList).map fun (n : Nat) => Json.num n).toArray)])
  | _ => none

end Mistral.Drv.Dedup
