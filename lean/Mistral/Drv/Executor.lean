import Lean.Data.Json
import Mistral.Model.Executor
open Lean Mistral.Executor
namespace Mistral.Drv.Executor

def behOfString : String → Except String Behaviour
  | "okResult" => pure .okResult | "errResult" => pure .errResult
  | "cancelResult" => pure .cancelResult | "plainValue" => pure .plainValue
  | "raises" => pure .raises | "timesOut" => pure .timesOut
  | "timesOutRaises" => pure .timesOutRaises
  | s => throw s!"bad behaviour {s}"

def outcomeOfString : String → Except String ClientOutcome
  | "ok" => pure .ok | "mistralExc" => pure .mistralExc | "otherExc" => pure .otherExc
  | s => throw s!"bad outcome {s}"

def outcomeStr : ClientOutcome → String
  | .ok => "ok" | .mistralExc => "mistralExc" | .otherExc => "otherExc"

def kindStr : Kind → String
  | .ok => "ok" | .error => "error" | .cancel => "cancel"

def retJson : Returned → Json
  | .none => Json.str "none"
  | .result k => Json.str ("result:" ++ kindStr k)
  | .raisedMistral => Json.str "raisedMistral"
  | .raisedOther => Json.str "raisedOther"

def handle (fn : String) (a : Json) : Option (Except String Json) :=
  match fn with
  | "executor.run" => some do
      let i : Input := {
        redelivered := ← a.getObjValAs? Bool "redelivered",
        safeRerun := ← a.getObjValAs? Bool "safeRerun",
        beh := ← behOfString (← a.getObjValAs? String "beh"),
        isSync := ← a.getObjValAs? Bool "isSync",
        idPresent := ← a.getObjValAs? Bool "idPresent",
        c1 := ← outcomeOfString (← a.getObjValAs? String "c1"),
        c2 := ← outcomeOfString (← a.getObjValAs? String "c2") }
      let o := doRunAction i
      pure (Json.mkObj [
        ("ran", Json.bool o.ran),
        ("calls", Json.arr (o.calls.map fun c =>
            Json.arr #[Json.str (kindStr c.kind), Json.str (outcomeStr c.outcome)]).toArray),
        ("ret", retJson o.ret),
        ("reports", Json.arr ((reports i o).map fun k => Json.str (kindStr k)).toArray)])
  | "executor.serverRedelivered" => some do
      match a.getObjVal? "value" with
      | .ok (Json.bool b) => pure (Json.bool (serverRedelivered (some b)))
      | .ok Json.null => pure (Json.bool (serverRedelivered none))
      | _ => throw "bad value"
  | _ => none

end Mistral.Drv.Executor
