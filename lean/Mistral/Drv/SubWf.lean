import Lean.Data.Json
import Mistral.Model.SubWf
import Mistral.Drv.Ctx
open Lean Mistral Mistral.SubWf
namespace Mistral.Drv.SubWf
open Mistral.Drv.Ctx (valOfJson jsonOfVal dictOfJson)

def strOf (l : List Char) : String := String.ofList l

def stOfJson (j : Json) : Except String St := do
  let s ← j.getStr?
  match St.ofString? s with
  | some st => pure st
  | none => throw s!"bad state {s}"

def errName : Err → String
  | .keyError => "KeyError"
  | .typeError => "TypeError"
  | .inputError => "InputException"
  | .envByName => "env-by-name"

def optStr (j : Json) : Except String (Option String) :=
  match j with
  | .null => pure none
  | .str s => pure (some s)
  | _ => throw "string or null expected"

def childOfJson (j : Json) : Except String ChildRow := do
  let i ← j.getObjValAs? Nat "index"
  let s ← stOfJson (← j.getObjVal? "state")
  let a ← j.getObjValAs? Bool "accepted"
  let o := valOfJson (← j.getObjVal? "output")
  pure { index := i, state := s, accepted := a, output := o }

def jsonOfRec (r : ExecRec) : Json :=
  Json.mkObj [("input", jsonOfVal (.obj r.input)), ("params", jsonOfVal (.obj r.params)),
              ("task", jsonOfVal r.taskExecId), ("root", jsonOfVal r.rootExecId),
              ("index", jsonOfVal r.index)]

def jsonOfResult (r : Result) : Json :=
  Json.mkObj [("data", jsonOfVal r.data),
              ("error", match r.error with | some e => Json.str e | none => Json.null),
              ("cancel", Json.bool r.cancel)]

def handle (fn : String) (a : Json) : Option (Except String Json) :=
  match fn with
  | "subwf.resolve" => some do
      let defsJ ← a.getObjValAs? (Array Json) "defs"
      let defs ← defsJ.toList.mapM fun d => do
        let n ← d.getArrVal? 0 >>= (·.getStr?)
        let ns ← d.getArrVal? 1 >>= (·.getStr?)
        pure (n.toList, ns)
      let parent ← a.getObjValAs? String "parent"
      let spec ← a.getObjValAs? String "spec"
      let ns ← a.getObjValAs? String "ns"
      let child ← a.getObjValAs? String "child"
      let cands := candidates parent.toList spec.toList child.toList
      let found := resolve defs parent.toList spec.toList ns child.toList
      pure (Json.mkObj [
        ("candidates", Json.arr (cands.map (fun c => Json.str (strOf c))).toArray),
        ("found", match found with
          | some (n, s) => Json.arr #[Json.str (strOf n), Json.str s]
          | none => Json.null)])
  | "subwf.split" => some do
      let declared ← a.getObjValAs? (List String) "declared"
      let input ← dictOfJson (← a.getObjVal? "input")
      let base ← dictOfJson (← a.getObjVal? "base")
      match splitInput declared input base with
      | .error e => pure (Json.mkObj [("err", Json.str (errName e))])
      | .ok (i, p) => pure (Json.mkObj [("input", jsonOfVal (.obj i)), ("params", jsonOfVal (.obj p))])
  | "subwf.schedule" => some do
      let pp ← dictOfJson (← a.getObjVal? "parentParams")
      let pr ← optStr (← a.getObjVal? "parentRoot")
      let pid ← a.getObjValAs? String "parentId"
      let tid ← a.getObjValAs? String "taskId"
      let idx ← a.getObjValAs? Nat "index"
      let declared ← a.getObjValAs? (List String) "declared"
      let input ← dictOfJson (← a.getObjVal? "input")
      let rpc ← a.getObjValAs? Bool "viaRpc"
      let defNs ← a.getObjValAs? String "defNs"
      match schedule pp pr pid tid idx declared input rpc defNs with
      | .ok r => pure (Json.mkObj [("ok", jsonOfRec r)])
      | .error e => pure (Json.mkObj [("err", Json.str (errName e))])
  | "subwf.scheduleArgs" => some do
      -- only the part WorkflowAction.schedule itself computes (before start_workflow)
      let pp ← dictOfJson (← a.getObjVal? "parentParams")
      let pr ← optStr (← a.getObjVal? "parentRoot")
      let pid ← a.getObjValAs? String "parentId"
      let tid ← a.getObjValAs? String "taskId"
      let idx ← a.getObjValAs? Nat "index"
      let declared ← a.getObjValAs? (List String) "declared"
      let input ← dictOfJson (← a.getObjVal? "input")
      let rpc ← a.getObjValAs? Bool "viaRpc"
      match baseParams pp (rootOf pr pid) tid idx with
      | .error e => pure (Json.mkObj [("err", Json.str (errName e))])
      | .ok base =>
        match splitInput declared input base with
        | .error e => pure (Json.mkObj [("err", Json.str (errName e))])
        | .ok (i, p) =>
          if rpc && p.any (fun kv => rpcKeywords.contains kv.1) then
            pure (Json.mkObj [("err", Json.str (errName .typeError))])
          else
            pure (Json.mkObj [("input", jsonOfVal (.obj i)), ("params", jsonOfVal (.obj p))])
  | "subwf.parentTask" => some do
      let wi ← a.getObjValAs? Bool "withItems"
      let chJ ← a.getObjValAs? (Array Json) "children"
      let ch ← chJ.toList.mapM childOfJson
      let st : St := if wi then withItemsFinalState ch else
        match ch with
        | [c] => (taskOnChildComplete .RUNNING c.state).1
        | _ => .RUNNING
      pure (Json.mkObj [("state", Json.str st.toString), ("result", jsonOfVal (taskResult wi ch))])
  | "subwf.sendResult" => some do
      let s ← stOfJson (← a.getObjVal? "state")
      let info ← optStr (← a.getObjVal? "stateInfo")
      let dflt ← a.getObjValAs? String "default"
      let out := valOfJson (← a.getObjVal? "output")
      match sendResult s info dflt with
      | none => pure (Json.str "RuntimeError")
      | some payload =>
        let r := engineResult payload out
        pure (Json.mkObj [("payload", match payload with | some p => jsonOfResult p | none => Json.null),
                          ("result", jsonOfResult r),
                          ("state", Json.str (resultState r).toString),
                          ("parent", match parentState s with
                                     | some p => Json.str p.toString | none => Json.null)])
  | _ => none

end Mistral.Drv.SubWf
