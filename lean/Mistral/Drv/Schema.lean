import Lean.Data.Json
import Mistral.Model.Schema
import Mistral.Gen.LangSchemas
open Lean Mistral.Schema
namespace Mistral.Drv.Schema

/- transport of a YAML value (harness/schema_stream.py `enc`):
     null / true / false / "string" / [ ... ]            as in JSON
     {"i": "<decimal>"}                                   int (unbounded)
     {"f": ["<n>", "<d>"]} | {"f": "inf"|"-inf"|"nan"}    float, exact fraction
     {"o": [[key, value], ...]}  key = "str" | {"ns": "<repr>"}   dict in document order
     {"x": "<repr>"}                                      date, bytes, set, tuple -/

def intOfStr (s : String) : Except String Int :=
  match s.toInt? with
  | some i => pure i
  | none => throw s!"bad integer {s}"

def keyOf : Json → Except String Key
  | .str s => pure (.s s)
  | j => match j.getObjVal? "ns" with
    | .ok (.str r) => pure (.ns r)
    | _ => throw "bad key"

partial def valOf : Json → Except String JVal
  | .null => pure .null
  | .bool b => pure (.bool b)
  | .str s => pure (.str s)
  | .num _ => throw "bare number"
  | .arr xs => do pure (.arr (← xs.toList.mapM valOf))
  | j@(.obj _) =>
    match j.getObjVal? "i", j.getObjVal? "f", j.getObjVal? "o", j.getObjVal? "x" with
    | .ok (.str s), _, _, _ => do pure (.int (← intOfStr s))
    | _, .ok (.str "inf"), _, _ => pure (.flt .inf)
    | _, .ok (.str "-inf"), _, _ => pure (.flt .ninf)
    | _, .ok (.str "nan"), _, _ => pure (.flt .nan)
    | _, .ok (.arr #[.str n, .str d]), _, _ => do
      let n ← intOfStr n
      let d ← intOfStr d
      if d ≤ 0 then throw "bad denominator" else pure (.flt (.fin n d.toNat))
    | _, _, .ok (.arr ps), _ => do
      let l ← ps.toList.mapM (fun p => match p with
        | .arr #[k, v] => do pure ((← keyOf k), (← valOf v))
        | _ => throw "bad pair")
      pure (.obj l)
    | _, _, _, .ok (.str t) => pure (.other t)
    | _, _, _, _ => throw "bad value"

def segJson : Seg → Json
  | .k (.s s) => .str s
  | .k (.ns r) => Json.mkObj [("ns", .str r)]
  | .i n => .num (JsonNumber.fromNat n)

def outJson (o : Out) : Json :=
  Json.mkObj [("crash", .bool o.crash),
              ("errs", .arr (o.errs.map (fun e => Json.arr #[.arr (e.path.map segJson).toArray, .str e.kw])).toArray)]

def findSchema (name : String) : Option Schema :=
  match (Mistral.Gen.LangSchemas.classTable.find? (·.1 == name)) with
  | some p => some p.2
  | none => (Mistral.Gen.LangSchemas.fragTable.find? (·.1 == name)).map (·.2)

def handle (fn : String) (a : Json) : Option (Except String Json) :=
  match fn with
  | "schema.validate" => some do
    -- {"cls": name of a spec class or fragment, "doc": value}  ->  events of `validate`
    let name ← a.getObjValAs? String "cls"
    let doc ← valOf (← a.getObjVal? "doc")
    match findSchema name with
    | some s => pure (outJson (validate s doc))
    | none => throw s!"unknown schema {name}"
  | "schema.validateAll" => some do
    -- {"clss": [names], "doc": value}  ->  [events] (one document against several schemas)
    let names ← a.getObjValAs? (Array String) "clss"
    let doc ← valOf (← a.getObjVal? "doc")
    let outs ← names.toList.mapM (fun name => match findSchema name with
      | some s => pure (outJson (validate s doc))
      | none => throw s!"unknown schema {name}")
    pure (.arr outs.toArray)
  | "schema.search" => some do
    -- {"pat": name, "s": string}  ->  re.search(pattern, s) is not None
    let name ← a.getObjValAs? String "pat"
    let s ← a.getObjValAs? String "s"
    match Mistral.Gen.LangSchemas.patTable.find? (·.1 == name) with
    | some p => pure (.bool (p.2.2.search s))
    | none => throw s!"unknown pattern {name}"
  | "schema.members" => some do
    -- {"doc": dict}  ->  the string keys `BaseSpecList.__init__` instantiates (`specListMembers`)
    let top := (a.getObjValAs? Bool "list").toOption.getD false
    match (← valOf (← a.getObjVal? "doc")) with
    | .obj kvs => pure (.arr ((if top then listSpecMembers kvs else specListMembers kvs).map (fun kv => match kv.1 with
        | .s k => Json.str k
        | .ns r => Json.mkObj [("ns", .str r)])).toArray)
    | _ => throw "not a dict"
  | "schema.equal" => some do
    let x ← valOf (← a.getObjVal? "a")
    let y ← valOf (← a.getObjVal? "b")
    pure (.bool (equal x y))
  | "schema.tables" => some do
    pure (Json.mkObj [
      ("validator", .str Mistral.Gen.LangSchemas.validatorClass),
      ("classes", .arr (Mistral.Gen.LangSchemas.classTable.map (fun p => Json.str p.1)).toArray),
      ("fragments", .arr (Mistral.Gen.LangSchemas.fragTable.map (fun p => Json.str p.1)).toArray),
      ("patterns", .arr (Mistral.Gen.LangSchemas.patTable.map (fun p => Json.arr #[.str p.1, .str p.2.1])).toArray)])
  | _ => none

end Mistral.Drv.Schema
