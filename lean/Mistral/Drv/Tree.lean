import Lean.Data.Json
import Mistral.Model.Tree
open Lean Mistral Mistral.Tree
namespace Mistral.Drv.Tree

def optNat (j : Json) (k : String) : Option Nat :=
  match j.getObjVal? k with
  | .ok Json.null => none
  | .ok v => (v.getNat?).toOption
  | .error _ => none

def kindOfJson (j : Json) : Except String Kind :=
  match j with
  | .str "action" => pure .action
  | _ => do pure (.subwf (← j.getObjValAs? Nat "subwf") (optNat j "items") (optNat j "conc"))

def strs (j : Json) (k : String) : Except String (List String) := do
  let a ← j.getObjValAs? (Array Json) k
  a.toList.mapM fun x => x.getStr?

def taskSpecOfJson (j : Json) : Except String TaskSpec := do
  pure { name := ← j.getObjValAs? String "name", kind := ← kindOfJson (← j.getObjVal? "kind"),
         onSuccess := ← strs j "onSuccess", onError := ← strs j "onError" }

def cfgOfJson (j : Json) : Except String Cfg := do
  let ds ← j.getObjValAs? (Array Json) "defs"
  let defs ← ds.toList.mapM fun d => do
    let ts ← d.getArr?
    ts.toList.mapM taskSpecOfJson
  pure { defs := defs, viaRpc := ← j.getObjValAs? Bool "viaRpc" }

def itemOfJson (j : Json) : Except String Item := do
  let k ← j.getObjValAs? String "k"
  let n := (j.getObjValAs? Nat "n").toOption.getD 0
  match k with
  | "postStartTask" => pure (.postStartTask n ((j.getObjValAs? Bool "first").toOption.getD true))
  | "rpcStartTask" => pure (.rpcStartTask n ((j.getObjValAs? Bool "first").toOption.getD true))
  | "postRunAction" => pure (.postRunAction n)
  | "runAction" => pure (.runAction n)
  | "rpcResult" => pure (.rpcResult n (← j.getObjValAs? Bool "ok"))
  | "postCheck" => pure (.postCheck n)
  | "postStartSub" => pure (.postStartSub n (← j.getObjValAs? Nat "idx"))
  | "rpcStartSub" => pure (.rpcStartSub n (← j.getObjValAs? Nat "idx"))
  | "postSendResult" => pure (.postSendResult n)
  | "rpcChildResult" => pure (.rpcChildResult n)
  | "jobChildComplete" => pure (.jobChildComplete n)
  | "jobChildUpdate" => pure (.jobChildUpdate n)
  | _ => throw s!"bad item {k}"

def itemStr : Item → String
  | .postStartTask t f => s!"postStartTask:{t}:{f}"
  | .rpcStartTask t f => s!"rpcStartTask:{t}:{f}"
  | .postRunAction t => s!"postRunAction:{t}"
  | .runAction t => s!"runAction:{t}"
  | .rpcResult t ok => s!"rpcResult:{t}:{ok}"
  | .postCheck i => s!"postCheck:{i}"
  | .postStartSub t i => s!"postStartSub:{t}:{i}"
  | .rpcStartSub t i => s!"rpcStartSub:{t}:{i}"
  | .postSendResult x => s!"postSendResult:{x}"
  | .rpcChildResult x => s!"rpcChildResult:{x}"
  | .jobChildComplete x => s!"jobChildComplete:{x}"
  | .jobChildUpdate x => s!"jobChildUpdate:{x}"

def eventOfJson (j : Json) : Except String Event := do
  let k ← j.getObjValAs? String "ev"
  match k with
  | "startRoot" => pure (.startRoot (← j.getObjValAs? Nat "defn"))
  | "stop" =>
    match St.ofString? (← j.getObjValAs? String "state") with
    | some s => pure (.stop (← j.getObjValAs? Nat "wf") s (← j.getObjValAs? String "msg"))
    | none => throw "bad state"
  | "pause" => pure (.pause (← j.getObjValAs? Nat "wf"))
  | "resume" => pure (.resume (← j.getObjValAs? Nat "wf"))
  | "execute" => pure (.execute (← j.getObjValAs? Nat "t") (← j.getObjValAs? Bool "ok"))
  | "deliver" => do pure (.deliver (← itemOfJson (← j.getObjVal? "item")))
  | _ => throw s!"bad event {k}"

def infoStr : Info → String
  | .none => "none"
  | .op m => "op:" ++ m
  | .auto => "auto"

def outStr : Out → String
  | .empty => "empty"
  | .data => "data"
  | .result i => "result:" ++ infoStr i

def optNatJ : Option Nat → Json
  | some n => toJson n
  | none => Json.null

/-- does the entry point raise (the transaction is rolled back)? -/
def raises (c : Cfg) (w : World) : Event → Bool
  | .stop a s msg => s != .CANCELLED && (stopOne w a s (.op msg)).isNone
  | .pause a => (prop c (fuelOf w) .pause w a).2
  | .resume a => (prop c (fuelOf w) .resume w a).2
  | _ => false

def obs (w : World) (raised : Bool) : Json :=
  Json.mkObj [
    ("raised", Json.bool raised),
    ("execs", Json.arr (w.execs.map fun e => Json.arr #[toJson e.defn, optNatJ e.parent, toJson e.index,
        Json.str e.state.toString, Json.str (infoStr e.info), Json.str (outStr e.out), Json.bool e.accepted,
        toJson e.sent, toJson e.got, toJson e.backlog.length]).toArray),
    ("tasks", Json.arr (w.tasks.map fun t => Json.arr #[toJson t.wf, Json.str t.name, Json.str t.state.toString,
        Json.bool t.processed, Json.bool t.hasNext, Json.bool t.errorHandled,
        (match t.wi with
         | some (n, cap) => Json.arr #[toJson n, optNatJ cap]
         | none => Json.null), toJson t.ran]).toArray),
    ("pending", Json.arr (w.pending.map fun i => Json.str (itemStr i)).toArray)]

/-- stateless: the whole event list is replayed (runs are short); observation after every event -/
def handle (fn : String) (a : Json) : Option (Except String Json) :=
  match fn with
  | "tree.run" => some do
      let c ← cfgOfJson (← a.getObjVal? "cfg")
      let evsJ ← a.getObjValAs? (Array Json) "events"
      let evs ← evsJ.toList.mapM eventOfJson
      let (_, out) := evs.foldl (fun (p : World × Array Json) e =>
        let w' := step c p.1 e
        (w', p.2.push (obs w' (raises c p.1 e)))) (init, #[])
      pure (Json.arr out)
  | _ => none

end Mistral.Drv.Tree
