import Lean.Data.Json
import Mistral.Model.Lang
open Lean Mistral.Lang
namespace Mistral.Drv.Lang

/-- transport format that keeps key order: {"o": [[k, v], …]} for objects, {"a": […]} for arrays. -/
partial def jOfJson : Json → Except String J
  | .null => pure .null
  | .bool b => pure (.bool b)
  | .str s => pure (.str s)
  | .num n => if n.exponent == 0 then pure (.num n.mantissa) else throw "non-integer number"
  | .arr _ => throw "bare array"
  | j@(.obj _) =>
    match j.getObjVal? "o", j.getObjVal? "a" with
    | .ok (.arr ps), _ => do
      let l ← ps.toList.mapM (fun p => match p with
        | .arr #[.str k, v] => do let v' ← jOfJson v; pure (k, v')
        | _ => throw "bad pair")
      pure (.obj l)
    | _, .ok (.arr xs) => do let l ← xs.toList.mapM jOfJson; pure (.arr l)
    | _, _ => throw "bad value"

partial def jsonOfJ : J → Json
  | .null => .null
  | .bool b => .bool b
  | .num n => .num (JsonNumber.fromInt n)
  | .str s => .str s
  | .arr xs => Json.mkObj [("a", .arr (xs.map jsonOfJ).toArray)]
  | .obj kvs => Json.mkObj [("o", .arr (kvs.map (fun (k, v) => Json.arr #[.str k, jsonOfJ v])).toArray)]

def strList (a : Json) (k : String) : Except String (List String) :=
  match a.getObjVal? k with
  | .ok (.arr xs) => xs.toList.mapM (fun j => j.getStr?)
  | .ok .null => pure []
  | .error _ => pure []
  | _ => throw s!"bad list {k}"

def entryOf (j : Json) : Except String Entry := do
  pure { target := ← j.getObjValAs? String "t", guarded := ← j.getObjValAs? Bool "g" }

def onClauseOf (a : Json) (k : String) : Except String OnClause :=
  match a.getObjVal? k with
  | .error _ => pure .absent
  | .ok .null => pure .absent
  | .ok c => do
    let form ← c.getObjValAs? String "form"
    let ents ← c.getObjValAs? (Array Json) "entries"
    let es ← ents.toList.mapM entryOf
    match form, es with
    | "single", [e] => pure (.single e)
    | "adv-single", [e] => pure (.advSingle e)
    | "list", es => pure (.list es)
    | "adv-list", es => pure (.advList es)
    | "adv-none", _ => pure .advNoNext
    | _, _ => throw "bad clause form"

def clausesOf (a : Json) : Except String Clauses := do
  pure { onSuccess := (← onClauseOf a "on-success").nextOf, onError := (← onClauseOf a "on-error").nextOf,
         onComplete := (← onClauseOf a "on-complete").nextOf, onSkip := (← onClauseOf a "on-skip").nextOf }

def taskOf (a : Json) : Except String TaskG := do
  let name ← a.getObjValAs? String "name"
  let cl ← clausesOf a
  let req ← strList a "requires"
  let jj ← a.getObjVal? "join"
  let kind ← jj.getObjValAs? String "kind"
  let join ← match kind with
    | "none" => pure JoinSpec.none
    | "all" => pure JoinSpec.all
    | "count" => do let n ← jj.getObjValAs? Nat "n"; pure (JoinSpec.count n)
    | _ => throw "bad join"
  pure { name := name, cl := cl, join := join, requires := req }

def wfOf (a : Json) : Except String WfG := do
  let rev ← a.getObjValAs? Bool "reverse"
  let ts ← a.getObjValAs? (Array Json) "tasks"
  let tasks ← ts.toList.mapM taskOf
  let (dflt, dreq) ← match a.getObjVal? "defaults" with
    | .ok .null => pure (none, [])
    | .ok d => do let c ← clausesOf d; let r ← strList d "requires"; pure (some c, r)
    | .error _ => pure (none, [])
  pure { reverse := rev, tasks := tasks, defaults := dflt, defaultRequires := dreq }

def strs (l : List String) : Json := Json.arr (l.map Json.str).toArray

def inlineOf (a : Json) : Except String (String → String → List (String × J)) := do
  -- {"wf": {"task": {"k": v}}}
  let tbl : List (String × List (String × List (String × J))) ← match a with
    | .obj wfs => (wfs.toList).mapM (fun (wf, tj) => do
        match tj with
        | .obj ts => do
          let l ← (ts.toList).mapM (fun (t, pj) => do
            match pj with
            | .arr ps => do
              let l2 ← ps.toList.mapM (fun p => do
                let k ← p.getObjValAs? String "k"
                let v ← p.getObjVal? "v"
                let v' ← jOfJson v
                pure (k, v'))
              pure (t, l2)
            | _ => throw "bad inline params")
          pure (wf, l)
        | _ => throw "bad inline tasks")
    | _ => throw "bad inline"
  pure (fun wf t => match tbl.lookup wf with
    | some ts => (ts.lookup t).getD []
    | none => [])

def handle (fn : String) (a : Json) : Option (Except String Json) :=
  match fn with
  | "lang.cutDef" => some do
      let wb ← a.getObjValAs? String "wb"
      let sec ← a.getObjValAs? String "sec"
      let item ← a.getObjValAs? String "item"
      match cutDef wb.toList sec.toList item.toList with
      | some r => pure (Json.str (String.ofList r))
      | none => pure Json.null
  | "lang.cutVerified" => some do
      -- {"wb","sec","name","known": member known?, "cutParses": the cut text parses to the member?, "dump": text}
      let wb ← a.getObjValAs? String "wb"
      let sec ← a.getObjValAs? String "sec"
      let name ← a.getObjValAs? String "name"
      let known ← a.getObjValAs? Bool "known"
      let cp ← a.getObjValAs? Bool "cutParses"
      let dump ← a.getObjValAs? String "dump"
      let Y : Yaml Unit := { parse := fun _ => if cp then some () else none, dump := fun _ => dump.toList }
      match memberDefinition Y wb.toList sec.toList name.toList (if known then some () else none) with
      | some r => pure (Json.str (String.ofList r))
      | none => pure Json.null
  | "lang.witness" => some do
      let n ← a.getObjValAs? String "name"
      match n with
      | "taskClash" => pure (Json.str (String.ofList (renderWb witnessTaskClash)))
      | "sectionEarlier" => pure (Json.str (String.ofList (renderWb witnessSectionEarlier)))
      | _ => throw "unknown witness"
  | "lang.normWfList" => some do
      let d ← a.getObjVal? "d"
      let j ← jOfJson d
      let inl ← inlineOf (← a.getObjVal? "inline")
      match normWfList inl j with
      | .ok r => pure (Json.mkObj [("ok", jsonOfJ r)])
      | .error .notADict => pure (Json.mkObj [("err", "notADict")])
      | .error .noTasks => pure (Json.mkObj [("err", "noTasks")])
  | "lang.graph" => some do
      let w ← wfOf a
      let verdict := match validateGraph w with
        | .ok () => "ok"
        | .error .noStartTasks => "noStartTasks"
        | .error (.taskNotFound _) => "taskNotFound"
        | .error (.joinInbound _) => "joinInbound"
        | .error .requiresCycle => "requiresCycle"
      pure (Json.mkObj [
        ("verdict", verdict),
        ("start", strs ((startTasks w).map (·.name))),
        ("out", Json.mkObj (w.tasks.map (fun t => (t.name, strs (outbound w t))))),
        ("in", Json.mkObj (w.tasks.map (fun t => (t.name, strs ((inbound w t.name).map (·.name)))))),
        ("requires", Json.mkObj (w.tasks.map (fun t => (t.name, strs (taskRequires w t)))))])
  | _ => none

end Mistral.Drv.Lang
