-- Root of the `Mistral` library: models, generated tables, lemmas, property theorems.
import Mistral.Model.Egress
import Mistral.Gen.EgressDefaults
import Mistral.Props.C19
