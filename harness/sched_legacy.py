"""Stream `legacy`: the real LegacyScheduler (mistral/services/legacy_scheduler.py) stepped at
DB-call granularity against the small legacy model of Model/Sched.lean (`lStep`).

One `_process_delayed_calls()` iteration per instance runs in a baton thread that is parked
before `_invoke_calls` and before `delete_calls` (instance-level wrappers); `capture i` starts
the iteration (the real `_capture_calls` transaction), `invoke i` / `delete i` resume it,
`crash i` abandons it.  The scheduling transaction is handled as in sched_driver (really
committed or rolled back at once; a committed row stays hidden until the `commit` step).

Monitor (statement only, where it applies to the legacy scheduler): never early, a
rolled-back / uncommitted call never runs, at most once (unconditionally: there is no
recapture), a committed call is never lost from the store before it ran.
"""
import collections
import datetime

from harness import sched_driver as sd


class LWorld(object):
    def __init__(self, n):
        sd.World.boot()
        from oslo_config import cfg
        from oslo_utils import timeutils
        from mistral.services import legacy_scheduler
        self.timeutils = timeutils
        self.clock = 0
        self._set_clock()
        self._session_do(lambda ses: ses.query(self.models().DelayedCall).delete())
        self.jobs = []
        self.uuid_of = {}
        self.hidden = {}
        self.log = []
        self.current = None
        self.insts = []
        for i in range(n):
            s = legacy_scheduler.LegacyScheduler(cfg.CONF.scheduler)
            inst = {'idx': i, 'alive': True, 'sched': s, 'actor': None, 'ids': []}
            self._wrap(inst)
            self.insts.append(inst)
        sd._install_target(self)
        self.trace = self.log       # the shared target appends ['invoked', j, clock, inst]

    @property
    def current_inst(self):
        return self.current

    @staticmethod
    def models():
        from mistral.db.v2.sqlalchemy import models
        return models

    def _set_clock(self):
        self.timeutils.set_time_override(sd.T0 + datetime.timedelta(seconds=self.clock))

    def _session_do(self, fn):
        from mistral.db.sqlalchemy import base as b
        from mistral.db.v2 import api as db_api
        with db_api.transaction():
            return fn(b._get_thread_local_session())

    def close(self):
        for inst in self.insts:
            if inst['actor']:
                inst['actor'].destroy()
        self.timeutils.clear_time_override()

    def _wrap(self, inst):
        s = inst['sched']
        real_capture, real_invoke, real_delete = s._capture_calls, s._invoke_calls, s.delete_calls
        w = self

        def capture(batch):
            calls = real_capture(batch)
            inst['ids'] = sorted(self.ordinal(c) for c in calls)
            return calls

        def invoke(prepared):
            a = getattr(sd._TL, 'actor', None)
            if a is not None:
                a.park('invoke')
            w.current = inst['idx']
            try:
                return real_invoke(prepared)
            finally:
                w.current = None

        def delete(calls):
            a = getattr(sd._TL, 'actor', None)
            if a is not None:
                a.park('delete')
            return real_delete(calls)

        s._capture_calls, s._invoke_calls, s.delete_calls = capture, invoke, delete

    def ordinal(self, call):
        return call.method_arguments['j']

    def do(self, step):
        return getattr(self, 'st_' + step[0])(*step[1:])

    def st_tick(self, n):
        self.clock += n
        self._set_clock()

    def st_schedule(self, ra, tx, fate='commit'):
        from mistral.db.v2 import api as db_api
        from mistral.scheduler import base as sb
        models = self.models()
        ordn = len(self.jobs)
        job = sb.SchedulerJob(run_after=ra, func_name=sd.TARGET_MOD + '.target', func_args={'j': ordn}, key='k1')
        try:
            with db_api.transaction():
                self.insts[0]['sched'].schedule(job)     # schedule() only writes the row
                if fate != 'commit':
                    raise sd.Rollback()
        except sd.Rollback:
            pass
        self.jobs.append({'sched_at': self.clock, 'ra': ra, 'tx': tx, 'fate': fate, 'state': 'uncommitted'})
        if fate == 'commit':
            def hide(ses):
                rows = [r for r in ses.query(models.DelayedCall).all() if r.method_arguments.get('j') == ordn]
                vals = {c.name: getattr(rows[0], c.name) for c in rows[0].__table__.columns}
                ses.delete(rows[0])
                return vals
            self.hidden[ordn] = self._session_do(hide)

    def _end(self, tx, outcome):
        models = self.models()
        for ordn, j in enumerate(self.jobs):
            if j['tx'] == tx and j['state'] == 'uncommitted':
                if outcome == 'commit':
                    vals = self.hidden.pop(ordn)
                    self._session_do(lambda ses: ses.add(models.DelayedCall(**vals)))
                    j['state'] = 'committed'
                else:
                    j['state'] = 'rolledBack'

    def st_commit(self, tx):
        self._end(tx, 'commit')

    def st_rollback(self, tx):
        self._end(tx, 'rollback')

    def st_capture(self, i):
        inst = self.insts[i]
        if not inst['alive'] or inst['actor'] is not None:
            return
        inst['ids'] = []
        a = sd.Actor(inst['sched']._process_delayed_calls, inst, False)
        a.start()
        inst['actor'] = None if a.state == 'done' else a

    def _resume(self, i, label):
        inst = self.insts[i]
        a = inst['actor']
        if not inst['alive'] or a is None or a.label != label:
            return
        a.resume()
        if a.state == 'done':
            inst['actor'] = None

    def st_invoke(self, i):
        self._resume(i, 'invoke')

    def st_delete(self, i):
        self._resume(i, 'delete')

    def st_crash(self, i):
        inst = self.insts[i]
        if inst['actor']:
            inst['actor'].destroy()
        inst['actor'] = None
        inst['alive'] = False

    def rows(self):
        models = self.models()
        return {r.method_arguments['j']: (sd.World.rel(r.execution_time), bool(r.processing))
                for r in self._session_do(lambda ses: ses.query(models.DelayedCall).all())}

    def observe(self):
        rows = self.rows()
        insts = []
        for inst in self.insts:
            a = inst['actor']
            if a is None:
                ph = ['idle']
            else:
                ph = ['captured' if a.label == 'invoke' else 'invoked', list(inst['ids'])]
            insts.append([inst['alive'], ph])
        return {'clock': self.clock,
                'rows': [list(rows[o]) if o in rows else None for o in range(len(self.jobs))],
                'insts': insts,
                'log': sorted([e[1], e[2], e[3]] for e in self.log)}


def model_view(m):
    return {'clock': m['clock'],
            'rows': [[r[0], r[1]] if r[2] == 'committed' else None for r in m['rows']],
            'insts': [[x[0], [x[1][0]] + ([sorted(x[1][1])] if len(x[1]) > 1 else [])] for x in m['insts']],
            'log': sorted(m['log'])}


def mstep(st):
    return st[:3] if st[0] == 'schedule' else st


def run_case(ctx, n, steps, stream='legacy', compare=True):
    from vlib import core
    w = LWorld(n)
    agree = True
    try:
        done = []
        seen = 0
        for st in steps:
            done.append(st)
            try:
                w.do(st)
            except Exception as e:
                ctx.disagree(stream, {'n': n, 'steps': done}, 'no exception', '%s: %s' % (type(e).__name__, str(e)[:200]))
                return w, False
            if compare and agree:
                m = ctx.driver().call('sched.lrun', {'n': n, 'steps': [mstep(s) for s in done]})[-1]
                obs, mv = w.observe(), model_view(m)
                if core.canon(obs) != core.canon(mv):
                    agree = False
                    ctx.disagree(stream, {'n': n, 'steps': list(done)},
                                 {k: mv[k] for k in mv if core.canon(mv[k]) != core.canon(obs[k])},
                                 {k: obs[k] for k in mv if core.canon(mv[k]) != core.canon(obs[k])})
            # monitor
            rep = {'kind': 'legacy', 'n': n, 'steps': list(done)}
            for e in w.log[seen:]:
                _, j, t, i = e
                job = w.jobs[j]
                if t < job['sched_at'] + job['ra']:
                    ctx.violation('legacy: call %d invoked at %d before its time' % (j, t), rep,
                                  {'kind': 'legacy-invoked-early'})
                if job['state'] != 'committed':
                    ctx.violation('legacy: call %d of a %s transaction was invoked' % (j, job['state']), rep,
                                  {'kind': 'legacy-job-of-%s-transaction-invoked' % job['state']})
            seen = len(w.log)
            cnt = collections.Counter(e[1] for e in w.log)
            if any(c > 1 for c in cnt.values()):
                ctx.violation('legacy: a delayed call was invoked twice', rep, {'kind': 'legacy-invoked-twice'})
            rows = w.rows()
            for o, job in enumerate(w.jobs):
                if job['state'] == 'committed' and o not in rows and cnt.get(o, 0) == 0:
                    ctx.violation('legacy: committed call %d neither stored nor invoked' % o, rep,
                                  {'kind': 'legacy-committed-job-lost'})
        return w, agree
    finally:
        w.close()


def random_steps(rng, n):
    steps = []
    jobs = 0
    open_tx = {}
    phase = ['idle'] * n
    for _ in range(rng.randrange(12, 30)):
        c = []
        if jobs < 4:
            c.append((2, 'schedule'))
        if open_tx:
            c.append((3, 'end'))
        c += [(3, 'tick'), (3, 'capture'), (4, 'invoke'), (4, 'delete'), (0.3, 'crash')]
        k = rng.choices([x[1] for x in c], [x[0] for x in c])[0]
        if k == 'schedule':
            fate = 'commit' if rng.random() < 0.75 else 'rollback'
            steps.append(['schedule', rng.choice([0, 0, 1, 2]), jobs, fate])
            open_tx[jobs] = fate
            jobs += 1
        elif k == 'end':
            tx = rng.choice(sorted(open_tx))
            steps.append(['commit' if open_tx.pop(tx) == 'commit' else 'rollback', tx])
        elif k == 'tick':
            steps.append(['tick', rng.choice([1, 1, 2])])
        else:
            steps.append([k, rng.randrange(n)])
    return steps


def correspond(ctx):
    fixed = [
        (2, [['schedule', 1, 0, 'commit'], ['commit', 0], ['capture', 0], ['tick', 1], ['capture', 0], ['capture', 1],
             ['invoke', 0], ['delete', 0], ['capture', 1]]),
        (2, [['schedule', 0, 0, 'rollback'], ['schedule', 0, 1, 'commit'], ['capture', 0], ['rollback', 0], ['commit', 1],
             ['capture', 1], ['crash', 1], ['tick', 5], ['capture', 0]]),
    ]
    cases = fixed + [(ctx.rng.choice([1, 2, 2, 3]), None) for _ in range(ctx.n(25, 600))]
    for n, steps in cases:
        if steps is None:
            steps = random_steps(ctx.rng, n)
        w, agree = run_case(ctx, n, steps)
        for s in steps:
            ctx.count('legacy', 'step:' + s[0])
        ctx.evaluated('legacy', [n, steps], nontrivial=bool(w.log))


def replay(ctx, rep):
    r = rep['replay']
    w, _ = run_case(ctx, r['n'], r['steps'], stream='replay', compare=False)
    print('replay(legacy): %d steps, log=%s' % (len(r['steps']), w.log))
