"""Stream `legacy`: 1..3 REAL `LegacyScheduler` objects (mistral/services/legacy_scheduler.py, the
scheduler of the default `scheduler_type = legacy`) over one in-memory sqlite, stepped at DB-call
granularity against Model/SchedLegacy.lean (`lStep`, driver handler `sched.lrun`).

The scheduler threads are never started; one `_process_delayed_calls()` iteration of an instance
is executed piecewise:

* `select i`   the real `_process_delayed_calls` runs up to and including the real
               `get_delayed_calls_to_start(now+1s, batch_size)` of `_capture_calls`, whose answer
               is stashed, and is aborted (`sd.AbortSelect`, a BaseException: the transaction of
               `_capture_calls` is rolled back, nothing was written);
* `capture i`  the real `_process_delayed_calls` runs again in a baton thread (`sd.Actor`) with
               that stashed answer (a READ COMMITTED select followed later by the CAS updates):
               the real CAS loop + commit of `_capture_calls`, `_prepare_calls`, and the thread is
               parked INSIDE the first target call (before it logs), or finishes when nothing was
               captured;
* `invoke i`   the parked target call logs and returns; the real `_invoke_calls` loop goes on to
               the next target call (parks there) or to `delete_calls` (instance-level wrapper,
               parks before the real delete);
* `delete i`   the real `delete_calls`, the iteration is over;
* `crash i`    the baton thread is destroyed, the instance is dead.

`scheduleBad` schedules a call whose target cannot be imported.  With patch 17 the real
`_prepare_calls` logs and skips it: the observed phase after `capture i` is ['busy', ids, todo] with
ids = every captured ordinal and todo = the captured GOOD ones not yet invoked (what the real
`_invoke_calls` got), `delete i` deletes all of ids.  Without the patch `_prepare_calls` raises
ImportError out of `_process_delayed_calls` after `_capture_calls` committed: the iteration ends
with an exception (an unexpected end like any other: the observation differs from the model, the
batch is remembered in `LWorld.aborted` for the classification of never-run calls).

In `capture i` the stashed answer of the select is put into the session of the capture
transaction with `session.merge(obj, load=False)` (no store access): oslo.db `update_on_match`
merges its result into the object the select of the SAME session loaded.

Transactions of the caller of `schedule()` as in sched_driver: really committed or rolled back at
once; a committed row is moved to a side table until the `commit` step (READ COMMITTED).

Monitor (statement only, on the real log / rows): never early; a call of a rolled-back or
uncommitted transaction is never captured or invoked; invoked at most once (unconditionally:
there is no recapture); captured at most once; a committed call is never lost from the store
before it ran; has_scheduled_jobs(key, processing=False) is exactly "a pending row with that key
exists"; and (closing phase) every committed call is eventually invoked while a live instance keeps
polling.  A call whose target cannot be imported is exempt from "lost" / "at least once" (it is
logged and dropped), must never be invoked, and must be gone from the store once a live instance
that captured it has finished its iteration.
"""
import collections
import datetime
import sys
import types

from harness import sched_driver as sd

TARGET_MOD = 'c13_legacy_target'
KEYS = [1, 2]
RKEY = {'k1': 1, 'k2': 2, 'k3': 3}
PROCS = (None, False, True)
CRASH_SIG = {'kind': 'legacy-captured-call-never-run', 'cause': 'capturer-crashed'}
ABORT_SIG = {'kind': 'legacy-captured-call-never-run', 'cause': 'batch-aborted-by-unpreparable-call'}
STUCK_SIG = {'kind': 'legacy-unpreparable-call-never-removed'}
BAD_FUNC = 'no_such_function'


class LInst(object):
    def __init__(self, idx, sched):
        self.idx = idx
        self.alive = True
        self.sched = sched
        self.sel = None        # stashed answer of the select (list of DelayedCall objects)
        self.actor = None      # the running iteration (parked at 'invoke' or 'delete')
        self.ids = []          # ordinals captured by the running iteration, in order
        self.good = []         # those of them whose target can be imported (what _invoke_calls gets)
        self.done = 0          # how many of `good` have been invoked
        self.at = None         # ordinal the parked target call is about


class LWorld(object):
    def __init__(self, n, batch=None):
        sd.World.boot()
        from oslo_config import cfg
        from oslo_utils import timeutils
        from mistral.services import legacy_scheduler
        self.timeutils = timeutils
        self.CONF = cfg.CONF
        self.batch = batch
        self.CONF.set_override('batch_size', batch, 'scheduler')
        self.clock = 0
        self._set_clock()
        self._session_do(lambda ses: ses.query(self.models().DelayedCall).delete())
        self.jobs = []           # ordinal -> {'sched_at','ra','key','tx','fate','state'}
        self.uuids = []          # ordinal -> id of the row
        self.ids = {}            # id -> ordinal
        self.hidden = {}         # ordinal -> column values of a committed, not yet visible row
        self.log = []            # ['invoked', j, clock, inst]
        self.caps = []           # ['captured', j, clock, inst]
        self.aborted = []        # [ids] of every captured batch whose iteration ended with an exception
        #                          before delete_calls (e.g. an unpatched _prepare_calls raising)
        self.stats = collections.Counter()
        self.problems = []
        self.insts = []
        for i in range(n):
            inst = LInst(i, legacy_scheduler.LegacyScheduler(cfg.CONF.scheduler))
            self._wrap(inst)
            self.insts.append(inst)
        _install_target(self)

    # ------------------------------------------------------------ plumbing
    @staticmethod
    def models():
        from mistral.db.v2.sqlalchemy import models
        return models

    def _set_clock(self):
        self.timeutils.set_time_override(sd.T0 + datetime.timedelta(seconds=self.clock))

    def _session_do(self, fn):
        from mistral.db.sqlalchemy import base as b
        from mistral.db.v2 import api as db_api
        with db_api.transaction():
            return fn(b._get_thread_local_session())

    def close(self):
        for inst in self.insts:
            if inst.actor:
                inst.actor.destroy()
                inst.actor = None
        self.timeutils.clear_time_override()
        self.CONF.clear_override('batch_size', 'scheduler')
        mod = sys.modules.get(TARGET_MOD)
        if mod is not None and getattr(mod, 'world', None) is self:
            mod.world = None

    def is_bad(self, j):
        return 0 <= j < len(self.jobs) and bool(self.jobs[j]['bad'])

    def ordinal(self, call):
        o = self.ids.get(getattr(call, 'id', None))
        if o is None:
            self.problems.append('the scheduler handled a delayed call the harness does not know')
            return -1
        return o

    def _wrap(self, inst):
        """`_capture_calls` / `delete_calls` are staticmethods called through `self.`: instance
        attributes take precedence."""
        s = inst.sched
        real_capture, real_delete = s._capture_calls, s.delete_calls
        inst.real_capture = real_capture
        w = self

        def capture(batch_size):
            calls = real_capture(batch_size)
            ids = [w.ordinal(c) for c in calls]
            inst.ids = ids
            inst.good = [j for j in ids if not w.is_bad(j)]
            inst.done = 0
            if len(inst.good) < len(ids):
                w.stats['batch-with-unpreparable-call'] += 1
            for j in ids:
                w.caps.append(['captured', j, w.clock, inst.idx])
            if inst.sel is not None:
                lost = len(inst.sel) - len(ids)
                if lost > 0:
                    w.stats['cas-lost'] += lost
            return calls

        def delete(calls):
            a = getattr(sd._TL, 'actor', None)
            if a is not None:
                a.park('delete')
            return real_delete(calls)

        s._capture_calls, s.delete_calls = capture, delete

    # ------------------------------------------------------------ steps
    def do(self, step):
        return getattr(self, 'st_' + step[0])(*step[1:])

    def st_tick(self, n):
        self.clock += n
        self._set_clock()

    def st_scheduleBad(self, ra, key, tx, fate='commit'):
        """a delayed call whose target cannot be imported: `_prepare_calls` raises ImportError"""
        return self.st_schedule(ra, key, tx, fate, bad=True)

    def st_schedule(self, ra, key, tx, fate='commit', bad=False):
        from mistral.db.v2 import api as db_api
        from mistral.scheduler import base as sb
        models = self.models()
        ordn = len(self.jobs)
        job = sb.SchedulerJob(run_after=ra, func_name=TARGET_MOD + '.' + (BAD_FUNC if bad else 'target'),
                              func_args={'j': ordn},
                              key=sd.World.KEYS[key])
        before = set(r.id for r in self._session_do(lambda ses: ses.query(models.DelayedCall).all()))
        try:
            with db_api.transaction():
                self.insts[0].sched.schedule(job)     # schedule() only writes the row
                if fate != 'commit':
                    raise sd.Rollback()
        except sd.Rollback:
            pass
        self.jobs.append({'sched_at': self.clock, 'ra': ra, 'key': key, 'tx': tx, 'fate': fate,
                          'state': 'uncommitted', 'bad': bad})
        new = [r for r in self._session_do(lambda ses: ses.query(models.DelayedCall).all())
               if r.id not in before]
        if fate == 'commit':
            if len(new) != 1:
                self.problems.append('schedule() in a committed transaction wrote %d rows' % len(new))
                self.uuids.append(None)
                return
            uuid = new[0].id
            self.uuids.append(uuid)
            self.ids[uuid] = ordn

            def hide(ses):
                row = ses.query(models.DelayedCall).filter_by(id=uuid).one()
                vals = {c.name: getattr(row, c.name) for c in row.__table__.columns}
                ses.delete(row)
                return vals
            self.hidden[ordn] = self._session_do(hide)
        else:
            self.uuids.append(None)
            if new:
                self.problems.append('schedule() in a rolled-back transaction left %d rows' % len(new))

    def _end(self, tx, outcome):
        models = self.models()
        for ordn, j in enumerate(self.jobs):
            if j['tx'] == tx and j['state'] == 'uncommitted':
                if outcome == 'commit' and j['fate'] == 'commit':
                    vals = self.hidden.pop(ordn, None)
                    if vals is not None:
                        self._session_do(lambda ses: ses.add(models.DelayedCall(**vals)))
                    j['state'] = 'committed'
                    j['committed_at'] = self.clock
                elif outcome == 'rollback' and j['fate'] != 'commit':
                    j['state'] = 'rolledBack'
                else:
                    raise ValueError('step %s of tx %d contradicts the fate chosen at schedule time'
                                     % (outcome, tx))

    def st_commit(self, tx):
        self._end(tx, 'commit')

    def st_rollback(self, tx):
        self._end(tx, 'rollback')

    def phase(self, inst):
        if not inst.alive:
            return 'dead'
        if inst.actor is not None:
            return 'busy'
        return 'idle' if inst.sel is None else 'selected'

    def st_select(self, i):
        from mistral.db.v2 import api as db_api
        if i >= len(self.insts):
            return
        inst = self.insts[i]
        if self.phase(inst) != 'idle':
            return
        real = db_api.get_delayed_calls_to_start
        got = {}

        def select(*a, **k):
            got['calls'] = real(*a, **k)
            got['args'] = (a, k)
            raise sd.AbortSelect()

        db_api.get_delayed_calls_to_start = select
        try:
            inst.sched._process_delayed_calls()
        except sd.AbortSelect:
            pass
        finally:
            db_api.get_delayed_calls_to_start = real
        if 'calls' not in got:
            self.problems.append('_process_delayed_calls did not query the store')
            got['calls'] = []
        inst.sel = list(got['calls'])
        inst.ids, inst.good, inst.done = [], [], 0

    def sel_ids(self, inst):
        return [self.ordinal(c) for c in inst.sel]

    def set_cands(self, i, order):
        """Continue with the given (model) answer of the select: same execution_time values,
        another order / choice among the ties."""
        models = self.models()
        inst = self.insts[i]
        by = {self.ids[c.id]: c for c in inst.sel}
        missing = [o for o in order if o not in by]
        if missing:
            def load(ses):
                return ses.query(models.DelayedCall).filter(
                    models.DelayedCall.id.in_([self.uuids[o] for o in missing])).all()
            for c in self._session_do(load):
                by[self.ids[c.id]] = c
        inst.sel = [by[o] for o in order]

    def st_capture(self, i):
        from mistral.db.v2 import api as db_api
        if i >= len(self.insts):
            return
        inst = self.insts[i]
        if self.phase(inst) != 'selected':
            return
        stash = inst.sel
        real = db_api.get_delayed_calls_to_start
        inst.ids, inst.good, inst.done, inst.at = [], [], 0, None
        a = sd.Actor(inst.sched._process_delayed_calls, inst, False)

        def stale(*x, **k):
            # The rows as the select of THIS transaction returned them: the stashed objects are
            # put into the identity map of the transaction's session without touching the store
            # (update_on_match merges its result into the object the select loaded; without it
            # the captured object would be a half-loaded one that cannot be used after commit).
            from mistral.db.sqlalchemy import base as b
            ses = b._get_thread_local_session()
            return [ses.merge(c, load=False) for c in stash]

        db_api.get_delayed_calls_to_start = stale
        try:
            a.start()
        finally:
            db_api.get_delayed_calls_to_start = real
        inst.sel = None
        inst.actor = a
        self._after(inst)

    def _after(self, inst):
        a = inst.actor
        if a is not None and a.state == 'done':
            if a.exc is not None:
                # never expected (the real loop would log it and go on); the model has no such end:
                # the observation differs as well
                if inst.ids and a.label != 'delete':
                    self.aborted.append(list(inst.ids))
                    self.stats['batch-aborted'] += 1
                self.problems.append('the iteration of instance %d ended with %s: %s'
                                     % (inst.idx, type(a.exc).__name__, str(a.exc)[:200]))
            elif inst.ids and len(inst.good) < len(inst.ids):
                self.stats['batch-with-unpreparable-call-finished'] += 1
                if inst.good and inst.done == len(inst.good):
                    self.stats['unpreparable-call-skipped-others-invoked'] += 1
            inst.actor = None
            inst.ids, inst.good, inst.done, inst.at = [], [], 0, None

    def _resume(self, i, label):
        if i >= len(self.insts):
            return
        inst = self.insts[i]
        a = inst.actor
        if not inst.alive or a is None or a.label != label:
            return
        a.resume()
        self._after(inst)

    def st_invoke(self, i):
        self._resume(i, 'invoke')

    def st_delete(self, i):
        self._resume(i, 'delete')

    def st_crash(self, i):
        if i >= len(self.insts):
            return
        inst = self.insts[i]
        if inst.actor:
            inst.actor.destroy()
        inst.actor = None
        inst.sel = None
        inst.ids, inst.good, inst.done, inst.at = [], [], 0, None
        inst.alive = False

    # ------------------------------------------------------------ observation
    def rows(self):
        """ordinal -> (execution_time, processing, key, bad target) of the rows visible in the store"""
        models = self.models()
        out = {}
        for r in self._session_do(lambda ses: ses.query(models.DelayedCall).all()):
            o = self.ids.get(r.id)
            if o is None:
                self.problems.append('a row the harness does not know is in delayed_calls_v2')
                continue
            out[o] = (sd.World.rel(r.execution_time), bool(r.processing), RKEY.get(r.key, r.key),
                      r.target_method_name != TARGET_MOD + '.target')
        return out

    def has_all(self, i=0):
        """[[key, processing, has_scheduled_jobs(key=.., processing=..)]] for every combination,
        asked inside one read-only transaction, as the engine calls it (see the comment in
        sd.World.has); the object of a dead instance still answers, it only reads the store."""
        from mistral.db.v2 import api as db_api
        out = []
        sched = self.insts[i].sched
        try:
            with db_api.transaction(read_only=True):
                for k in [None] + KEYS:
                    for p in PROCS:
                        f = {}
                        if k is not None:
                            f['key'] = sd.World.KEYS[k]
                        if p is not None:
                            f['processing'] = p
                        try:
                            out.append([k, p, bool(sched.has_scheduled_jobs(**f))])
                        except Exception as e:
                            out.append([k, p, 'exception:' + type(e).__name__])
        except Exception as e:
            out.append(['transaction', None, 'exception:' + type(e).__name__])
        return out

    def inst_phase(self, inst):
        if not inst.alive:
            return ['idle']
        a = inst.actor
        if a is None:
            return ['idle'] if inst.sel is None else ['selected', self.sel_ids(inst)]
        if a.label == 'invoke':
            # todo = the captured calls that could be prepared and are not invoked yet
            return ['busy', list(inst.ids), list(inst.good[inst.done:])]
        if a.label == 'delete':
            return ['busy', list(inst.ids), []]
        return ['parked-at-' + str(a.label)]

    def observe(self, rows=None, has=None):
        rows = self.rows() if rows is None else rows
        has = self.has_all() if has is None else has
        return {'clock': self.clock,
                'rows': [list(rows[o]) if o in rows else None for o in range(len(self.jobs))],
                'insts': [[inst.alive, self.inst_phase(inst)] for inst in self.insts],
                'log': [[e[1], e[2], e[3]] for e in self.log],
                'caps': [[e[1], e[2], e[3]] for e in self.caps],
                'has': has}


def model_view(m):
    """Project a model observation (Drv/Sched lstateJson) on what `LWorld.observe` reports."""
    return {'clock': m['clock'],
            'rows': [[r[0], r[1], r[2], r[3]] if r[4] == 'committed' else None for r in m['rows']],
            'insts': m['insts'], 'log': m['log'], 'caps': m['caps'], 'has': m['has']}


def _install_target(world):
    mod = sys.modules.get(TARGET_MOD)
    if mod is None:
        mod = types.ModuleType(TARGET_MOD)
        sys.modules[TARGET_MOD] = mod

    def target(j=None, **kw):
        w = mod.world
        a = getattr(sd._TL, 'actor', None)
        inst = a.inst if a is not None else None
        if inst is not None:
            inst.at = j
            if inst.done >= len(inst.good) or inst.good[inst.done] != j:
                w.problems.append('instance %d invokes call %r, the next captured preparable one is %r'
                                  % (inst.idx, j, inst.good[inst.done:inst.done + 1]))
            a.park('invoke')
        w.log.append(['invoked', j, w.clock, inst.idx if inst is not None else None])
        if inst is not None:
            inst.done += 1
            inst.at = None

    mod.target = target
    mod.world = world


def mstep(st):
    """model encoding of a harness step (the commit/rollback fate is harness-only)"""
    return list(st[:4]) if st[0] in ('schedule', 'scheduleBad') else list(st)


class LRunner(object):
    def __init__(self, ctx, n, batch, stream='legacy', compare=True):
        self.ctx = ctx
        self.n = n
        self.batch = batch
        self.stream = stream
        self.compare = compare
        self.w = LWorld(n, batch)
        self.steps = []
        self.agree = True
        self.hits = []
        self.seen_log = 0
        self.seen_caps = 0
        self.mech = collections.Counter()
        self.model = None
        self.last_rows = None

    def close(self):
        self.w.close()

    def replay_obj(self):
        return {'kind': 'legacy', 'n': self.n, 'batch': self.batch, 'steps': [list(s) for s in self.steps]}

    def model_state(self):
        return self.ctx.driver().call('sched.lrun', {
            'n': self.n, 'batch': self.batch, 'steps': [mstep(s) for s in self.steps],
            'keys': KEYS, 'all': False})

    def disagree(self, step, model, impl):
        if self.agree:
            self.agree = False
            self.ctx.disagree(self.stream, {'n': self.n, 'batch': self.batch, 'steps': [list(s) for s in self.steps],
                                            'at_step': len(self.steps) - 1, 'step': list(step)}, model, impl)

    def hit(self, what, sig):
        self.hits.append((what, sig))
        self.ctx.violation('legacy: ' + what, self.replay_obj(), sig)

    # ------------------------------------------------------------------ one step
    def do(self, step):
        from vlib import core
        w = self.w
        self.steps.append(list(step))
        k = step[0]
        if k == 'crash' and step[1] < len(w.insts):
            inst = w.insts[step[1]]
            if inst.alive and inst.actor is not None:
                self.mech['crash-with-captured-work'] += 1
                if inst.done < len(inst.good):
                    self.mech['crash-before-invocation'] += 1
        if k == 'select' and step[1] < len(w.insts) and w.phase(w.insts[step[1]]) == 'idle':
            if any(j['fate'] != 'commit' for j in w.jobs):
                self.mech['select-with-rolled-back-call'] += 1
            if any(j['state'] == 'uncommitted' and j['fate'] == 'commit' for j in w.jobs):
                self.mech['select-with-uncommitted-call'] += 1
        try:
            w.do(step)
        except Exception as e:   # the real code raised where the real loop would only log it
            self.disagree(step, 'no exception', 'exception %s: %s' % (type(e).__name__, str(e)[:200]))
            return False
        if sum(1 for x in w.insts if w.phase(x) == 'selected') >= 2:
            self.mech['two-instances-selected'] += 1
        rows = w.rows()
        self.last_rows = rows
        has = w.has_all()
        if self.compare and self.agree:
            m = self.model_state()
            self.model = m
            if not isinstance(m, dict) or 'rows' not in m:
                self.disagree(step, m, 'model driver refused the step list')
                return False
            if k == 'select':
                self._ties(step[1], m)
            obs = w.observe(rows, has)
            mv = model_view(m)
            if core.canon(obs) != core.canon(mv):
                diff = [x for x in obs if core.canon(obs[x]) != core.canon(mv.get(x))]
                self.disagree(step, {x: mv.get(x) for x in diff}, {x: obs[x] for x in diff})
        if w.problems:
            self.disagree(step, 'interpretable behaviour', list(w.problems))
            w.problems = []
        self.monitor(rows, has)
        return True

    def _ties(self, i, m):
        """ORDER BY execution_time leaves ties unspecified: if the real answer differs from the
        model's only by the order/choice among equal execution_time, continue with the model's."""
        w = self.w
        if i >= len(w.insts):
            return
        inst = w.insts[i]
        if w.phase(inst) != 'selected':
            return
        mp = m['insts'][i][1]
        if mp[0] != 'selected':
            return
        real = w.sel_ids(inst)
        want = mp[1]
        if real == want:
            return
        ea = {o: r[0] for o, r in enumerate(m['rows'])}
        elig = set(e[1] for e in m['eligible'])
        ok = (len(real) == len(want) and len(set(real)) == len(real) and
              all(c in elig for c in real) and
              [ea[c] for c in real] == [ea[c] for c in want])
        if ok:
            self.ctx.count(self.stream, 'select-tie-reordered')
            w.set_cands(i, list(want))

    # ------------------------------------------------------------------ monitor
    def monitor(self, rows=None, has=None):
        w = self.w
        rows = w.rows() if rows is None else rows
        has = w.has_all() if has is None else has
        answer = {(x[0], x[1]): x[2] for x in has}
        for e in w.log[self.seen_log:]:
            _, j, t, i = e
            if not isinstance(j, int) or j < 0 or j >= len(w.jobs):
                self.hit('a call that was never scheduled was invoked (%r)' % (j,),
                         {'kind': 'legacy-unscheduled-call-invoked'})
                continue
            job = w.jobs[j]
            if job['bad']:
                self.hit('call %d, whose target cannot be imported, was invoked' % j,
                         {'kind': 'legacy-unpreparable-call-invoked'})
            if t < job['sched_at'] + job['ra']:
                self.hit('call %d scheduled at %d with run_after %d was invoked at %d'
                         % (j, job['sched_at'], job['ra'], t), {'kind': 'legacy-invoked-early'})
            if job['state'] != 'committed':
                self.hit('call %d of a %s transaction was invoked' % (j, job['state']),
                         {'kind': 'legacy-job-of-%s-transaction-invoked' % job['state']})
        self.seen_log = len(w.log)
        for e in w.caps[self.seen_caps:]:
            _, j, t, i = e
            if not isinstance(j, int) or j < 0 or j >= len(w.jobs):
                continue
            job = w.jobs[j]
            if job['state'] != 'committed':
                self.hit('call %d of a %s transaction was captured' % (j, job['state']),
                         {'kind': 'legacy-job-of-%s-transaction-captured' % job['state']})
        self.seen_caps = len(w.caps)
        cnt = collections.Counter(e[1] for e in w.log)
        if any(c > 1 for c in cnt.values()):
            self.hit('delayed call(s) %s invoked more than once' % sorted(j for j, c in cnt.items() if c > 1),
                     {'kind': 'legacy-invoked-twice'})
        ccnt = collections.Counter(e[1] for e in w.caps)
        if any(c > 1 for c in ccnt.values()):
            self.hit('delayed call(s) %s captured more than once' % sorted(j for j, c in ccnt.items() if c > 1),
                     {'kind': 'legacy-captured-twice'})
        for o, job in enumerate(w.jobs):
            # a call that cannot be prepared is logged and dropped (deleted without an invocation)
            if job['state'] == 'committed' and o not in rows and cnt.get(o, 0) == 0 and not job['bad']:
                self.hit('committed call %d is neither stored nor invoked' % o,
                         {'kind': 'legacy-committed-job-lost'})
        for k in KEYS:
            if any(j['state'] == 'uncommitted' and j['key'] == k for j in w.jobs):
                continue
            ans = answer.get((k, False))
            truth = any(r[2] == k and r[1] is False for r in rows.values())
            if ans is not truth:
                self.hit('has_scheduled_jobs(key=k%d, processing=False) is %r, the store %s a pending call with '
                         'that key' % (k, ans, 'has' if truth else 'has not'),
                         {'kind': 'legacy-has-scheduled-jobs-wrong'})

    # ------------------------------------------------------------------ closing phase
    def finish_iteration(self, i):
        """let live instance i finish whatever iteration it has in flight"""
        w = self.w
        inst = w.insts[i]
        if w.phase(inst) == 'selected':
            self.do(['capture', i])
        guard = 0
        while w.phase(inst) == 'busy' and guard < 40:
            self.do(['invoke' if inst.actor.label == 'invoke' else 'delete', i])
            guard += 1

    def closing(self):
        """Fairness: every open transaction ends, every live instance finishes its iteration and
        a live instance keeps polling; then every committed call must have run (at least once /
        crash recovery) and every committed call that cannot be prepared must be gone from the store
        if a live instance captured it (dropped with its batch, not kept processing=True for ever)."""
        w = self.w
        for tx in sorted(set(j['tx'] for j in w.jobs if j['state'] == 'uncommitted')):
            fate = [j['fate'] for j in w.jobs if j['tx'] == tx and j['state'] == 'uncommitted'][0]
            self.do(['commit' if fate == 'commit' else 'rollback', tx])
        live = [x.idx for x in w.insts if x.alive]
        if not live:
            return False
        for i in live:
            self.finish_iteration(i)
        i = live[0]
        for _ in range(2 * len(w.jobs) + 2):
            self.do(['tick', 5])
            before = len(w.caps)
            self.do(['select', i])
            self.finish_iteration(i)
            if len(w.caps) == before:
                break
        cnt = collections.Counter(e[1] for e in w.log)
        rows = w.rows()
        for o, j in enumerate(w.jobs):
            if j['state'] != 'committed':
                continue
            if j['bad']:
                # its target cannot be imported: nobody can invoke it, but the live instance that
                # captured it (every live instance has finished its iteration) must have dropped it
                livecap = [e[3] for e in w.caps if e[1] == o and 0 <= e[3] < len(w.insts) and w.insts[e[3]].alive]
                if o in rows and livecap:
                    self.hit('committed call %d, whose target cannot be imported, was captured by live instance %d '
                             'which finished its iteration, and is still in the store (processing=%s): it is never '
                             'removed' % (o, livecap[0], rows[o][1]), dict(STUCK_SIG))
                continue
            if cnt.get(o, 0):
                continue
            dead = [e[3] for e in w.caps if e[1] == o and not w.insts[e[3]].alive]
            batch = [b for b in w.aborted if o in b and any(w.is_bad(x) for x in b)]
            if batch:
                self.mech['valid-call-stranded-by-aborted-batch'] += 1
                self.hit('committed call %d was captured in one batch with call(s) %s whose target cannot be '
                         'imported: _prepare_calls raised, the whole batch stays processing=True for ever and '
                         'call %d is never run although live instance %d kept polling'
                         % (o, [x for x in batch[0] if w.is_bad(x)], o, i), dict(ABORT_SIG))
            elif dead:
                self.mech['captured-call-never-run'] += 1
                self.hit('committed call %d was captured by instance %d which died; it stays processing=True '
                         'for ever and is never run although live instance %d kept polling' % (o, dead[0], i),
                         dict(CRASH_SIG))
            else:
                self.hit('committed call %d was never invoked although live instance %d kept polling' % (o, i),
                         {'kind': 'legacy-captured-call-never-run', 'cause': 'unknown'})
        return True

    def nontrivial(self):
        m = self.mech
        return bool(self.w.stats['unpreparable-call-skipped-others-invoked'] or
                    m['valid-call-stranded-by-aborted-batch'] or
                    self.w.log and (self.w.stats['cas-lost'] or m['crash-with-captured-work'] or
                                    m['two-instances-selected'] or m['select-with-rolled-back-call']))

    def report(self, closed):
        ctx, st = self.ctx, self.stream
        for s in self.steps:
            ctx.count(st, 'step:' + s[0])
        mech = collections.Counter(self.mech)
        mech['cas-lost'] = self.w.stats['cas-lost']
        mech['iteration-ended-with-exception'] = self.w.stats['batch-aborted']
        mech['batch-with-unpreparable-call'] = self.w.stats['batch-with-unpreparable-call']
        mech['batch-with-unpreparable-call-finished'] = self.w.stats['batch-with-unpreparable-call-finished']
        mech['unpreparable-call-skipped-others-invoked'] = self.w.stats['unpreparable-call-skipped-others-invoked']
        mech['invocation'] = len(self.w.log)
        for k, v in mech.items():
            if v:
                ctx.count(st, 'mech:' + k)
        ctx.count(st, 'instances:%d' % self.n)
        ctx.count(st, 'batch:%s' % self.batch)
        ctx.count(st, 'closing:' + ('polled' if closed else 'nobody-alive'))
        ctx.evaluated(st, [self.n, self.batch, self.steps], nontrivial=self.nontrivial())


# ---------------------------------------------------------------------------------------------
# generation
# ---------------------------------------------------------------------------------------------

def choose_step(rng, r, max_calls, next_tx):
    """one step among the steps enabled in the real state (plus a few disabled ones)"""
    w = r.w
    cand = []
    open_tx = {}
    for j in w.jobs:
        if j['state'] == 'uncommitted':
            open_tx[j['tx']] = j['fate']
    if len(w.jobs) < max_calls:
        fate = 'commit' if rng.random() < 0.75 else 'rollback'
        same = [t for t, f in open_tx.items() if f == fate]
        tx = rng.choice(same) if same and rng.random() < 0.25 else next_tx
        cand.append((2.5, ['scheduleBad' if rng.random() < 0.1 else 'schedule', rng.choice([0, 0, 1, 2]),
                           rng.choice(KEYS), tx, fate]))
    for tx, fate in sorted(open_tx.items()):
        cand.append((3.0, ['commit' if fate == 'commit' else 'rollback', tx]))
    cand.append((1.3, ['tick', rng.choice([1, 1, 2])]))
    vis = [x for x in (r.last_rows or {}).values() if x[1] is False]
    due = any(x[0] <= w.clock for x in vis)
    selected = sum(1 for x in w.insts if w.phase(x) == 'selected')
    alive = sum(1 for x in w.insts if x.alive)
    for inst in w.insts:
        i = inst.idx
        ph = w.phase(inst)
        if ph == 'dead':
            if rng.random() < 0.1:
                cand.append((0.2, [rng.choice(['select', 'capture', 'invoke', 'delete', 'crash']), i]))
            continue
        if ph == 'idle':
            cand.append(((2.5 if due else 0.7 if vis else 0.3) * (1.6 if selected else 1.0), ['select', i]))
            if rng.random() < 0.1:
                cand.append((0.2, [rng.choice(['capture', 'invoke', 'delete']), i]))
        elif ph == 'selected':
            cand.append((2.5, ['capture', i]))
            if rng.random() < 0.1:
                cand.append((0.2, [rng.choice(['select', 'invoke', 'delete']), i]))
        else:
            lab = inst.actor.label
            cand.append((4.0, ['invoke' if lab == 'invoke' else 'delete', i]))
            if rng.random() < 0.1:
                cand.append((0.2, ['delete' if lab == 'invoke' else 'invoke', i]))
        cand.append(((1.0 if ph == 'busy' else 0.08) * (1.0 if alive > 1 else 0.4), ['crash', i]))
    tot = sum(c[0] for c in cand)
    x = rng.random() * tot
    for wgt, st in cand:
        x -= wgt
        if x <= 0:
            return st
    return cand[-1][1]


def random_case(ctx, rng, stream='legacy'):
    n = rng.choice([1, 2, 2, 3])
    batch = rng.choice([None, None, 1, 2])
    max_calls = rng.choice([2, 3, 4, 4])
    length = rng.randrange(15, 36)
    r = LRunner(ctx, n, batch, stream)
    try:
        next_tx = 0
        for _ in range(length):
            st = choose_step(rng, r, max_calls, next_tx)
            if st[0] in ('schedule', 'scheduleBad') and st[3] == next_tx:
                next_tx += 1
            r.do(st)
        closed = r.closing()
        r.report(closed)
        if r.agree and rng.random() < 0.04:
            ctx.sample({'stream': stream, 'n': n, 'batch': batch, 'steps': r.steps[:14], 'log': r.w.log[:6]})
        return r
    finally:
        r.close()


CORPUS = [
    # (a) the witness of legacy_crash_recovery_full_fails: the capturer dies, nobody ever runs the call
    (2, None, [['schedule', 0, 1, 0, 'commit'], ['commit', 0], ['select', 0], ['capture', 0], ['crash', 0],
               ['tick', 100], ['select', 1], ['capture', 1]]),
    # (b) two instances select the same call, both capture: only one CAS wins
    (2, None, [['schedule', 0, 1, 0, 'commit'], ['commit', 0], ['select', 0], ['select', 1], ['capture', 1],
               ['capture', 0], ['invoke', 1], ['delete', 1], ['select', 0], ['capture', 0]]),
    # (c) a rolled-back call is never selected, neither before nor after the rollback
    (2, None, [['schedule', 0, 1, 0, 'rollback'], ['schedule', 0, 2, 1, 'commit'], ['select', 0], ['capture', 0],
               ['rollback', 0], ['commit', 1], ['tick', 1], ['select', 1], ['capture', 1], ['invoke', 1],
               ['delete', 1], ['select', 0], ['capture', 0]]),
    # (d) batch_size 1 with two due calls (the earlier one first), then the second one
    (1, 1, [['schedule', 1, 1, 0, 'commit'], ['schedule', 0, 2, 1, 'commit'], ['commit', 0], ['commit', 1],
            ['tick', 1], ['select', 0], ['capture', 0], ['invoke', 0], ['delete', 0], ['select', 0],
            ['capture', 0], ['invoke', 0], ['delete', 0]]),
    # not yet due / due exactly at execution_time (time_filter = now + 1s, strict <)
    (1, None, [['schedule', 2, 1, 0, 'commit'], ['commit', 0], ['tick', 1], ['select', 0], ['capture', 0],
               ['tick', 1], ['select', 0], ['capture', 0], ['invoke', 0], ['delete', 0]]),
    # regression of patch 17: a call whose target cannot be imported is captured in one batch with a valid call:
    # it is logged and skipped, the valid call is invoked, both rows are deleted (before the patch
    # _prepare_calls raised after the capture had been committed and stranded the whole batch)
    (1, None, [['schedule', 0, 1, 0, 'commit'], ['scheduleBad', 0, 1, 1, 'commit'], ['commit', 0], ['commit', 1],
               ['select', 0], ['capture', 0], ['invoke', 0], ['delete', 0], ['tick', 5], ['select', 0],
               ['capture', 0]]),
    # a batch of un-preparable calls only: nothing to invoke, the rows are deleted
    (1, None, [['scheduleBad', 0, 1, 0, 'commit'], ['scheduleBad', 0, 2, 0, 'commit'], ['commit', 0], ['select', 0],
               ['capture', 0], ['delete', 0], ['select', 0], ['capture', 0]]),
    # two calls captured by one iteration, crash between the two invocations
    (2, None, [['schedule', 0, 1, 0, 'commit'], ['schedule', 0, 1, 0, 'commit'], ['commit', 0], ['select', 0],
               ['capture', 0], ['invoke', 0], ['crash', 0], ['select', 1], ['capture', 1]]),
]


def run_fixed(ctx, case, stream='legacy'):
    n, batch, steps = case
    r = LRunner(ctx, n, batch, stream)
    try:
        for s in steps:
            r.do(s)
        closed = r.closing()
        r.report(closed)
        return r
    finally:
        r.close()


def correspond(ctx, stream='legacy'):
    for case in CORPUS:
        run_fixed(ctx, case, stream)
    for _ in range(ctx.n(60, 400)):
        random_case(ctx, ctx.rng, stream)


def replay(ctx, rep):
    r = rep['replay']
    run = LRunner(ctx, r['n'], r.get('batch'), 'replay', compare=False)
    try:
        for s in r['steps']:
            run.do(s)
        run.closing()
        print('replay(legacy): %d steps (+closing phase) on %d real LegacyScheduler instance(s), batch_size=%s; '
              'log=%s; caps=%s; monitor hits=%s' % (len(r['steps']), r['n'], r.get('batch'), run.w.log,
                                                      run.w.caps, [h[0] for h in run.hits]))
    finally:
        run.close()
